From Coq Require Import NArith List Bool Lia DecimalN Decimal.
Import ListNotations.
Open Scope N_scope.

Inductive v := VInt (n:N) | VList (l:list v).

Inductive tok := TLB | TRB | TComma | TNum (n:N).
(* chars as N *)
Definition cLB := 91. Definition cRB := 93. Definition cComma := 44. Definition cNL := 10. Definition cSP := 32.

Fixpoint uint_chars (u:uint) : list N :=
  match u with
  | Nil => [] | D0 u => 48::uint_chars u | D1 u => 49::uint_chars u | D2 u => 50::uint_chars u
  | D3 u => 51::uint_chars u | D4 u => 52::uint_chars u | D5 u => 53::uint_chars u
  | D6 u => 54::uint_chars u | D7 u => 55::uint_chars u | D8 u => 56::uint_chars u | D9 u => 57::uint_chars u end.

Definition nl (lvl:nat) : list N := cNL :: repeat cSP (2*lvl).

Fixpoint ser (lvl:nat) (x:v) : list N :=
  match x with
  | VInt n => uint_chars (N.to_uint n)
  | VList [] => [cLB;cRB]
  | VList (a::r) =>
      cLB :: nl (S lvl) ++ ser (S lvl) a ++
      flat_map (fun b => cComma :: nl (S lvl) ++ ser (S lvl) b) r
      ++ nl lvl ++ [cRB]
  end.

Definition is_digit (c:N) : bool := (48 <=? c) && (c <=? 57).
Fixpoint uint_of_chars (l:list N) : uint :=
  match l with [] => Nil | c::r =>
   let u := uint_of_chars r in
   if c =? 48 then D0 u else if c =? 49 then D1 u else if c =? 50 then D2 u else
   if c =? 51 then D3 u else if c =? 52 then D4 u else if c =? 53 then D5 u else
   if c =? 54 then D6 u else if c =? 55 then D7 u else if c =? 56 then D8 u else D9 u end.
Definition numtok (acc:list N) := TNum (N.of_uint (uint_of_chars (List.rev acc))).
Definition flush (p: option (list N)) (k: list tok) : list tok :=
  match p with None => k | Some acc => numtok acc :: k end.
Fixpoint lex (p: option (list N)) (s:list N) : option (list tok) :=
  match s with
  | [] => Some (flush p [])
  | c::r =>
    if is_digit c then lex (Some (c :: match p with None => [] | Some a => a end)) r
    else
      let cont (t: option tok) := option_map (fun k => flush p (match t with Some t => t::k | None => k end)) (lex None r) in
      if (c =? cSP) || (c =? cNL) then cont None
      else if c =? cLB then cont (Some TLB) else if c =? cRB then cont (Some TRB)
      else if c =? cComma then cont (Some TComma) else None
  end.

Fixpoint toks (x:v) : list tok :=
  match x with
  | VInt n => [TNum n]
  | VList [] => [TLB;TRB]
  | VList (a::r) => TLB :: toks a ++ flat_map (fun b => TComma :: toks b) r ++ [TRB]
  end.

Inductive mode := MVal | MValOrClose | MAfter | MEnd.
Record st := { stack : list (list v); md : mode; result : option v }.
Definition deliver (x:v) (s:list (list v)) : st :=
  match s with
  | [] => {| stack := []; md := MEnd; result := Some x |}
  | acc::s' => {| stack := (x::acc)::s'; md := MAfter; result := None |}
  end.
Definition step (s:st) (t:tok) : option st :=
  match md s, t with
  | MVal, TNum n | MValOrClose, TNum n => Some (deliver (VInt n) (stack s))
  | MVal, TLB | MValOrClose, TLB => Some {| stack := [] :: stack s; md := MValOrClose; result := None |}
  | MValOrClose, TRB => match stack s with [] => None | _::s' => Some (deliver (VList []) s') end
  | MAfter, TComma => Some {| stack := stack s; md := MVal; result := None |}
  | MAfter, TRB => match stack s with [] => None | acc::s' => Some (deliver (VList (List.rev acc)) s') end
  | _, _ => None
  end.
Fixpoint run (s:st) (ts:list tok) : option st :=
  match ts with [] => Some s | t::r => match step s t with Some s' => run s' r | None => None end end.
Definition init := {| stack := []; md := MVal; result := None |}.
Definition parse (s:list N) : option v :=
  match lex None s with
  | Some ts => match run init ts with
               | Some s' => match md s' with MEnd => result s' | _ => None end | None => None end
  | None => None end.
Eval vm_compute in parse (ser 0 (VList [VInt 12; VList []; VList [VInt 0; VInt 305]])).

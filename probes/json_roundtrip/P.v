From Coq Require Import NArith List Bool Lia DecimalN Decimal.
Require Import J.
Import ListNotations.
Open Scope N_scope.

Section Ind.
 Variable P : v -> Prop.
 Hypothesis HI : forall n, P (VInt n).
 Hypothesis HL : forall l, Forall P l -> P (VList l).
 Fixpoint v_ind' (x:v) : P x :=
  match x with
  | VInt n => HI n
  | VList l => HL l ((fix go (l:list v) : Forall P l := match l with [] => Forall_nil _ | a::r => Forall_cons a (v_ind' a) (go r) end) l)
  end.
End Ind.

Definition nd (r:list N) : Prop := match r with [] => True | c::_ => is_digit c = false end.

Lemma omap_id {A} (o:option A) : option_map (fun k => k) o = o.
Proof. destruct o; reflexivity. Qed.
Lemma lex_sp r : lex None (cSP :: r) = lex None r.
Proof. cbn [lex]. change (is_digit cSP) with false. cbv beta iota. change ((cSP =? cSP) || (cSP =? cNL)) with true. cbv beta iota. cbn [flush]. apply omap_id. Qed.
Lemma lex_nl1 r : lex None (cNL :: r) = lex None r.
Proof. cbn [lex]. change (is_digit cNL) with false. cbv beta iota. change ((cNL =? cSP) || (cNL =? cNL)) with true. cbv beta iota. cbn [flush]. apply omap_id. Qed.
Lemma lex_nl k r : lex None (nl k ++ r) = lex None r.
Proof.
  unfold nl. rewrite <- app_comm_cons, lex_nl1.
  generalize (2*k)%nat as m. induction m as [|m IH]; [reflexivity|]. cbn [repeat]. rewrite <- app_comm_cons, lex_sp. exact IH.
Qed.

Lemma lex_punct c t r : is_digit c = false -> ((c =? cSP) || (c =? cNL)) = false ->
  (if c =? cLB then Some TLB else if c =? cRB then Some TRB else if c =? cComma then Some TComma else None) = Some t ->
  lex None (c :: r) = option_map (cons t) (lex None r).
Proof.
  intros Hd Hw Ht. cbn [lex]. rewrite Hd, Hw. cbn [flush].
  destruct (c =? cLB); [injection Ht as <-; reflexivity|].
  destruct (c =? cRB); [injection Ht as <-; reflexivity|].
  destruct (c =? cComma); [injection Ht as <-; reflexivity|discriminate].
Qed.

Lemma lex_digits cs : forall acc r, forallb is_digit cs = true ->
  lex (Some acc) (cs ++ r) = lex (Some (List.rev cs ++ acc)) r.
Proof.
  induction cs as [|c cs IH]; intros acc r H; [reflexivity|].
  cbn [forallb] in H. apply andb_prop in H as [Hc Hcs].
  rewrite <- app_comm_cons. cbn [lex]. rewrite Hc. rewrite IH by exact Hcs. cbn [List.rev]. rewrite <- app_assoc. reflexivity.
Qed.

Lemma lex_flush acc r : nd r -> lex (Some acc) r = option_map (cons (numtok acc)) (lex None r).
Proof.
  destruct r as [|c r]; intros H; [reflexivity|]. cbn in H. cbn [lex]. rewrite H.
  destruct ((c =? cSP) || (c =? cNL)); cbn [flush].
  - destruct (lex None r); reflexivity.
  - destruct (c =? cLB); [destruct (lex None r); reflexivity|].
    destruct (c =? cRB); [destruct (lex None r); reflexivity|].
    destruct (c =? cComma); [destruct (lex None r); reflexivity|reflexivity].
Qed.

Lemma uint_chars_digits u : forallb is_digit (uint_chars u) = true.
Proof. induction u; cbn; auto. Qed.
Lemma uint_of_chars_chars u : uint_of_chars (uint_chars u) = u.
Proof. induction u; cbn; congruence. Qed.

Lemma to_uint_nonnil n : N.to_uint n <> Nil.
Proof. destruct n; cbn; [discriminate|]. intro H. 
  assert (Pos.to_uint p <> Nil) by (apply (DecimalPos.Unsigned.to_uint_nonnil p)). contradiction. Qed.

Lemma lex_int n r : nd r -> lex None (uint_chars (N.to_uint n) ++ r) = option_map (cons (TNum n)) (lex None r).
Proof.
  intros Hr. pose proof (to_uint_nonnil n) as Hn. pose proof (uint_chars_digits (N.to_uint n)) as Hd.
  pose proof (uint_of_chars_chars (N.to_uint n)) as Hu.
  destruct (uint_chars (N.to_uint n)) as [|c cs] eqn:E.
  - destruct (N.to_uint n); cbn in E; try discriminate; congruence.
  - cbn [forallb] in Hd. apply andb_prop in Hd as [Hc Hcs].
    rewrite <- app_comm_cons. cbn [lex]. rewrite Hc. rewrite lex_digits by exact Hcs. rewrite lex_flush by exact Hr.
    unfold numtok.
    replace (List.rev (List.rev cs ++ [c])) with (c::cs) by (rewrite rev_app_distr, rev_involutive; reflexivity).
    rewrite Hu. rewrite DecimalN.Unsigned.of_to. reflexivity.
Qed.

Lemma omap_comp {A} (f g : list A -> list A) o : option_map f (option_map g o) = option_map (fun k => f (g k)) o.
Proof. destruct o; reflexivity. Qed.
Lemma omap_ext {A B} (f g : A -> B) o : (forall x, f x = g x) -> option_map f o = option_map g o.
Proof. intros H; destruct o; cbn; [rewrite H|]; reflexivity. Qed.

Lemma nd_nl k r : nd (nl k ++ r). Proof. reflexivity. Qed.
Lemma nd_comma r : nd (cComma :: r). Proof. reflexivity. Qed.

Lemma lex_ser : forall x lvl r, nd r -> lex None (ser lvl x ++ r) = option_map (@List.app tok (toks x)) (lex None r).
Proof.
  induction x as [n|l IH] using v_ind'; intros lvl r Hr.
  - cbn [ser toks]. rewrite lex_int by exact Hr. apply omap_ext; reflexivity.
  - destruct l as [|a l].
    + cbn [ser toks List.app]. rewrite (lex_punct cLB TLB) by reflexivity. rewrite (lex_punct cRB TRB) by reflexivity.
      rewrite omap_comp. apply omap_ext; reflexivity.
    + inversion IH as [|? ? Ha Hl]; subst. cbn [ser toks].
      rewrite <- app_comm_cons. rewrite (lex_punct cLB TLB) by reflexivity.
      rewrite <- !app_assoc. rewrite lex_nl. rewrite Ha.
      2:{ destruct l; cbn; reflexivity. }
      assert (Hrest : forall r', nd r' -> lex None (flat_map (fun b => cComma :: nl (S lvl) ++ ser (S lvl) b) l ++ nl lvl ++ r')
                      = option_map (@List.app tok (flat_map (fun b => TComma :: toks b) l)) (lex None r')).
      { intros r' Hr'. clear Ha IH. induction l as [|b l IHl].
        - cbn [flat_map List.app]. rewrite lex_nl. destruct (lex None r'); reflexivity.
        - inversion Hl as [|? ? Hb Hl']; subst. cbn [flat_map]. rewrite <- !app_assoc. rewrite <- app_comm_cons.
          rewrite (lex_punct cComma TComma) by reflexivity. rewrite <- app_assoc, lex_nl. rewrite Hb.
          2:{ destruct l; cbn; reflexivity. }
          rewrite IHl by assumption. rewrite !omap_comp. apply omap_ext. intros k. cbn. rewrite <- app_assoc. reflexivity. }
      rewrite Hrest by reflexivity.
      change ([cRB] ++ r) with (cRB :: r). rewrite (lex_punct cRB TRB) by reflexivity.
      rewrite !omap_comp. apply omap_ext. intros k. cbn. rewrite <- !app_assoc. reflexivity.
Qed.

Lemma run_app s ts1 ts2 : run s (ts1 ++ ts2) = match run s ts1 with Some s' => run s' ts2 | None => None end.
Proof. revert s; induction ts1 as [|t ts IH]; intros s; cbn; [reflexivity|]. destruct (step s t); auto. Qed.

Lemma run_toks : forall x stk m ts, (m = MVal \/ m = MValOrClose) ->
  run {| stack := stk; md := m; result := None |} (toks x ++ ts) = run (deliver x stk) ts.
Proof.
  induction x as [n|l IH] using v_ind'; intros stk m ts Hm.
  - destruct Hm; subst; reflexivity.
  - destruct l as [|a l].
    + destruct Hm; subst; reflexivity.
    + inversion IH as [|? ? Ha Hl]; subst. cbn [toks]. rewrite <- app_comm_cons.
      assert (E: run {| stack := stk; md := m; result := None |} (TLB :: (toks a ++ flat_map (fun b => TComma :: toks b) l ++ [TRB]) ++ ts)
               = run {| stack := [] :: stk; md := MValOrClose; result := None |} ((toks a ++ flat_map (fun b => TComma :: toks b) l ++ [TRB]) ++ ts))
        by (destruct Hm; subst; reflexivity).
      rewrite E. rewrite <- app_assoc. rewrite Ha by auto. cbn [deliver].
      assert (Hrest: forall acc, run {| stack := acc :: stk; md := MAfter; result := None |} ((flat_map (fun b => TComma :: toks b) l ++ [TRB]) ++ ts)
                 = run (deliver (VList (List.rev acc ++ l)) stk) ts).
      { clear Ha IH E. induction l as [|b l IHl]; intros acc.
        - cbn. rewrite app_nil_r. reflexivity.
        - inversion Hl as [|? ? Hb Hl']; subst. cbn [flat_map]. rewrite <- !app_assoc. rewrite <- app_comm_cons.
          cbn [run step md stack]. rewrite Hb by auto. cbn [deliver]. rewrite app_assoc. rewrite IHl by assumption.
          cbn [List.rev]. rewrite <- app_assoc. reflexivity. }
      rewrite Hrest. reflexivity.
Qed.

Theorem parse_ser x : parse (ser 0 x) = Some x.
Proof.
  unfold parse. rewrite <- (app_nil_r (ser 0 x)). rewrite lex_ser by exact I. cbn [lex flush option_map].
  unfold init. rewrite run_toks by auto. destruct (deliver x []) eqn:E; cbn in E. injection E as <- <- <-. reflexivity.
Qed.
Print Assumptions parse_ser.

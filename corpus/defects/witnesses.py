"""Witnesses for the defects D1..D7 of DESIGN.md section 6.

Usage: PYTHONPATH=/repo /venv/bin/python witnesses.py D1|D2|...|all
Each witness prints `Dn OK` when the property holds (repaired tree) and
`Dn DEFECT <what happened>` when the defect shows; exit status 1 if any shows.
D1 and D7 must run in a fresh interpreter (they depend on process state).
"""
import io, json, os, subprocess, sys, tempfile, shutil

REPO = os.environ.get("CCT_REPO", "/repo")
TD = os.path.join(REPO, "tests", "testdata")


def load(n):
    with open(os.path.join(TD, n), "rb") as f:
        return json.load(f)


def d1():
    # fresh process importing only the authentication module
    code = (
        "import json,sys\n"
        "from conda_content_trust.authentication import verify_root\n"
        "a=json.load(open(sys.argv[1]));b=json.load(open(sys.argv[2]))\n"
        "verify_root(a,b)\nprint('accepted')\n"
    )
    p = subprocess.run([sys.executable, "-c", code, TD + "/1.root.json", TD + "/2.root.json"],
                       capture_output=True, text=True, env=dict(os.environ, PYTHONPATH=REPO, PYTHONDONTWRITEBYTECODE="1"))
    if p.returncode == 0 and "accepted" in p.stdout:
        return None
    return (p.stderr.strip().splitlines() or ["?"])[-1]


def d2():
    from conda_content_trust import authentication as A, common as C, signing as S
    from conda_content_trust.metadata_construction import build_root_metadata, build_delegating_metadata
    k_root = C.PrivateKey.from_hex("11" * 32)
    k_km = C.PrivateKey.from_hex("22" * 32)
    pub = lambda k: C.PublicKey.to_hex(k.public_key())
    ts, ex = "2020-01-01T00:00:00Z", "2030-01-01T00:00:00Z"
    trusted = S.wrap_as_signable(build_root_metadata(1, [pub(k_root)], 1, [pub(k_km)], 1, ts, ex))
    # root-typed metadata signed by the key_mgr key only
    evil = S.wrap_as_signable(build_root_metadata(2, [pub(k_km)], 1, [pub(k_km)], 1, ts, ex))
    S.sign_signable(evil, k_km)
    out = []
    for junk in (False, True):
        e = json.loads(json.dumps(evil))
        if junk:
            e["signatures"]["junk"] = 5
        try:
            sys.stdout = io.StringIO()
            try:
                A.verify_delegation("key_mgr", e, trusted)
            finally:
                sys.stdout = sys.__stdout__
            out.append("accepted")
        except C.MetadataVerificationError:
            out.append("rejected")
    if out == ["rejected", "rejected"]:
        return None
    return "root-typed metadata as key_mgr: plain=%s with-junk-entry=%s" % tuple(out)


def d3():
    from conda_content_trust import common as C
    try:
        C.checkformat_natural_int(float("inf"))
    except ValueError:
        return None
    except Exception as e:  # noqa
        return "checkformat_natural_int(inf) raised %s" % type(e).__name__
    return "accepted inf"


def d4():
    from conda_content_trust import authentication as A, common as C, signing as S
    from conda_content_trust.metadata_construction import build_delegating_metadata
    ts, ex = "2020-01-01T00:00:00Z", "2030-01-01T00:00:00Z"
    t = S.wrap_as_signable(build_delegating_metadata("root", {}, 1, ts, ex))
    u = S.wrap_as_signable(build_delegating_metadata("root", {}, 2, ts, ex))
    C.checkformat_delegating_metadata(t)
    try:
        A.verify_root(t, u)
    except (ValueError, TypeError, C.CCT_Error):
        return None
    except Exception as e:  # noqa
        return "verify_root on checker-accepted metadata raised %s(%s)" % (type(e).__name__, e)
    return "accepted"


def _run_entry(argv):
    return subprocess.run(argv, capture_output=True, text=True,
                          env=dict(os.environ, PYTHONPATH=REPO, PYTHONDONTWRITEBYTECODE="1"))


def d5():
    p = _run_entry([sys.executable, "-m", "conda_content_trust", "verify-metadata",
                    TD + "/1.root.json", TD + "/3.root.json"])
    if p.returncode != 0:
        return None
    return "python -m conda_content_trust verify-metadata 1.root 3.root exits 0 (stdout: %r)" % p.stdout[:60]


def d6():
    d = tempfile.mkdtemp(prefix="cctw")
    try:
        shutil.copy(TD + "/repodata_sample.json", d + "/r.json")
        open(d + "/k", "w").write("not a key")
        before = open(d + "/r.json", "rb").read()
        p = _run_entry([sys.executable, "-m", "conda_content_trust.cli", "sign-artifacts", d + "/r.json", d + "/k"])
        after = open(d + "/r.json", "rb").read()
        if p.returncode != 0:
            return None
        return "sign-artifacts with a bad key file exits 0, file %s" % ("unchanged" if before == after else "changed")
    finally:
        shutil.rmtree(d)


def d7():
    code = (
        "import sys,json\n"
        "from conda_content_trust import authentication as A, common as C, signing as S\n"
        "k=C.PrivateKey.from_hex('11'*32); pub=C.PublicKey.to_hex(k.public_key())\n"
        "e=S.wrap_as_signable({'a':1}); S.sign_signable(e,k)\n"
        "e['signatures'][sys.argv[1].encode().decode('unicode_escape')]={'x':'y'}\n"
        "A.verify_signable(e,[pub],1)\nsys.stderr.write('accepted')\n"
    )
    res = []
    for enc, junk in (("utf-8", "\\ud800"), ("ascii", "\\xe9")):
        p = subprocess.run([sys.executable, "-c", code, junk], capture_output=True, text=True,
                           env=dict(os.environ, PYTHONPATH=REPO, PYTHONDONTWRITEBYTECODE="1", PYTHONIOENCODING=enc))
        if "accepted" not in p.stderr:
            res.append("stdout=%s junk key %s: %s" % (enc, junk, (p.stderr.strip().splitlines() or ["?"])[-1][:80]))
    return "; ".join(res) or None


ALL = {"D1": d1, "D2": d2, "D3": d3, "D4": d4, "D5": d5, "D6": d6, "D7": d7}

if __name__ == "__main__":
    which = sys.argv[1:] or ["all"]
    if which == ["all"]:
        which = list(ALL)
    bad = 0
    for w in which:
        r = ALL[w]()
        if r is None:
            print(w, "OK")
        else:
            bad = 1
            print(w, "DEFECT", r)
    sys.exit(bad)

# Build of the verification framework (offline). `make setup` = MANIFEST.setup_cmd.
PY ?= /venv/bin/python
JOBS ?= 12
COQTIMEOUT ?= 1500

.PHONY: setup gen coq coq-model extract model clean coqchk

# the model (what the correspondence runs) must build; property files that no longer check are reported
# by the checks themselves (broken obligation), so the full build keeps going and does not fail the setup
setup: model
	-cd coq && timeout $(COQTIMEOUT) $(MAKE) -k -f Makefile.coq -j$(JOBS)

gen:
	$(PY) harness/translate.py

coq/Makefile.coq: coq/_CoqProject
	cd coq && coq_makefile -f _CoqProject -o Makefile.coq

coq: gen coq/Makefile.coq
	cd coq && timeout $(COQTIMEOUT) $(MAKE) -f Makefile.coq -j$(JOBS)

coq-model: gen coq/Makefile.coq
	cd coq && timeout $(COQTIMEOUT) $(MAKE) -f Makefile.coq -j$(JOBS) theories/Harness.vo theories/KernelRun.vo

extract: coq-model
	mkdir -p build/extract
	cp coq/extraction/Extract.v build/extract/Extract.v
	cd build/extract && timeout 600 coqc -Q ../../coq/theories CCT Extract.v > extract.log 2>&1 || (cat extract.log; false)

model: extract
	cp ocaml/driver.ml build/extract/driver.ml
	cd build/extract && ocamlfind ocamlopt -O3 -w -a model.mli model.ml driver.ml -o ../model.new 2> ocaml.log || (cat ocaml.log; false)
	mv build/model.new build/model

clean:
	rm -rf build
	cd coq && (test -f Makefile.coq && $(MAKE) -f Makefile.coq clean || true) && rm -f Makefile.coq Makefile.coq.conf .Makefile.coq.d

# independent checker over every property file (about one minute, 3 GB): prints the axioms the development relies on
coqchk: coq
	cd coq && timeout 3000 coqchk -o -Q theories CCT $(patsubst coq/theories/props/%.v,CCT.props.%,$(wildcard coq/theories/props/C*.v)) | tail -15

"""Fault injection for the in-place signing procedures (C18).  Runs inside one implementation process
(PYTHONPATH=/repo [+ harness/fake_sslib]).  For each scenario: one traced baseline run counts the executed
line events inside conda_content_trust and finds the event at which the output file is opened for writing;
then the procedure is re-run once per event index before that point with an exception raised AT that event,
and the file is compared with its original bytes.  Prints one JSON document."""
import builtins
import hashlib
import io
import json
import os
import shutil
import struct
import sys
import tempfile

import conda_content_trust
import conda_content_trust.common as C
import conda_content_trust.signing as S
import conda_content_trust.cli as CLI

PKG = os.path.dirname(os.path.abspath(conda_content_trust.__file__))
JSONPKG = os.path.dirname(os.path.abspath(json.__file__))
SEED = bytes(range(1, 33))
KEYHEX = SEED.hex()
FPR = "f075dd2f6f4cb3bd76134bbb81b6ca16ef9cd589"


class Fault(Exception):
    pass


def install_fake_signer():
    """an in-process OpenPGP-style signer behind securesystemslib's interface (no gpg binary: speed)"""
    import conda_content_trust.root_signing as RS
    from cryptography.hazmat.primitives.asymmetric.ed25519 import Ed25519PrivateKey
    sk = Ed25519PrivateKey.from_private_bytes(SEED)
    hdr = bytes.fromhex("04001608001d162104f075dd2f6f4cb3bd76134bbb81b6ca16ef9cd58905025f0bf546")

    def create_signature(data, keyid):
        d = hashlib.sha256(bytes(data) + hdr + b"\x04\xff" + struct.pack(">I", len(hdr))).digest()
        return {"keyid": keyid, "other_headers": hdr.hex(), "signature": sk.sign(d).hex()}

    def export_pubkey(keyid):
        return {"keyid": keyid, "keyval": {"public": {"q": sk.public_key().public_bytes_raw().hex()}}}
    RS.gpg_funcs.create_signature = create_signature
    RS.gpg_funcs.export_pubkey = export_pubkey
    return RS


REPODATA = {"info": {"subdir": "noarch"}, "packages": {"a-1.0-0.tar.bz2": {"name": "a", "version": "1.0"}, "b-2.0-1.tar.bz2": {"name": "b", "depends": ["a"]},
                                                         "c-0.1-0.tar.bz2": {"name": "c", "size": 12}},
            "packages.conda": {"d-1.0-0.conda": {"name": "d"}}, "signatures": {"stale.tar.bz2": {"x": 1}}}
ROOTMD = {"signatures": {}, "signed": {"type": "root", "version": 2, "metadata_spec_version": "0.6.0", "timestamp": "2020-01-01T00:00:00Z",
                                        "expiration": "2030-01-01T00:00:00Z", "delegations": {"root": {"pubkeys": ["ab" * 32], "threshold": 1}, "key_mgr": {"pubkeys": [], "threshold": 1}}}}


class Run:
    """one execution with tracing: counts line events inside the package, optionally raises at event k"""

    def __init__(self, target, fault_at=None, exc=Fault):
        self.target, self.fault_at, self.exc = os.path.realpath(target), fault_at, exc
        self.n = 0
        self.first_out = None
        self.effects = []
        self.events = []

    def tracer(self, frame, event, arg):
        fn = frame.f_code.co_filename
        if not (fn.startswith(PKG) or fn.startswith(JSONPKG)):
            return None
        return self.local

    def local(self, frame, event, arg):
        if event == "line":
            k = self.n
            self.n += 1
            if self.fault_at is None:
                self.events.append("%s:%d" % (("json/" if frame.f_code.co_filename.startswith(JSONPKG) else "") + os.path.basename(frame.f_code.co_filename), frame.f_lineno))
            if k == self.fault_at:
                raise self.exc("injected at event %d" % k)
        return self.local

    def audit(self, name, args):
        if name == "open" and args and isinstance(args[0], (str, bytes)) and self.active:
            path, mode = args[0], args[1]
            try:
                same = os.path.realpath(path) == self.target
            except Exception:
                same = False
            if same:
                if mode is not None and any(c in str(mode) for c in "wa+x"):
                    self.effects.append("O")
                    if self.first_out is None:
                        self.first_out = self.n
                else:
                    self.effects.append("R")

    active = False


CURRENT = [None]
sys.addaudithook(lambda name, args: CURRENT[0].audit(name, args) if CURRENT[0] is not None else None)


def wrap_effects(run):
    """record serialize / sign effects (serialize_and_sign counts as one Sign)"""
    saved = []
    depth = [0]

    def rec(mod, name, tag, atomic):
        orig = getattr(mod, name)

        def w(*a, **k):
            if depth[0] == 0:
                run.effects.append(tag)
            if atomic:
                depth[0] += 1
            try:
                return orig(*a, **k)
            finally:
                if atomic:
                    depth[0] -= 1
        saved.append((mod, name, orig))
        setattr(mod, name, w)
    rec(S, "serialize_and_sign", "G", True)
    rec(C, "canonserialize", "S", False)
    try:
        import conda_content_trust.root_signing as RS
        rec(RS, "canonserialize", "S", False)
        if getattr(RS, "SSLIB_AVAILABLE", False):
            rec(RS.gpg_funcs, "create_signature", "G", True)
    except Exception:
        pass
    return lambda: [setattr(m, n, o) for m, n, o in saved]


def execute(fn, run, record_effects=False):
    undo = wrap_effects(run) if record_effects else (lambda: None)
    CURRENT[0] = run
    run.active = True
    out = io.StringIO()
    old_stdout = sys.stdout
    sys.stdout = out
    err = None
    import threading
    threading.settrace(run.tracer)          # threads the procedure may start are traced (and faulted) as well
    sys.settrace(run.tracer)
    try:
        fn()
    except BaseException as e:  # noqa
        err = type(e).__name__
    finally:
        sys.settrace(None)
        threading.settrace(None)
        sys.stdout = old_stdout
        run.active = False
        CURRENT[0] = None
        undo()
    return err


def scenario(name, make_files, call, quick, skeleton_name):
    d = tempfile.mkdtemp(prefix="cctfault")
    res = {"scenario": name, "skeleton": skeleton_name, "violations": []}
    try:
        target = make_files(d)
        orig = open(target, "rb").read()
        base = Run(target)
        err = execute(lambda: call(d, target), base, record_effects=True)
        res.update({"baseline_error": err, "line_events": base.n, "first_output_event": base.first_out, "observed_effects": "".join(base.effects),
                    "file_changed_by_baseline": open(target, "rb").read() != orig})
        if err is not None or base.first_out is None:
            res["violations"].append({"what": "baseline run did not sign the file: %s" % err})
            return res
        tested = 0
        for k in range(base.first_out):
            for exc in ([Fault] if (quick and k % 3) else [Fault, KeyboardInterrupt, MemoryError]):
                make_files(d)
                r = Run(target, fault_at=k, exc=exc)
                e = execute(lambda: call(d, target), r)
                tested += 1
                now = open(target, "rb").read()
                if now != orig:
                    res["violations"].append({"what": "fault at line event %d (%s, %s) before the output phase left the file changed (%d bytes -> %d bytes)"
                                                      % (k, base.events[k], exc.__name__, len(orig), len(now)), "event": k, "where": base.events[k]})
                if e is None:
                    res["violations"].append({"what": "injected fault at event %d was swallowed: the procedure reported success" % k, "event": k, "where": base.events[k]})
        # computation that still runs after the output file was opened (serializer or signing code): every such point
        # is a place where a failure leaves a partial file -- inject there as well
        late = [k for k in range(base.first_out, base.n) if base.events[k].startswith("json/") or base.events[k].startswith("signing.py") or base.events[k].startswith("root_signing.py")]
        for k in late[:: max(1, len(late) // 40)]:
            make_files(d)
            r = Run(target, fault_at=k, exc=Fault)
            execute(lambda: call(d, target), r)
            tested += 1
            now = open(target, "rb").read()
            if now != orig:
                res["violations"].append({"what": "serialization/signing code is still running after the output file was opened: a fault at line event %d (%s) leaves a partial file (%d bytes, original %d)"
                                                  % (k, base.events[k], len(now), len(orig)), "event": k, "where": base.events[k]})
        res["late_computation_events"] = len(late)
        res["fault_points_tested"] = tested
        # faults after the output began are outside the claim; count them for the evidence
        res["events_in_output_phase"] = base.n - base.first_out
    finally:
        shutil.rmtree(d, ignore_errors=True)
    return res


def signer_faults(n_art=4):
    """the signer fails at artifact i of n: file must be unchanged"""
    out = []
    d = tempfile.mkdtemp(prefix="cctfault")
    try:
        fn = os.path.join(d, "repodata.json")
        for i in range(n_art):
            with open(fn, "w") as f:
                json.dump(REPODATA, f)
            orig = open(fn, "rb").read()
            calls = [0]
            real = S.serialize_and_sign

            for exc in (OSError, KeyError, IndexError, TypeError, ValueError, AttributeError, StopIteration, RuntimeError, LookupError, AssertionError):
                with open(fn, "w") as f:
                    json.dump(REPODATA, f)
                calls = [0]

                def failing(obj, key, _i=i, _exc=exc):
                    calls[0] += 1
                    if calls[0] - 1 == _i:
                        raise _exc("signer failed at artifact %d" % _i)
                    return real(obj, key)
                S.serialize_and_sign = failing
                try:
                    S.sign_all_in_repodata(fn, KEYHEX)
                    out.append({"what": "signer failure (%s) at artifact %d was swallowed" % (exc.__name__, i)})
                except exc:
                    pass
                except Exception as e:  # noqa
                    out.append({"what": "signer failure (%s) at artifact %d surfaced as %s" % (exc.__name__, i, type(e).__name__)})
                finally:
                    S.serialize_and_sign = real
                if open(fn, "rb").read() != orig:
                    out.append({"what": "signer failed (%s) at artifact %d of %d and the file was changed (partially signed?)" % (exc.__name__, i, n_art)})
    finally:
        shutil.rmtree(d, ignore_errors=True)
    return out


def large_channel_faults():
    """a channel with more than a thousand artifacts: the signer fails late, or a later section is malformed -- the file must be unchanged"""
    out = []
    d = tempfile.mkdtemp(prefix="cctfault")
    try:
        fn = os.path.join(d, "repodata.json")
        big = {"packages": {"p%04d-1.0-0.tar.bz2" % i: {"name": "p%d" % i} for i in range(1300)}, "packages.conda": {"q%d-1.conda" % i: {"n": i} for i in range(300)}}
        for what in ("signer fails at artifact 1250", "signer fails at artifact 1500", "packages.conda is a list", "packages.conda holds an unserializable value"):
            doc = dict(big)
            if what == "packages.conda is a list":
                doc["packages.conda"] = ["x"]
            with open(fn, "w") as f:
                json.dump(doc, f)
            orig = open(fn, "rb").read()
            calls = [0]
            real = S.serialize_and_sign
            limit = {"signer fails at artifact 1250": 1250, "signer fails at artifact 1500": 1500}.get(what)

            def failing(obj, key):
                calls[0] += 1
                if limit is not None and calls[0] > limit:
                    raise OSError("signer failed late")
                if what.endswith("unserializable value") and calls[0] > 1400:
                    raise TypeError("Object of type set is not JSON serializable")
                return real(obj, key)
            S.serialize_and_sign = failing
            try:
                S.sign_all_in_repodata(fn, KEYHEX)
                out.append({"what": "large channel (%s): the failure was swallowed, the procedure reported success" % what})
            except Exception:  # noqa
                pass
            finally:
                S.serialize_and_sign = real
            if open(fn, "rb").read() != orig:
                out.append({"what": "large channel (%s): the procedure failed but the file was changed" % what})
    finally:
        shutil.rmtree(d, ignore_errors=True)
    return out


def malformed_inputs():
    out = []
    d = tempfile.mkdtemp(prefix="cctfault")
    try:
        fn = os.path.join(d, "repodata.json")
        kf = os.path.join(d, "key.txt")
        docs = {"no packages": b'{"info": {}}', "packages a list": b'{"packages": [1]}', "not JSON": b'{"packages": ', "a list": b"[]", "empty": b"",
                "unserializable? (NaN)": b'{"packages": {"a": {"x": NaN}}, "signatures": {"old": 1}}', "packages.conda null": b'{"packages": {"a": {}}, "packages.conda": null}',
                "packages null": b'{"packages": null}', "packages has non-dict item": b'{"packages": {"a": 1, "b": {"n": 2}}, "packages.conda": "x"}'}
        for name, raw in docs.items():
            for key in (KEYHEX, KEYHEX[:-1], KEYHEX.upper(), "", None):
                with open(fn, "wb") as f:
                    f.write(raw)
                try:
                    S.sign_all_in_repodata(fn, key)
                    ok = True
                except Exception:
                    ok = False
                now = open(fn, "rb").read()
                if not ok and now != raw:
                    out.append({"what": "sign_all_in_repodata failed on '%s' (key %r) but changed the file" % (name, key)})
        # CLI with unreadable / malformed key files
        for kname, kraw in (("missing", None), ("binary", b"\xff\xfe\x00"), ("not hex", b"hello"), ("short", KEYHEX[:-2].encode())):
            with open(fn, "w") as f:
                json.dump(REPODATA, f)
            raw = open(fn, "rb").read()
            if os.path.exists(kf):
                os.unlink(kf)
            if kraw is not None:
                with open(kf, "wb") as f:
                    f.write(kraw)
            old = sys.stdout
            sys.stdout = io.StringIO()
            try:
                rc = CLI.cli(["sign-artifacts", fn, kf])
            except BaseException:  # noqa
                rc = "exception"
            finally:
                sys.stdout = old
            if open(fn, "rb").read() != raw:
                out.append({"what": "sign-artifacts with key file '%s' (result %r) changed the repodata file" % (kname, rc)})
    finally:
        shutil.rmtree(d, ignore_errors=True)
    return out


def main():
    quick = "--quick" in sys.argv
    results = []

    def repo_files(d):
        fn = os.path.join(d, "repodata.json")
        with open(fn, "w") as f:
            json.dump(REPODATA, f)
        with open(os.path.join(d, "key.txt"), "w") as f:
            f.write(KEYHEX + "\n")
        return fn

    def root_files(d, eol="\n"):
        fn = os.path.join(d, "root.json")
        with open(fn, "wb") as f:
            f.write((json.dumps(ROOTMD) if eol == "\n" else json.dumps(ROOTMD, indent=4).replace("\n", eol) + eol).encode())
        return fn

    def repo_files_crlf(d):
        fn = repo_files(d)
        raw = json.dumps(REPODATA, indent=1).replace("\n", "\r\n").encode() + b"\r\n"
        with open(fn, "wb") as f:
            f.write(raw)
        return fn
    results.append(scenario("sign_all_in_repodata", repo_files, lambda d, t: S.sign_all_in_repodata(t, KEYHEX), quick, "sign_all_in_repodata"))
    results.append(scenario("sign_all_in_repodata [CRLF input file]", repo_files_crlf, lambda d, t: S.sign_all_in_repodata(t, KEYHEX), True, "sign_all_in_repodata"))
    results.append(scenario("cli sign-artifacts", repo_files, lambda d, t: CLI.cli(["sign-artifacts", t, os.path.join(d, "key.txt")]), quick, "cli_sign_artifacts"))
    have_sslib = False
    try:
        RS = install_fake_signer()
        have_sslib = RS.SSLIB_AVAILABLE
    except Exception:
        have_sslib = False
    if have_sslib:
        results.append(scenario("sign_root_metadata_via_gpg", root_files, lambda d, t: RS.sign_root_metadata_via_gpg(t, FPR), quick, "sign_root_metadata_via_gpg"))
        results.append(scenario("cli gpg-sign", root_files, lambda d, t: CLI.cli(["gpg-sign", FPR.upper()[:20] + " " + FPR[20:], t]), quick, "cli_gpg_sign"))
        for eol, en in (("\r\n", "CRLF"), ("\r", "CR")):
            results.append(scenario("sign_root_metadata_via_gpg [%s input file]" % en, lambda d, eol=eol: root_files(d, eol), lambda d, t: RS.sign_root_metadata_via_gpg(t, FPR), True,
                                    "sign_root_metadata_via_gpg"))
        # the external signer fails
        d = tempfile.mkdtemp(prefix="cctfault")
        extra = []
        try:
            for eol in ("\n", "\r\n", "\r"):
                fn = root_files(d, eol)
                raw = open(fn, "rb").read()
                real = RS.gpg_funcs.create_signature
                RS.gpg_funcs.create_signature = lambda *a, **k: (_ for _ in ()).throw(OSError("card removed"))
                try:
                    RS.sign_root_metadata_via_gpg(fn, FPR)
                except OSError:
                    pass
                finally:
                    RS.gpg_funcs.create_signature = real
                if open(fn, "rb").read() != raw:
                    extra.append({"what": "GPG signer failed and the metadata file (line endings %r) was changed" % eol})
                for badfpr in ("zz", FPR[:-1], None):
                    try:
                        RS.sign_root_metadata_via_gpg(fn, badfpr)
                    except Exception:  # noqa
                        pass
                    if open(fn, "rb").read() != raw:
                        extra.append({"what": "GPG signing with fingerprint %r failed and the metadata file (line endings %r) was changed" % (badfpr, eol)})
                        break
        finally:
            shutil.rmtree(d, ignore_errors=True)
        results.append({"scenario": "gpg signer failure", "violations": extra})
    else:
        # the optional dependency is missing: the GPG path must fail without touching the file
        import conda_content_trust.root_signing as RS
        d = tempfile.mkdtemp(prefix="cctfault")
        try:
            errs = []
            for eol in ("\n", "\r\n", "\r"):
                fn = root_files(d, eol)
                raw = open(fn, "rb").read()
                for call in (lambda: RS.sign_root_metadata_via_gpg(fn, FPR), lambda: CLI.cli(["gpg-sign", FPR, fn])):
                    try:
                        call()
                        errs.append({"what": "GPG signing reported success without securesystemslib"})
                    except ImportError:
                        pass
                    except Exception as e:  # noqa
                        errs.append({"what": "GPG signing without securesystemslib raised %s, not ImportError" % type(e).__name__})
                    if open(fn, "rb").read() != raw:
                        errs.append({"what": "GPG signing without securesystemslib changed the file (line endings %r)" % eol})
            results.append({"scenario": "missing optional dependency", "violations": errs})
        finally:
            shutil.rmtree(d, ignore_errors=True)
    results.append({"scenario": "signer fails at artifact i of n", "violations": signer_faults()})
    results.append({"scenario": "signer fails late in a channel of 1600 artifacts", "violations": large_channel_faults()})
    results.append({"scenario": "malformed inputs", "violations": malformed_inputs()})
    json.dump(results, sys.stdout)


if __name__ == "__main__":
    main()

#!/usr/bin/env python3
"""Entry point of every check:  check.py <Cxx> [--tier quick|thorough]   |   check.py --replay <path>
Exit 0: property held on everything explored (known findings only); exit 1: VIOLATION line printed;
anything else: harness fault."""
import argparse
import importlib
import json
import os
import sys
import traceback

HERE = os.path.dirname(os.path.abspath(__file__))
sys.path.insert(0, HERE)
import core  # noqa: E402


def replay(path):
    doc = json.load(open(path))
    pid = doc["property"]
    print("replay of %s (%s): %s" % (pid, doc.get("kind"), doc.get("reason", doc.get("theorem", ""))))
    if "case" in doc:
        import implrun, modelrun, wire
        io = implrun.run_impl([doc["case"]], env=doc.get("env"), only_auth=bool(doc.get("only_auth")))[0]
        print("case:", doc.get("case_decoded", doc["case"])[:1500])
        print("implementation now:", io[0][:500], "(recorded: %s)" % doc.get("impl", "")[:200])
        try:
            core.build(core.Ctx(pid, "quick", 0))
            m = modelrun.Model()
            print("model now:", m.run1(doc["case"])[:500], "(recorded: %s)" % doc.get("model", "")[:200])
            m.close()
        except Exception as e:  # noqa
            print("model not available:", e)
    if doc.get("script"):
        print("script:", doc["script"])
    return 0


def main():
    ap = argparse.ArgumentParser()
    ap.add_argument("pid", nargs="?")
    ap.add_argument("--tier", default=os.environ.get("VERIF_TIER", "quick"))
    ap.add_argument("--replay")
    a = ap.parse_args()
    if a.replay:
        return replay(a.replay)
    seed = int(os.environ.get("VERIF_SEED", "20260926"))
    tier = "thorough" if a.tier.startswith("t") else "quick"
    ctx = core.Ctx(a.pid, tier, seed)
    try:
        mod = importlib.import_module("props." + a.pid.lower())
        if not core.build(ctx):
            print("HARNESS FAULT: the model does not build:\n" + ctx.obligations.get("log", "")[-3000:])
            return 2
        gate = core.grep_gate()
        if gate:
            print("HARNESS FAULT: forbidden declarations in the development: %s" % gate[:5])
            return 2
        ok = core.check_obligations(ctx)
        if not ok:
            ctx.violations.append(("obligation", {
                "theorem": ", ".join(ctx.obligations["broken"][:8]),
                "reason": "proof obligations of %s no longer check: %s" % (a.pid, ctx.obligations.get("first_error", ctx.obligations.get("axioms", ""))),
                "log": ctx.obligations["log"][-1500:]}))
        ctx.obligations_ok = ok
        mod.run(ctx)
        try:
            ctx.kernel = core.kernel_path(ctx, limit=24 if ctx.quick else 60)
        except RuntimeError as e:
            print("HARNESS FAULT:", str(e)[:2000])
            return 2
        return core.finish(ctx)
    except Exception:
        traceback.print_exc()
        print("HARNESS FAULT in check %s" % a.pid)
        return 2
    finally:
        if ctx.model is not None:
            ctx.model.close()


if __name__ == "__main__":
    sys.exit(main())

"""Pure-Python Ed25519, transcribed from RFC 8032 section 6 (reference code), used only as an independent
reference in the correspondence for C19.  Slow; not constant time."""
import hashlib

p = 2 ** 255 - 19
q = 2 ** 252 + 27742317777372353535851937790883648493
d = -121665 * pow(121666, p - 2, p) % p
modp_sqrt_m1 = pow(2, (p - 1) // 4, p)


def sha512(s):
    return hashlib.sha512(s).digest()


def sha512_modq(s):
    return int.from_bytes(sha512(s), "little") % q


def point_add(P, Q):
    A, B = (P[1] - P[0]) * (Q[1] - Q[0]) % p, (P[1] + P[0]) * (Q[1] + Q[0]) % p
    C, D = 2 * P[3] * Q[3] * d % p, 2 * P[2] * Q[2] % p
    E, F, G, H = B - A, D - C, D + C, B + A
    return (E * F, G * H, F * G, E * H)


def point_mul(s, P):
    Q = (0, 1, 1, 0)
    while s > 0:
        if s & 1:
            Q = point_add(Q, P)
        P = point_add(P, P)
        s >>= 1
    return Q


def recover_x(y, sign):
    if y >= p:
        return None
    x2 = (y * y - 1) * pow(d * y * y + 1, p - 2, p)
    if x2 == 0:
        return None if sign else 0
    x = pow(x2, (p + 3) // 8, p)
    if (x * x - x2) % p != 0:
        x = x * modp_sqrt_m1 % p
    if (x * x - x2) % p != 0:
        return None
    if (x & 1) != sign:
        x = p - x
    return x


g_y = 4 * pow(5, p - 2, p) % p
g_x = recover_x(g_y, 0)
G = (g_x, g_y, 1, g_x * g_y % p)


def point_compress(P):
    zinv = pow(P[2], p - 2, p)
    x, y = P[0] * zinv % p, P[1] * zinv % p
    return int.to_bytes(y | ((x & 1) << 255), 32, "little")


def secret_expand(secret):
    if len(secret) != 32:
        raise ValueError("bad size of private key")
    h = sha512(secret)
    a = int.from_bytes(h[:32], "little")
    a &= (1 << 254) - 8
    a |= (1 << 254)
    return (a, h[32:])


def secret_to_public(secret):
    (a, dummy) = secret_expand(secret)
    return point_compress(point_mul(a, G))


def sign(secret, msg):
    a, prefix = secret_expand(secret)
    A = point_compress(point_mul(a, G))
    r = sha512_modq(prefix + msg)
    R = point_mul(r, G)
    Rs = point_compress(R)
    h = sha512_modq(Rs + A + msg)
    s = (r + h * a) % q
    return Rs + int.to_bytes(s, 32, "little")


# RFC 8032 section 7.1 test vectors (secret, public, message, signature)
VECTORS = [
    ("9d61b19deffd5a60ba844af492ec2cc44449c5697b326919703bac031cae7f60", "d75a980182b10ab7d54bfed3c964073a0ee172f3daa62325af021a68f707511a", "",
     "e5564300c360ac729086e2cc806e828a84877f1eb8e5d974d873e065224901555fb8821590a33bacc61e39701cf9b46bd25bf5f0595bbe24655141438e7a100b"),
    ("4ccd089b28ff96da9db6c346ec114e0f5b8a319f35aba624da8cf6ed4fb8a6fb", "3d4017c3e843895a92b70aa74d1b7ebc9c982ccf2ec4968cc0cd55f12af4660c", "72",
     "92a009a9f0d4cab8720e820b5f642540a2b27b5416503f8fb3762223ebdb69da085ac1e43e15996e458f3613d0f11d8c387b2eaeb4302aeeb00d291612bb0c00"),
    ("c5aa8df43f9f837bedb7442f31dcb7b166d38535076f094b85ce3a2e0b4458f7", "fc51cd8e6218a1a38da47ed00230f0580816ed13ba3303ac5deb911548908025", "af82",
     "6291d657deec24024827e69c3abe01a30ce548a284743a445e3680d7db5ac3ac18ff9b538d16f290ae67f760984dc6594a7c15e9716ed28dc027beceea1ec40a"),
]

#!/usr/bin/env python3
"""History independence across the WHOLE package.

In one process: evaluate a list of read-only probe calls (wire cases for impl_worker's api: canonserialize, the
validators, the three verifiers ...), then run a seeded, shuffled script that exercises every public entry point of
every module -- builders, signers, key classes and key files, file load/store, sign_all_in_repodata, every CLI
subcommand through cli.cli(argv) and the interactive modify-metadata screen with scripted keystrokes for each of its
menu entries, failing calls included -- and evaluate the probes again after every action.  Any probe whose outcome
changes is reported together with the action after which it changed.

  exercise_worker.py --in spec.json --out result.json        spec = {"probes": [wire...], "seed": n, "rounds": k}
"""
import sys, os, io, json, random, tempfile, shutil, builtins, contextlib

HERE = os.path.dirname(os.path.abspath(__file__))
sys.path.insert(0, HERE)
import wire            # noqa: E402
import impl_worker     # noqa: E402

SEEDS = [bytes([i]) * 32 for i in (1, 2, 3)]


def run_probes(api, classify, probes):
    out = []
    for w in probes:
        tup = wire.dec(w)
        fn, a = tup[0], list(tup[1:])
        try:
            r = api[fn](*a)
            try:
                out.append("O" + wire.enc(r))
            except TypeError:
                out.append("O?")
        except BaseException as e:  # noqa
            if isinstance(e, KeyboardInterrupt):
                raise
            out.append("E" + classify(e))
    return out


def actions(tmp):
    """-> list of (name, thunk); every thunk may raise: that is part of the exercise"""
    import conda_content_trust.common as C
    import conda_content_trust.authentication as A
    import conda_content_trust.signing as S
    import conda_content_trust.metadata_construction as M
    import conda_content_trust.cli as CLI
    privs = [C.PrivateKey.from_bytes(s) for s in SEEDS]
    pubs = [p.public_key() for p in privs]
    pubhex = [C.PublicKey.to_hex(p) for p in pubs]
    privhex = [C.PrivateKey.to_hex(p) for p in privs]
    acts = []

    def add(name):
        def deco(f):
            acts.append((name, f))
            return f
        return deco

    def root_md(version=1, keys=None, th=1):
        return M.build_root_metadata(root_version=version, root_pubkeys=keys or pubhex[:2], root_threshold=th,
                                     key_mgr_pubkeys=[pubhex[2]], key_mgr_threshold=1)

    def signed_root(version=1, signers=(0,), **kw):
        s = S.wrap_as_signable(root_md(version, **kw))
        for i in signers:
            S.sign_signable(s, privs[i])
        return s

    def wfile(name, obj):
        fn = os.path.join(tmp, name)
        C.write_metadata_to_file(obj, fn)
        return fn

    @add("build_root_metadata / build_delegating_metadata (defaults and explicit)")
    def _():
        root_md(3)
        M.build_delegating_metadata(metadata_type="key_mgr", delegations={"pkg_mgr": {"pubkeys": [pubhex[0]], "threshold": 1}},
                                    version=2, timestamp="2020-01-01T00:00:00Z", expiration="2031-01-01T00:00:00Z")
        M.build_delegating_metadata(metadata_type="root")

    @add("builders with bad arguments")
    def _():
        for kw in ({"metadata_type": "nope"}, {"metadata_type": "root", "version": 0}, {"metadata_type": "root", "delegations": {"x": 1}},
                   {"metadata_type": "root", "timestamp": "yesterday"}):
            try:
                M.build_delegating_metadata(**kw)
            except (TypeError, ValueError):
                pass

    @add("wrap_as_signable / sign_signable / serialize_and_sign")
    def _():
        s = S.wrap_as_signable({"b": [1, 2.5, {"x": "é"}], "a": None})
        S.sign_signable(s, privs[0]); S.sign_signable(s, privs[1]); S.sign_signable(s, privs[0])
        S.serialize_and_sign({"k": "v"}, privs[2])
        A.verify_signable(s, pubhex[:2], 2)

    @add("verifiers on accepted and rejected inputs")
    def _():
        r1, r2 = signed_root(1, (0, 1)), signed_root(2, (0,))
        for f in (lambda: A.verify_signable(r2, pubhex[:2], 1), lambda: A.verify_signable(r2, pubhex[:2], 2),
                  lambda: A.verify_delegation("root", r2, r1), lambda: A.verify_delegation("nope", r2, r1),
                  lambda: A.verify_root(r1, r2), lambda: A.verify_signable({"x": 1}, [], 1),
                  lambda: A.verify_signature("00" * 64, pubs[0], b"data"),
                  lambda: A.verify_gpg_signature({"other_headers": "04ff", "signature": "00" * 64}, pubhex[0], b"data")):
            try:
                f()
            except Exception:  # noqa
                pass

    @add("key classes, key files")
    def _():
        k = C.PrivateKey.from_hex(privhex[0]); C.PrivateKey.to_bytes(k); C.PublicKey.to_hex(k.public_key()); C.PrivateKey.is_equivalent_to(k, privs[0]); C.PublicKey.is_equivalent_to(pubs[0], privs[0])
        C.PublicKey.from_bytes(C.PublicKey.to_bytes(pubs[1]))
        M.gen_keys()
        M.gen_and_write_keys(os.path.join(tmp, "kf"))
        C.keyfiles_to_keys(os.path.join(tmp, "kf")); C.keyfiles_to_bytes(os.path.join(tmp, "kf"))
        for bad in ("zz", b"\x00", None, "AB" * 32):
            try:
                C.PublicKey.from_hex(bad)
            except (TypeError, ValueError):
                pass

    @add("validators on assorted values")
    def _():
        vals = [None, 1, 1.5, True, "x", "ab" * 32, "AB" * 32, b"ab", [], {}, {"signatures": {}, "signed": {}}, [pubhex[0], pubhex[0]],
                "2020-01-01T00:00:00Z", {"pubkeys": [pubhex[0]], "threshold": 1}, float("nan"), 10 ** 400, {"signature": "00" * 64}]
        for n in dir(C):
            if n.startswith(("checkformat_", "is_")):
                for v in vals:
                    try:
                        getattr(C, n)(v)
                    except Exception:  # noqa
                        pass

    @add("load / write metadata files")
    def _():
        fn = wfile("m.json", signed_root(1))
        C.load_metadata_from_file(fn)
        C.write_metadata_to_file({"z": 1, "a": [1, {"k": "é\ud800"}]}, fn)
        C.load_metadata_from_file(fn)
        for bad in (os.path.join(tmp, "missing.json"),):
            try:
                C.load_metadata_from_file(bad)
            except Exception:  # noqa
                pass

    @add("sign_all_in_repodata")
    def _():
        fn = os.path.join(tmp, "repodata.json")
        with open(fn, "w") as f:
            json.dump({"info": {"subdir": "noarch"}, "packages": {"a-1.tar.bz2": {"name": "a", "n": 1.5}, "b-1.tar.bz2": {}},
                       "packages.conda": {"c-1.conda": {"name": "ç"}}, "signatures": {"stale": {}}}, f)
        S.sign_all_in_repodata(fn, privhex[0]); S.sign_all_in_repodata(fn, privhex[1])
        try:
            S.sign_all_in_repodata(os.path.join(tmp, "m.json"), "zz")
        except Exception:  # noqa
            pass

    def run_cli(argv, answers=()):
        it = iter(answers)
        real = builtins.input

        def fake(prompt=""):
            try:
                return next(it)
            except StopIteration:
                raise EOFError
        builtins.input = fake
        try:
            with contextlib.redirect_stdout(io.StringIO()), contextlib.redirect_stderr(io.StringIO()):
                try:
                    return CLI.cli(argv)
                except SystemExit as e:
                    return e.code
                except BaseException as e:  # noqa
                    if isinstance(e, KeyboardInterrupt):
                        raise
                    return type(e).__name__
        finally:
            builtins.input = real

    @add("cli verify-metadata (accept, reject, malformed)")
    def _():
        a, b, c = wfile("1.root.json", signed_root(1, (0, 1))), wfile("2.root.json", signed_root(2, (0,))), wfile("3.root.json", signed_root(3, (2,)))
        km = S.wrap_as_signable(M.build_delegating_metadata(metadata_type="key_mgr", delegations={}, version=1)); S.sign_signable(km, privs[2])
        k = wfile("key_mgr.json", km)
        with open(os.path.join(tmp, "junk.json"), "w") as f:
            f.write("{not json")
        for argv in (["verify-metadata", a, b], ["verify-metadata", b, c], ["verify-metadata", a, k], ["verify-metadata", a, os.path.join(tmp, "junk.json")],
                     ["verify-metadata", a], ["--version"], ["nope"], []):
            run_cli(argv)

    @add("cli sign-artifacts / gpg-sign / gpg-key-lookup")
    def _():
        fn = os.path.join(tmp, "rd.json")
        with open(fn, "w") as f:
            json.dump({"packages": {"a-1.tar.bz2": {"name": "a"}}, "packages.conda": {}}, f)
        kf = os.path.join(tmp, "key.hex")
        with open(kf, "w") as f:
            f.write(privhex[0] + "\n")
        run_cli(["sign-artifacts", fn, kf]); run_cli(["sign-artifacts", fn, os.path.join(tmp, "missing")])
        run_cli(["gpg-sign", "f075dd2f6f4cb3bd76134bbb81b6ca16ef9cd589", wfile("g.json", signed_root(1))])
        run_cli(["gpg-key-lookup", "f075dd2f6f4cb3bd76134bbb81b6ca16ef9cd589"])

    scripts = {
        "sign and write": ["2", privhex[0], "0", os.path.join(tmp, "out1.json")],
        "abort": ["1"],
        "every menu entry": ["3", "4", "5", "6", "8", "9", "x", "42", "7", "root", "2", "7", "nope", "7", "root", "zero", "2", "not a key", "2", privhex[1],
                             "0", os.path.join(tmp, "out2.json")],
        "threshold then abort": ["7", "key_mgr", "3", "1"],
    }
    for sn, sc in scripts.items():
        @add("interactive modify-metadata: " + sn)
        def _(sc=sc):
            run_cli(["modify-metadata", wfile("mod.json", signed_root(1))], sc)
            it = iter(sc)
            real = builtins.input
            builtins.input = lambda prompt="": next(it)
            try:
                with contextlib.redirect_stdout(io.StringIO()):
                    try:
                        CLI.interactive_modify_metadata(signed_root(2))
                    except (StopIteration, EOFError, Exception):  # noqa
                        pass
            finally:
                builtins.input = real

    @add("root_signing entry points (optional dependency may be missing)")
    def _():
        try:
            import conda_content_trust.root_signing as RS
            for f in (lambda: RS.sign_root_metadata_via_gpg(wfile("rs.json", signed_root(1)), "f075dd2f6f4cb3bd76134bbb81b6ca16ef9cd589"),
                      lambda: RS.sign_root_metadata_dict_via_gpg(signed_root(1), "f075dd2f6f4cb3bd76134bbb81b6ca16ef9cd589"),
                      lambda: RS.fetch_keyval_from_gpg("f075dd2f6f4cb3bd76134bbb81b6ca16ef9cd589")):
                try:
                    f()
                except BaseException as e:  # noqa
                    if isinstance(e, KeyboardInterrupt):
                        raise
        except ImportError:
            pass
    return acts


def main():
    args = sys.argv[1:]
    spec = json.load(open(args[args.index("--in") + 1]))
    api, classify = impl_worker.load_api(False)
    rng = random.Random(spec.get("seed", 0))
    tmp = tempfile.mkdtemp(prefix="cctex")
    changed, log = [], []
    try:
        base = run_probes(api, classify, spec["probes"])
        with contextlib.redirect_stdout(io.StringIO()):
            acts = actions(tmp)
        for rnd in range(spec.get("rounds", 1)):
            order = list(acts)
            rng.shuffle(order)
            for name, th in order:
                try:
                    with contextlib.redirect_stdout(io.StringIO()), contextlib.redirect_stderr(io.StringIO()):
                        th()
                    log.append([name, "ok"])
                except BaseException as e:  # noqa
                    if isinstance(e, KeyboardInterrupt):
                        raise
                    log.append([name, type(e).__name__ + ": " + str(e)[:120]])
                now = run_probes(api, classify, spec["probes"])
                for i, (x, y) in enumerate(zip(base, now)):
                    if x != y and not any(c["probe"] == i for c in changed):
                        changed.append({"probe": i, "after": name, "round": rnd, "before": x[:400], "now": y[:400]})
    finally:
        shutil.rmtree(tmp, ignore_errors=True)
    json.dump({"base": base, "changed": changed, "log": log}, open(args[args.index("--out") + 1], "w"))


if __name__ == "__main__":
    main()

"""Shared machinery of the checks: build (obligations), correspondence runs, replays, evidence."""
import fcntl
import hashlib
import json
import os
import random
import re
import shutil
import subprocess
import sys
import tempfile
import time

HERE = os.path.dirname(os.path.abspath(__file__))
VERIF = os.path.dirname(HERE)
COQ = os.path.join(VERIF, "coq")
BUILD = os.path.join(VERIF, "build")
REPO = os.environ.get("CCT_REPO", "/repo")
PY = os.environ.get("CCT_PY", "/venv/bin/python")

sys.path.insert(0, HERE)
import wire  # noqa: E402
import implrun  # noqa: E402
import modelrun  # noqa: E402

TRUSTED_BASE = [
    "Coq 8.16.1 kernel (coqc), vm_compute for Examples / finite sweeps / kernel-path sample; no native_compute",
    "axioms: none declared; Print Assumptions of every property theorem must print 'Closed under the global context'",
    "translator harness/translate.py (AST patterns -> coq/theories/Gen/*.v)",
    "extraction: Require Extraction + ExtrOcamlBasic only (Extract Inductive bool/option/unit/list/prod/sumbool/sumor), no Extract Constant; OCaml 4.13.1; ocaml/driver.ml (I/O, ed25519 oracle tables)",
    "correspondence harness: generators, wire encoder/decoder (harness/wire.py, coq/theories/Wire.v), outcome canonicaliser, oracles",
    "modelled not verified: CPython 3.12.1 built-ins (json, bytes.fromhex, str methods, int(), strptime, unicodedata, deepcopy, open/write), pyca/cryptography 50 + OpenSSL (ed25519, SHA-256)",
]


class Ctx:
    def __init__(self, pid, tier, seed):
        self.pid = pid
        self.tier = tier
        self.seed = seed
        self.rng = random.Random((seed * 1000003) ^ int(hashlib.sha256(pid.encode()).hexdigest()[:8], 16))
        self.t0 = time.time()
        self.violations = []        # (kind, detail dict)
        self.known = []             # known-finding lines to print
        self.notes = []
        self.streams = []           # per-stream coverage dicts
        self.obligations = {"names": [], "discharged": [], "broken": [], "log": ""}
        self.model = None
        self.kernel_sample = []     # (wire case, extracted outcome, oracle lines)

    @property
    def quick(self):
        return self.tier == "quick"

    def get_model(self):
        if self.model is None:
            self.model = modelrun.Model()
        return self.model


# ----------------------------------------------------------------------------- build / obligations
def sh(cmd, timeout, cwd=None):
    p = subprocess.run(cmd, shell=True, cwd=cwd, capture_output=True, text=True, timeout=timeout)
    return p.returncode, p.stdout + p.stderr


def repo_fingerprint():
    h = hashlib.sha256()
    for root, dirs, files in os.walk(os.path.join(REPO, "conda_content_trust")):
        dirs[:] = sorted(d for d in dirs if d != "__pycache__")
        for f in sorted(files):
            if f.endswith(".py"):
                h.update(f.encode())
                with open(os.path.join(root, f), "rb") as fh:
                    h.update(fh.read())
    for f in ("pyproject.toml",):
        try:
            with open(os.path.join(REPO, f), "rb") as fh:
                h.update(fh.read())
        except OSError:
            pass
    return h.hexdigest()[:16]


def build(ctx):
    """Regenerate Gen/*.v from /repo, rebuild the Coq development, the extraction and the driver.
    Returns True when the *model* (everything the correspondence needs) is available."""
    os.makedirs(BUILD, exist_ok=True)
    with open(os.path.join(BUILD, ".lock"), "w") as lk:
        fcntl.flock(lk, fcntl.LOCK_EX)
        rc, out = sh("%s harness/translate.py" % PY, 120, VERIF)
        ctx.notes.append(out.strip().splitlines()[-1] if out.strip() else "translate: no output")
        if rc != 0:
            ctx.obligations["log"] = out
            return False
        mk, cp = os.path.join(COQ, "Makefile.coq"), os.path.join(COQ, "_CoqProject")
        if not os.path.exists(mk) or os.path.getmtime(mk) < os.path.getmtime(cp):
            sh("coq_makefile -f _CoqProject -o Makefile.coq", 60, COQ)
        # 1. model files (needed by extraction); 2. everything else, keep going on failure
        rc, out = sh("timeout 1500 make -f Makefile.coq -j12 theories/Harness.vo theories/KernelRun.vo", 1600, COQ)
        if rc != 0:
            ctx.obligations["log"] = out[-4000:]
            return False
        rc2, out2 = sh("timeout 2400 make -k -f Makefile.coq -j12", 2500, COQ)
        ctx.obligations["make_rc"] = rc2
        ctx.obligations["make_log_tail"] = out2[-3000:] if rc2 != 0 else ""
        # extraction + driver when stale
        model_bin = os.path.join(BUILD, "model")
        harness_vo = os.path.join(COQ, "theories", "Harness.vo")
        stale = (not os.path.exists(model_bin)
                 or os.path.getmtime(model_bin) < os.path.getmtime(harness_vo)
                 or os.path.getmtime(model_bin) < os.path.getmtime(os.path.join(VERIF, "ocaml", "driver.ml")))
        if stale:
            rc, out = sh("make model", 900, VERIF)
            if rc != 0:
                ctx.obligations["log"] = out[-4000:]
                return False
    return True


def _pins_difference(pid, props_src):
    """names of the functions whose fingerprint in Gen/Pins.v differs from the list expected by <pid>_source_pinned (None if equal / not applicable)"""
    try:
        m = re.search(r"Theorem %s_source_pinned : CCT\.Gen\.Pins\.pinned_%s =\s*\[(.*?)\]\." % (pid, pid), props_src, re.S)
        g = re.search(r"Definition pinned_%s : list \(ustr \* ustr\) := \[(.*?)\]\." % pid, open(os.path.join(COQ, "theories", "Gen", "Pins.v")).read(), re.S)
        if not m or not g:
            return None
        pair = re.compile(r'\(U"([^"]+)", U"([^"]+)"\)')
        want, got = dict(pair.findall(m.group(1))), dict(pair.findall(g.group(1)))
        if want == got:
            return None
        diff = ["%s (changed)" % k for k in sorted(want) if k in got and got[k] != want[k]]
        diff += ["%s (no longer reached / removed)" % k for k in sorted(want) if k not in got]
        diff += ["%s (new in the call graph)" % k for k in sorted(got) if k not in want]
        return diff
    except Exception:  # noqa
        return None


def _without_pins(src, pid):
    i, j = src.find("(* BEGIN SOURCE PINS"), src.find("(* END SOURCE PINS *)")
    if i >= 0 and j >= 0:
        src = src[:i] + src[j + len("(* END SOURCE PINS *)"):]
    return src.replace("Print Assumptions %s_source_pinned.\n" % pid, "")


EXTRA_VM_OBLIGATIONS = {"C19": [("CCT.proofs.Ed25519Vectors", "vectors_hold")]}
# second property files holding the SEMANTIC SOURCE TIE: the functions of the package as translated from the working tree on this run
# (Gen/Source.v), interpreted (PySrc.v), compute what the hand-written model computes.  Like the source pins these obligations belong to
# the tie between model and code: when only they (and the pin) break, the model and its theorems are intact.
TIE_FILES = {"C15": ["C15_src"], "C14": ["C14_src"], "C13": ["C13_src"], "C09": ["C09_src"], "C05": ["C05_src"], "C06": ["C05_src"], "C03": ["C03_src"], "C04": ["C03_src"]}
THEOREM_RE = re.compile(r"^\s*(Theorem|Example)\s+([A-Za-z0-9_']+)", re.M)


def check_obligations(ctx, extra_files=()):
    """Compile theories/props/<pid>.v (and its dependencies through make) and read Print Assumptions."""
    pid = ctx.pid
    src = os.path.join(COQ, "theories", "props", pid + ".v")
    names = THEOREM_RE.findall(open(src).read())
    names = [n for _, n in names]
    ctx.obligations["names"] = names
    with open(os.path.join(BUILD, ".lock"), "w") as lk:
        fcntl.flock(lk, fcntl.LOCK_EX)
        rc, out = sh("timeout 1500 make -f Makefile.coq -j12 theories/props/%s.vo" % pid, 1600, COQ)
        if rc == 0:
            # recompile the property file alone to capture its Print Assumptions output
            rc, out = sh("timeout 600 coqc -Q theories CCT -w -notation-overridden theories/props/%s.v" % pid, 700, COQ)
    ctx.obligations["log"] = out[-3000:]
    pins_broken = None
    if rc != 0:
        # is it (only) the source pin?  then say which functions changed and still check the other obligations
        pins_broken = _pins_difference(pid, open(src).read())
        if pins_broken:
            stripped = _without_pins(open(src).read(), pid)
            tmpv = os.path.join(COQ, "theories", "props", "_%s_nopins.v" % pid)
            try:
                with open(tmpv, "w") as f:
                    f.write(stripped)
                with open(os.path.join(BUILD, ".lock"), "w") as lk:
                    fcntl.flock(lk, fcntl.LOCK_EX)
                    rc, out = sh("timeout 600 coqc -Q theories CCT -w -notation-overridden theories/props/_%s_nopins.v" % pid, 700, COQ)
            finally:
                for ext in (".v", ".vo", ".vok", ".vos", ".glob"):
                    try:
                        os.unlink(tmpv[:-2] + ext)
                    except OSError:
                        pass
                try:
                    os.unlink(os.path.join(COQ, "theories", "props", "._%s_nopins.aux" % pid))
                except OSError:
                    pass
            ctx.obligations["first_error"] = "%s_source_pinned no longer holds: the logic of these functions differs from what the model was validated against: %s" % (pid, "; ".join(pins_broken)[:600])
    if rc != 0:
        ctx.obligations["broken"] = names
        ctx.obligations["discharged"] = []
        m = re.search(r'File "([^"]+)", line (\d+)', out)
        ctx.obligations["first_error"] = (m.group(0) if m else "?") + " :: " + " ".join(out.strip().splitlines()[-3:])[:400]
        return False
    # Print Assumptions blocks, in order of the Print commands
    printed = re.findall(r"^Print Assumptions\s+([A-Za-z0-9_']+)\.", open(src).read(), re.M)
    if pins_broken:
        printed = [n for n in printed if n != pid + "_source_pinned"]
    blocks = re.split(r"(?m)^(?=Closed under the global context|Axioms:)", out)
    blocks = [b for b in blocks if b.startswith("Closed under") or b.startswith("Axioms:")]
    closed, open_ = [], []
    for i, n in enumerate(printed):
        if i < len(blocks) and blocks[i].startswith("Closed under"):
            closed.append(n)
        else:
            open_.append((n, blocks[i][:300] if i < len(blocks) else "no output"))
    if not ctx.quick:
        # independent re-check of the compiled property file and everything it depends on
        rc2, out2 = sh("timeout 1500 coqchk -o -Q theories CCT CCT.props.%s" % pid, 1600, COQ)
        okchk = rc2 == 0 and "Modules were successfully checked" in out2
        m = re.search(r"\* Axioms:\s*(.*?)\n\s*\n", out2, re.S)
        ctx.obligations["coqchk"] = {"ok": okchk, "axioms": (m.group(1).strip() if m else "?")[:500]}
        ctx.notes.append("coqchk -o: %s; axioms: %s" % ("modules successfully checked" if okchk else "FAILED", ctx.obligations["coqchk"]["axioms"]))
        if not okchk or ctx.obligations["coqchk"]["axioms"] != "<none>":
            open_.append(("coqchk", out2[-400:]))
    # obligations kept outside the property file because coqchk (no VM) cannot re-run them in reasonable time: checked by coqc only
    for lib, thm in EXTRA_VM_OBLIGATIONS.get(pid, ()):
        names.append(thm)
        printed.append(thm)
        with open(os.path.join(BUILD, ".lock"), "w") as lk:
            fcntl.flock(lk, fcntl.LOCK_EX)
            rc3, out3 = sh("timeout 1500 make -f Makefile.coq -j12 theories/%s.vo" % lib.replace("CCT.", "").replace(".", "/"), 1600, COQ)
            if rc3 == 0:
                tmpv = os.path.join(BUILD, "extra_%s.v" % thm)
                with open(tmpv, "w") as f:
                    f.write("From CCT Require %s.\nPrint Assumptions %s.%s.\n" % (lib.replace("CCT.", "", 1), lib, thm))
                rc3, out3 = sh("timeout 600 coqc -Q theories CCT -w -notation-overridden %s" % tmpv, 700, COQ)
        if rc3 == 0 and "Closed under the global context" in out3:
            closed.append(thm)
        else:
            open_.append((thm, out3[-300:]))
    tie_names = []
    for tf in TIE_FILES.get(pid, ()):
        tsrc = os.path.join(COQ, "theories", "props", tf + ".v")
        tn = [n for _, n in THEOREM_RE.findall(open(tsrc).read())]
        tie_names += tn
        names += tn
        tprinted = re.findall(r"^Print Assumptions\s+([A-Za-z0-9_']+)\.", open(tsrc).read(), re.M)
        printed += tprinted
        with open(os.path.join(BUILD, ".lock"), "w") as lk:
            fcntl.flock(lk, fcntl.LOCK_EX)
            rc4, out4 = sh("timeout 1500 make -f Makefile.coq -j12 theories/props/%s.vo" % tf, 1600, COQ)
            if rc4 == 0:
                rc4, out4 = sh("timeout 600 coqc -Q theories CCT -w -notation-overridden theories/props/%s.v" % tf, 700, COQ)
        if rc4 != 0:
            m4 = re.search(r'File "([^"]+)", line (\d+)', out4)
            why = (m4.group(0) if m4 else "?") + " :: " + " ".join(out4.strip().splitlines()[-3:])[:300]
            for n in tn:
                open_.append((n, why))
            ctx.obligations.setdefault("first_error", "source tie %s.v no longer checks (the text of the source, interpreted, is no longer shown equal to the model): %s" % (tf, why))
            continue
        tblocks = [b for b in re.split(r"(?m)^(?=Closed under the global context|Axioms:)", out4) if b.startswith("Closed under") or b.startswith("Axioms:")]
        for i, n in enumerate(tprinted):
            if i < len(tblocks) and tblocks[i].startswith("Closed under"):
                closed.append(n)
            else:
                open_.append((n, tblocks[i][:300] if i < len(tblocks) else "no output"))
        if not ctx.quick:
            rc5, out5 = sh("timeout 1500 coqchk -o -Q theories CCT CCT.props.%s" % tf, 1600, COQ)
            ok5 = rc5 == 0 and "Modules were successfully checked" in out5
            m5 = re.search(r"\* Axioms:\s*(.*?)\n\s*\n", out5, re.S)
            ax5 = (m5.group(1).strip() if m5 else "?")[:500]
            ctx.notes.append("coqchk -o %s: %s; axioms: %s" % (tf, "modules successfully checked" if ok5 else "FAILED", ax5))
            if not ok5 or ax5 != "<none>":
                open_.append(("coqchk " + tf, out5[-400:]))
    ctx.obligations["tie_names"] = tie_names
    notprinted = [n for n in names if n not in printed and not (pins_broken and n == pid + "_source_pinned")]
    if pins_broken:
        open_.append((pid + "_source_pinned", "; ".join(pins_broken)[:400]))
    ctx.obligations["discharged"] = closed
    ctx.obligations["broken"] = [n for n, _ in open_] + notprinted
    ctx.obligations["axioms"] = open_
    return not ctx.obligations["broken"]


FORBIDDEN = re.compile(r"\b(Admitted|admit|Axiom|Axioms|Parameter|Parameters|Conjecture|Hypothesis|Variable)\b|Unset Guard|bypass_check|type-in-type|Admit Obligations")


def grep_gate():
    """No Admitted/admit/Axiom/... anywhere; Variable/Hypothesis only inside Sections."""
    bad = []
    for root, _, files in os.walk(os.path.join(COQ, "theories")):
        for f in files:
            if not f.endswith(".v"):
                continue
            depth = 0
            for ln, line in enumerate(open(os.path.join(root, f)), 1):
                code = re.sub(r"\(\*.*?\*\)", "", line)
                if re.match(r"\s*Section\b", code):
                    depth += 1
                if re.match(r"\s*End\b", code) and depth > 0:
                    depth -= 1
                m = FORBIDDEN.search(code)
                if m:
                    w = m.group(0)
                    if w in ("Variable", "Hypothesis") and depth > 0:
                        continue
                    bad.append("%s:%d: %s" % (f, ln, w))
    return bad


# ----------------------------------------------------------------------------- outcomes
def impl_class(o):
    """'accept' or the exception tag"""
    return "accept" if o.startswith("O") else o[1:]


def model_class(o):
    if o.startswith("O"):
        return "accept"
    if o.startswith("E"):
        return o[1:]
    return {"U": "unmodelled"}.get(o, "undecodable")


FAMILY = {"TypeError", "ValueError", "SignatureError", "MetadataVerificationError", "UnknownRoleError",
          "UnicodeEncodeError", "JSONDecodeError"}


# ----------------------------------------------------------------------------- streams
class Stream:
    """A list of cases run through both sides and judged.
    cases: list of dicts {"w": wire case, "meta": anything JSON-able}
    relation(case, impl_outcome, model_outcome) -> None | reason   (correspondence R_P)
    oracle(case, impl_outcome) -> None | reason                     (implementation-level property oracle)
    nontrivial(case, impl_outcome, model_outcome) -> bool"""

    def __init__(self, name, cases, relation, oracle=None, nontrivial=None, env=None, only_auth=False, model=True, mismatch_kind="correspondence"):
        self.name, self.cases, self.relation, self.oracle = name, cases, relation, oracle
        # "correspondence": implementation vs the proven model (a failing input while the model is intact);
        # "tie": implementation vs the interpreted SOURCE of the same tree -- a difference means the translator / interpreter does not
        # render this source faithfully, i.e. the tie is broken; it is never by itself an input on which the property fails
        self.mismatch_kind = mismatch_kind
        self.nontrivial = nontrivial or (lambda c, i, m: True)
        self.env, self.only_auth, self.use_model = env, only_auth, model


def run_stream(ctx, st, max_report=5):
    t = time.time()
    ws = [c["w"] for c in st.cases]
    impl = implrun.run_impl(ws, env=st.env, only_auth=st.only_auth, chunk=20000)
    if st.use_model:
        mdl = ctx.get_model().run(ws)
    else:
        mdl = [None] * len(ws)
    dist = {}
    nontriv = set()
    unmodelled = 0
    mism = oviol = 0
    for c, (io, mut), mo in zip(st.cases, impl, mdl):
        ic = impl_class(io)
        mc = model_class(mo) if mo is not None else "-"
        dist[ic] = dist.get(ic, 0) + 1
        if io.startswith("H"):
            raise RuntimeError("harness fault decoding case in worker: %s %s" % (io, c["w"][:200]))
        if mc == "undecodable":
            raise RuntimeError("model could not decode case: %s" % c["w"][:300])
        if mc == "unmodelled":
            unmodelled += 1
        reason = None
        if mo is not None and mc != "unmodelled":
            reason = st.relation(c, io, mo)
        if reason:
            mism += 1
            if mism <= max_report:
                ctx.violations.append((st.mismatch_kind, {"stream": st.name, "case": c["w"], "meta": c.get("meta"),
                                                          "impl": io[:2000], "model": mo[:2000], "reason": reason}))
        if st.oracle:
            r = st.oracle(c, io)
            if r:
                oviol += 1
                if oviol <= max_report:
                    ctx.violations.append(("property", {"stream": st.name, "case": c["w"], "meta": c.get("meta"),
                                                        "impl": io[:2000], "reason": r}))
        if mut and not c.get("mutates"):
            ctx.violations.append(("property", {"stream": st.name, "case": c["w"], "impl": io[:300],
                                                "reason": "argument mutated by the call"}))
        if st.nontrivial(c, io, mo):
            nontriv.add(hashlib.sha256(c["w"].encode()).digest()[:12])
    cov = {"stream": st.name, "cases": len(ws), "distinct_nontrivial": len(nontriv), "impl_outcomes": dist,
           "unmodelled": unmodelled, "mismatches": mism, "oracle_violations": oviol, "wall_s": round(time.time() - t, 2)}
    ctx.streams.append(cov)
    # remember a few cases for the kernel-path sample and the evidence samples
    if st.use_model:
        idx = list(range(len(ws)))
        ctx.rng.shuffle(idx)
        for i in idx[:6]:
            ctx.kernel_sample.append((ws[i], mdl[i]))
    return impl, mdl


def failing_stdout_streams(ctx, what, cases, want=None):
    """The verifiers print progress notes.  With a standard output on which every write fails (closed pipe, closed
    file) a call may raise, but it must never ACCEPT what it rejects with a working output: soundness only."""
    def rel(c, io, mo):
        if impl_class(io) == "accept" and model_class(mo) != "accept":
            return "accepted with a failing standard output, model says %s" % model_class(mo)
        return None

    def oracle(c, io):
        if want is not None and io.startswith("O") and not want(c):
            return "accepted with a failing standard output although the rule is not met"
        return None
    for kind in ("oserror", "closed"):
        run_stream(ctx, Stream("%s, standard output failing on every write (%s): never accepts more" % (what, kind), cases, rel, oracle,
                               nontrivial=lambda c, i, m: model_class(m) != "accept", env={"CCT_STDOUT": kind}))


def history_independence(ctx, what, probes, seeds=(1, 2, 3), rounds=1):
    """Probe calls must give the same outcome before and after every public entry point of every module of the
    package has run in the same process (exercise_worker.py)."""
    import subprocess
    t = time.time()
    n = 0
    for seed in seeds:
        d = tempfile.mkdtemp(prefix="cctex")
        try:
            spec, outp = os.path.join(d, "spec.json"), os.path.join(d, "out.json")
            json.dump({"probes": probes, "seed": seed, "rounds": rounds}, open(spec, "w"))
            p = subprocess.run([implrun.PY, os.path.join(HERE, "exercise_worker.py"), "--in", spec, "--out", outp],
                               env=implrun.base_env(), cwd=d, capture_output=True, text=True, timeout=1800)
            if not os.path.exists(outp):
                raise RuntimeError("exercise worker failed: rc=%s %s" % (p.returncode, p.stderr[-1500:]))
            r = json.load(open(outp))
            n += len(r["log"])
            for ch in r["changed"][:3]:
                ctx.violations.append(("property", {"stream": what, "case": probes[ch["probe"]], "impl": ch["now"],
                                                    "history": [a for a, _ in r["log"]][: [a for a, _ in r["log"]].index(ch["after"]) + 1], "seed": seed,
                                                    "reason": "the outcome of this call changed after other functions of the package ran in the same process (after: %s): before %s, now %s"
                                                              % (ch["after"], ch["before"][:120], ch["now"][:120])}))
        finally:
            shutil.rmtree(d, ignore_errors=True)
    ctx.streams.append({"stream": what + ": %d probe calls repeated after each of %d actions exercising every module (builders, signers, key files, file load/store, repodata signing, every CLI subcommand, the interactive screen with scripted keystrokes), %d shuffled orders"
                                  % (len(probes), n // max(1, len(seeds)), len(seeds)),
                        "cases": len(probes) * n, "distinct_nontrivial": len(probes), "impl_outcomes": {}, "unmodelled": 0, "mismatches": 0,
                        "oracle_violations": 0, "wall_s": round(time.time() - t, 2)})


# ----------------------------------------------------------------------------- kernel path
def kernel_path(ctx, limit=40, max_len=6000):
    """Evaluate a sample of the cases by vm_compute inside coqc through the same run_case and let Coq
    compare with the extracted run's outcomes."""
    sample = [s for s in ctx.kernel_sample if len(s[0]) < max_len and len(s[1]) < max_len][:limit]
    if not sample:
        return {"cases": 0, "agree": 0}
    oracle_lines = []
    for w, _ in sample:
        m = modelrun.Model()
        try:
            m.run1(w)
            oracle_lines.extend(m.oracle_log)
        finally:
            m.close()
    oracle_lines = sorted(set(oracle_lines))
    if sum(len(x) for x in oracle_lines) > 200000:
        return {"cases": 0, "agree": 0, "skipped": "oracle table too large"}

    def lit(s):
        return 'U"%s"' % s.replace('"', '""')
    vt, pt, stb = [], [], []
    for l in oracle_lines:
        p = l.split(" ")
        if p[0] == "V":
            vt.append("(%s, %s, %s, %s)" % (lit(p[1]), lit(p[2]), lit(p[3]), "true" if p[4] == "1" else "false"))
        elif p[0] == "H":
            continue       # the kernel path computes SHA-256 itself (Sha256.v)
        elif p[0] == "P":
            pt.append("(%s, %s)" % (lit(p[1]), lit(p[2])))
        else:
            stb.append("(%s, %s, %s)" % (lit(p[1]), lit(p[2]), lit(p[3])))
    d = os.path.join(BUILD, "kernel_%s_%d" % (ctx.pid, os.getpid()))
    os.makedirs(d, exist_ok=True)
    try:
        with open(os.path.join(d, "cases.v"), "w") as f:
            f.write("From CCT Require Import Prelude KernelRun.\n")
            f.write("Definition vt : list (ustr * ustr * ustr * bool) := [%s].\n" % "; ".join(vt))
            f.write("Definition pt : list (ustr * ustr) := [%s].\n" % "; ".join(pt))
            f.write("Definition st : list (ustr * ustr * ustr) := [%s].\n" % "; ".join(stb))
            f.write("Definition cases : list (ustr * ustr) := [\n%s].\n" % ";\n".join("(%s, %s)" % (lit(w), lit(o)) for w, o in sample))
            f.write("Eval vm_compute in (kernel_disagreements vt pt st cases).\n")
        rc, out = sh("timeout 900 coqc -Q %s CCT cases.v" % os.path.join(COQ, "theories"), 1000, d)
    finally:
        import shutil
        shutil.rmtree(d, ignore_errors=True)
    ok = rc == 0 and re.search(r"=\s*\[\s*\]\s*:\s*list nat", out.replace("\n", " ")) is not None
    res = {"cases": len(sample), "agree": len(sample) if ok else 0, "oracle_entries": len(oracle_lines)}
    if not ok:
        res["output"] = out[-1500:]
        raise RuntimeError("kernel path (vm_compute) disagrees with the extracted model or failed: %s" % out[-1500:])
    return res


# ----------------------------------------------------------------------------- known findings, replays, evidence
def load_known():
    opens = []
    try:
        for line in open(os.path.join(VERIF, "KNOWN_FINDINGS.txt")):
            if line.startswith("open:"):
                m = re.match(r"open:\s+property=(\S+)\s+key=(\S+)\s+(.*)", line.strip())
                if m:
                    opens.append({"property": m.group(1), "key": m.group(2), "text": m.group(3)})
    except OSError:
        pass
    return opens


def write_replay(ctx, kind, detail):
    os.makedirs(os.path.join(VERIF, "replays"), exist_ok=True)
    blob = json.dumps(detail, sort_keys=True, default=str)
    h = hashlib.sha256(blob.encode()).hexdigest()[:10]
    path = os.path.join(VERIF, "replays", "%s-%s.json" % (ctx.pid, h))
    doc = {"property": ctx.pid, "kind": kind, "tier": ctx.tier, "seed": ctx.seed, "repo_fingerprint": repo_fingerprint(),
           "replay_cmd": "%s harness/check.py --replay %s" % (PY, path)}
    doc.update(detail)
    if "case" in detail:
        try:
            doc["case_decoded"] = repr(wire.dec(detail["case"]))[:4000]
        except Exception:
            pass
    with open(path, "w") as f:
        json.dump(doc, f, indent=1, default=str)
    return path


def finish(ctx, level_text=""):
    """Decide, print VIOLATION / KNOWN-FINDING lines, write evidence. Returns the exit status."""
    if ctx.model is not None:
        ctx.model.close()
    opens = [o for o in load_known() if o["property"] == ctx.pid]
    lines = []
    real = []
    for kind, d in ctx.violations:
        key = d.get("known_key")
        hit = next((o for o in opens if key and o["key"] == key), None)
        if hit:
            msg = "KNOWN-FINDING: property=%s %s" % (ctx.pid, hit["text"])
            if msg not in lines:
                lines.append(msg)
        else:
            real.append((kind, d))
    status = 0
    vio_lines = []
    # a failing input is (a) an input on which the implementation-level oracle of the property fails, or (b) an input on which the
    # implementation departs from the model under the property's relation WHILE THE MODEL IS THE PROVEN ONE: every obligation except
    # possibly the source pin is discharged.  If other obligations are broken (a regenerated part of the model changed, a proof no
    # longer goes through) a model/implementation difference says nothing about the property by itself and is reported as unfound.
    model_intact = set(ctx.obligations.get("broken", [])) <= ({ctx.pid + "_source_pinned"} | set(ctx.obligations.get("tie_names", [])))
    concrete = [(k, d) for k, d in real if k == "property" or (k == "correspondence" and model_intact)]
    others = [(k, d) for k, d in real if (k, d) not in [(a, b) for a, b in concrete]]
    if concrete:
        for k, d in concrete[:3]:
            vio_lines.append("VIOLATION property=%s replay=%s" % (ctx.pid, write_replay(ctx, k, d)))
        status = 1
    elif others:
        # an obligation or the correspondence broke and no failing input was found
        k, d = others[0]
        d = dict(d)
        d["all_unfound"] = [x[1].get("reason", x[1].get("theorem", "")) for x in others[:10]]
        vio_lines.append("VIOLATION property=%s replay=%s no-failing-input-found" % (ctx.pid, write_replay(ctx, k, d)))
        status = 1
    for l in lines + vio_lines:
        print(l)
    ob = ctx.obligations
    evals = sum(s["cases"] for s in ctx.streams)
    dn = sum(s["distinct_nontrivial"] for s in ctx.streams)
    samples = [{"obligation": n} for n in ob["names"][:3]]
    for w, o in ctx.kernel_sample[:4]:
        samples.append({"case": w[:600], "model_outcome": o[:200]})
    ev = {
        "property_id": ctx.pid, "tier": ctx.tier, "seed": ctx.seed, "level": "proof",
        "coverage": {
            "obligations": max(1, len(ob["names"])), "discharged": len(ob["discharged"]),
            "obligation_names": ob["names"], "undischarged": ob["broken"],
            "checker_cmd": "make -C /verif/coq -f Makefile.coq theories/props/%s.vo && coqc -Q theories CCT theories/props/%s.v  (Print Assumptions under every theorem)" % (ctx.pid, ctx.pid),
            "trusted_base": TRUSTED_BASE,
            "evaluations": evals, "distinct_nontrivial": dn,
            "rule": "correspondence cases are enumerated/generated per stream (see streams); a case is non-trivial when it reaches the logic the property is about (stream-specific rule), distinct by SHA-256 of its wire text",
            "streams": ctx.streams, "samples": samples, "kernel_path": getattr(ctx, "kernel", None),
            "repo_fingerprint": repo_fingerprint(), "notes": ctx.notes,
        },
        "assumptions": getattr(ctx, "assumptions", []),
        "wall_s": round(time.time() - ctx.t0, 2),
        "violations": len(real),
    }
    os.makedirs(os.path.join(VERIF, "evidence"), exist_ok=True)
    with open(os.path.join(VERIF, "evidence", ctx.pid + ".json"), "w") as f:
        json.dump(ev, f, indent=1, default=str)
    print("%s %s: obligations %d/%d, %d cases (%d distinct non-trivial) in %d streams, %d violation(s), %.1fs"
          % (ctx.pid, ctx.tier, len(ob["discharged"]), len(ob["names"]), evals, dn, len(ctx.streams), len(real), time.time() - ctx.t0))
    return status

"""placeholder: root_signing imports this module only to detect the library"""

class CommandError(Exception):
    pass


class KeyNotFoundError(Exception):
    pass

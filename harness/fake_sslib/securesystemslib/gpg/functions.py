"""create_signature / export_pubkey on top of the gpg binary (GNUPGHOME from the environment).
Parses the OpenPGP v4 signature and public-key packets (RFC 4880 sections 4.2, 5.2.3, 5.5.2; RFC 6637 EdDSA)."""
import subprocess

from . import exceptions


def _gpg(args, data=b""):
    p = subprocess.run(["gpg", "--batch", "--yes", "--no-tty", "--quiet"] + args, input=data, capture_output=True)
    if p.returncode != 0:
        raise exceptions.CommandError(p.stderr.decode(errors="replace")[-500:])
    return p.stdout


def _packets(blob):
    i = 0
    while i < len(blob):
        c = blob[i]
        i += 1
        if c & 0x40:                      # new format
            tag = c & 0x3f
            l0 = blob[i]
            if l0 < 192:
                n, i = l0, i + 1
            elif l0 < 224:
                n, i = ((l0 - 192) << 8) + blob[i + 1] + 192, i + 2
            elif l0 == 255:
                n, i = int.from_bytes(blob[i + 1:i + 5], "big"), i + 5
            else:
                raise ValueError("partial body lengths not supported")
        else:                             # old format
            tag = (c >> 2) & 0xf
            lt = c & 3
            ln = {0: 1, 1: 2, 2: 4}[lt]
            n, i = int.from_bytes(blob[i:i + ln], "big"), i + ln
        yield tag, blob[i:i + n]
        i += n


def _mpi(body, i):
    bits = int.from_bytes(body[i:i + 2], "big")
    n = (bits + 7) // 8
    return body[i + 2:i + 2 + n], i + 2 + n


def create_signature(content, keyid=None, homedir=None):
    args = ["--detach-sign", "--digest-algo", "SHA256"]
    if keyid:
        args += ["--local-user", keyid]
    if homedir:
        args = ["--homedir", homedir] + args
    blob = _gpg(args, bytes(content))
    for tag, body in _packets(blob):
        if tag != 2:
            continue
        if body[0] != 4:
            raise ValueError("only v4 signature packets")
        hashed_len = int.from_bytes(body[4:6], "big")
        hashed_end = 6 + hashed_len
        other_headers = body[:hashed_end]
        unhashed_len = int.from_bytes(body[hashed_end:hashed_end + 2], "big")
        i = hashed_end + 2 + unhashed_len + 2          # skip unhashed subpackets and the left 16 bits of the hash
        r, i = _mpi(body, i)
        s, i = _mpi(body, i)
        sig = r.rjust(32, b"\x00") + s.rjust(32, b"\x00")
        fpr = None
        j = 6
        while j < hashed_end:                          # issuer fingerprint subpacket (type 33), if present
            sl = body[j]
            if body[j + 1] == 33:
                fpr = body[j + 3:j + 1 + sl].hex()
            j += 1 + sl
        return {"keyid": fpr or (keyid or "").lower(), "other_headers": other_headers.hex(), "signature": sig.hex()}
    raise ValueError("no signature packet in gpg output")


def export_pubkey(keyid, homedir=None):
    args = ["--export", keyid]
    if homedir:
        args = ["--homedir", homedir] + args
    blob = _gpg(args)
    if not blob:
        raise exceptions.KeyNotFoundError(keyid)
    for tag, body in _packets(blob):
        if tag == 6:
            if body[0] != 4 or body[5] != 22:
                raise ValueError("only v4 EdDSA keys")
            oid_len = body[6]
            q, _ = _mpi(body, 7 + oid_len)
            if q[0] != 0x40 or len(q) != 33:
                raise ValueError("unexpected EdDSA point encoding")
            return {"type": "eddsa", "method": "pgp+eddsa-ed25519", "hashes": ["pgp+SHA2"], "keyid": keyid.lower(),
                    "keyval": {"private": "", "public": {"q": q[1:].hex()}}}
    raise exceptions.KeyNotFoundError(keyid)

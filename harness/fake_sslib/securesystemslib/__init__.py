"""Harness stand-in for the optional dependency securesystemslib (absent in this sandbox and not installable):
just enough of securesystemslib.gpg.functions for conda_content_trust.root_signing, backed by the real gpg binary."""

"""ASCII wire format shared by the harness, the implementation worker and the Gallina model
(coq/theories/Wire.v).  enc: Python value -> text; dec: text -> Python value."""
import datetime
import math

try:  # the keys are optional for users that only need plain values
    from cryptography.hazmat.primitives.asymmetric.ed25519 import (
        Ed25519PrivateKey, Ed25519PublicKey)
    from cryptography.hazmat.primitives import serialization as _ser
except Exception:  # pragma: no cover
    Ed25519PrivateKey = Ed25519PublicKey = None


class Obj:
    """Stand-in for 'any other object' (VObj n): no len, no decode, not iterable, == only to itself."""
    __slots__ = ("n",)

    def __init__(self, n):
        self.n = n

    def __repr__(self):
        return "<Obj %d>" % self.n


def float_token(x):
    if x != x:
        return "NaN"
    if x == math.inf:
        return "Infinity"
    if x == -math.inf:
        return "-Infinity"
    return float.__repr__(x)


def token_float(t):
    return {"NaN": math.nan, "Infinity": math.inf, "-Infinity": -math.inf}.get(t) if t in ("NaN", "Infinity", "-Infinity") else float(t)


def q(cps):
    out = ['"']
    for c in cps:
        if 32 <= c <= 126 and c != 34 and c != 92:
            out.append(chr(c))
        else:
            out.append("\\%06x" % c)
    out.append('"')
    return "".join(out)


def enc(v):
    if v is None:
        return "n"
    if v is True:
        return "t"
    if v is False:
        return "f"
    t = type(v)
    if t is int:
        return "i%d;" % v
    if t is float:
        return "d" + q(map(ord, float_token(v)))
    if t is str:
        return "s" + q(map(ord, v))
    if t is bytes:
        return "b" + q(v)
    if t is bytearray:
        return "a" + q(v)
    if t is list:
        return "l" + "".join(enc(x) for x in v) + ";"
    if t is tuple:
        return "u" + "".join(enc(x) for x in v) + ";"
    if t in (set, frozenset):
        return "e" + "".join(sorted(enc(x) for x in v)) + ";"
    if t is dict:
        return "m" + "".join(enc(k) + enc(x) for k, x in v.items()) + ";"
    if t is datetime.timedelta:
        return "D%d;%d;%d;" % (v.days, v.seconds, v.microseconds)
    if t is Obj:
        return "i%d;".replace("i", "o", 1) % v.n
    if Ed25519PublicKey is not None and isinstance(v, Ed25519PublicKey):
        return "k" + q(v.public_bytes(_ser.Encoding.Raw, _ser.PublicFormat.Raw))
    if Ed25519PrivateKey is not None and isinstance(v, Ed25519PrivateKey):
        return "p" + q(v.private_bytes(_ser.Encoding.Raw, _ser.PrivateFormat.Raw, _ser.NoEncryption()))
    raise TypeError("wire.enc: unsupported %r" % (t,))


class _P:
    def __init__(self, s):
        self.s = s
        self.i = 0

    def quoted(self):
        s = self.s
        assert s[self.i] == '"', (self.i, s[self.i:self.i + 20])
        i = self.i + 1
        out = []
        while True:
            c = s[i]
            if c == '"':
                self.i = i + 1
                return out
            if c == "\\":
                out.append(int(s[i + 1:i + 7], 16))
                i += 7
            else:
                out.append(ord(c))
                i += 1

    def integer(self):
        j = self.s.index(";", self.i)
        z = int(self.s[self.i:j])
        self.i = j + 1
        return z

    def seq(self):
        out = []
        while self.s[self.i] != ";":
            out.append(self.value())
        self.i += 1
        return out

    def value(self):
        c = self.s[self.i]
        self.i += 1
        if c == "n":
            return None
        if c == "t":
            return True
        if c == "f":
            return False
        if c == "i":
            return self.integer()
        if c == "d":
            return token_float("".join(map(chr, self.quoted())))
        if c == "s":
            return "".join(map(chr, self.quoted()))
        if c == "b":
            return bytes(self.quoted())
        if c == "a":
            return bytearray(self.quoted())
        if c == "l":
            return self.seq()
        if c == "u":
            return tuple(self.seq())
        if c == "e":
            return set(self.seq())
        if c == "m":
            items = self.seq()
            return {items[k]: items[k + 1] for k in range(0, len(items), 2)}
        if c == "D":
            a, b, c2 = self.integer(), self.integer(), self.integer()
            return datetime.timedelta(days=a, seconds=b, microseconds=c2)
        if c == "o":
            return Obj(self.integer())
        if c == "k":
            return Ed25519PublicKey.from_public_bytes(bytes(self.quoted()))
        if c == "p":
            return Ed25519PrivateKey.from_private_bytes(bytes(self.quoted()))
        raise ValueError("wire.dec: bad tag %r at %d" % (c, self.i - 1))


def dec(s):
    p = _P(s)
    v = p.value()
    if p.i != len(s):
        raise ValueError("wire.dec: trailing data")
    return v


def case(fn, *args):
    return "u" + enc(fn) + "".join(enc(a) for a in args) + ";"


def dec_outcome(s):
    """('ok', value) | ('err', name) | ('unmodelled', None) | ('undecodable', None)"""
    if s.startswith("O"):
        return ("ok", dec(s[1:]))
    if s.startswith("E"):
        return ("err", s[1:])
    if s == "U":
        return ("unmodelled", None)
    return ("undecodable", s)

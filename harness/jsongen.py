"""Random and adversarial JSON values (the domain of C07): objects with str keys, arrays, strings over all of
Unicode including lone surrogates, all floats, big ints, bools, null.  Everything derives from the rng passed in."""
import math
import struct

BOUNDARY_CP = [0, 1, 8, 9, 10, 12, 13, 0x1f, 0x20, 0x22, 0x5c, 0x2f, 0x7e, 0x7f, 0x80, 0xff, 0x100, 0x7ff, 0x800, 0xd7ff,
               0xd800, 0xdbff, 0xdc00, 0xdfff, 0xe000, 0xfffd, 0xffff, 0x10000, 0x1f600, 0x10ffff, 0x2028, 0x2029, 0x660, 0xe9]
FLOATS = [0.0, -0.0, 1.0, -1.5, 0.1, 1e16, 1e15, 123456789012345.6, 1e22, 1e23, 5e-324, 2.2250738585072014e-308,
          1.7976931348623157e308, 2.0 ** 53, 2.0 ** 53 + 2, 1 / 3, math.inf, -math.inf, math.nan, 1e-7, 123e-20, 0.5, 100.0, 1e100]
INTS = [0, 1, -1, 2 ** 31, -2 ** 63, 2 ** 64, 10 ** 30, -(10 ** 50) + 7, 10 ** 400 + 1]


def rand_str(rng, maxlen=8):
    n = rng.randint(0, maxlen)
    out = []
    for _ in range(n):
        r = rng.random()
        if r < 0.5:
            out.append(chr(rng.randint(0x20, 0x7e)))
        elif r < 0.8:
            out.append(chr(rng.choice(BOUNDARY_CP)))
        else:
            out.append(chr(rng.randint(0, 0x10ffff)))
    s = "".join(out)
    return s


def no_pair(s):
    """True when s has no high surrogate immediately followed by a low surrogate (C07's domain)"""
    for a, b in zip(s, s[1:]):
        if 0xd800 <= ord(a) <= 0xdbff and 0xdc00 <= ord(b) <= 0xdfff:
            return False
    return True


def rand_float(rng):
    r = rng.random()
    if r < 0.5:
        return rng.choice(FLOATS)
    if r < 0.8:
        x = struct.unpack("<d", struct.pack("<Q", rng.getrandbits(64)))[0]
        return x
    return rng.uniform(-1e6, 1e6)


def rand_json(rng, depth=3, width=4, pairs_ok=False):
    r = rng.random()
    if depth <= 0 or r < 0.45:
        k = rng.random()
        if k < 0.1:
            return None
        if k < 0.2:
            return rng.random() < 0.5
        if k < 0.4:
            return rng.choice(INTS) if rng.random() < 0.4 else rng.randint(-1000, 1000)
        if k < 0.6:
            return rand_float(rng)
        s = rand_str(rng)
        while not pairs_ok and not no_pair(s):
            s = rand_str(rng)
        return s
    if r < 0.7:
        return [rand_json(rng, depth - 1, width, pairs_ok) for _ in range(rng.randint(0, width))]
    d = {}
    for _ in range(rng.randint(0, width)):
        k = rand_str(rng, 5)
        while not pairs_ok and not no_pair(k):
            k = rand_str(rng, 5)
        d[k] = rand_json(rng, depth - 1, width, pairs_ok)
    return d


def deep_chain(n):
    v = 1
    for i in range(n):
        v = [v] if i % 2 else {"k": v}
    return v


FIXED = [
    {}, [], "", 0, None, True, [[]], [{}], {"": ""}, {"a": [1, 2, {"b": None}], "Z": "é", "z": -0.0},
    {"\ud800": "\udfff", " ": "\x7f\x1f", "k\"\\": "/\b\f\n\r\t"}, ["\U0001f600", "\ud83d", "\ude00", "a\ud83db"],
    {"b": 1, "a": 2, "B": 3, "aa": 4, "": 5, "\x00": 6, "é": 7, "\U00010000": 8, "￿": 9},
    [1e16, 1e15, 1.5e300, 5e-324, -0.0, math.inf, -math.inf, math.nan], [10 ** 30, -10 ** 30, 2 ** 64], deep_chain(30),
]

"""Single-fault mutation of argument tuples at every JSON path (C13, C14, C16)."""
import datetime

from gen import interesting_values, paths, get_at, set_at, del_at, deep, PUBHEX, Obj
import envgen as E
import mdgen as M


try:
    from cryptography.hazmat.primitives.asymmetric.ed25519 import Ed25519PublicKey
    PUBKEY0 = Ed25519PublicKey.from_public_bytes(bytes.fromhex(PUBHEX[0]))
except Exception:  # pragma: no cover
    PUBKEY0 = None


def mutations(args, values=None, only_arg=None):
    """yield (tag, mutated args tuple) for every argument index, every path inside it, every substitute value,
    plus deletion of the element at the path, an extra field in every dict and a duplicate under another key"""
    values = interesting_values() if values is None else values
    for ai, a in enumerate(args):
        if only_arg is not None and ai != only_arg:
            continue
        for p in paths(a):
            cur = get_at(a, p)
            for vi, v in enumerate(values):
                if type(v) is type(cur) and v == cur and not isinstance(v, float):
                    continue
                yield ("sub", ai, p, vi), args[:ai] + (set_at(a, p, v),) + args[ai + 1:]
            if p:
                yield ("del", ai, p, None), args[:ai] + (del_at(a, p),) + args[ai + 1:]
            if isinstance(cur, dict):
                extra = deep(cur)
                extra["extra_field"] = 1
                yield ("extra", ai, p, None), args[:ai] + (set_at(a, p, extra),) + args[ai + 1:]
                if cur:
                    k0 = next(iter(cur))
                    dup = deep(cur)
                    dup["copy_of_" + str(k0)] = deep(cur[k0])
                    yield ("dup", ai, p, None), args[:ai] + (set_at(a, p, dup),) + args[ai + 1:]
            if isinstance(cur, dict) and cur:
                # a field under a near-miss of its name (same number of fields): capitalised, trailing blank, singular/plural slip
                for k in list(cur)[:4]:
                    if isinstance(k, str) and k:
                        for nk in (k.capitalize() if k.capitalize() != k else k.lower() + "_", k + " ", k[:-1] if len(k) > 1 else k + "x"):
                            if nk in cur:
                                continue
                            ren = {(nk if kk == k else kk): deep(vv) for kk, vv in cur.items()}
                            yield ("rename", ai, p, None), args[:ai] + (set_at(a, p, ren),) + args[ai + 1:]
            if isinstance(cur, list) and cur:
                yield ("dupitem", ai, p, None), args[:ai] + (set_at(a, p, deep(cur) + [deep(cur[0])]),) + args[ai + 1:]


def valid_calls():
    """one valid argument tuple per public validator / verifier: (function, args, kind)"""
    k0, k1 = PUBHEX[0], PUBHEX[1]
    P = {"a": 1, "b": [1, "x"]}
    raw, gpg = E.raw_sig(0, P), E.gpg_sig(0, P, see_also=True)
    root1 = M.envelope(M.root_md(1, (0, 1), 1), (0,))
    root2 = M.envelope(M.root_md(2, (0, 1), 1), (0, 1))
    kmgr = M.envelope(M.md("key_mgr", 1, {"pkg_mgr": M.delegation((2,), 1)}), (4,), mode="raw")
    env_raw = {"signatures": {k0: raw, k1: E.raw_sig(1, P)}, "signed": P}
    env_gpg = {"signatures": {k0: E.gpg_sig(0, P), k1: E.gpg_sig(1, P)}, "signed": P}
    data = E.canon(P)
    calls = [
        ("checkformat_hex_string", ("ab12",)), ("checkformat_hex_key", (k0,)), ("checkformat_signable", (env_raw,)),
        ("checkformat_byteslike", (b"x",)), ("checkformat_natural_int", (3,)), ("checkformat_string", ("s",)),
        ("checkformat_expiration_distance", (datetime.timedelta(days=2),)), ("checkformat_list_of_hex_keys", ([k0, k1],)),
        ("checkformat_utc_isoformat", (M.TS,)), ("checkformat_gpg_fingerprint", ("a" * 40,)),
        ("checkformat_gpg_signature", (gpg,)), ("checkformat_signature", (raw,)), ("checkformat_any_signature", (gpg,)),
        ("checkformat_delegation", (M.delegation((0, 1), 2),)),
        ("checkformat_delegations", ({"root": M.delegation((0,), 1), "key_mgr": M.delegation((1, 2), 1)},)),
        ("checkformat_delegating_metadata", (root1,)), ("checkformat_delegating_metadata", (kmgr,)),
        ("checkformat_key", (PUBKEY0,)),
        ("is_hex_string", ("ab12",)), ("is_hex_signature", (raw["signature"],)), ("is_hex_key", (k0,)), ("is_signable", (env_raw,)),
        ("is_gpg_fingerprint", ("a" * 40,)), ("is_gpg_signature", (gpg,)), ("is_signature", (raw,)),
        ("verify_signature", (raw["signature"], PUBKEY0, data)),
        ("verify_gpg_signature", (E.gpg_sig(0, P), k0, data)),
        ("verify_signable", (env_raw, [k0, k1], 2, False)), ("verify_signable", (env_gpg, [k0, k1], 2, True)),
        ("verify_delegation", ("key_mgr", kmgr, root1, False)), ("verify_delegation", ("root", root2, root1, True)),
        ("verify_root", (root1, root2)),
    ]
    return calls


FAMILIES = {
    "checkformat": {"TypeError", "ValueError"},
    "verify_signature": {"TypeError", "ValueError", "InvalidSignature"},
    "verify_gpg_signature": {"TypeError", "ValueError", "InvalidSignature"},
    "verify_signable": {"TypeError", "ValueError", "SignatureError"},
    "verify_delegation": {"TypeError", "ValueError", "SignatureError", "MetadataVerificationError", "UnknownRoleError"},
    "verify_root": {"TypeError", "ValueError", "SignatureError", "MetadataVerificationError"},
}
SUBCLASS_OF_VALUEERROR = {"UnicodeEncodeError", "JSONDecodeError"}


def family_of(fn):
    if fn.startswith("checkformat_") or fn == "canonserialize":
        return FAMILIES["checkformat"]
    return FAMILIES.get(fn)

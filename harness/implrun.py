"""Run wire cases through the implementation in fresh subprocesses of /venv/bin/python."""
import os
import subprocess
import tempfile

HERE = os.path.dirname(os.path.abspath(__file__))
REPO = os.environ.get("CCT_REPO", "/repo")
PY = os.environ.get("CCT_PY", "/venv/bin/python")


def base_env(extra=None):
    env = {k: v for k, v in os.environ.items() if not k.startswith("PYTHON")}
    env.update({"PYTHONPATH": REPO, "PYTHONDONTWRITEBYTECODE": "1", "PYTHONHASHSEED": "0",
                "CCT_VERIF": "1", "LC_ALL": "C.UTF-8", "PYTHONIOENCODING": "utf-8"})
    if extra:
        env.update(extra)
    return env


def run_impl(wire_cases, env=None, only_auth=False, cwd=None, stdout_path=os.devnull, timeout=3600, chunk=None):
    """-> list of (outcome text, mutated flag) in order.  One fresh process (or one per chunk)."""
    if chunk and len(wire_cases) > chunk:
        out = []
        for i in range(0, len(wire_cases), chunk):
            out.extend(run_impl(wire_cases[i:i + chunk], env, only_auth, cwd, stdout_path, timeout))
        return out
    d = tempfile.mkdtemp(prefix="cctimpl")
    try:
        inp, outp = os.path.join(d, "in.txt"), os.path.join(d, "out.txt")
        with open(inp, "w") as f:
            for i, c in enumerate(wire_cases):
                f.write("%d\t%s\n" % (i, c))
        cmd = [PY, os.path.join(HERE, "impl_worker.py"), "--in", inp, "--out", outp]
        if only_auth:
            cmd.append("--only-auth")
        with open(stdout_path, "wb") as so:
            p = subprocess.run(cmd, env=base_env(env), cwd=cwd or d, stdout=so, stderr=subprocess.PIPE, timeout=timeout)
        res = {}
        if os.path.exists(outp):
            with open(outp) as f:
                for line in f:
                    cid, o, m = line.rstrip("\n").split("\t")
                    res[int(cid)] = (o, int(m))
        if len(res) != len(wire_cases):
            raise RuntimeError("impl worker produced %d/%d results; rc=%s stderr=%s"
                               % (len(res), len(wire_cases), p.returncode, p.stderr.decode(errors="replace")[-2000:]))
        return [res[i] for i in range(len(wire_cases))]
    finally:
        import shutil
        shutil.rmtree(d, ignore_errors=True)

#!/usr/bin/env python3
"""Tooling for seeded changes (not a registered check).
  seedtool.py confirm <worktree> <x> <pid> <name>   confirm a sub-agent's change in its scratch worktree and store it as seeded/<name>/
  seedtool.py run <name> [pid ...]                  apply seeded/<name>/patch.diff to /repo, run the quick checks, undo, record
"""
import json, os, shutil, subprocess, sys, xml.etree.ElementTree as ET, tempfile, time

VERIF = os.path.dirname(os.path.dirname(os.path.abspath(__file__)))
PY = "/venv/bin/python"


def sh(cmd, cwd=None, env=None, timeout=3000):
    p = subprocess.run(cmd, shell=True, cwd=cwd, env=env, capture_output=True, text=True, timeout=timeout)
    return p.returncode, p.stdout + p.stderr


def stable_pass(tree):
    base = json.load(open("/root/.vp/BASELINE.json"))
    fd, out = tempfile.mkstemp(suffix=".xml"); os.close(fd)
    env = dict(os.environ, PYTHONPATH=tree, PYTHONDONTWRITEBYTECODE="1"); env.pop("CCT_VERIF", None)
    cmd = "cd %s && %s -m pytest -ra -q -p no:cacheprovider --timeout=900 --continue-on-collection-errors --junitxml=%s" % (tree, PY, out)
    sh(cmd, env=env)
    passed = set()
    for tc in ET.parse(out).getroot().iter("testcase"):
        if not any(ch.tag in ("failure", "error", "skipped") for ch in tc):
            passed.add(tc.get("classname") + "::" + tc.get("name"))
    os.unlink(out)
    sh("git checkout -- test-report.xml", cwd=tree)
    return [t for t in base["stable_pass"] if t not in passed]


def confirm(wt, x, pid, name):
    diff, demo, meta = (os.path.join(wt, f % x) for f in ("mutant_%s.diff", "demo_%s.py", "meta_%s.txt"))
    env = dict(os.environ, PYTHONPATH=wt, PYTHONDONTWRITEBYTECODE="1")
    sh("git checkout -- .", cwd=wt)
    rc0, out0 = sh("%s %s" % (PY, demo), cwd=wt, env=env)
    rc, out = sh("git apply %s" % diff, cwd=wt)
    if rc != 0:
        print("patch does not apply:", out); return 1
    try:
        missing = stable_pass(wt)
        rc1, out1 = sh("%s %s" % (PY, demo), cwd=wt, env=env)
    finally:
        sh("git checkout -- .", cwd=wt)
    ok = rc0 == 0 and rc1 != 0 and not missing
    print("%s: demo clean rc=%d, demo mutant rc=%d, stable tests not passing with the change: %s -> %s" % (name, rc0, rc1, missing, "CONFIRMED" if ok else "REJECTED"))
    if not ok:
        print(out0[-500:], out1[-500:]); return 1
    d = os.path.join(VERIF, "seeded", name)
    os.makedirs(d, exist_ok=True)
    shutil.copy(diff, os.path.join(d, "patch.diff"))
    shutil.copy(demo, os.path.join(d, "demo.py"))
    json.dump({"property": pid, "origin": "independent sub-agent given only the property text",
               "description": open(meta).read().strip(),
               "confirmed": {"demo_exit_clean_tree": rc0, "demo_exit_with_change": rc1, "stable_tests_failing_with_change": missing,
                             "how": "git apply in a scratch worktree; pinned test suite (64 stable tests) under PYTHONPATH=<worktree>; demo with and without the change"},
               "demo_output_with_change": out1[-1200:], "checks": {}},
              open(os.path.join(d, "meta.json"), "w"), indent=1)
    return 0


def confirm_harmless(wt, pid, name):
    """PART B of round 4: a behaviour-preserving refactoring (mutant_b.diff, demo_b.py with identical output on both trees)"""
    diff, demo, meta = (os.path.join(wt, f) for f in ("mutant_b.diff", "demo_b.py", "meta_b.txt"))
    env = dict(os.environ, PYTHONPATH=wt, PYTHONDONTWRITEBYTECODE="1", PYTHONHASHSEED="0")
    sh("git checkout -- .", cwd=wt)
    rc0, out0 = sh("%s %s" % (PY, demo), cwd=wt, env=env)
    rc, out = sh("git apply %s" % diff, cwd=wt)
    if rc != 0:
        print("patch does not apply:", out); return 1
    try:
        missing = stable_pass(wt)
        rc1, out1 = sh("%s %s" % (PY, demo), cwd=wt, env=env)
    finally:
        sh("git checkout -- .", cwd=wt)
    ok = rc0 == 0 and rc1 == 0 and out0 == out1 and not missing
    print("%s: demo clean rc=%d, demo refactored rc=%d, same output: %s, stable tests not passing: %s -> %s" % (name, rc0, rc1, out0 == out1, missing, "CONFIRMED (harmless)" if ok else "REJECTED"))
    if not ok:
        return 1
    d = os.path.join(VERIF, "seeded", name)
    os.makedirs(d, exist_ok=True)
    shutil.copy(diff, os.path.join(d, "patch.diff"))
    shutil.copy(demo, os.path.join(d, "demo.py"))
    json.dump({"property": pid, "kind": "behaviour-preserving refactoring", "origin": "independent sub-agent given only the property text",
               "description": open(meta).read().strip(),
               "confirmed": {"demo_exit_clean_tree": rc0, "demo_exit_with_change": rc1, "demo_output_identical": True, "stable_tests_failing_with_change": missing}, "checks": {}},
              open(os.path.join(d, "meta.json"), "w"), indent=1)
    return 0


def run(name, pids):
    d = os.path.join(VERIF, "seeded", name)
    meta = json.load(open(os.path.join(d, "meta.json")))
    pids = pids or [meta["property"]]
    rc, out = sh("git -C /repo status --porcelain")
    if out.strip():
        print("/repo is not clean:", out); return 2
    rc, out = sh("git -C /repo apply %s" % os.path.join(d, "patch.diff"))
    if rc != 0:
        print("apply failed", out); return 2
    saved = {}
    for pid in pids:       # evidence belongs to runs on the unchanged tree: keep it across the seeded run
        ev = os.path.join(VERIF, "evidence", pid + ".json")
        saved[ev] = open(ev, "rb").read() if os.path.exists(ev) else None
    try:
        for pid in pids:
            t = time.time()
            rc, out = sh("%s harness/check.py %s --tier quick" % (PY, pid), cwd=VERIF)
            lines = [l for l in out.splitlines() if l.startswith(("VIOLATION", "KNOWN-FINDING", "HARNESS FAULT", pid + " "))]
            detail = ""
            for l in lines:
                if l.startswith("VIOLATION") and "replay=" in l:
                    try:
                        rp = json.load(open(l.split("replay=")[1].split()[0]))
                        detail = (rp.get("reason") or rp.get("theorem") or "")[:300] + " | stream: " + str(rp.get("stream", ""))[:120]
                    except Exception:
                        pass
                    break
            meta["checks"][pid] = {"exit": rc, "lines": lines[:6], "first_replay_reason": detail, "wall_s": round(time.time() - t, 1)}
            print(name, pid, "exit", rc, "|", "; ".join(lines[:3])[:300], "|", detail[:200])
    finally:
        sh("git -C /repo checkout -- .")
        sh("rm -f %s/replays/*.json" % VERIF)
        for ev, data in saved.items():
            if data is not None:
                with open(ev, "wb") as f:
                    f.write(data)
    json.dump(meta, open(os.path.join(d, "meta.json"), "w"), indent=1)
    return 0


if __name__ == "__main__":
    import signal
    signal.signal(signal.SIGTERM, lambda *a: sys.exit(143))     # so that `finally` undoes the applied patch
    if sys.argv[1] == "confirm":
        sys.exit(confirm(*sys.argv[2:6]))
    if sys.argv[1] == "confirm_harmless":
        sys.exit(confirm_harmless(*sys.argv[2:5]))
    sys.exit(run(sys.argv[2], sys.argv[3:]))

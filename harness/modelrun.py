"""Run cases through the extracted model (build_model).  ed25519 is an oracle: the driver reports
misses, this module answers them with pyca/cryptography called directly (never through /repo)
and reruns the case."""
import os
import subprocess

from cryptography.exceptions import InvalidSignature
from cryptography.hazmat.primitives.asymmetric.ed25519 import Ed25519PrivateKey, Ed25519PublicKey

HERE = os.path.dirname(os.path.abspath(__file__))
BINARY = os.path.join(os.path.dirname(HERE), "build", "model")


def ed_verify(k, m, s):
    try:
        Ed25519PublicKey.from_public_bytes(k).verify(s, m)
        return True
    except InvalidSignature:
        return False
    except ValueError:
        return False


def ed_pub(seed):
    return Ed25519PrivateKey.from_private_bytes(seed).public_key().public_bytes_raw()


def ed_sign(seed, m):
    return Ed25519PrivateKey.from_private_bytes(seed).sign(m)


class Model:
    def __init__(self, binary=BINARY):
        self.p = subprocess.Popen(["bash", "-c", "ulimit -s unlimited 2>/dev/null; export OCAMLRUNPARAM=s=32M; exec " + binary],
                                  stdin=subprocess.PIPE, stdout=subprocess.PIPE, text=True, bufsize=1)
        self.n = 0
        self.oracle_log = []      # every oracle line sent (replayable; also used by the kernel path)
        self.queries = {"V": 0, "P": 0, "S": 0, "H": 0}

    def close(self):
        try:
            self.p.stdin.close()
            self.p.wait(timeout=10)
        except Exception:
            self.p.kill()

    def _answer(self, parts):
        kind = parts[0]
        self.queries[kind] += 1
        if kind == "V":
            k, m, s = (bytes.fromhex(x) for x in (parts[1], parts[2] if len(parts) > 2 else "", parts[3] if len(parts) > 3 else ""))
            line = "V %s %s %s %d" % (k.hex(), m.hex(), s.hex(), 1 if ed_verify(k, m, s) else 0)
        elif kind == "H":
            import hashlib
            m = bytes.fromhex(parts[1]) if len(parts) > 1 else b""
            line = "H %s %s" % (m.hex(), hashlib.sha256(m).hexdigest())
        elif kind == "P":
            sd = bytes.fromhex(parts[1])
            line = "P %s %s" % (sd.hex(), ed_pub(sd).hex())
        else:
            sd = bytes.fromhex(parts[1])
            m = bytes.fromhex(parts[2]) if len(parts) > 2 else b""
            line = "S %s %s %s" % (sd.hex(), m.hex(), ed_sign(sd, m).hex())
        self.oracle_log.append(line)
        self.p.stdin.write(line + "\n")

    def run1(self, wire_case):
        """wire case text -> wire outcome text"""
        for _ in range(200):
            self.n += 1
            cid = str(self.n)
            self.p.stdin.write("C %s %s\n" % (cid, wire_case))
            self.p.stdin.flush()
            misses = []
            while True:
                line = self.p.stdout.readline()
                if not line:
                    raise RuntimeError("model driver died on case: %s" % wire_case[:200])
                line = line.rstrip("\n")
                if line.startswith("M "):
                    misses.append(line.split(" ")[2:])
                elif line.startswith("R " + cid + " "):
                    out = line[len(cid) + 3:]
                    break
                else:
                    raise RuntimeError("unexpected driver output: " + line[:200])
            if not misses:
                return out
            for m in misses:
                self._answer(m)
        raise RuntimeError("oracle did not converge")

    def run(self, wire_cases):
        return [self.run1(c) for c in wire_cases]

"""Histories of API calls over a SHARED pool of objects, sequentially or from several threads (C12).
--in file: JSON {"pool": [wire...], "histories": [[[fn, [arg, ...]], ...], ...], "threads": n, "preimport": [module names]}
  arg = {"p": i} (the i-th pool object itself, shared between all calls and threads) | {"w": wire} (decoded afresh)
--out file: JSON {"outcomes": [[outcome per call] per history], "mutations": [...]}"""
import json
import sys
import os
import threading

sys.path.insert(0, os.path.dirname(os.path.abspath(__file__)))


def main():
    inp = sys.argv[sys.argv.index("--in") + 1]
    outp = sys.argv[sys.argv.index("--out") + 1]
    with open(inp) as f:
        job = json.load(f)
    for m in job.get("preimport", []):
        try:
            __import__(m)
        except Exception:
            pass
    import wire
    import impl_worker
    api, classify = impl_worker.load_api(bool(job.get("only_auth")))
    pool = [wire.dec(w) for w in job["pool"]]
    initial = [wire.enc(x) for x in pool]
    mutations = []
    lock = threading.Lock()

    def run_history(hi, calls, out):
        res = []
        for ci, (fn, args) in enumerate(calls):
            a = [pool[x["p"]] if "p" in x else wire.dec(x["w"]) for x in args]
            try:
                r = api[fn](*a)
                try:
                    o = "O" + wire.enc(r)
                except TypeError:
                    o = "O?"
            except BaseException as e:  # noqa
                o = "E" + classify(e)
            res.append(o)
            for x in args:
                if "p" in x:
                    i = x["p"]
                    try:
                        now = wire.enc(pool[i])
                    except Exception:
                        now = "<unencodable>"
                    if now != initial[i]:
                        with lock:
                            mutations.append({"history": hi, "call": ci, "fn": fn, "pool": i})
                        # restore so that one defect is not reported for every later call
                        pool[i] = wire.dec(initial[i])
        out[hi] = res
    out = {}
    n = int(job.get("threads", 0))
    if n > 1:
        sys.setswitchinterval(1e-6)
        hs = list(enumerate(job["histories"]))
        for start in range(0, len(hs), n):
            ts = [threading.Thread(target=run_history, args=(hi, calls, out)) for hi, calls in hs[start:start + n]]
            for t in ts:
                t.start()
            for t in ts:
                t.join()
    else:
        for hi, calls in enumerate(job["histories"]):
            run_history(hi, calls, out)
    # the whole pool must be what it was
    for i, x in enumerate(pool):
        try:
            now = wire.enc(x)
        except Exception:
            now = "<unencodable>"
        if now != initial[i] and not any(m["pool"] == i for m in mutations):
            mutations.append({"history": -1, "call": -1, "fn": "?", "pool": i})
    with open(outp, "w") as f:
        json.dump({"outcomes": [out[i] for i in range(len(job["histories"]))], "mutations": mutations}, f)
    sys.stdout.flush()


if __name__ == "__main__":
    main()

#!/usr/bin/env python3
"""Write the expected source fingerprints into coq/theories/props/Cxx.v (not a registered check; run by hand on a tree
whose behaviour the model has been validated against -- the pinned tree -- after reviewing what changed).
  mkpins.py [coqdir]        default coqdir = /verif/coq"""
import os, re, sys
HERE = os.path.dirname(os.path.abspath(__file__))
sys.path.insert(0, HERE)
import translate_more as TM

BEGIN = "(* BEGIN SOURCE PINS -- written by harness/mkpins.py; the list is what Gen/Pins.v held for the tree the model was validated against *)"
END = "(* END SOURCE PINS *)"


def main():
    coq = sys.argv[1] if len(sys.argv) > 1 else os.path.join(os.path.dirname(HERE), "coq")
    table = TM.pin_table()
    for pid in sorted(TM.PIN_ENTRY):
        p = os.path.join(coq, "theories", "props", pid + ".v")
        s = open(p).read()
        pins = TM.pinned_for(pid, table)
        lit = ";\n   ".join('(U"%s", U"%s")' % x for x in pins)
        block = ("%s\n(* the functions of the package this property depends on (call-graph closure of its entry points), each with the fingerprint of its\n"
                 "   logic (AST without docstrings, annotations, messages, local names): the model and the correspondence runs were validated against\n"
                 "   exactly these; a change of logic in any of them breaks this obligation and the check then searches for a failing input *)\n"
                 "Theorem %s_source_pinned : CCT.Gen.Pins.pinned_%s =\n  [%s].\nProof. reflexivity. Qed.\n%s\n" % (BEGIN, pid, pid, lit, END))
        if BEGIN in s:
            s = s[:s.index(BEGIN)] + block + s[s.index(END) + len(END) + 1:]
        else:
            i = s.index("Print Assumptions")
            s = s[:i] + block + "\n" + s[i:]
            s = s.rstrip("\n") + "\nPrint Assumptions %s_source_pinned.\n" % pid
        if "CCT.Gen Require Pins" not in s:
            j = s.index("From CCT Require Import")
            k = s.index("\n", j)
            extra = "" if re.search(r"From CCT Require Import[^.]*\bPrelude\b", s) else "From CCT Require Import Prelude.\n"
            s = s[:k + 1] + extra + "From CCT.Gen Require Pins.\n" + s[k + 1:]
        open(p, "w").write(s)
        print(pid, len(pins), "functions pinned")


if __name__ == "__main__":
    main()

#!/usr/bin/env python3
"""Print the markdown table of DESIGN.md 13.4 from seeded/*/meta.json (not a registered check)."""
import glob, json, os
VERIF = os.path.dirname(os.path.dirname(os.path.abspath(__file__)))
print("| seed | change (from the sub-agent's description) | detected by | run and not detected by |")
print("|---|---|---|---|")
for d in sorted(glob.glob(os.path.join(VERIF, "seeded", "*"))):
    m = json.load(open(os.path.join(d, "meta.json")))
    det, miss = [], []
    for pid, r in sorted(m.get("checks", {}).items()):
        lines = " ".join(r.get("lines", []))
        if r["exit"] == 1 and "VIOLATION" in lines:
            viol = [l for l in r["lines"] if l.startswith("VIOLATION")]
            concrete = any("no-failing-input-found" not in l for l in viol) or "violation(s)" in lines and any(
                int(x.split(" violation")[0].split()[-1]) > sum(1 for l in viol if "no-failing-input-found" in l) for x in [lines] if " violation(s)" in x)
            det.append("%s (%s)" % (pid, "concrete input" if concrete else "obligation/correspondence only"))
        else:
            miss.append(pid)
    desc = m["description"].replace("\n", " ").replace("|", "/")[:230]
    print("| %s | %s | %s | %s |" % (os.path.basename(d), desc, ", ".join(det) or "-", ", ".join(miss) or "-"))

#!/usr/bin/env python3
"""Print the markdown table of DESIGN.md 13.4 from seeded/*/meta.json (not a registered check)."""
import glob, json, os, re
VERIF = os.path.dirname(os.path.dirname(os.path.abspath(__file__)))
print("| seed | change (from the sub-agent's description) | detected by | run and not detected by |")
print("|---|---|---|---|")
for d in sorted(glob.glob(os.path.join(VERIF, "seeded", "*"))):
    m = json.load(open(os.path.join(d, "meta.json")))
    det, miss = [], []
    for pid, r in sorted(m.get("checks", {}).items()):
        lines = " ".join(r.get("lines", []))
        if r["exit"] == 1 and "VIOLATION" in lines:
            viol = [l for l in r["lines"] if l.startswith("VIOLATION")]
            nofail = sum(1 for l in viol if "no-failing-input-found" in l)
            m2 = re.search(r"(\d+) violation\(s\)", lines)
            total = int(m2.group(1)) if m2 else len(viol)
            concrete = any("no-failing-input-found" not in l for l in viol)
            det.append("%s (%s)" % (pid, "concrete input" if concrete else "obligation/correspondence only"))
        else:
            miss.append(pid)
    desc = m["description"].replace("\n", " ").replace("|", "/")[:230]
    if m.get("kind", "").startswith("behaviour-preserving"):
        desc = "(BEHAVIOUR-PRESERVING refactoring) " + desc[:190]
    print("| %s | %s | %s | %s |" % (os.path.basename(d), desc, ", ".join(det) or "-", ", ".join(miss) or "-"))

"""Envelope / signature-entry generators and the implementation-independent counting oracle
shared by C01, C02, C03, C05, C06, C09."""
import hashlib
import json
import re
import struct

from cryptography.exceptions import InvalidSignature
from cryptography.hazmat.primitives.asymmetric.ed25519 import Ed25519PublicKey

from gen import SEEDS, PUBHEX
from modelrun import ed_sign

HEX64 = re.compile(r"[0-9a-f]{64}\Z")
HEX128 = re.compile(r"[0-9a-f]{128}\Z")
HEX40 = re.compile(r"[0-9a-f]{40}\Z")
HEXSTR = re.compile(r"(?:[0-9a-f]{2})+\Z")
HDR = bytes.fromhex("04001608001d162104f075dd2f6f4cb3bd76134bbb81b6ca16ef9cd58905025f0bf546")


def canon(v):
    """canonical bytes, computed with the json module directly (never through /repo)"""
    return json.dumps(v, indent=2, sort_keys=True).encode("utf-8")


def frame(data, hdr):
    return data + hdr + b"\x04\xff" + struct.pack(">I", len(hdr))


def raw_sig(i, payload):
    return {"signature": ed_sign(SEEDS[i], canon(payload)).hex()}


def gpg_sig(i, payload, hdr=HDR, see_also=False):
    d = {"other_headers": hdr.hex(), "signature": ed_sign(SEEDS[i], hashlib.sha256(frame(canon(payload), hdr)).digest()).hex()}
    if see_also:
        d["see_also"] = "f075dd2f6f4cb3bd76134bbb81b6ca16ef9cd589"
    return d


def verify(keyhex, msg, sighex):
    try:
        Ed25519PublicKey.from_public_bytes(bytes.fromhex(keyhex)).verify(bytes.fromhex(sighex), msg)
        return True
    except InvalidSignature:
        return False


def is_raw_shape(v):
    return type(v) is dict and set(v) == {"signature"} and type(v["signature"]) is str and HEX128.match(v["signature"]) is not None


def is_gpg_shape(v):
    return (type(v) is dict and set(v) in ({"signature", "other_headers"}, {"signature", "other_headers", "see_also"})
            and type(v["signature"]) is str and HEX128.match(v["signature"]) is not None
            and type(v["other_headers"]) is str and HEXSTR.match(v["other_headers"]) is not None
            and ("see_also" not in v or (type(v["see_also"]) is str and HEX40.match(v["see_also"]) is not None)))


def counting_keys(signable, K, gpg):
    """set of distinct authorized canonical keys having a valid entry in the given mode (declared semantics)"""
    data = canon(signable["signed"])
    good = set()
    for k, v in signable["signatures"].items():
        if not (type(k) is str and HEX64.match(k)) or k not in K:
            continue
        if gpg:
            if is_gpg_shape(v) and verify(k, hashlib.sha256(frame(data, bytes.fromhex(v["other_headers"]))).digest(), v["signature"]):
                good.add(bytes.fromhex(k))
        else:
            if (is_raw_shape(v) or is_gpg_shape(v)) and verify(k, data, v["signature"]):
                good.add(bytes.fromhex(k))
    return good


def args_wellformed(signable, K, t):
    return (type(signable) is dict and set(signable) == {"signatures", "signed"} and type(signable["signatures"]) is dict
            and type(signable["signed"]) in (dict, list, tuple, str, int, float, bool, type(None))
            and type(K) is list and all(type(k) is str and HEX64.match(k) for k in K)
            and isinstance(t, int) and t >= 1)


def truthy(g):
    return bool(g)


# ---- entry kinds: (name, function(signer index, payload, other payload) -> (key, value))
def flip(hexs, pos=5):
    c = hexs[pos]
    return hexs[:pos] + ("0" if c != "0" else "1") + hexs[pos + 1:]


def mixcase(h):
    """upper-case the first letter only (the result is neither all-lower nor all-upper when it has >= 2 letters)"""
    for i, c in enumerate(h):
        if c.isalpha():
            rest = h[i + 1:]
            if not any(x.isalpha() for x in rest):
                return h[:i] + c.upper() + rest        # single letter: all-upper; callers get an upper spelling then
            return h[:i] + c.upper() + rest
    return h


KEY_SPELLINGS = {
    "canon": lambda k: k,
    "upper": lambda k: k.upper(),
    "mixed": lambda k: mixcase(k),                      # one letter in upper case: a spelling str.isupper()/islower() tests miss
    "nl_for_last": lambda k: k[:-1] + "\n",             # right length, line feed as last character (a `$`-anchored regex accepts it)
    "bytes": lambda k: k.encode(),                      # the same characters as a byte string
    "lead_ws": lambda k: " " + k,
    "trail_nl": lambda k: k + "\n",
    "inner_ws": lambda k: k[:2] + " " + k[2:],
    "0x": lambda k: "0x" + k,
    "len63": lambda k: k[:-1],
    "len65": lambda k: k + "0",
    "nonhex": lambda k: "g" + k[1:],
    "arabic": lambda k: "".join(chr(0x660 + int(c)) if c.isdigit() else c for c in k),
    "empty": lambda k: "",
    "surrogate": lambda k: "\ud800" + k[1:],
    "fullwidth": lambda k: "ａ" + k[1:] if k[0] == "a" else chr(0xff10 + int(k[0], 16)) + k[1:] if k[0].isdigit() else "ａ" + k[1:],
}


def value_states(i, payload, other_payload, j):
    """signature values for signer i over payload; j is another signer (for mis-filed entries)"""
    r, g = raw_sig(i, payload), gpg_sig(i, payload)
    return {
        "raw": r,
        "raw+gpgfields": {"signature": r["signature"], "other_headers": "04ff"},
        "gpg": g,
        "gpg+see_also": gpg_sig(i, payload, see_also=True),
        "gpg+see_also_unrelated": dict(gpg_sig(i, payload), see_also="ab" * 20),        # the hint names a key that appears nowhere in the hashed headers
        "gpg_hdr_time_only": gpg_sig(i, payload, hdr=bytes.fromhex("040016080006050260000000")),   # a conforming signer may hash the creation time only
        "gpg_hdr1": gpg_sig(i, payload, hdr=b"\x04"),
        # valid per RFC 4880 framing (the trailer counts the octets actually hashed) although the header's own subpacket-length field says otherwise
        "gpg_hdr_len_field_short": gpg_sig(i, payload, hdr=HDR[:4] + b"\x00\x03" + HDR[6:]),
        "gpg_hdr_len_field_long": gpg_sig(i, payload, hdr=HDR[:4] + b"\x16\x08" + HDR[6:]),
        "raw_other_payload": raw_sig(i, other_payload),
        "gpg_other_payload": gpg_sig(i, other_payload),
        "raw_misfiled": raw_sig(j, payload),
        "gpg_misfiled": gpg_sig(j, payload),
        "raw_flip": {"signature": flip(r["signature"])},
        "gpg_flip_sig": dict(g, signature=flip(g["signature"])),
        "gpg_flip_hdr": dict(g, other_headers=flip(g["other_headers"])),
        "sig127": {"signature": r["signature"][:-1]},
        "sig129": {"signature": r["signature"] + "0"},
        "sig_upper": {"signature": r["signature"].upper()},
        "sig_mixed": {"signature": mixcase(r["signature"])},
        "sig_nl_for_last": {"signature": r["signature"][:-1] + "\n"},
        "sig_bytes": {"signature": r["signature"].encode()},
        "gpg_sig_nl_for_last": dict(g, signature=g["signature"][:-1] + "\n"),
        "gpg_sig_mixed": dict(g, signature=mixcase(g["signature"])),
        "gpg_hdr_mixed": dict(g, other_headers=mixcase(g["other_headers"])),
        "gpg_hdr_nl_for_last": dict(g, other_headers=g["other_headers"][:-1] + "\n"),
        "gpg_see_also_nl": dict(g, see_also="f075dd2f6f4cb3bd76134bbb81b6ca16ef9cd589\n"),
        "gpg_see_also_mixed": dict(g, see_also="F075dd2f6f4cb3bd76134bbb81b6ca16ef9cd589"),
        "sig+see_also_only": {"signature": r["signature"], "see_also": "f075dd2f6f4cb3bd76134bbb81b6ca16ef9cd589"},
        "gpg_hdr_empty": dict(g, other_headers=""),
        "gpg_hdr_odd": dict(g, other_headers=g["other_headers"][:-1]),
        "gpg_hdr_upper": dict(g, other_headers=g["other_headers"].upper()),
        "gpg_extra_field": dict(g, extra=1),
        "raw_extra_field": dict(r, extra=1),
        "str": r["signature"], "list": [r["signature"]], "none": None, "int": 5, "empty_dict": {},
        "nonascii": {"signature": "é" * 128}, "nested_junk": {"x": {"y": ["\ud800", 10 ** 30, 1.5]}},
    }


PAYLOADS = [
    {"a": 1, "b": [1, 2.5, None, True], "c": {"z": "é\ud800😀", "y": -0.0}},
    [1, "two", {"three": 3}],
    "just a string",
    42,
    {"type": "root", "x": 1e16, "nan": float("nan")},
    {},
]


# pairs of different JSON values whose canonical bytes differ, but which a lossy / normalising / type-coercing serializer conflates
CONFUSABLE_PAYLOADS = [
    ("stable?", "stable\ud83d"),                 # encode(errors="replace")
    ("stable\ufffd", "stable\ud83d"),
    ("x\ud800", "x\udfff"),                      # two different lone surrogates
    ("caf\u00e9", "cafe\u0301"),                 # NFC / NFD
    ("\u212b", "\u00c5"),                        # Angstrom sign / A with ring (NFC-equal)
    ("\ufb01", "fi"),                            # NFKC
    ("\\u00e9", "\u00e9"),                       # the six characters backslash-u-0-0-e-9 / the character
    ("a", "a\u0000"),
    ("a", "a "),
    ("A", "a"),
    ("1", 1), (1, 1.0), (1, True), (0, False), (0, -0.0), (None, "null"), (None, 0), ([], {}), ("", None),
    (10 ** 16, 1e16), (2 ** 53 + 1, float(2 ** 53)), (0.1 + 0.2, 0.3),
    ({"a": 1, "b": 2}, {"a": 1, "b": 2, "c": None}),
    ([1, 2], [2, 1]), ([1, [2]], [[1], 2]),
    ("\u2028", "\n"), ("\x7f", "\u007f "),
]

"""Generators shared by the property checks."""
import datetime
import math
import sys, os
sys.path.insert(0, os.path.dirname(os.path.abspath(__file__)))
import wire
from wire import Obj
from modelrun import ed_pub, ed_sign

SEEDS = [bytes([i + 1]) * 32 for i in range(8)]
PUBS = [ed_pub(s) for s in SEEDS]
PUBHEX = [p.hex() for p in PUBS]


def interesting_values():
    """the ~45 substitution values of DESIGN 5/C13"""
    return [
        None, True, False, 0, 1, -1, 2, 2 ** 63, 10 ** 400, 1.0, 2.0, 0.5, -0.0, math.nan, math.inf, -math.inf,
        1e15, "", "1", "a" * 64, "b" * 40, "c" * 128, "root", "é", "\ud800", b"", b"ab", bytearray(b"ab"),
        [], [1], ["a" * 64], (), (1,), {}, {"a": 1}, {1: 2}, set(), {1},
        {"signature": "0" * 128}, Obj(1), datetime.timedelta(days=1),
        "2020-01-01T00:00:00Z", [[[[[[[[[[1]]]]]]]]]],
        # near misses of the string grammars: right length with a final line feed, one upper-case letter, the characters as bytes
        "a" * 63 + "\n", "A" + "a" * 63, b"a" * 64, "c" * 127 + "\n", "b" * 39 + "\n", "2020-01-01T00:00:00Z\n", 1e300, 2 ** 1024,
        "04", "04ff", "0400160a", "00" * 300,
        ["type", "metadata_spec_version", "delegations", "expiration", "version", "timestamp"], "type metadata_spec_version delegations expiration version",
        list("ab" * 32), tuple("ab" * 32), 32, 64, [7] * 32, (0,) * 32, [0] * 64,     # sequences / counts that coerce to the right length          # short / long well-formed hex (an OpenPGP header of 1, 2, 4, 300 octets)
    ]


def paths(v, prefix=()):
    """all JSON paths of v (dict keys / list indices), including the root"""
    yield prefix
    if isinstance(v, dict):
        for k in v:
            yield from paths(v[k], prefix + (k,))
    elif isinstance(v, list):
        for i, x in enumerate(v):
            yield from paths(x, prefix + (i,))


def get_at(v, path):
    for p in path:
        v = v[p]
    return v


def deep(v):
    if isinstance(v, dict):
        return {k: deep(x) for k, x in v.items()}
    if isinstance(v, list):
        return [deep(x) for x in v]
    return v


def set_at(v, path, new):
    """copy of v with the value at path replaced"""
    if not path:
        return new
    v = deep(v)
    cur = v
    for p in path[:-1]:
        cur = cur[p]
    cur[path[-1]] = new
    return v


def del_at(v, path):
    v = deep(v)
    cur = v
    for p in path[:-1]:
        cur = cur[p]
    del cur[path[-1]]
    return v

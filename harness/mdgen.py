"""Delegating-metadata generator and an independent, declarative schema checker (the documented
schema of C14, written from the property text / docstring, not from the code)."""
import datetime
import re

from gen import PUBHEX, SEEDS, deep
import envgen as E

TS, EX = "2020-01-01T00:00:00Z", "2030-12-31T23:59:59Z"
SUPPORTED = ("root", "key_mgr")


def delegation(idx, th):
    return {"pubkeys": [PUBHEX[i] for i in idx], "threshold": th}


def md(mtype="root", version=1, delegations=None, timestamp=TS, expiration=EX, spec="0.6.0", **extra):
    d = {"type": mtype, "version": version, "metadata_spec_version": spec, "timestamp": timestamp,
         "expiration": expiration, "delegations": delegations if delegations is not None else {}}
    d.update(extra)
    for k in [k for k, v in d.items() if v is Ellipsis]:
        del d[k]
    return d


def root_md(version, rk, rt, kk=(4,), kt=1, **kw):
    return md("root", version, {"root": delegation(rk, rt), "key_mgr": delegation(kk, kt)}, **kw)


def envelope(signed, signers=(), mode="gpg", states=None):
    """signers: indices into SEEDS; states: {index: state name from envgen.value_states}"""
    sigs = {}
    for i in signers:
        st = (states or {}).get(i)
        if st is None:
            sigs[PUBHEX[i]] = E.gpg_sig(i, signed) if mode == "gpg" else E.raw_sig(i, signed)
        else:
            sigs[PUBHEX[i]] = E.value_states(i, signed, {"other": 1}, (i + 1) % 4)[st]
    return {"signatures": sigs, "signed": signed}


RESPELL = ("mixed", "upper", "nl_for_last", "trail_nl", "lead_ws")


def respelled(i, th, spellings, extra=()):
    """a delegation listing signer i's key under its canonical and alternative spellings (plus other signers)"""
    ks = [PUBHEX[i]] + [E.KEY_SPELLINGS[sp](PUBHEX[i]) for sp in spellings] + [PUBHEX[j] for j in extra]
    return {"pubkeys": ks, "threshold": th}


def respell_signatures(U, i, spellings):
    """file signer i's (single) signature under each alternative spelling as well"""
    U = {"signatures": dict(U["signatures"]), "signed": U["signed"]}
    for sp in spellings:
        U["signatures"][E.KEY_SPELLINGS[sp](PUBHEX[i])] = U["signatures"][PUBHEX[i]]
    return U


# ------------------------------------------------------------------ independent schema
ND = r"\d"   # Python's \d on str patterns = Unicode Nd, exactly CPython's strptime notion
UTC_RE = re.compile(r"(\d\d\d\d)-(1[0-2]|0[1-9]|[1-9])-(3[01]|[12]\d|0[1-9]|[1-9]| [1-9])T(2[0-3]|[0-1]\d|\d):([0-5]\d|\d):(6[0-1]|[0-5]\d|\d)Z", re.I)


def utc_ok(s):
    if type(s) is not str:
        return False
    m = UTC_RE.fullmatch(s)
    if not m:
        # fullmatch explores all alternatives; strptime takes the first match then requires the end
        return False
    y, mo, d, h, mi, se = (int(x) for x in m.groups())
    try:
        datetime.datetime(y, mo, d, h, mi, se)
        return True
    except ValueError:
        return False


def natural(v):
    """integer-valued and >= 1 (Python int, bool, integral float)"""
    if type(v) in (int, bool):
        return v >= 1
    if type(v) is float:
        return v == v and v not in (float("inf"), float("-inf")) and v == int(v) and v >= 1
    return False


def delegation_ok(d):
    return (type(d) is dict and set(d) == {"pubkeys", "threshold"} and type(d["pubkeys"]) is list
            and all(type(k) is str and E.HEX64.match(k) for k in d["pubkeys"])
            and len(set(d["pubkeys"])) == len(d["pubkeys"]) and natural(d["threshold"]))


def signed_ok(c):
    if type(c) is not dict:
        return False
    for f in ("type", "metadata_spec_version", "delegations", "expiration"):
        if f not in c:
            return False
    if type(c["type"]) is not str or c["type"] not in SUPPORTED:
        return False
    if type(c["metadata_spec_version"]) is not str:
        return False
    dl = c["delegations"]
    if type(dl) is not dict or not all(type(k) is str and delegation_ok(v) for k, v in dl.items()):
        return False
    if not utc_ok(c["expiration"]):
        return False
    if "timestamp" not in c and "version" not in c:
        return False
    if c["type"] == "root" and "version" not in c:
        return False
    if "timestamp" in c and not utc_ok(c["timestamp"]):
        return False
    if "version" in c and not natural(c["version"]):
        return False
    return True


def dm_ok(v):
    return (type(v) is dict and set(v) == {"signatures", "signed"} and type(v["signatures"]) is dict
            and all(E.is_raw_shape(s) or E.is_gpg_shape(s) for s in v["signatures"].values())
            and signed_ok(v["signed"]))


def int_of(v):
    return int(v)


def root_rhs(T, U):
    """right-hand side of the C03 iff, with independent crypto"""
    if not (dm_ok(T) and dm_ok(U)):
        return False
    ts, us = T["signed"], U["signed"]
    if ts["type"] != "root" or us["type"] != "root":
        return False
    if "root" not in ts["delegations"] or "root" not in us["delegations"]:
        return False
    if int_of(ts["version"]) + 1 != us["version"]:
        return False
    for rule in (ts["delegations"]["root"], us["delegations"]["root"]):
        th = rule["threshold"]
        if not isinstance(th, int):      # a float threshold is refused by the envelope verifier (TypeError)
            return False
        if len(E.counting_keys(U, rule["pubkeys"], True)) < th:
            return False
    return True


def delegation_rhs(name, U, T, gpg):
    """right-hand side of the C05 iff"""
    if type(name) is not str or gpg not in (True, False) or not dm_ok(T):
        return False
    if not (type(U) is dict and set(U) == {"signatures", "signed"} and type(U["signatures"]) is dict
            and type(U["signed"]) in (dict, list, tuple, str, int, float, bool, type(None))):
        return False
    if signed_ok(U["signed"]) and U["signed"]["type"] != name:
        return False
    dl = T["signed"]["delegations"]
    if name not in dl:
        return False
    th = dl[name]["threshold"]
    if not isinstance(th, int):
        return False
    try:
        return len(E.counting_keys(U, dl[name]["pubkeys"], bool(gpg))) >= th
    except (TypeError, ValueError):
        return False

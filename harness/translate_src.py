"""Tie A, semantic half: regenerate coq/theories/Gen/Source.v -- functions of /repo/conda_content_trust/common.py as terms of
the deep embedding of theories/PySrc.v -- from Python's own ast, on every run.  proofs/SourceFacts.v proves, against this
text, that the hand-written model (Formats.v) computes what the interpreter of PySrc.v computes on it.

Fail-closed: a construct outside the subset becomes EUnsupported/SUnsupported (the interpreter answers Unmodelled on it, so
nothing can be proved about the function); a function is listed in `program` only if it and every function of the package
it calls translate completely and the call graph among them has no cycle.  Dropped, as stated in PySrc.v: docstrings, type
annotations, the arguments of raised exceptions (messages), `from None`."""
import ast
import os
import re
import sys

REPO = os.environ.get("CCT_REPO", "/repo")
HERE = os.path.dirname(os.path.abspath(__file__))
OUT = os.path.join(os.path.dirname(HERE), "coq", "theories", "Gen", "Source.v")
MODULES = ["common", "signing", "authentication"]      # later modules may call the functions and use the constants they import by name from earlier ones
BUILTIN_CALLS = {"len", "sorted", "set", "int", "all"}
TYPE_NAMES = {"dict", "list", "tuple", "str", "int", "float", "bool", "bytes", "set"}
ISINSTANCE_CLASSES = {"str", "dict", "list", "timedelta", "bytes"}
CMP = {ast.Eq: "CEq", ast.NotEq: "CNotEq", ast.Lt: "CLt", ast.LtE: "CLtE", ast.Gt: "CGt", ast.GtE: "CGtE", ast.In: "CIn", ast.NotIn: "CNotIn"}


def cstring(s):
    return '"%s"' % s.replace('"', '""')


def ustr(s):
    if re.fullmatch(r"[A-Za-z0-9_ .\-]*", s):
        return '(U"%s")' % s
    return "[%s]" % "; ".join(str(ord(c)) for c in s)


class Tr:
    def __init__(self, fnames, type_tuples=None, str_lists=None):
        self.str_lists = str_lists or {}       # module-level NAME = ["a", "b"]: lists/tuples of str constants
        self.extra_builtins = set()            # names imported from the standard library that the interpreter knows (deepcopy)
        self.sigs = {}                         # package function -> parameter names (for keyword arguments)
        self.fnames = fnames          # functions of the module
        self.type_tuples = type_tuples or {}   # module-level NAME = (dict, list, ...): tuples/lists of builtin classes
        self.unsupported = []
        self.calls = set()
        self.locals = set()

    def bad_e(self, what):
        self.unsupported.append(what)
        return "(EUnsupported %s)" % cstring(what)

    def bad_s(self, what):
        self.unsupported.append(what)
        return "(SUnsupported %s)" % cstring(what)

    def exprs(self, l):
        return "[%s]" % "; ".join(self.expr(x) for x in l)

    def expr(self, e):
        if isinstance(e, ast.Name):
            if e.id in self.locals:
                return "(EName %s)" % cstring(e.id)
            if e.id in self.str_lists:
                return "(EList [%s])" % "; ".join("(EStr %s)" % ustr(x) for x in self.str_lists[e.id])      # module constant, inlined
            return self.bad_e("global name " + e.id)
        if isinstance(e, ast.Constant):
            v = e.value
            if v is None:
                return "ENone"
            if isinstance(v, bool):
                return "(EBool %s)" % ("true" if v else "false")
            if isinstance(v, int):
                return "(EInt (%d)%%Z)" % v
            if isinstance(v, str):
                return "(EStr %s)" % ustr(v)
            return self.bad_e("constant " + type(v).__name__)
        if isinstance(e, ast.Call):
            f = e.func
            if e.keywords and isinstance(f, ast.Name) and f.id in self.fnames and f.id in self.sigs and f.id not in self.locals \
                    and not any(isinstance(a, ast.Starred) for a in e.args) and all(k.arg is not None for k in e.keywords):
                # keyword arguments of a call of a package function: put in positional order through its signature (every parameter given)
                params = self.sigs[f.id]
                kw = {k.arg: k.value for k in e.keywords}
                rest = params[len(e.args):]
                if len(e.args) <= len(params) and set(kw) == set(rest):
                    self.calls.add(f.id)
                    return "(ECall %s %s)" % (cstring(f.id), self.exprs(list(e.args) + [kw[p_] for p_ in rest]))
                return self.bad_e("keyword call not covering the signature")
            if e.keywords or any(isinstance(a, ast.Starred) for a in e.args):
                return self.bad_e("call with keywords/star")
            if isinstance(f, ast.Name):
                if f.id == "isinstance" and len(e.args) == 2 and isinstance(e.args[1], ast.Name) and e.args[1].id in ISINSTANCE_CLASSES:
                    return "(EIsInstance %s %s)" % (self.expr(e.args[0]), cstring(e.args[1].id))
                if f.id == "hasattr" and len(e.args) == 2 and isinstance(e.args[1], ast.Constant) and isinstance(e.args[1].value, str):
                    return "(EHasAttr %s %s)" % (self.expr(e.args[0]), cstring(e.args[1].value))
                if (f.id == "list" and len(e.args) == 1 and isinstance(e.args[0], ast.Call) and isinstance(e.args[0].func, ast.Attribute)
                        and e.args[0].func.attr == "keys" and not e.args[0].args and not e.args[0].keywords):
                    return "(ECall %s [%s])" % (cstring("list(keys)"), self.expr(e.args[0].func.value))     # list(d.keys()), as one builtin
                if f.id in self.locals:
                    return self.bad_e("call of a local")
                if f.id in self.fnames:
                    self.calls.add(f.id)
                    return "(ECall %s %s)" % (cstring(f.id), self.exprs(e.args))
                if f.id in BUILTIN_CALLS or f.id in self.extra_builtins:
                    return "(ECall %s %s)" % (cstring(f.id), self.exprs(e.args))
                return self.bad_e("call of " + f.id)
            if isinstance(f, ast.Attribute):
                if isinstance(f.value, ast.Name) and f.value.id not in self.locals:
                    if (f.value.id, f.attr) == ("bytes", "fromhex"):
                        return "(ECall %s %s)" % (cstring("bytes.fromhex"), self.exprs(e.args))
                    if (f.value.id, f.attr) == ("datetime", "strptime") and len(e.args) == 2:
                        return "(ECall %s %s)" % (cstring("datetime.strptime"), self.exprs(e.args))
                    return self.bad_e("call of %s.%s" % (f.value.id, f.attr))
                return "(EMeth %s %s %s)" % (self.expr(f.value), cstring(f.attr), self.exprs(e.args))
            return self.bad_e("call of an expression")
        if isinstance(e, ast.Compare) and len(e.ops) == 1 and isinstance(e.ops[0], ast.NotIn) and isinstance(e.left, ast.Call) \
                and isinstance(e.left.func, ast.Name) and e.left.func.id == "type":
            # type(x) not in NAME  =  not (type(x) in NAME)
            pos = ast.Compare(left=e.left, ops=[ast.In()], comparators=e.comparators)
            inner = self.expr(pos)
            return "(ENot %s)" % inner
        if isinstance(e, ast.Compare):
            # type(x) in NAME, NAME a module-level tuple of builtin classes
            if (len(e.ops) == 1 and isinstance(e.ops[0], ast.In) and isinstance(e.left, ast.Call) and isinstance(e.left.func, ast.Name)
                    and e.left.func.id == "type" and len(e.left.args) == 1 and not e.left.keywords
                    and isinstance(e.comparators[0], ast.Name) and e.comparators[0].id in self.type_tuples
                    and e.comparators[0].id not in self.locals and "type" not in self.locals):
                return "(ETypeIn %s [%s])" % (self.expr(e.left.args[0]), "; ".join(cstring(n) for n in self.type_tuples[e.comparators[0].id]))
            if len(e.ops) != 1 or type(e.ops[0]) not in CMP:
                return self.bad_e("comparison " + "/".join(type(o).__name__ for o in e.ops))
            return "(ECmp %s %s %s)" % (CMP[type(e.ops[0])], self.expr(e.left), self.expr(e.comparators[0]))
        if isinstance(e, ast.BoolOp):
            c = "EAnd" if isinstance(e.op, ast.And) else "EOr"
            parts = [self.expr(x) for x in e.values]
            acc = parts[-1]
            for p in reversed(parts[:-1]):
                acc = "(%s %s %s)" % (c, p, acc)
            return acc
        if isinstance(e, ast.UnaryOp) and isinstance(e.op, ast.Not):
            return "(ENot %s)" % self.expr(e.operand)
        if isinstance(e, ast.Subscript) and not isinstance(e.slice, (ast.Slice, ast.Tuple)):
            return "(ESub %s %s)" % (self.expr(e.value), self.expr(e.slice))
        if isinstance(e, ast.List):
            return "(EList %s)" % self.exprs(e.elts)
        if isinstance(e, ast.Set):
            return "(ESet %s)" % self.exprs(e.elts)
        if isinstance(e, ast.Tuple):
            return "(ETuple %s)" % self.exprs(e.elts)
        if isinstance(e, ast.BinOp) and isinstance(e.op, ast.Add):
            return "(EAdd %s %s)" % (self.expr(e.left), self.expr(e.right))
        if isinstance(e, ast.Dict):
            if all(k is not None for k in e.keys):
                return "(EDict [%s])" % "; ".join("(%s, %s)" % (self.expr(k), self.expr(v)) for k, v in zip(e.keys, e.values))
            return self.bad_e("dict display with **")
        if isinstance(e, ast.ListComp):
            if len(e.generators) == 1 and not e.generators[0].ifs and not e.generators[0].is_async and isinstance(e.generators[0].target, ast.Name):
                g = e.generators[0]
                it = self.expr(g.iter)
                shadow = g.target.id in self.locals
                self.locals.add(g.target.id)
                elt = self.expr(e.elt)
                if not shadow:
                    self.locals.discard(g.target.id)
                return "(EListComp %s %s %s)" % (elt, cstring(g.target.id), it)
            return self.bad_e("comprehension form")
        return self.bad_e("expression " + type(e).__name__)

    def stmts(self, l):
        out = []
        for i, s in enumerate(l):
            if isinstance(s, ast.Expr) and isinstance(s.value, ast.Constant) and isinstance(s.value.value, str):
                continue                                  # docstring / bare string
            out.append(self.stmt(s))
        return "[%s]" % "; ".join(out)

    def stmt(self, s):
        if isinstance(s, ast.Expr):
            return "(SExpr %s)" % self.expr(s.value)
        if isinstance(s, ast.Assign):
            if len(s.targets) == 1 and isinstance(s.targets[0], ast.Name):
                v = self.expr(s.value)
                self.locals.add(s.targets[0].id)
                return "(SAssign %s %s)" % (cstring(s.targets[0].id), v)
            return self.bad_s("assignment target")
        if isinstance(s, ast.If):
            return "(SIf %s %s %s)" % (self.expr(s.test), self.stmts(s.body), self.stmts(s.orelse))
        if isinstance(s, ast.Return):
            return "(SReturn %s)" % (self.expr(s.value) if s.value is not None else "ENone")
        if isinstance(s, ast.Raise):
            x = s.exc
            if isinstance(x, ast.Call) and isinstance(x.func, ast.Name):
                return "(SRaise %s)" % cstring(x.func.id)
            if isinstance(x, ast.Name) and x.id not in self.locals:
                return "(SRaise %s)" % cstring(x.id)
            return self.bad_s("raise form")
        if isinstance(s, ast.Try):
            if s.finalbody:
                return self.bad_s("try with finally")
            hs = []
            for h in s.handlers:
                if h.name is not None:
                    return self.bad_s("handler binding a name")
                if isinstance(h.type, ast.Name):
                    cl = [h.type.id]
                elif isinstance(h.type, ast.Tuple) and all(isinstance(x, ast.Name) for x in h.type.elts):
                    cl = [x.id for x in h.type.elts]
                else:
                    return self.bad_s("handler class")
                hs.append("([%s], %s)" % ("; ".join(cstring(c) for c in cl), self.stmts(h.body)))
            if s.orelse:
                body = self.stmts(s.body)
                return "(STryElse %s [%s] %s)" % (body, "; ".join(hs), self.stmts(s.orelse))
            return "(STry %s [%s])" % (self.stmts(s.body), "; ".join(hs))
        if isinstance(s, ast.For):
            if s.orelse or not isinstance(s.target, ast.Name):
                return self.bad_s("for form")
            it = self.expr(s.iter)
            self.locals.add(s.target.id)
            return "(SFor %s %s %s)" % (cstring(s.target.id), it, self.stmts(s.body))
        if isinstance(s, ast.Pass):
            return "SPass"
        if isinstance(s, ast.Assert):
            return "(SAssert %s)" % self.expr(s.test)
        return self.bad_s("statement " + type(s).__name__)


def translate_module(mod, earlier=None):
    """earlier: {"funs": names, "type_tuples": {...}, "str_lists": {...}} of the modules translated before (visible here only when
    imported by name with `from .<module> import NAME`)"""
    earlier = earlier or {"funs": set(), "type_tuples": {}, "str_lists": {}, "sigs": {}}
    tree = ast.parse(open(os.path.join(REPO, "conda_content_trust", mod + ".py")).read())
    funs = {n.name: n for n in tree.body if isinstance(n, ast.FunctionDef)}
    imported, std = set(), set()
    for n in tree.body:
        if isinstance(n, ast.ImportFrom) and n.level == 1 and n.module in MODULES:
            imported |= {a.name for a in n.names if a.asname in (None, a.name)}
        if isinstance(n, ast.ImportFrom) and n.level == 0 and n.module == "copy":
            std |= {a.name for a in n.names if a.name == "deepcopy" and a.asname in (None, "deepcopy")}
    # module-level constants that are tuples/lists of builtin classes, assigned exactly once and never rebound anywhere in the module
    assigned = {}
    for n in ast.walk(tree):
        targets = []
        if isinstance(n, ast.Assign):
            targets = n.targets
        elif isinstance(n, (ast.AugAssign, ast.AnnAssign)):
            targets = [n.target]
        for t in targets:
            for x in ast.walk(t):
                if isinstance(x, ast.Name):
                    assigned[x.id] = assigned.get(x.id, 0) + 1
    type_tuples = {}
    for n in tree.body:
        if isinstance(n, ast.Assign) and len(n.targets) == 1 and isinstance(n.targets[0], ast.Name) and isinstance(n.value, (ast.Tuple, ast.List, ast.Set)):
            names = []
            for x in n.value.elts:
                if isinstance(x, ast.Name) and x.id in TYPE_NAMES:
                    names.append(x.id)
                elif (isinstance(x, ast.Call) and isinstance(x.func, ast.Name) and x.func.id == "type" and len(x.args) == 1
                      and isinstance(x.args[0], ast.Constant) and x.args[0].value is None):
                    names.append("NoneType")
                else:
                    names = None
                    break
            if names and assigned.get(n.targets[0].id) == 1:
                type_tuples[n.targets[0].id] = names
    str_lists = {}
    for n in tree.body:
        if (isinstance(n, ast.Assign) and len(n.targets) == 1 and isinstance(n.targets[0], ast.Name) and isinstance(n.value, (ast.Tuple, ast.List))
                and n.value.elts and all(isinstance(x, ast.Constant) and isinstance(x.value, str) for x in n.value.elts)
                and assigned.get(n.targets[0].id) == 1):
            str_lists[n.targets[0].id] = [x.value for x in n.value.elts]
    res = {}
    for name, fn in funs.items():
        a = fn.args
        for k, v in earlier["type_tuples"].items():
            if k in imported and assigned.get(k, 0) == 0:
                type_tuples.setdefault(k, v)
        for k, v in earlier["str_lists"].items():
            if k in imported and assigned.get(k, 0) == 0:
                str_lists.setdefault(k, v)
        t = Tr(set(funs) | (earlier["funs"] & imported), type_tuples, str_lists)
        t.extra_builtins = set(std)
        if a.vararg or a.kwarg or a.kwonlyargs or a.posonlyargs or fn.decorator_list or not all(isinstance(d_, ast.Constant) for d_ in a.defaults):
            t.unsupported.append("signature")
        t.sigs = {k: [x.arg for x in v.args.args] for k, v in funs.items()}
        t.sigs.update(earlier.get("sigs", {}))
        params = [x.arg for x in a.args]
        t.locals = set(params)
        body = t.stmts(fn.body)
        res[name] = {"params": params, "body": body, "unsupported": t.unsupported, "calls": sorted(t.calls), "line": fn.lineno, "mod": mod,
                     "has_defaults": bool(a.defaults)}
    return res, {"funs": set(funs), "type_tuples": type_tuples, "str_lists": str_lists, "sigs": {k: [x.arg for x in v.args.args] for k, v in funs.items()}}


def select(res):
    """functions that translate completely, call only such functions, and are not on a cycle; callers first"""
    ok = {n for n, r in res.items() if not r["unsupported"] and not r.get("has_defaults")}
    changed = True
    while changed:
        changed = False
        for n in sorted(ok):
            if any(c not in ok for c in res[n]["calls"]):
                ok.discard(n)
                changed = True
    order, state = [], {}

    def visit(n):
        if state.get(n) == 2:
            return True
        if state.get(n) == 1:
            return False
        state[n] = 1
        for c in res[n]["calls"]:
            if not visit(c):
                return False
        state[n] = 2
        order.append(n)                 # callees first
        return True
    acyclic = all(visit(n) for n in sorted(ok, key=lambda n: res[n]["line"]))
    if not acyclic:
        return [], False
    return list(reversed(order)), True  # callers first


def generate():
    lines = ["(* GENERATED by harness/translate_src.py from /repo -- do not edit. *)",
             "From Coq Require Import String.", "From CCT Require Import Prelude PySrc.", "Open Scope N_scope.", "Open Scope string_scope.", ""]
    res, ctx_acc, clash = {}, {"funs": set(), "type_tuples": {}, "str_lists": {}, "sigs": {}}, []
    for mi, mod in enumerate(MODULES):
        r, c = translate_module(mod, ctx_acc)
        for k, v in r.items():
            v["line"] += 100000 * mi
            if k in res:
                clash.append(k)          # the same function name in two modules: neither is translated
                res[k]["unsupported"].append("name defined in two modules")
            else:
                res[k] = v
        ctx_acc["funs"] |= c["funs"]
        ctx_acc["type_tuples"].update(c["type_tuples"])
        ctx_acc["str_lists"].update(c["str_lists"])
        ctx_acc["sigs"].update(c["sigs"])
    order, acyclic = select(res)
    for n in order:
        r = res[n]
        lines.append("(* %s.py:%d *)" % (r["mod"], r["line"] % 100000))
        lines.append("Definition src_%s : fundef := {| fparams := [%s]; fbody :=\n  %s |}." % (n, "; ".join(cstring(p) for p in r["params"]), r["body"]))
    lines.append("")
    lines.append("(* callers first: every function calls only functions listed after it *)")
    lines.append("Definition program : program := [%s]." % "; ".join("(%s, src_%s)" % (cstring(n), n) for n in order))
    lines.append("Definition call_graph_acyclic : bool := %s." % ("true" if acyclic else "false"))
    lines.append("(* not in the program, and why (first construct outside the subset, or a callee that is not in it) *)")
    skipped = []
    for n in sorted(res, key=lambda n: res[n]["line"]):
        if n not in order:
            why = res[n]["unsupported"][0] if res[n]["unsupported"] else "calls a function that is not in the program"
            skipped.append("(%s, %s)" % (cstring(n), cstring(why)))
    lines.append("Definition not_translated : list (string * string) := [%s]." % ";\n  ".join(skipped))
    lines.append("")
    lines.append("(* entry functions whose own text translates completely but which call package functions outside the program (external callees,")
    lines.append("   e.g. the crypto-bearing verify_signable) or have default parameters: their bodies, to be run with a callee that answers for the externals *)")
    part = []
    for n in sorted(res, key=lambda n: res[n]["line"]):
        r = res[n]
        if n in order or r["unsupported"]:
            continue
        ext = [c for c in r["calls"] if c not in order]
        lines.append("(* %s.py:%d *)" % (r["mod"], r["line"] % 100000))
        lines.append("Definition src_%s : fundef := {| fparams := [%s]; fbody :=\n  %s |}." % (n, "; ".join(cstring(p) for p in r["params"]), r["body"]))
        part.append("(%s, [%s])" % (cstring(n), "; ".join(cstring(c) for c in ext)))
    lines.append("Definition partial_entries : list (string * list string) := [%s]." % "; ".join(part))
    lines.append("(* the same bodies by name (the correspondence harness looks them up here, so that it builds whatever the tree looks like) *)")
    lines.append("Definition entry_bodies : list (string * fundef) := [%s]." % "; ".join("(%s, src_%s)" % (x.split(",")[0][1:], x.split(",")[0][2:-1]) for x in part))
    return "\n".join(lines) + "\n"


if __name__ == "__main__":
    out = sys.argv[1] if len(sys.argv) > 1 else OUT
    txt = generate()
    with open(out, "w") as f:
        f.write(txt)

#!/bin/bash
# run every claimed check (quick unless TIER=thorough) on the current /repo tree and print one line each
cd /verif
TIER=${TIER:-quick}
for p in $(python3 -c "import json; print(' '.join(c['property_id'] for c in json.load(open('MANIFEST.json'))['checks']))"); do
  out=$(timeout ${CHECK_TIMEOUT:-1800} /venv/bin/python harness/check.py $p --tier $TIER 2>&1); rc=$?
  echo "$p rc=$rc $(echo "$out" | grep -E "^(VIOLATION|KNOWN-FINDING|HARNESS|$p )" | tr '\n' ' ' | cut -c1-300)"
done

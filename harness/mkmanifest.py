#!/usr/bin/env python3
"""Writes MANIFEST.json from the table below (kept in one place so it stays valid)."""
import json, os
VERIF = os.path.dirname(os.path.dirname(os.path.abspath(__file__)))
PY = "/venv/bin/python"

NOTE_STD = "Trusted: Coq kernel, translator, extraction (ExtrOcamlBasic only) + OCaml driver with ed25519 oracle tables answered by pyca/cryptography called directly, correspondence harness (generators, wire format, oracles). ed25519/SHA-256/CPython built-ins are modelled or parameters, not verified. Objects overriding dunder methods are outside the value universe."
TECH_STD = "Coq proof (unbounded, all inputs) + extracted-model/implementation correspondence + independent implementation-level oracle"

CLAIMED = {
    "C01": ("Coq theorems (props/C01.v, closed, for every ed_verify/sha256 function): whenever the model of verify_signable returns, there are at least threshold entries of the presented signature map, with pairwise distinct keys (distinct also as decoded bytes), each filed under an authorized 64-lower-hex key, well formed for the mode and accepted by the verification primitive over the canonical bytes of exactly the presented payload (resp. SHA-256 of its RFC 4880 framing); an entry counts iff it is such a valid entry, so unauthorized, malformed, mis-spelled entries never count; acceptance is monotone in the threshold. Tie: extracted model vs implementation on exhaustive entry-kind x key-list x threshold x mode products with relation 'implementation accepts => model accepts', plus an independent counting oracle using pyca/cryptography directly.",
            NOTE_STD + " 'No key counts twice' relies on the Python dict invariant (pairwise distinct keys).", TECH_STD, "5/C01"),
    "C02": ("Coq theorems (props/C02.v, closed): if threshold distinct entries of the map are valid entries (mode-well-formed, authorized key, primitive accepts) the model of verify_signable returns whatever else the map contains; every entry, junk included, yields a boolean (never an error); accept <=> threshold <= number of counting entries, otherwise SignatureError; the verdict is invariant under permutation of entries and of the key list. Tie: relation 'model accepts => implementation accepts' on the C01 product, re-run under stdout encodings utf-8/ascii/latin-1 and in a process that imported only the authentication module, with junk keys containing non-ASCII text and lone surrogates, and on the shipped fixtures.",
            NOTE_STD + " OpenPGP header strings below 4 GiB (struct.pack).", TECH_STD, "5/C02"),
    "C03": ("Coq theorems (props/C03.v, closed): the model of verify_root returns iff both arguments pass the delegating-metadata checker, both declare type root and a root delegation, the new integer version equals the trusted one plus one, and verify_signable in OpenPGP mode succeeds under the trusted root's root keys/threshold and under the new root's own (with C01/C02 giving its meaning); a version mismatch yields MetadataVerificationError; acceptance needs threshold valid entries under the TRUSTED keys whatever the offer declares; the verdict depends on the trusted root only through its view. The successor test of the source (int(v)+1, !=, raise) is re-read from the AST each run. Tie: accept<=>accept between extracted model and implementation over rules x signer subsets x signature states x versions (ints, bools, floats, 2^53 boundary) x types x one-path mutations, plus an independent oracle evaluating the right-hand side with its own schema checker and crypto.",
            NOTE_STD + " Float versions/thresholds with |x| < 1e16.", TECH_STD, "5/C03"),
    "C04": ("Coq theorems (props/C04.v, closed), by induction over arbitrary finite offer sequences: the root held after any history is linked to the initial root by a chain of C03 links; its version equals the initial version plus the number of accepted offers; an offer is accepted only at version+1, so replays and rollbacks are refused; the verdict is a function of (current root, offer). Tie: seeded histories (rotations, threshold changes, replays, skips, self-appointed, insufficient, revoked keys, raw-mode signatures) run through the implementation in one process, again with write/load of the trusted root between steps, and pairwise in fresh processes; verdict sequence and final root bytes must equal the model's.",
            NOTE_STD + " Histories in the correspondence have length <= 12 (quick) / 40 (thorough); the theorem is unbounded. The 'outsider cannot move the root' corollary under ideal-unforgeability premises is listed in DESIGN.md as growth.", "Coq proof by induction over histories + history correspondence", "5/C04"),
    "C05": ("Coq theorems (props/C05.v, closed): the model of verify_delegation returns iff the name is a str, the gpg flag is a bool-like, the trusted metadata passes the checker, the untrusted value is an envelope, the type test on its signed portion passes, the trusted delegations contain exactly that name, and verify_signable succeeds with THAT entry's keys and threshold; an undelegated role gives UnknownRoleError; the verdict depends on the trusted side only through well-formedness and role_rule(name). Tie: accept<=>accept and UnknownRoleError agreement over role sets x requested names (case/space/non-ASCII variants) x payload kinds x all signer subsets x modes, with an independent oracle for the right-hand side.",
            NOTE_STD, TECH_STD, "5/C05"),
    "C06": ("Coq theorems (props/C06.v, closed): for EVERY signature map, an envelope whose signed portion alone is well-formed delegating metadata of another type is never accepted; the type test ignores the signature map; an accepted envelope stays accepted when only its counting entries are kept (verify_signable, verify_delegation); acceptance depends only on the signed value and the set of counting entries. Tie: type-mismatched metadata under decorated signature maps must be rejected by the implementation; every envelope the implementation accepts in the C01/C03/C05 products is stripped with independent crypto and must still be accepted (all three verifiers); implementation accepts => model accepts.",
            NOTE_STD + " Envelopes in the layout {signatures, signed}; the strip theorem for verify_root is covered by the metamorphic run, not yet by a theorem.", TECH_STD + " + metamorphic stripping", "5/C06"),
    "C13": ("Coq theorems (props/C13.v, closed): for ALL Python values of the universe in every argument position and every verification primitive, each checkformat_* validator and the serializer end in {TypeError, ValueError}; verify_signature / verify_gpg_signature in that plus InvalidSignature; verify_signable in {TypeError, ValueError, SignatureError}; verify_delegation and verify_root in the library hierarchy plus TypeError/ValueError -- never KeyError, AttributeError, OverflowError or AssertionError (struct.error only for OpenPGP headers >= 4 GiB, proved); the error map (too few signatures => SignatureError, undelegated role => UnknownRoleError, version or type-for-role mismatch => MetadataVerificationError) is proved; termination is by construction (total Gallina functions over finite containers). Tie: for every public validator and verifier, a valid call and every single mutation at every JSON path of every argument (43 substitute values, deletion, extra field, duplication): implementation exception class = model class, and an oracle for family membership.",
            NOTE_STD + " The explicit Unmodelled outcome (dicts with non-str keys reaching json/sorted, float tokens outside the JSON grammar) is counted per run and excluded from the comparison. RecursionError/MemoryError are outside the model.", TECH_STD, "5/C13"),
    "C14": ("Coq theorems (props/C14.v, closed): checkformat_delegating_metadata v = Ok <-> dm_ok v for ALL values, where dm_ok is a declarative schema written from the documentation (two-field envelope, every signature value raw- or OpenPGP-shaped, supported type, spec-version string, delegations = str -> {pubkeys: distinct 64-lower-hex keys, threshold: integer-valued >= 1} and nothing else, UTC expiration, version or timestamp, version for root, each well formed if present); the same for checkformat_delegation(s) and checkformat_natural_int; removing any required field, taking any field outside its grammar, a third envelope field or a malformed signature entry is rejected; the verifiers stay inside their error families on everything. Tie: accept<=>accept between model and implementation on valid documents (optional-field combinations x roles x signature maps) and every single mutation at every JSON path, ~500 boundary/random date strings and a month-end sweep, every mutation of a delegation; an independent Python schema checker (regex + datetime) is the oracle.",
            NOTE_STD + " 'Integer' is the code's grammar int(x) == x and x >= 1 (True and 2.0 included; DESIGN N2). The UTC grammar is CPython's strptime regexes + datetime range checks as transcribed in Time.v.", TECH_STD, "5/C14"),
    "C16": ("Coq theorems (props/C16.v, closed): for ALL argument tuples and clock reads both builders return or raise TypeError/ValueError; build_delegating_metadata returns iff its five argument checks pass and then returns exactly the arguments (defaults filled in) plus the specification version re-read from the source; whatever it returns for a supported type passes the checker once wrapped; build_root_metadata always delegates exactly root and key_mgr with the given lists and its result is well formed; defaulted timestamp/expiration are the formatted clock read and the clock read plus the expiry distance (365 days, re-read from the AST). Tie: implementation outcome = model outcome (value or exception class) on valid tuples x clock reads at calendar boundaries and every single mutation of every argument; oracle checks schema, verbatim fields, default expiry = timestamp + 365 d, and that threshold-signed built roots are accepted by verify_root as successors and then act as trusted roots.",
            NOTE_STD + " Clock reads are inputs (datetime.utcnow patched in the worker), years 1..9998. The fmt_utc/strptime round trip ('expires strictly after') is validated by the correspondence and an Example, not yet a general theorem.", TECH_STD, "5/C16"),
    "C15": ("Machine-checked Coq theorems (props/C15.v, closed under the global context) state that each leaf validator of the model accepts exactly its grammar (64/128/40 lower-case hex; raw or OpenPGP entry shape), that decoding is injective on accepted keys, that accepted key lists have pairwise distinct key bytes and that predicate and raising forms agree, for ALL Python values of the modelled universe. The model is tied to /repo on every run: lengths are re-read from the AST (C15_lengths_frozen), and the model's executable definitions (extracted to OCaml, sampled again by vm_compute) are run against the implementation on an exhaustive small-scope product of strings/entries with accept<->accept as relation, next to an independent regex oracle.",
            "Trusted: Coq kernel, translator, extraction (ExtrOcamlBasic only) + driver, correspondence harness; CPython's bytes.fromhex/str.isalnum/str.lower are modelled (validated by the correspondence), not verified. Values outside the universe (objects overriding dunder methods) are not covered.",
            "Coq proof (unbounded, all inputs) + translator-checked constants + extracted-model/implementation correspondence", "5/C15"),
}

ALL = ["C%02d" % i for i in range(1, 20)]


def main():
    checks = []
    for pid in ALL:
        if pid not in CLAIMED:
            continue
        text, note, tech, ref = CLAIMED[pid]
        checks.append({
            "property_id": pid,
            "quick_cmd": "%s harness/check.py %s --tier quick" % (PY, pid),
            "thorough_cmd": "%s harness/check.py %s --tier thorough" % (PY, pid),
            "evidence_file": "evidence/%s.json" % pid,
            "replay_cmd_template": "%s harness/check.py --replay {path}" % PY,
            "engine": "coq-model",
            "level_claimed": {"category": "proof", "text": text, "design_ref": "DESIGN.md section " + ref},
            "level_note": note,
            "technique": tech,
        })
    man = {
        "version": 1,
        "setup_cmd": "make -C /verif setup",
        "hooks": {"guard": "CCT_VERIF", "enable": "no hook commits exist; checks set CCT_VERIF=1 in the implementation subprocesses for uniformity only",
                  "baseline_off_cmd": "cd /repo && /venv/bin/python -m pytest -ra -q -p no:cacheprovider --timeout=900 --continue-on-collection-errors",
                  "source_commits": [], "add_only": True},
        "engines": [
            {"name": "coq-model", "path": "coq/theories", "serves_properties": sorted(CLAIMED), "kind_free_text": "hand-written executable Gallina model + property theorems (Coq 8.16.1, stdlib only)"},
            {"name": "translator", "path": "harness/translate.py", "serves_properties": sorted(CLAIMED), "kind_free_text": "Python ast -> coq/theories/Gen/*.v, regenerated on every run"},
            {"name": "correspondence-harness", "path": "harness", "serves_properties": sorted(CLAIMED), "kind_free_text": "extracted OCaml model (build/model) and vm_compute sample vs implementation subprocesses; per-property relation and implementation-level oracle"},
        ],
        "checks": checks,
        "notes": "Exit codes: 0 pass (known findings only), 1 violation (VIOLATION line printed), 2 harness fault. Fix commits in /repo (defects D1..D7, F1) are listed in KNOWN_FINDINGS.txt.",
        "not_applicable": [{"property_id": p, "reason": "check not built yet in this round (work in progress; see DESIGN.md section 5)"} for p in ALL if p not in CLAIMED],
    }
    with open(os.path.join(VERIF, "MANIFEST.json"), "w") as f:
        json.dump(man, f, indent=1)
    print("MANIFEST.json: %d checks, %d not claimed" % (len(checks), len(man["not_applicable"])))


if __name__ == "__main__":
    main()

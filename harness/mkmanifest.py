#!/usr/bin/env python3
"""Writes MANIFEST.json from the table below (kept in one place so it stays valid)."""
import json, os
VERIF = os.path.dirname(os.path.dirname(os.path.abspath(__file__)))
PY = "/venv/bin/python"

CLAIMED = {
    "C15": ("Machine-checked Coq theorems (props/C15.v, closed under the global context) state that each leaf validator of the model accepts exactly its grammar (64/128/40 lower-case hex; raw or OpenPGP entry shape), that decoding is injective on accepted keys, that accepted key lists have pairwise distinct key bytes and that predicate and raising forms agree, for ALL Python values of the modelled universe. The model is tied to /repo on every run: lengths are re-read from the AST (C15_lengths_frozen), and the model's executable definitions (extracted to OCaml, sampled again by vm_compute) are run against the implementation on an exhaustive small-scope product of strings/entries with accept<->accept as relation, next to an independent regex oracle.",
            "Trusted: Coq kernel, translator, extraction (ExtrOcamlBasic only) + driver, correspondence harness; CPython's bytes.fromhex/str.isalnum/str.lower are modelled (validated by the correspondence), not verified. Values outside the universe (objects overriding dunder methods) are not covered.",
            "Coq proof (unbounded, all inputs) + translator-checked constants + extracted-model/implementation correspondence", "5/C15"),
}

ALL = ["C%02d" % i for i in range(1, 20)]


def main():
    checks = []
    for pid in ALL:
        if pid not in CLAIMED:
            continue
        text, note, tech, ref = CLAIMED[pid]
        checks.append({
            "property_id": pid,
            "quick_cmd": "%s harness/check.py %s --tier quick" % (PY, pid),
            "thorough_cmd": "%s harness/check.py %s --tier thorough" % (PY, pid),
            "evidence_file": "evidence/%s.json" % pid,
            "replay_cmd_template": "%s harness/check.py --replay {path}" % PY,
            "engine": "coq-model",
            "level_claimed": {"category": "proof", "text": text, "design_ref": "DESIGN.md section " + ref},
            "level_note": note,
            "technique": tech,
        })
    man = {
        "version": 1,
        "setup_cmd": "make -C /verif setup",
        "hooks": {"guard": "CCT_VERIF", "enable": "no hook commits exist; checks set CCT_VERIF=1 in the implementation subprocesses for uniformity only",
                  "baseline_off_cmd": "cd /repo && /venv/bin/python -m pytest -ra -q -p no:cacheprovider --timeout=900 --continue-on-collection-errors",
                  "source_commits": [], "add_only": True},
        "engines": [
            {"name": "coq-model", "path": "coq/theories", "serves_properties": sorted(CLAIMED), "kind_free_text": "hand-written executable Gallina model + property theorems (Coq 8.16.1, stdlib only)"},
            {"name": "translator", "path": "harness/translate.py", "serves_properties": sorted(CLAIMED), "kind_free_text": "Python ast -> coq/theories/Gen/*.v, regenerated on every run"},
            {"name": "correspondence-harness", "path": "harness", "serves_properties": sorted(CLAIMED), "kind_free_text": "extracted OCaml model (build/model) and vm_compute sample vs implementation subprocesses; per-property relation and implementation-level oracle"},
        ],
        "checks": checks,
        "notes": "Exit codes: 0 pass (known findings only), 1 violation (VIOLATION line printed), 2 harness fault. Fix commits in /repo (defects D1..D7, F1) are listed in KNOWN_FINDINGS.txt.",
        "not_applicable": [{"property_id": p, "reason": "check not built yet in this round (work in progress; see DESIGN.md section 5)"} for p in ALL if p not in CLAIMED],
    }
    with open(os.path.join(VERIF, "MANIFEST.json"), "w") as f:
        json.dump(man, f, indent=1)
    print("MANIFEST.json: %d checks, %d not claimed" % (len(checks), len(man["not_applicable"])))


if __name__ == "__main__":
    main()

#!/usr/bin/env python3
"""Translator (tie A): re-reads /repo with `ast` and regenerates coq/theories/Gen/*.v.

Fail-closed: every extractor looks for a semantic pattern and emits `None` (Coq option) when it
does not find exactly one; the `..._frozen` / `wf_...` lemmas in the Coq development then fail.
Files are rewritten only when their content changes."""
import ast
import os
import sys

REPO = os.environ.get("CCT_REPO", "/repo")
PKG = os.path.join(REPO, "conda_content_trust")
OUT = os.path.join(os.path.dirname(os.path.dirname(os.path.abspath(__file__))), "coq", "theories", "Gen")


def parse(name):
    with open(os.path.join(PKG, name), "rb") as f:
        return ast.parse(f.read(), name)


def func(mod, name):
    for n in ast.walk(mod):
        if isinstance(n, (ast.FunctionDef,)) and n.name == name:
            return n
    return None


def coq_str(s):
    if s is None:
        return "None"
    assert all(32 <= ord(c) < 127 and c != '"' for c in s), s
    return '(Some (U"%s"))' % s


def opt(x, f=str):
    return "None" if x is None else "(Some %s)" % f(x)


def one(xs):
    xs = list(xs)
    return xs[0] if len(xs) == 1 else None


# ---------------------------------------------------------------- constants
def len_compare_constant(fn, ops):
    """the integer constant compared with len(<anything>) inside fn (exactly one such comparison)"""
    if fn is None:
        return None
    found = []
    for n in ast.walk(fn):
        if isinstance(n, ast.Compare) and len(n.ops) == 1 and isinstance(n.ops[0], ops):
            sides = [n.left, n.comparators[0]]
            consts = [s.value for s in sides if isinstance(s, ast.Constant) and type(s.value) is int]
            lens = [s for s in sides if isinstance(s, ast.Call) and isinstance(s.func, ast.Name) and s.func.id == "len"]
            if len(consts) == 1 and len(lens) == 1:
                found.append(consts[0])
    return one(found)


def module_const(mod, name):
    vals = [n.value for n in mod.body if isinstance(n, ast.Assign)
            and any(isinstance(t, ast.Name) and t.id == name for t in n.targets)]
    return one(vals)


TYTAGS = {"dict": "TyDict", "list": "TyList", "tuple": "TyTuple", "str": "TyStr", "int": "TyInt",
          "float": "TyFloat", "bool": "TyBool", "bytes": "TyBytes", "set": "TySet"}


def serializable_types(common):
    v = module_const(common, "SUPPORTED_SERIALIZABLE_TYPES")
    if not isinstance(v, ast.Set):
        return None
    tags = []
    for e in v.elts:
        if isinstance(e, ast.Name) and e.id in TYTAGS:
            tags.append(TYTAGS[e.id])
        elif (isinstance(e, ast.Call) and isinstance(e.func, ast.Name) and e.func.id == "type"
              and len(e.args) == 1 and isinstance(e.args[0], ast.Constant) and e.args[0].value is None):
            tags.append("TyNone")
        else:
            return None
    order = ["TyDict", "TyList", "TyTuple", "TyStr", "TyInt", "TyFloat", "TyBool", "TyNone", "TyBytes", "TySet"]
    return sorted(set(tags), key=order.index)


def dumps_kwargs(common):
    """keyword arguments of the single json dumps call in canonserialize, and the encoding"""
    fn = func(common, "canonserialize")
    if fn is None:
        return None
    calls = [n for n in ast.walk(fn) if isinstance(n, ast.Call)
             and ((isinstance(n.func, ast.Name) and n.func.id == "dumps")
                  or (isinstance(n.func, ast.Attribute) and n.func.attr == "dumps"))]
    c = one(calls)
    if c is None or len(c.args) != 1 or any(k.arg is None for k in c.keywords):
        return None
    kw = {}
    for k in c.keywords:
        if not isinstance(k.value, ast.Constant):
            return None
        kw[k.arg] = k.value.value
    known = {"indent", "sort_keys", "ensure_ascii", "allow_nan", "separators", "default", "skipkeys", "check_circular", "cls"}
    if set(kw) - known:
        return None
    # defaults of json.dumps
    res = {"indent": kw.get("indent", None), "sort_keys": kw.get("sort_keys", False),
           "ensure_ascii": kw.get("ensure_ascii", True), "allow_nan": kw.get("allow_nan", True),
           "plain": all(kw.get(k) is None for k in ("separators", "default", "cls")) and not kw.get("skipkeys", False)}
    encs = [n for n in ast.walk(fn) if isinstance(n, ast.Call) and isinstance(n.func, ast.Attribute)
            and n.func.attr == "encode"]
    e = one(encs)
    enc = None
    if e is not None:
        if len(e.args) == 1 and isinstance(e.args[0], ast.Constant) and not e.keywords:
            enc = str(e.args[0].value).lower().replace("_", "-")
        elif not e.args and not e.keywords:
            enc = "utf-8"
    res["encoding"] = enc
    return res


def gpg_framing(auth):
    """order and constants of the hasher.update calls in verify_gpg_signature"""
    fn = func(auth, "verify_gpg_signature")
    if fn is None:
        return None
    params = [a.arg for a in fn.args.args]
    if len(params) != 3:
        return None
    sigp, keyp, datap = params
    # local name bound to bytes.fromhex(signature["other_headers"])
    hdr_names = set()
    for n in ast.walk(fn):
        if isinstance(n, ast.Assign) and len(n.targets) == 1 and isinstance(n.targets[0], ast.Name):
            v = n.value
            if (isinstance(v, ast.Call) and isinstance(v.func, ast.Attribute) and v.func.attr in ("fromhex", "unhexlify")
                    or isinstance(v, ast.Call) and isinstance(v.func, ast.Name) and v.func.id == "unhexlify"):
                a = v.args[0] if v.args else None
                if (isinstance(a, ast.Subscript) and isinstance(a.value, ast.Name) and a.value.id == sigp
                        and isinstance(a.slice, ast.Constant) and a.slice.value == "other_headers"):
                    hdr_names.add(n.targets[0].id)
    steps = []
    hashname = None
    for n in ast.walk(fn):
        if isinstance(n, ast.Call) and isinstance(n.func, ast.Attribute) and n.func.attr in ("SHA256", "SHA512", "SHA1", "SHA384", "SHA224", "MD5"):
            hashname = n.func.attr if hashname in (None, n.func.attr) else "?"
    body_calls = []
    for st in fn.body:
        for n in ast.walk(st):
            if isinstance(n, ast.Call) and isinstance(n.func, ast.Attribute) and n.func.attr == "update":
                body_calls.append(n)
    for c in body_calls:
        if len(c.args) != 1:
            return None
        a = c.args[0]
        if isinstance(a, ast.Name) and a.id == datap:
            steps.append("FData")
        elif isinstance(a, ast.Name) and a.id in hdr_names:
            steps.append("FHeaders")
        elif isinstance(a, ast.Constant) and isinstance(a.value, bytes):
            steps.append("(FConst [%s])" % "; ".join(str(b) for b in a.value))
        elif (isinstance(a, ast.Call) and isinstance(a.func, ast.Name) and a.func.id == "pack" and len(a.args) == 2
              and isinstance(a.args[0], ast.Constant) and isinstance(a.args[0].value, str)
              and isinstance(a.args[1], ast.Call) and isinstance(a.args[1].func, ast.Name) and a.args[1].func.id == "len"
              and isinstance(a.args[1].args[0], ast.Name) and a.args[1].args[0].id in hdr_names):
            steps.append('(FPackLen (U"%s"))' % a.args[0].value)
        else:
            return None
    # what is verified: public_key.verify(<sig bytes>, <digest name>) where digest = hasher.finalize()
    fin = [n.targets[0].id for n in ast.walk(fn) if isinstance(n, ast.Assign) and len(n.targets) == 1
           and isinstance(n.targets[0], ast.Name) and isinstance(n.value, ast.Call)
           and isinstance(n.value.func, ast.Attribute) and n.value.func.attr == "finalize"]
    ver = [n for n in ast.walk(fn) if isinstance(n, ast.Call) and isinstance(n.func, ast.Attribute) and n.func.attr == "verify"]
    v = one(ver)
    over_digest = (v is not None and len(v.args) == 2 and isinstance(v.args[1], ast.Name) and v.args[1].id in fin)
    return {"steps": steps, "hash": hashname, "over_digest": over_digest}


def version_successor(auth):
    """the comparison  int(<trusted version>) + K  !=  <untrusted version>  in verify_root"""
    fn = func(auth, "verify_root")
    if fn is None:
        return None
    found = []
    for n in ast.walk(fn):
        if isinstance(n, ast.If) and isinstance(n.test, ast.Compare) and len(n.test.ops) == 1:
            t = n.test
            if isinstance(t.left, ast.BinOp) and isinstance(t.left.op, ast.Add) and isinstance(t.left.right, ast.Constant):
                raises = any(isinstance(x, ast.Raise) for x in n.body)
                l = t.left.left
                exact = isinstance(l, ast.Call) and isinstance(l.func, ast.Name) and l.func.id == "int"
                found.append((type(t.ops[0]).__name__, t.left.right.value, raises, exact))
    return one(found)


def exit_codes(cli):
    fn = func(cli, "cli_verify_metadata")
    if fn is None:
        return None
    tries = [n for n in ast.walk(fn) if isinstance(n, ast.Try)]
    if len(tries) != 2:
        return None
    out = []
    for t in tries:
        rets = [n.value.value for n in ast.walk(ast.Module(body=t.body, type_ignores=[])) if isinstance(n, ast.Return)
                and isinstance(n.value, ast.Constant)]
        if len(t.handlers) != 1:
            return None
        h = t.handlers[0]
        hname = h.type.id if isinstance(h.type, ast.Name) else None
        codes = [n.value.value for n in ast.walk(ast.Module(body=h.body, type_ignores=[])) if isinstance(n, ast.Assign)
                 and isinstance(n.targets[0], ast.Name) and n.targets[0].id == "errorcode" and isinstance(n.value, ast.Constant)]
        out.append((one(rets), hname, one(codes)))
    return out


def expiry_days(mc):
    v = module_const(mc, "ROOT_MD_EXPIRY_DISTANCE")
    if (isinstance(v, ast.Call) and isinstance(v.func, ast.Name) and v.func.id == "timedelta" and not v.args
            and len(v.keywords) == 1 and v.keywords[0].arg == "days" and isinstance(v.keywords[0].value, ast.Constant)):
        return v.keywords[0].value.value
    return None


def gen_params():
    common, auth, cli, mc = parse("common.py"), parse("authentication.py"), parse("cli.py"), parse("metadata_construction.py")
    key_len = len_compare_constant(func(common, "checkformat_hex_key"), (ast.NotEq, ast.Eq))
    sig_len = len_compare_constant(func(common, "is_hex_signature"), (ast.NotEq, ast.Eq))
    fpr_len = len_compare_constant(func(common, "checkformat_gpg_fingerprint"), (ast.NotEq, ast.Eq))
    sv = module_const(common, "SECURITY_METADATA_SPEC_VERSION")
    sv = sv.value if isinstance(sv, ast.Constant) and isinstance(sv.value, str) else None
    dm = module_const(common, "SUPPORTED_DELEGATING_METADATA_TYPES")
    dm_types = None
    if isinstance(dm, (ast.List, ast.Tuple, ast.Set)) and all(isinstance(e, ast.Constant) and isinstance(e.value, str) for e in dm.elts):
        dm_types = [e.value for e in dm.elts]
    st = serializable_types(common)
    dk = dumps_kwargs(common)
    fr = gpg_framing(auth)
    vs = version_successor(auth)
    ec = exit_codes(cli)
    ed = expiry_days(mc)

    L = ["(* GENERATED by harness/translate.py from %s -- do not edit. *)" % REPO,
         "From CCT Require Import Prelude.", "Open Scope N_scope.", ""]
    L.append("Definition key_len_src : option nat := %s." % opt(key_len, lambda n: "%d%%nat" % n))
    L.append("Definition sig_len_src : option nat := %s." % opt(sig_len, lambda n: "%d%%nat" % n))
    L.append("Definition fpr_len_src : option nat := %s." % opt(fpr_len, lambda n: "%d%%nat" % n))
    L.append("Definition key_len : nat := match key_len_src with Some n => n | None => 0%nat end.")
    L.append("Definition sig_len : nat := match sig_len_src with Some n => n | None => 0%nat end.")
    L.append("Definition fpr_len : nat := match fpr_len_src with Some n => n | None => 0%nat end.")
    L.append("Definition spec_version_src : option ustr := %s." % coq_str(sv))
    L.append("Definition spec_version : ustr := match spec_version_src with Some s => s | None => [] end.")
    L.append("Definition supported_dm_types : list ustr := [%s]." % "; ".join('U"%s"' % t for t in (dm_types or [])))
    L.append("Definition supported_dm_types_known : bool := %s." % ("true" if dm_types is not None else "false"))
    L.append("Definition serializable_types : list tytag := [%s]." % "; ".join(st or []))
    L.append("Definition serializable_types_known : bool := %s." % ("true" if st is not None else "false"))
    L.append("Definition root_expiry_days_src : option Z := %s." % opt(ed, lambda d: "(%d)%%Z" % d))
    L.append("Definition root_expiry_days : Z := match root_expiry_days_src with Some d => d | None => 0%Z end.")
    L.append("")
    L.append("(* json dumps call of canonserialize: indent, sort_keys, ensure_ascii, allow_nan, no separators/default/cls/skipkeys, encoding *)")
    if dk is None:
        L.append("Definition dumps_kwargs : option (option Z * bool * bool * bool * bool * option ustr) := None.")
    else:
        ind = "None" if dk["indent"] is None or type(dk["indent"]) is not int else "(Some (%d)%%Z)" % dk["indent"]
        b = lambda x: "true" if x else "false"
        L.append("Definition dumps_kwargs : option (option Z * bool * bool * bool * bool * option ustr) := Some (%s, %s, %s, %s, %s, %s)."
                 % (ind, b(dk["sort_keys"] is True), b(dk["ensure_ascii"] is True), b(dk["allow_nan"] is True), b(dk["plain"]), coq_str(dk["encoding"])))
    L.append("")
    L.append("(* digest input of verify_gpg_signature, in order *)")
    L.append("Inductive fstep := FData | FHeaders | FConst (b : list N) | FPackLen (fmt : ustr).")
    if fr is None:
        L.append("Definition gpg_frame_steps : option (list fstep) := None.")
        L.append("Definition gpg_hash : option ustr := None.")
        L.append("Definition gpg_verifies_digest : bool := false.")
    else:
        L.append("Definition gpg_frame_steps : option (list fstep) := Some [%s]." % "; ".join(fr["steps"]))
        L.append("Definition gpg_hash : option ustr := %s." % coq_str(fr["hash"]))
        L.append("Definition gpg_verifies_digest : bool := %s." % ("true" if fr["over_digest"] else "false"))
    L.append("")
    L.append("(* root version successor test: (comparison operator, constant added, raises in the branch, int() applied) *)")
    if vs is None:
        L.append("Definition version_test : option (ustr * Z * bool * bool) := None.")
    else:
        L.append('Definition version_test : option (ustr * Z * bool * bool) := Some (U"%s", (%d)%%Z, %s, %s).'
                 % (vs[0], vs[1], "true" if vs[2] else "false", "true" if vs[3] else "false"))
    L.append("")
    L.append("(* cli_verify_metadata: per try block (success return, caught class, error code) *)")
    if ec is None or any(x is None for t in ec for x in t):
        L.append("Definition verify_exit_codes : option (list (Z * ustr * Z)) := None.")
    else:
        L.append("Definition verify_exit_codes : option (list (Z * ustr * Z)) := Some [%s]."
                 % "; ".join('((%d)%%Z, U"%s", (%d)%%Z)' % t for t in ec))
    return "\n".join(L) + "\n"


def gen_unicode():
    import unicodedata
    starts = []
    c = 0
    ok = True
    while c < 0x110000:
        if unicodedata.category(chr(c)) == "Nd":
            if not all(c + i < 0x110000 and unicodedata.category(chr(c + i)) == "Nd" and unicodedata.digit(chr(c + i)) == i for i in range(10)):
                ok = False
            starts.append(c)
            c += 10
        else:
            c += 1
    if not ok:
        starts = []
    return ("(* GENERATED by harness/translate.py from the running interpreter's unicodedata (%s) -- do not edit. *)\n"
            "From Coq Require Import List NArith.\nImport ListNotations.\nOpen Scope N_scope.\n"
            "(* first code point of every run of ten consecutive Nd digits 0..9 *)\n"
            "Definition nd_run_starts : list N := [%s].\n" % (unicodedata.unidata_version, "; ".join(map(str, starts))))


def write_if_changed(path, text):
    try:
        with open(path) as f:
            if f.read() == text:
                return False
    except FileNotFoundError:
        pass
    tmp = path + ".tmp%d" % os.getpid()
    with open(tmp, "w") as f:
        f.write(text)
    os.replace(tmp, path)
    return True


def main():
    os.makedirs(OUT, exist_ok=True)
    changed = []
    gens = {"Params.v": gen_params, "UnicodeNd.v": gen_unicode}
    try:
        import translate_more
        gens.update(translate_more.GENS)
    except ImportError:
        pass
    try:
        import translate_src

        def _source():
            # fail closed: if the translator itself trips over the tree, emit an empty program (every source-tie obligation then breaks,
            # the model and the other checks still build)
            try:
                return translate_src.generate()
            except Exception as e:  # noqa
                return ("(* GENERATED by harness/translate_src.py from /repo -- do not edit.  The translator failed: %s *)\n"
                        "From Coq Require Import String.\nFrom CCT Require Import Prelude PySrc.\nOpen Scope N_scope.\nOpen Scope string_scope.\n"
                        "Definition program : program := [].\nDefinition call_graph_acyclic : bool := false.\n"
                        "Definition not_translated : list (string * string) := [].\nDefinition partial_entries : list (string * list string) := [].\n"
                        "Definition entry_bodies : list (string * fundef) := [].\n" % (type(e).__name__,))
        gens["Source.v"] = _source
    except ImportError:
        pass
    for name, g in gens.items():
        if write_if_changed(os.path.join(OUT, name), g()):
            changed.append(name)
    print("translate: regenerated %s" % (", ".join(changed) or "nothing (up to date)"))


if __name__ == "__main__":
    sys.path.insert(0, os.path.dirname(os.path.abspath(__file__)))
    main()

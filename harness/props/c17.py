"""C17 -- CLI exit status and output reflect the library's verdict (real processes, three entry points)."""
import concurrent.futures
import json
import os
import shutil
import subprocess
import tempfile

import core
import wire
import implrun
import envgen as E
import mdgen as M
from gen import SEEDS, PUBHEX

ENTRY = {
    "console script": ["/venv/bin/conda-content-trust"],
    "python -m conda_content_trust": [core.PY, "-m", "conda_content_trust"],
    "python -m conda_content_trust.cli": [core.PY, "-m", "conda_content_trust.cli"],
}
SUCCESS = ("Root metadata verification successful.", "Metadata verification successful.")


def run_cli(entry, args, cwd):
    env = implrun.base_env()
    p = subprocess.run(ENTRY[entry] + args, cwd=cwd, env=env, capture_output=True, timeout=120)
    return p.returncode, p.stdout.decode(errors="replace"), p.stderr.decode(errors="replace")


def loaded(content):
    """what load_metadata_from_file yields: the JSON value, or None when the file is missing / not JSON"""
    if content is None:
        return None
    try:
        return [json.loads(content)]
    except Exception:
        return None


def opt(x):
    return [] if x is None else [x[0]]


def file_pairs(ctx):
    rng = ctx.rng
    r1 = M.envelope(M.root_md(1, (0, 1), 1), (0,))
    r2 = M.envelope(M.root_md(2, (0, 1), 2), (0, 1))
    r2_one = M.envelope(M.root_md(2, (0, 1), 2), (0,))
    r3 = M.envelope(M.root_md(3, (1, 2), 1), (0, 1))
    r2_raw = M.envelope(M.root_md(2, (0, 1), 1), (0, 1), mode="raw")
    r2_self = M.envelope(M.root_md(2, (2, 3), 1), (2, 3))
    km = M.envelope(M.md("key_mgr", 1, {"pkg_mgr": M.delegation((2,), 1)}), (4,), mode="raw")
    km_gpg = M.envelope(M.md("key_mgr", 1, {"pkg_mgr": M.delegation((2,), 1)}), (4,), mode="gpg")
    km_unsigned = M.envelope(M.md("key_mgr", 1, {}), (), mode="raw")
    km_wrongkey = M.envelope(M.md("key_mgr", 1, {}), (0,), mode="raw")
    root_as_km = M.envelope(M.root_md(2, (0, 1), 1), (4,), mode="raw")
    pkg = {"signatures": {PUBHEX[2]: E.raw_sig(2, {"name": "x"})}, "signed": {"name": "x"}}
    other = {"signatures": {PUBHEX[4]: E.raw_sig(4, {"type": "pkg_mgr", "x": 1})}, "signed": {"type": "pkg_mgr", "x": 1}}
    r1_pkg = M.envelope(M.md("root", 1, {"root": M.delegation((0,), 1), "pkg_mgr": M.delegation((4,), 1)}), (0,))
    # a non-root trusted file that delegates a role called "root"; a root-typed file signed (raw) by that key
    km_rootdeleg = M.envelope(M.md("key_mgr", 1, {"root": M.delegation((2,), 1), "pkg_mgr": M.delegation((3,), 1)}), (4,), mode="raw")
    root_raw_by2 = M.envelope(M.root_md(7, (2,), 1), (2,), mode="raw")
    root_gpg_by2 = M.envelope(M.root_md(2, (2,), 1), (2,), mode="gpg")
    # delegations whose threshold exceeds the number of listed keys (allowed by the format checks)
    r1_unmeetable = M.envelope(M.md("root", 1, {"root": M.delegation((0,), 2), "key_mgr": M.delegation((4,), 2)}), (0,))
    r2_unsigned = M.envelope(M.md("root", 2, {"root": M.delegation((0,), 2), "key_mgr": M.delegation((4,), 2)}), ())
    j = lambda v: json.dumps(v).encode()
    # declared types that are not strings, under a trusted file delegating roles named like Python's str() of them
    r1_odd = M.envelope(M.md("root", 1, {"root": M.delegation((0,), 1), "None": M.delegation((4,), 1), "7": M.delegation((4,), 1), "True": M.delegation((4,), 1),
                                        "['root']": M.delegation((4,), 1), "1.5": M.delegation((4,), 1), "{}": M.delegation((4,), 1)}), (0,))
    odd_docs = {}
    for nm, tyv in (("ty_null", None), ("ty_7", 7), ("ty_true", True), ("ty_list", ["root"]), ("ty_float", 1.5), ("ty_obj", {})):
        sd = {"type": tyv, "x": 1}
        odd_docs[nm] = {"signatures": {PUBHEX[4]: E.raw_sig(4, sd)}, "signed": sd}
    km_junk = {"signatures": dict(km["signatures"], **{"junk entry": 5, PUBHEX[0].upper(): {"signature": "zz"}}), "signed": km["signed"]}
    r2_note = M.envelope(M.root_md(2, (0, 1), 1, note="line one\nline two\ttabbed"), (0, 1))
    docs = {"r1": j(r1), "r2": j(r2), "r2_one": j(r2_one), "r3": j(r3), "r2_raw": j(r2_raw), "r2_self": j(r2_self), "km": j(km), "km_gpg": j(km_gpg),
            "km_unsigned": j(km_unsigned), "km_wrongkey": j(km_wrongkey), "root_as_km": j(root_as_km), "pkg": j(pkg), "other": j(other), "r1_pkg": j(r1_pkg),
            "km_rootdeleg": j(km_rootdeleg), "root_raw_by2": j(root_raw_by2), "root_gpg_by2": j(root_gpg_by2), "r1_unmeetable": j(r1_unmeetable), "r2_unsigned": j(r2_unsigned),
            "empty": b"", "garbage": bytes(range(256)), "list": b"[1, 2]", "string": b'"root"', "nosigned": j({"signatures": {}}),
            "signed_list": j({"signatures": {}, "signed": [1]}), "type_int": j({"signatures": {}, "signed": {"type": 5}}),
            "type_null": j({"signatures": {}, "signed": {"type": None}}), "notype": j({"signatures": {}, "signed": {"x": 1}}),
            "truncated": j(r2)[:-20], "nan": b'{"signatures": {}, "signed": {"type": "root", "version": NaN}}', "utf16": json.dumps(r2).encode("utf-16"),
            "km_junk": j(km_junk), "r2_note": j(r2_note), "r1_odd": j(r1_odd), **{k: j(v) for k, v in odd_docs.items()},
            # the same signed document with the escaped line feed / tab of a string written as the literal control character: not JSON
            "r2_note_literal_lf": j(r2_note).replace(b"\\n", b"\n"), "r2_note_literal_tab": j(r2_note).replace(b"\\t", b"\t"),
            # correctly signed files with one more top-level member next to "signatures" and "signed": not envelopes for the library
            "r1_extra": j(dict(r1, comment="mirror of upstream")), "r2_extra": j(dict(r2, comment="mirror of upstream")), "km_extra": j(dict(km, fetched="2024-01-01")),
            "missing": None, "r2_bom": b"\xef\xbb\xbf" + j(r2), "nonascii_type": j({"signatures": {}, "signed": {"type": "röle\ud800"}})}
    pairs = [("r1", "r2"), ("r1", "r2_one"), ("r1", "r3"), ("r2", "r3"), ("r1", "r1"), ("r2", "r1"), ("r1", "r2_raw"), ("r1", "r2_self"), ("r1", "km"), ("r1", "km_gpg"),
             ("km_rootdeleg", "root_raw_by2"), ("km_rootdeleg", "root_gpg_by2"), ("r1_unmeetable", "km_wrongkey"), ("r1_unmeetable", "r2_unsigned"), ("r1_unmeetable", "km"),
             ("r1_odd", "ty_null"), ("r1_odd", "ty_7"), ("r1_odd", "ty_true"), ("r1_odd", "ty_list"), ("r1_odd", "ty_float"), ("r1_odd", "ty_obj"),
             ("r1", "km_junk"), ("r1", "r2_note"), ("r1", "r2_note_literal_lf"), ("r1", "r2_note_literal_tab"),
             ("r1", "r2_extra"), ("r1_extra", "r2"), ("r1", "km_extra"), ("r1_extra", "km"),
             ("r1", "km_unsigned"), ("r1", "km_wrongkey"), ("r1", "root_as_km"), ("km", "pkg"), ("r1", "other"), ("r1_pkg", "other"), ("km", "r2"), ("r2", "km")]
    bad = ["empty", "garbage", "list", "string", "nosigned", "signed_list", "type_int", "type_null", "notype", "truncated", "nan", "utf16", "missing", "r2_bom", "nonascii_type"]
    pairs += [("r1", b) for b in bad] + [(b, "r2") for b in bad] + [(b, "km") for b in bad[:6]] + [("missing", "missing"), ("garbage", "garbage")]
    if ctx.quick:
        pairs = pairs[:37] + rng.sample(pairs[37:], 14)
    return docs, pairs


def run(ctx):
    rng = ctx.rng
    docs, pairs = file_pairs(ctx)
    entries = list(ENTRY)
    d = tempfile.mkdtemp(prefix="cctcli")
    try:
        for n, c in docs.items():
            if c is not None:
                with open(os.path.join(d, n + ".json"), "wb") as f:
                    f.write(c)
        jobs = []
        for i, (t, u) in enumerate(pairs):
            for e in (entries if (not ctx.quick or i < 12) else [entries[i % 3]]):
                jobs.append((e, t, u))
        with concurrent.futures.ThreadPoolExecutor(max_workers=12) as ex:
            res = list(ex.map(lambda j: run_cli(j[0], ["verify-metadata", j[1] + ".json", j[2] + ".json"], d), jobs))
        # model outcomes
        mcases = {}
        for (t, u) in set((t, u) for _, t, u in jobs):
            # the model gets the two files as they are on disk: loading them (json.load's byte layer and parser) is part of the model
            mcases[(t, u)] = wire.case("cli_verify_metadata_files", [] if docs[t] is None else [docs[t]], [] if docs[u] is None else [docs[u]])
        mdl = ctx.get_model()
        mout = {k: mdl.run1(w) for k, w in mcases.items()}
        nontriv = 0
        dist = {}
        for (e, t, u), (rc, out, err) in zip(jobs, res):
            success = any(s in out for s in SUCCESS)
            dist[rc] = dist.get(rc, 0) + 1
            T, U = loaded(docs[t]), loaded(docs[u])
            # implementation-level oracle: what the library itself should say (independent schema + crypto)
            want = False
            if T is not None and U is not None:
                try:
                    ty = U[0]["signed"]["type"]
                    want = M.root_rhs(T[0], U[0]) if ty == "root" else M.delegation_rhs(ty, U[0], T[0], False)
                    nontriv += 1
                except Exception:
                    want = False
            detail = {"stream": "verify-metadata", "case": mcases[(t, u)], "meta": {"entry": e, "trusted": t, "untrusted": u},
                      "impl": "exit %d, success line %s; stderr tail: %s" % (rc, success, err[-300:]),
                      "script": "cd <dir with the two files> && %s verify-metadata %s.json %s.json" % (" ".join(ENTRY[e]), t, u)}
            if (rc == 0) != want or success != want:
                ctx.violations.append(("property", dict(detail, reason="entry point '%s': library verdict is %s, exit status %d, success line printed: %s"
                                                        % (e, "accept" if want else "reject/error", rc, success))))
                continue
            mo = mout[(t, u)]
            if mo == "U":
                continue
            m = wire.dec(mo[1:]) if mo.startswith("O") else None
            mstatus = 1 if m == "crash" else (m[0] % 256 if isinstance(m, list) else None)
            msucc = bool(isinstance(m, list) and m[1])
            if mstatus != rc or msucc != success:
                ctx.violations.append(("correspondence", dict(detail, model=mo[:200], reason="exit status / success line differ from the model: process %d/%s, model %s/%s"
                                                              % (rc, success, mstatus, msucc))))
        ctx.streams.append({"stream": "verify-metadata through %d entry points x %d file pairs (valid chains, every rejection class, malformed / non-JSON / missing files)" % (len(entries), len(pairs)),
                            "cases": len(jobs), "distinct_nontrivial": nontriv, "impl_outcomes": {str(k): v for k, v in sorted(dist.items())},
                            "unmodelled": sum(1 for v in mout.values() if v == "U"), "mismatches": 0, "oracle_violations": 0, "wall_s": 0})
        for k, w in list(mcases.items())[:6]:
            ctx.kernel_sample.append((w, mout[k]))

        # ---- signing subcommands: exit zero only if they actually signed
        repo_ok = {"info": {}, "packages": {"a-1.0-0.tar.bz2": {"name": "a"}, "b-1.0-0.tar.bz2": {"name": "b", "depends": []}}, "packages.conda": {"c-1.0-0.conda": {"name": "c"}}}
        kh = SEEDS[0].hex()
        keytexts = {"good": kh, "good_nl": kh + "\n", "good_ws": "  \t" + kh + " \r\n", "good_upper": kh.upper(), "good_nbsp": " " + kh + " ",
                    "short": kh[:-1], "nonhex": "g" + kh[1:], "empty": "", "two": kh + " " + kh, "inner_ws": kh[:10] + " " + kh[10:], "0x": "0x" + kh[2:], "fullwidth": "ａ" + kh[1:],
                    "binary": None}
        repos = {"ok": json.dumps(repo_ok).encode(), "nopackages": b'{"info": {}}', "conda_only": json.dumps({"packages": {}, "packages.conda": repo_ok.get("packages.conda") or {"z-1.conda": {"name": "z"}}, "signatures": {"stale": {}}}).encode(),
                 "empty_sections": b'{"packages": {}, "packages.conda": {}, "signatures": {"stale": 1}}', "packages_list": b'{"packages": []}', "notjson": b"{", "list": b"[]", "missing": None}
        # the file was signed before with the same key and an artifact's metadata changed since: the old entries are stale, signing must replace them
        stale = dict(repo_ok, signatures={n: {PUBHEX[0]: E.raw_sig(0, dict(mdv, build_number=0))} for sec in ("packages", "packages.conda") for n, mdv in repo_ok[sec].items()})
        repos["stale_same_key"] = json.dumps(stale).encode()
        half = dict(repo_ok, signatures={"a-1.0-0.tar.bz2": {PUBHEX[0]: E.raw_sig(0, {"name": "a"})}, "b-1.0-0.tar.bz2": {PUBHEX[0]: E.raw_sig(0, {"name": "b (old)"})}})
        repos["half_stale_same_key"] = json.dumps(half).encode()
        sjobs = []
        for kn in keytexts:
            for rn in (repos if kn in ("good", "short") else ["ok"]):
                for e in (entries if (kn, rn) in (("good", "ok"), ("short", "ok"), ("good", "nopackages")) else [entries[len(sjobs) % 3]]):
                    sjobs.append((e, kn, rn))

        def sign_job(args):
            idx, (e, kn, rn) = args
            sd = os.path.join(d, "s%d" % idx)
            os.makedirs(sd)
            kf, rf = os.path.join(sd, "key.txt"), os.path.join(sd, "repodata.json")
            if keytexts[kn] is None:
                with open(kf, "wb") as f:
                    f.write(b"\xff\xfe\x00binary")
            else:
                with open(kf, "w", encoding="utf-8", newline="") as f:
                    f.write(keytexts[kn])
            if repos[rn] is not None:
                with open(rf, "wb") as f:
                    f.write(repos[rn])
            rc, out, err = run_cli(e, ["sign-artifacts", "repodata.json", "key.txt"], sd)
            after = open(rf, "rb").read() if os.path.exists(rf) else None
            return rc, out, err, after
        with concurrent.futures.ThreadPoolExecutor(max_workers=12) as ex:
            sres = list(ex.map(sign_job, enumerate(sjobs)))
        for (e, kn, rn), (rc, out, err, after) in zip(sjobs, sres):
            before = repos[rn]
            kt = keytexts[kn]
            w = wire.case("cli_sign_artifacts", [] if kt is None else [kt], opt(loaded(before)))
            mo = mdl.run1(w)
            signed_ok = False
            if after is not None and before is not None:
                try:
                    a, b = json.loads(after), json.loads(before)
                    want = {n: {PUBHEX[0]: E.raw_sig(0, md)} for sec in ("packages", "packages.conda") for n, md in b.get(sec, {}).items()}
                    signed_ok = isinstance(a, dict) and a.get("signatures") == want and after == E.canon(a)
                except Exception:
                    signed_ok = False
            detail = {"stream": "sign-artifacts", "case": w, "meta": {"entry": e, "key": kn, "repodata": rn}, "impl": "exit %d; stderr tail %s" % (rc, err[-300:]),
                      "script": "%s sign-artifacts repodata.json key.txt  (key file variant %s, repodata variant %s)" % (" ".join(ENTRY[e]), kn, rn)}
            if rc == 0 and not signed_ok:
                ctx.violations.append(("property", dict(detail, reason="sign-artifacts exited 0 through '%s' although the file was not signed" % e)))
                continue
            if rc != 0 and after != before:
                ctx.violations.append(("property", dict(detail, reason="sign-artifacts failed (status %d) but changed the file" % rc)))
                continue
            if mo == "U":
                continue
            m = wire.dec(mo[1:])
            mstatus = 0 if isinstance(m, list) else (1 if m == "crash" else m % 256)
            if mstatus != rc or (isinstance(m, list) and E.canon(m[1]) != after):
                ctx.violations.append(("correspondence", dict(detail, model=mo[:200], reason="sign-artifacts status / file differ from the model: process %d, model %s" % (rc, mstatus))))
        ctx.streams.append({"stream": "sign-artifacts: key-file variants (whitespace, case, malformed, binary) x repodata variants x entry points", "cases": len(sjobs),
                            "distinct_nontrivial": len(sjobs), "impl_outcomes": {}, "unmodelled": 0, "mismatches": 0, "oracle_violations": 0, "wall_s": 0})
        # gpg-sign without the optional dependency: must not exit 0
        rc, out, err = run_cli(entries[0], ["gpg-sign", "f075dd2f6f4cb3bd76134bbb81b6ca16ef9cd589", "r2.json"], d)
        if rc == 0:
            ctx.violations.append(("property", {"stream": "gpg-sign", "case": wire.case("gpg_sign_cli"), "impl": "exit 0", "reason": "gpg-sign exited 0 without securesystemslib"}))
        if open(os.path.join(d, "r2.json"), "rb").read() != docs["r2"]:
            ctx.violations.append(("property", {"stream": "gpg-sign", "case": wire.case("gpg_sign_cli"), "impl": "", "reason": "gpg-sign failed but changed the file"}))
    finally:
        shutil.rmtree(d, ignore_errors=True)
    ctx.assumptions = ["the conda plugin entry point (conda content-trust) needs conda, which is absent: not covered",
                       "signals, a closed stdout and exit-code truncation by the OS are outside the model"]

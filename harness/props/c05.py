"""C05 -- delegation check uses exactly the named role's keys and threshold."""
import itertools
import core
import wire
from gen import PUBHEX, Obj
import envgen as E
import mdgen as M
from props.c03 import subsets


def build(ctx):
    out = []
    roles = {
        "A": {"root": M.delegation((0,), 1), "key_mgr": M.delegation((1, 2), 2), "pkg_mgr": M.delegation((2,), 1)},
        "B": {"key_mgr": M.delegation((1,), 1), "ключ": M.delegation((3,), 1), "": M.delegation((0,), 1)},
        "C": {},
        "D": {"key_mgr": M.delegation((1, 2, 3), 2), "Key_mgr": M.delegation((0,), 1), "key_mgr ": M.delegation((0,), 1)},
        # thresholds the listed keys cannot reach, an empty key list, integral-float and bool thresholds
        "E": {"key_mgr": M.delegation((1,), 2), "pkg_mgr": M.delegation((1, 2), 3), "root": M.delegation((), 1)},
        # a reachable rule for one role next to drafts for OTHER roles that nobody can meet yet: only the named role's rule counts
        "G": {"key_mgr": M.delegation((1, 2), 1), "pkg_mgr": M.delegation((3,), 2), "root": M.delegation((), 1), "auditor": M.delegation((0,), 3)},
        "F": {"key_mgr": M.delegation((1, 2), True), "pkg_mgr": M.delegation((2, 3), 2.0), "root": M.delegation((0, 1, 2, 3), 4)},
    }
    names = ["key_mgr", "root", "pkg_mgr", "Key_mgr", "key_mgr ", "", "ключ", "nope", 5, None, b"key_mgr",
             "key_mgr.json", "root.json", "pkg_mgr.json", "KEY_MGR", " key_mgr", "key_mgr\n", "key-mgr", "key_mgr/", "./key_mgr", "key_mg", "key_mgr\x00"]
    for rn, dl in roles.items():
        T = M.envelope(M.md("root", 3, dl), (0,))
        for name in names:
            payloads = [M.md("key_mgr", 1, {"pkg_mgr": M.delegation((0,), 1)}), {"name": "pkg", "delegations": {"x": 1}}, M.md("root", 4, {"root": M.delegation((1, 2), 1)})]
            if rn in ("A", "F"):
                # payloads that LOOK like delegating metadata (type, delegations) but are not well formed: arbitrary signed content, no type test
                payloads += [{"type": "key_mgr", "delegations": {}, "version": 1}, {"type": "root", "delegations": {"x": 1}, "expiration": "never"},
                             M.md("root", 0, {}), M.md("key_mgr", 1, {}, expiration=Ellipsis), M.md("root", 2, {}, spec=5)]
            if isinstance(name, str) and name in M.SUPPORTED:
                payloads.append(M.md(name, 1, {}))
            for pl in payloads:
                for signers in subsets((0, 1, 2, 3)):
                    if ctx.quick and len(signers) in (3,):
                        continue
                    for gpg in (False, True):
                        U = M.envelope(pl, signers, mode="gpg" if gpg else "raw")
                        out.append(("verify_delegation", name, U, T, gpg, {"s": "roles x names x payloads x signers x mode", "roles": rn}))
    # one key listed under several spellings for a role, its one signature filed under each: never a second signer,
    # and trusted metadata listing a non-canonical spelling is malformed
    pl = M.md("key_mgr", 1, {})
    for sp in M.RESPELL:
        for th in (1, 2):
            for extra in ((), (2,)):
                T = M.envelope(M.md("root", 3, {"root": M.delegation((0,), 1), "key_mgr": M.respelled(1, th, (sp,), extra)}), (0,))
                for gpg in (False, True):
                    U = M.respell_signatures(M.envelope(pl, (1,), mode="gpg" if gpg else "raw"), 1, (sp,))
                    out.append(("verify_delegation", "key_mgr", U, T, gpg, {"s": "respelled keys in the trusted rule", "sp": sp}))
                    # canonical trusted rule, respelled entries only in the unsigned map
                    T2 = M.envelope(M.md("root", 3, {"root": M.delegation((0,), 1), "key_mgr": M.delegation((1, 2), 2)}), (0,))
                    out.append(("verify_delegation", "key_mgr", U, T2, gpg, {"s": "respelled entries in the signature map", "sp": sp}))
    # gpg flag kinds, wrong-mode signatures, malformed trusted side
    T = M.envelope(M.md("root", 3, roles["A"]), (0,))
    pl = M.md("key_mgr", 1, {})
    for g in (0, 1, 1.0, 0.0, None, "yes", 2, [], Obj(1)):
        out.append(("verify_delegation", "key_mgr", M.envelope(pl, (1, 2), mode="raw"), T, g, {"s": "gpg flag"}))
        out.append(("verify_delegation", "key_mgr", M.envelope(pl, (1, 2), mode="gpg"), T, g, {"s": "gpg flag"}))
    for badT in (None, {}, {"signed": T["signed"]}, dict(T, extra=1), {"signatures": {}, "signed": {"delegations": roles["A"]}},
                 {"signatures": {"junk": 5}, "signed": T["signed"]}, [T]):
        out.append(("verify_delegation", "key_mgr", M.envelope(pl, (1, 2), mode="raw"), badT, False, {"s": "malformed trusted"}))
    # swapped arguments
    out.append(("verify_delegation", "key_mgr", T, M.envelope(pl, (1, 2), mode="raw"), False, {"s": "swapped"}))
    return out


def run(ctx):
    rows = build(ctx)
    cases = [{"w": wire.case(fn, name, U, T, gpg), "meta": m} for fn, name, U, T, gpg, m in rows]

    def rel(c, io, mo):
        ia, ma = core.impl_class(io), core.model_class(mo)
        if (ia == "accept") != (ma == "accept"):
            return "accept/reject differs: implementation %s, model %s" % (ia, ma)
        if ma == "UnknownRoleError" and ia != ma or ia == "UnknownRoleError" and ma != ia:
            return "unknown-role reporting differs: implementation %s, model %s" % (ia, ma)
        return None

    def oracle(c, io):
        _, name, U, T, gpg = wire.dec(c["w"])
        try:
            want = M.delegation_rhs(name, U, T, gpg)
        except Exception:
            want = False
        got = io.startswith("O")
        if got != want:
            return "delegation rule says %s, verify_delegation %s (%s)" % ("accept" if want else "reject", "accepted" if got else "rejected", core.impl_class(io))
        # undelegated role on otherwise well-formed arguments => UnknownRoleError
        try:
            if (type(name) is str and gpg in (True, False) and M.dm_ok(T) and name not in T["signed"]["delegations"]
                    and not (M.signed_ok(U["signed"]) and U["signed"]["type"] != name) and core.impl_class(io) != "UnknownRoleError"):
                return "undelegated role reported as %s" % core.impl_class(io)
        except Exception:
            pass
        return None

    def nontriv(c, io, mo):
        _, name, U, T, gpg = wire.dec(c["w"])
        try:
            return type(name) is str and M.dm_ok(T) and len(U["signatures"]) > 0
        except Exception:
            return False
    core.run_stream(ctx, core.Stream("verify_delegation: trusted role sets x requested names x payload kinds x signer subsets x modes", cases, rel, oracle, nontriv))
    # the body of verify_delegation as written in authentication.py (Gen/Source.v, translated on this run), interpreted, with the model answering
    # for verify_signable: against the implementation on the cases above (bool flags; the interpreter answers Unmodelled elsewhere)
    scases = [{"w": c["w"].replace("verify_delegation", "src_verify_delegation", 1), "meta": c["meta"]} for c in cases[:: (3 if ctx.quick else 1)]
              if wire.dec(c["w"])[0] == "verify_delegation"]
    core.run_stream(ctx, core.Stream("interpreted source of verify_delegation (Gen/Source.v via PySrc.run_body, verify_signable answered by the model) vs implementation",
                                     scases, lambda c, io, mo: None if core.impl_class(io) == core.model_class(mo) else "the interpreted source and the implementation differ: impl %s, interpreter %s" % (core.impl_class(io), core.model_class(mo)),
                                     None, nontrivial=lambda c, i, m: m != "U", mismatch_kind="tie"))
    def want(c):
        _, name, U, T, gpg = wire.dec(c["w"])
        try:
            return M.delegation_rhs(name, U, T, gpg)
        except Exception:
            return False
    sub = [c for c in cases if c["meta"].get("roles") in ("A", "D") or c["meta"]["s"].startswith("respelled")]
    core.failing_stdout_streams(ctx, "verify_delegation on role sets A and D", sub, want)
    ctx.assumptions = ["signatures of both modes are made by the harness with pyca/cryptography directly"]

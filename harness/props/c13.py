"""C13 -- failures are fail-closed and use the documented error families."""
import core
import wire
import mutgen as G
from gen import interesting_values


def build(ctx):
    cases = []
    vals = interesting_values()
    for fn, args in G.valid_calls():
        cases.append({"w": wire.case(fn, *args), "meta": {"fn": fn, "tag": "valid"}})
        n = 0
        for tag, margs in G.mutations(tuple(args), vals):
            try:
                w = wire.case(fn, *margs)
            except TypeError:
                continue
            cases.append({"w": w, "meta": {"fn": fn, "tag": [tag[0], tag[1], list(map(str, tag[2])), tag[3]]}})
            n += 1
    if ctx.quick:
        # keep every mutation of the small validators, thin the large verifier products deterministically
        big = [c for c in cases if c["meta"]["fn"] in ("verify_root", "verify_delegation", "checkformat_delegating_metadata")]
        small = [c for c in cases if c not in big] if len(cases) < 40000 else [c for c in cases if c["meta"]["fn"] not in ("verify_root", "verify_delegation", "checkformat_delegating_metadata")]
        ctx.rng.shuffle(big)
        cases = small + big[:9000]
    return cases


NUMS = [1, 2, 3, True, False, 1.0, 2.0, 3.0, 1e308, 1.5, 10 ** 400, 10 ** 400 + 1, 2 ** 53, 2.0 ** 53, 2 ** 53 + 1, 2 ** 63, 0, -1, 0.0,
        float("nan"), float("inf"), float("-inf"), "1", None]
FLAGS = [False, True, 0, 1, None, "", 0.0, 1.0, 2, [], "x", -1]


def pair_cases(ctx):
    """two numeric positions varied together (versions, thresholds, the gpg flag): arithmetic between
    unchecked or differently typed numbers is where overflow / assertion failures hide"""
    import itertools
    import mdgen as M
    import envgen as E
    from gen import PUBHEX
    out = []

    def root(ver, th, signers=(0, 1)):
        return M.envelope(M.md("root", ver, {"root": {"pubkeys": [PUBHEX[0], PUBHEX[1]], "threshold": th},
                                             "key_mgr": M.delegation((2,), 1)}), signers)
    for a, b in itertools.product(NUMS, NUMS):
        try:
            out.append(("verify_root", (root(a, 1), root(b, 1)), "versions"))
            out.append(("verify_root", (root(1, a), root(2, b)), "thresholds"))
        except (TypeError, ValueError, OverflowError):
            pass
    P = {"a": 1}
    for mode in (False, True):
        mk = E.gpg_sig if mode else E.raw_sig
        env = {"signatures": {PUBHEX[0]: mk(0, P), PUBHEX[1]: mk(1, P), PUBHEX[2]: E.raw_sig(3, P), "junk": 5}, "signed": P}
        for t, g in itertools.product(NUMS, FLAGS):
            out.append(("verify_signable", (env, [PUBHEX[0], PUBHEX[1], PUBHEX[2]], t, g), "threshold x flag"))
    T = root(1, 1)
    for th, g in itertools.product(NUMS, FLAGS):
        try:
            Tt = M.envelope(M.md("root", 1, {"key_mgr": {"pubkeys": [PUBHEX[2]], "threshold": th}}), (0,))
            for mode in ("raw", "gpg"):
                U = M.envelope(M.md("key_mgr", 1, {}), (2,), mode=mode)
                out.append(("verify_delegation", ("key_mgr", U, Tt, g), "threshold x flag"))
        except (TypeError, ValueError, OverflowError):
            pass
    return [{"w": wire.case(fn, *a), "meta": {"fn": fn, "tag": tag}} for fn, a, tag in out]


def run(ctx):
    cases = build(ctx)
    pcases = pair_cases(ctx)

    def rel(c, io, mo):
        ic, mc = core.impl_class(io), core.model_class(mo)
        fn = c["meta"]["fn"]
        if fn.startswith("is_"):
            return None if io == mo else "predicate value differs: implementation %s, model %s" % (io, mo)
        if ic == mc:
            return None
        if ic in G.SUBCLASS_OF_VALUEERROR and mc == "ValueError":
            return None
        return "single-fault case: implementation ends in %s, model in %s" % (ic, mc)

    def oracle(c, io):
        fn = c["meta"]["fn"]
        ic = core.impl_class(io)
        if fn.startswith("is_"):
            return None if io in ("Ot", "Of") else "predicate did not return a bool: %s" % io
        if ic == "accept":
            return None
        fam = G.family_of(fn)
        if ic in fam or (ic in G.SUBCLASS_OF_VALUEERROR and "ValueError" in fam):
            return None
        return "%s ended in %s, outside its documented family %s" % (fn, ic, sorted(fam))
    core.run_stream(ctx, core.Stream("every public validator/verifier: valid call, then every JSON path of every argument x %d substitute values, deletion, extra field, duplication"
                                     % len(interesting_values()), cases, rel, oracle,
                                     nontrivial=lambda c, i, m: c["meta"]["tag"] != "valid"))

    def rel_pair(c, io, mo):
        ic, mc = core.impl_class(io), core.model_class(mo)
        if (ic == "accept") != (mc == "accept"):
            return "accept/reject differs: implementation %s, model %s" % (ic, mc)
        return None
    core.run_stream(ctx, core.Stream("two numeric positions varied together: versions x versions, thresholds x thresholds, threshold x gpg flag (%d numbers incl. 10^400, 1e308, 2^53, NaN, +-Infinity, bools)" % len(NUMS),
                                     pcases, rel_pair, oracle, nontrivial=lambda c, i, m: True))
    # environments that turn diagnostics into exceptions: warnings escalated to errors (python -W error), an ASCII-only standard output
    sub = [c for c in cases if c["meta"]["fn"].startswith("verify_")]
    sub = sub[:: max(1, len(sub) // 1500)] + pcases[::7]
    for env, what in (({"PYTHONWARNINGS": "error"}, "warnings escalated to errors (PYTHONWARNINGS=error)"), ({"PYTHONIOENCODING": "ascii:strict"}, "ASCII-only standard output")):
        core.run_stream(ctx, core.Stream("verifier cases under %s" % what, sub, rel_pair, oracle, env=env))
    ctx.assumptions = ["values with user-defined dunder methods, RecursionError beyond the depth bound and MemoryError are outside the universe",
                       "struct.error needs OpenPGP headers of 4 GiB or more (C13_struct_error_needs_4GiB); not generated"]

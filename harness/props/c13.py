"""C13 -- failures are fail-closed and use the documented error families."""
import core
import wire
import mutgen as G
from gen import interesting_values


def build(ctx):
    cases = []
    vals = interesting_values()
    for fn, args in G.valid_calls():
        cases.append({"w": wire.case(fn, *args), "meta": {"fn": fn, "tag": "valid"}})
        n = 0
        for tag, margs in G.mutations(tuple(args), vals):
            try:
                w = wire.case(fn, *margs)
            except TypeError:
                continue
            cases.append({"w": w, "meta": {"fn": fn, "tag": [tag[0], tag[1], list(map(str, tag[2])), tag[3]]}})
            n += 1
    if ctx.quick:
        # keep every mutation of the small validators, thin the large verifier products deterministically
        big = [c for c in cases if c["meta"]["fn"] in ("verify_root", "verify_delegation", "checkformat_delegating_metadata")]
        small = [c for c in cases if c not in big] if len(cases) < 40000 else [c for c in cases if c["meta"]["fn"] not in ("verify_root", "verify_delegation", "checkformat_delegating_metadata")]
        ctx.rng.shuffle(big)
        cases = small + big[:9000]
    return cases


def run(ctx):
    cases = build(ctx)

    def rel(c, io, mo):
        ic, mc = core.impl_class(io), core.model_class(mo)
        fn = c["meta"]["fn"]
        if fn.startswith("is_"):
            return None if io == mo else "predicate value differs: implementation %s, model %s" % (io, mo)
        if ic == mc:
            return None
        if ic in G.SUBCLASS_OF_VALUEERROR and mc == "ValueError":
            return None
        return "single-fault case: implementation ends in %s, model in %s" % (ic, mc)

    def oracle(c, io):
        fn = c["meta"]["fn"]
        ic = core.impl_class(io)
        if fn.startswith("is_"):
            return None if io in ("Ot", "Of") else "predicate did not return a bool: %s" % io
        if ic == "accept":
            return None
        fam = G.family_of(fn)
        if ic in fam or (ic in G.SUBCLASS_OF_VALUEERROR and "ValueError" in fam):
            return None
        return "%s ended in %s, outside its documented family %s" % (fn, ic, sorted(fam))
    core.run_stream(ctx, core.Stream("every public validator/verifier: valid call, then every JSON path of every argument x %d substitute values, deletion, extra field, duplication"
                                     % len(interesting_values()), cases, rel, oracle,
                                     nontrivial=lambda c, i, m: c["meta"]["tag"] != "valid"))
    ctx.assumptions = ["values with user-defined dunder methods, RecursionError beyond the depth bound and MemoryError are outside the universe",
                       "struct.error needs OpenPGP headers of 4 GiB or more (C13_struct_error_needs_4GiB); not generated"]

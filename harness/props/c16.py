"""C16 -- metadata constructors emit only well-formed, faithful metadata."""
import datetime
import itertools
import core
import wire
import mutgen as G
import mdgen as M
import envgen as E
from gen import PUBHEX

EPOCH = datetime.datetime(1, 1, 1)


def secs(*a):
    return int((datetime.datetime(*a) - EPOCH).total_seconds())


CLOCKS = [secs(2020, 2, 29, 12, 0, 0), secs(2019, 12, 31, 23, 59, 59), secs(2023, 3, 1, 0, 0, 0), secs(1999, 12, 31, 23, 59, 59),
          secs(2024, 2, 28, 23, 59, 59), secs(1, 1, 1, 0, 0, 0), secs(9998, 12, 31, 23, 59, 58) - 86400, secs(2100, 2, 28, 12, 30, 30),
          secs(2000, 2, 29, 0, 0, 1), secs(1900, 3, 1, 0, 0, 0), secs(999, 12, 31, 23, 59, 59), secs(476, 9, 4, 1, 2, 3), secs(1000, 1, 1, 0, 0, 0), secs(99, 6, 7, 8, 9, 10)]


def parse(s):
    return datetime.datetime.strptime(s, "%Y-%m-%dT%H:%M:%SZ")


def run(ctx):
    rng = ctx.rng
    k = PUBHEX
    cases = []
    dls = [None, {}, {"root": M.delegation((0,), 1)}, {"root": M.delegation((0, 1, 2), 2), "key_mgr": M.delegation((), 1)},
           {"pkg_mgr": M.delegation((3,), 5)}]
    # valid tuples x clock reads
    for ty, dl, ver, ts, ex in itertools.product(["root", "key_mgr", "pkg_mgr", ""], dls, [1, 5, True, 2.0, 2 ** 70],
                                                 [None, M.TS, "2020-2-29T1:2:3Z"], [None, M.EX, M.TS, "1999-12-31T23:59:59Z"]):
        for n in (CLOCKS if (ts is None or ex is None) else CLOCKS[:1]):
            d = rng.choice([0, 0, 1, 2, 86400])
            cases.append({"w": wire.case("build_delegating_metadata", n, n + d, ty, dl, ver, ts, ex), "meta": {"tag": "valid", "fn": "bdm"}})
    if ctx.quick:
        rng.shuffle(cases)
        cases = cases[:1500]
    # every single mutation of every argument
    base = ("root", {"root": M.delegation((0, 1), 2), "key_mgr": M.delegation((2,), 1)}, 3, M.TS, M.EX)
    for tag, m in G.mutations(base):
        try:
            cases.append({"w": wire.case("build_delegating_metadata", CLOCKS[0], CLOCKS[0], *m), "meta": {"tag": tag[0], "fn": "bdm"}})
        except TypeError:
            pass
    rbase = (2, [k[0], k[1]], 2, [k[2]], 1, M.TS, M.EX)
    for tag, m in G.mutations(rbase):
        try:
            cases.append({"w": wire.case("build_root_metadata", CLOCKS[0], CLOCKS[0], *m), "meta": {"tag": tag[0], "fn": "brm"}})
        except TypeError:
            pass
    for ver, rk, rt, kk, kt, ts, ex in itertools.product([1, 7], [[], [k[0]], [k[0], k[1], k[2]]], [1, 2, 5], [[], [k[3]]], [1, 3], [None, M.TS, "2999-01-01T00:00:00Z"], [None, M.EX, M.TS]):
        for n in (CLOCKS[:4] if (ts is None or ex is None) else CLOCKS[:1]):
            cases.append({"w": wire.case("build_root_metadata", n + 1, n, ver, rk, rt, kk, kt, ts, ex), "meta": {"tag": "valid", "fn": "brm"}})

    # keys shared between the root and the key_mgr role are valid arguments
    for rk, kk in (([k[0], k[1]], [k[0]]), ([k[0]], [k[0]]), ([k[0], k[1], k[2]], [k[2], k[1]])):
        for ts, ex in ((M.TS, M.EX), (None, None)):
            cases.append({"w": wire.case("build_root_metadata", CLOCKS[0] + 1, CLOCKS[0], 3, rk, 1, kk, 1, ts, ex), "meta": {"tag": "valid", "fn": "brm"}})

    # one of the two times left to the builder, the other given and NOT well formed: still an argument error (each time is checked on its own)
    badtimes = ["tomorrow", 91, "2030-02-30T00:00:00Z", "2030-01-01", "2030-01-01T00:00:00", b"2030-01-01T00:00:00Z", "", ["2030-01-01T00:00:00Z"], 1.5, True]
    for bt in badtimes:
        for ts, ex in ((bt, None), (None, bt)):
            cases.append({"w": wire.case("build_delegating_metadata", CLOCKS[0], CLOCKS[0], "key_mgr", {}, 1, ts, ex), "meta": {"tag": "one-time-defaulted", "fn": "bdm"}})
            cases.append({"w": wire.case("build_root_metadata", CLOCKS[0] + 1, CLOCKS[0], 1, [k[0]], 1, [k[3]], 1, ts, ex), "meta": {"tag": "one-time-defaulted", "fn": "brm"}})

    def rel(c, io, mo):
        return None if io == mo else "builder outcome differs: implementation %s ... model %s ..." % (io[:120], mo[:120])

    def oracle(c, io):
        tup = wire.dec(c["w"])
        fn = tup[0]
        if not io.startswith("O"):
            cl = core.impl_class(io)
            return None if cl in ("TypeError", "ValueError") else "builder raised %s, not an argument error" % cl
        md = wire.dec(io[1:])
        if fn == "build_delegating_metadata":
            n_ts, n_ex, ty, dl, ver, ts, ex = tup[1:]
        else:
            n_ex, n_ts, ver, rk, rt, kk, kt, ts, ex = tup[1:]
            ty, dl = "root", {"root": {"pubkeys": rk, "threshold": rt}, "key_mgr": {"pubkeys": kk, "threshold": kt}}
        if type(md) is not dict:
            return "builder returned a %s" % type(md).__name__
        if ty in M.SUPPORTED and not M.dm_ok({"signatures": {}, "signed": md}):
            return "returned metadata does not satisfy the documented schema once wrapped"
        want = {"type": ty, "version": ver, "delegations": {} if dl is None else dl}
        if ts is not None:
            want["timestamp"] = ts
        if ex is not None:
            want["expiration"] = ex
        for f, v in want.items():
            if f not in md or wire.enc(md[f]) != wire.enc(v):
                return "field %r is not the argument verbatim: %r" % (f, md.get(f))
        if type(md.get("metadata_spec_version")) is not str or set(md) != {"type", "version", "delegations", "timestamp", "expiration", "metadata_spec_version"}:
            return "field set / specification version wrong: %r" % sorted(md)
        if ts is None and ex is None:
            dist = parse(md["expiration"]) - parse(md["timestamp"])
            if dist != datetime.timedelta(days=365, seconds=n_ex - n_ts) or (n_ex >= n_ts and dist <= datetime.timedelta(0)):
                return "default expiration %s is not one year after the timestamp %s" % (md["expiration"], md["timestamp"])
        if ts is None and parse(md["timestamp"]) != EPOCH + datetime.timedelta(seconds=n_ts):
            return "default timestamp %s is not the clock read" % md["timestamp"]
        if fn == "build_root_metadata" and set(md["delegations"]) != {"root", "key_mgr"}:
            return "root metadata does not delegate exactly root and key_mgr"
        return None
    impl, mdl = core.run_stream(ctx, core.Stream("builders: valid tuples x clock reads at calendar boundaries, every single mutation of every argument",
                                                 cases, rel, oracle, nontrivial=lambda c, i, m: True))
    # the valid tuples again with warnings escalated to errors: a valid argument tuple yields metadata in every environment
    vsub = [c for c in cases if c["meta"]["tag"] == "valid"][:: (8 if ctx.quick else 1)] + cases[-6:]
    core.run_stream(ctx, core.Stream("builders on valid tuples with warnings escalated to errors (PYTHONWARNINGS=error)", vsub, rel, oracle, env={"PYTHONWARNINGS": "error"}))
    # chain readiness: a root built at version n+1, signed by enough keys of the previous and of its own root rule, succeeds the previous one
    chain = []
    prev_md = M.root_md(4, (0, 1), 2)
    prev = M.envelope(prev_md, (0, 1))
    for c, (io, _) in zip(cases, impl):
        if c["meta"]["fn"] != "brm" or c["meta"]["tag"] != "valid" or not io.startswith("O"):
            continue
        md = wire.dec(io[1:])
        rk = md["delegations"]["root"]["pubkeys"]
        idx = tuple(PUBHEX.index(x) for x in rk)
        for ver in (5, 6):
            md5 = dict(md, version=ver)
            U = M.envelope(md5, tuple(sorted(set(idx) | {0, 1})))
            chain.append({"w": wire.case("verify_root", prev, U), "meta": {"tag": "chain", "want": M.root_rhs(prev, U)}})
            if ver == 5 and M.root_rhs(prev, U):
                nxt = M.envelope(M.root_md(6, (0,), 1), tuple(sorted(set(idx) | {0})))
                chain.append({"w": wire.case("verify_root", U, nxt), "meta": {"tag": "chain-next", "want": M.root_rhs(U, nxt)}})
    chain = chain[: (120 if ctx.quick else 2000)]

    def chain_oracle(c, io):
        if io.startswith("O") != c["meta"]["want"]:
            return "built root metadata: verify_root says %s, the update rule says %s" % (core.impl_class(io), c["meta"]["want"])
        return None
    core.run_stream(ctx, core.Stream("built root metadata, threshold-signed, offered as successor and then acting as trusted root", chain,
                                     lambda c, io, mo: None if (core.impl_class(io) == "accept") == (core.model_class(mo) == "accept") else "accept/reject differs",
                                     chain_oracle, nontrivial=lambda c, i, m: c["meta"]["want"]))
    ctx.assumptions = ["clock reads lie in years 1..9998 (datetime cannot represent the default expiration otherwise: OverflowError from the standard library)", "clock reads are inputs (datetime.utcnow patched in the worker); 'strictly after' needs the second read not to precede the first by a year",
                       "fmt_utc/parse_utc round trip is validated by the correspondence (formatted strings equal the implementation's), not yet a theorem"]

"""C02 threshold completeness."""
import json, os
import core
import wire
from gen import PUBHEX
import envgen as E
from props import c01


def run(ctx):
    def rel(c, io, mo):
        ia, ma = core.impl_class(io), core.model_class(mo)
        if ma == "accept" and ia != "accept":
            return "model accepts, implementation raises %s" % ia
        return None
    cases = c01.build_cases(ctx)
    core.run_stream(ctx, core.Stream("verify_signable: entry kinds x key lists x thresholds x modes x payloads (A,B,D exhaustive; C random)",
                                     cases, rel, c01.oracle_complete, c01.nontrivial))
    # configurations: junk-heavy valid envelopes under stdout encodings and in a process that imported only the authentication module
    P = E.PAYLOADS[0]
    k0, k1 = PUBHEX[:2]
    junk = {"\ud800": 1, "é": {"x": "y"}, "日本": None, "a" * 64: "\udfff", "ｋ": [1.5]}
    cfg = []
    for gpg in (False, True):
        mk = E.gpg_sig if gpg else E.raw_sig
        for jk, jv in list(junk.items()) + [(None, None)]:
            sigs = {k0: mk(0, P)}
            if jk is not None:
                sigs[jk] = jv
            sigs[k1] = mk(1, P)
            if jk is not None:
                sigs[jk + "2"] = mk(1, P) if gpg else {"signature": "é"}
            for t in (1, 2):
                cfg.append({"w": wire.case("verify_signable", {"signatures": sigs, "signed": P}, [k0, k1], t, gpg), "meta": {"s": "cfg"}})
        # a well-formed entry of the OTHER mode under an authorized key next to a valid one: ignored, whatever the environment
        other = E.raw_sig(1, P) if gpg else E.gpg_sig(1, P)
        cfg.append({"w": wire.case("verify_signable", {"signatures": {k1: other, k0: mk(0, P)}, "signed": P}, [k0, k1], 1, gpg), "meta": {"s": "cfg"}})
    # OpenPGP-mode entries valid under the rule of the property with hashed-header bytes of every kind: the rule reads no octet of them
    for hdr in (b"\x05", b"\x05\x00\x16\x0a", b"\xde\xad\xbe\xef", b"\x00" * 7, b"\xff" * 33, b"\x03\x00", bytes(range(256))):
        for t in (1, 2):
            sigs = {k0: E.gpg_sig(0, P, hdr=hdr), k1: E.gpg_sig(1, P, hdr=hdr)}
            cfg.append({"w": wire.case("verify_signable", {"signatures": sigs, "signed": P}, [k0, k1], t, True), "meta": {"s": "cfg", "must_accept": True}})
    # shipped fixtures
    td = os.path.join(core.REPO, "tests", "testdata")
    r1, r2, km = (json.load(open(os.path.join(td, n))) for n in ("1.root.json", "2.root.json", "key_mgr.json"))
    fixtures = [wire.case("verify_root", r1, r2), wire.case("verify_delegation", "key_mgr", km, r2, False),
                wire.case("verify_delegation", "root", r2, r1, True)]
    for w in fixtures:
        cfg.append({"w": w, "meta": {"s": "fixture", "must_accept": True}})
    demo = os.path.join(core.REPO, "tests", "testdata", "repodata_short_signed_sample.json")

    def must(c, io):
        if c["meta"].get("must_accept") and not io.startswith("O"):
            return "an envelope with enough valid authorized signatures (shipped fixture or generated) is rejected: %s" % core.impl_class(io)
        return c01.oracle_complete(c, io) if c["meta"]["s"] == "cfg" else None
    for enc in ("utf-8", "ascii", "latin-1"):
        for only_auth in (False, True):
            st = core.Stream("configurations: stdout=%s%s (junk entries with non-ASCII / lone surrogates; fixtures)" % (enc, ", only authentication imported" if only_auth else ""),
                             cfg, rel, must, lambda c, i, m: True, env={"PYTHONIOENCODING": enc}, only_auth=only_auth)
            core.run_stream(ctx, st)
    # everything the library's own signing functions produce verifies under the corresponding public keys
    import implrun
    from gen import SEEDS
    pls = [P, {"x": "é\ud800", "n": [1.5, None]}, "text", "12", "null", [1, [2]], {"signatures": {}, "signed": 1}]
    scases = []
    for pl in pls:
        for sq in ([0], [0, 1], [1, 0, 1], [2, 1, 0]):
            scases.append((wire.case("sign_sequence", pl, [SEEDS[i] for i in sq]), sorted(set(sq))))
        for new in ({"edited": True}, pl):
            for s1, s2 in (([0], [0]), ([0, 1], [1]), ([0], [1]), ([0, 1], [0, 1])):
                scases.append((wire.case("sign_edit_sign", pl, [SEEDS[i] for i in s1], new, [SEEDS[i] for i in s2]), sorted(set(s2))))
    souts = implrun.run_impl([w for w, _ in scases])
    lib = []
    for (w, fresh), (io, _) in zip(scases, souts):
        if not io.startswith("O"):
            ctx.violations.append(("property", {"stream": "library-made signatures", "case": w, "impl": io[:200], "reason": "the library's signing functions failed on a serializable payload: %s" % core.impl_class(io)}))
            continue
        env = wire.dec(io[1:])
        lib.append({"w": wire.case("verify_signable", env, [PUBHEX[i] for i in fresh], len(fresh), False), "meta": {"s": "cfg", "must_accept": True}})
        lib.append({"w": wire.case("verify_signable", env, [PUBHEX[i] for i in range(4)], len(fresh), False), "meta": {"s": "cfg", "must_accept": True}})

    def must_lib(c, io):
        if not io.startswith("O"):
            return "an envelope just signed by the library (fresh signatures by %s key(s)) does not verify: %s" % (wire.dec(c["w"])[3], core.impl_class(io))
        return None
    core.run_stream(ctx, core.Stream("envelopes produced by wrap_as_signable / sign_signable (sequences, re-signing after an edit) verify under the signers' keys", lib, rel, must_lib))
    # warnings escalated to errors (python -W error): skipping an ignorable entry must not turn into an exception
    core.run_stream(ctx, core.Stream("configurations: PYTHONWARNINGS=error (junk entries; fixtures)", cfg, rel, must, lambda c, i, m: True, env={"PYTHONWARNINGS": "error"}))
    ctx.assumptions = ["completeness theorems take 'valid' as the primitive's verdict; OpenPGP headers below 4 GiB"]

"""C09 -- sign-then-verify round trip, signer binding, determinism, order independence."""
import itertools
import core
import wire
import implrun
import jsongen as J
import envgen as E
from gen import SEEDS, PUBHEX, paths, get_at, set_at, del_at, deep, Obj


def edits(payload):
    """post-signing edits at every JSON path: (tag, new payload); 'reorder' edits keep the JSON value"""
    out = []
    for p in paths(payload):
        cur = get_at(payload, p)
        if type(cur) is int:
            out += [("int->float", set_at(payload, p, float(cur))), ("int+1", set_at(payload, p, cur + 1))]
            if cur in (0, 1):
                out.append(("int->bool", set_at(payload, p, bool(cur))))
        elif type(cur) is bool:
            out.append(("bool->int", set_at(payload, p, int(cur))))
        elif type(cur) is str:
            import unicodedata
            for form in ("NFC", "NFD", "NFKC"):
                try:
                    alt = unicodedata.normalize(form, cur)
                except ValueError:
                    alt = cur
                if alt != cur:
                    out.append(("str->" + form, set_at(payload, p, alt)))
            lossy = cur.encode("utf-8", "replace").decode("utf-8")
            if lossy != cur:
                out.append(("str->lossy-utf8", set_at(payload, p, lossy)))
            out += [("str+", set_at(payload, p, cur + " ")), ("str->case", set_at(payload, p, cur.swapcase())) if cur.swapcase() != cur else ("str+x", set_at(payload, p, cur + "x"))]
        elif cur is None:
            out.append(("null->false", set_at(payload, p, False)))
        elif type(cur) is float and cur == cur:
            out.append(("float-neg", set_at(payload, p, -cur if cur != 0 else 1.0)))
        elif type(cur) is list:
            out.append(("list+", set_at(payload, p, deep(cur) + [None])))
            if len(cur) >= 2 and wire.enc(cur[0]) != wire.enc(cur[1]):
                out.append(("list-swap", set_at(payload, p, [deep(cur[1]), deep(cur[0])] + deep(cur[2:]))))
        elif type(cur) is dict:
            out.append(("dict+", set_at(payload, p, dict(deep(cur), **{"new key": 0}))))
            if cur:
                k0 = next(iter(cur))
                ren = {(k + "_" if k == k0 else k): deep(v) for k, v in cur.items()}
                if len(ren) == len(cur):
                    out.append(("key-rename", set_at(payload, p, ren)))
            if len(cur) >= 2:
                out.append(("reorder", set_at(payload, p, dict(reversed(list(deep(cur).items()))))))
        if p:
            out.append(("delete", del_at(payload, p)))
    return out


def run(ctx):
    rng = ctx.rng
    payloads = list(J.FIXED[:14]) + E.PAYLOADS + [J.rand_json(rng) for _ in range(12 if ctx.quick else 150)]
    payloads += ["s", 7, 1.5, None, False, (1, 2), [(1, 2)]]
    # strings that spell canonical JSON text of another value: signed as STRINGS
    payloads += ["12", "null", "{}", "\"abc\"", "[\n  1\n]", "{\n  \"a\": 1\n}", "true"]
    # payloads that are themselves envelope-shaped (wrapping must still wrap), and strings with canonically equivalent respellings
    payloads[5:5] = [{"t": "caf\u00e9 \u212b \ufb01", "u": ["cafe\u0301", "x\ud83d", "?"]},
                     {"signatures": {}, "signed": {"a": 1}}, {"signatures": {PUBHEX[0]: E.raw_sig(0, [1])}, "signed": [1]}]
    bad_payloads = [b"bytes", {1, 2}, Obj(1), {"k": b"b"}, {1: 2}, {"s": {1}}]
    # (1) wrap + signing sequences: every order of 1..3 seeds, repeated signing; implementation envelope = model envelope
    seqs = []
    for n in (1, 2, 3):
        for combo in itertools.permutations(range(4), n):
            seqs.append(list(combo))
    seqs += [[0, 0], [0, 1, 0], [1, 0, 1, 0], [2, 2, 2], list(range(4)), list(reversed(range(4)))]
    cases = []
    for pi, pl in enumerate(payloads):
        use = seqs if pi < 8 else rng.sample(seqs, 6)
        for sq in use:
            cases.append({"w": wire.case("sign_sequence", pl, [SEEDS[i] for i in sq]), "meta": {"pi": pi, "seq": sq}})
    for pl in bad_payloads:
        cases.append({"w": wire.case("sign_sequence", pl, [SEEDS[0]]), "meta": {"pi": -1, "seq": [0]}})
        cases.append({"w": wire.case("wrap_as_signable", pl), "meta": {"pi": -1, "seq": []}})
    for pl in payloads[:20]:
        cases.append({"w": wire.case("wrap_as_signable", pl), "meta": {"pi": -2, "seq": []}})
    # sign, edit the payload, sign again (same and other keys): the envelope must carry signatures over the CURRENT payload
    for pi, pl in enumerate(payloads[:(10 if ctx.quick else 60)]):
        eds = edits(pl)[:6] if isinstance(pl, (dict, list)) else [("replace", {"other": pi})]
        for tag, new in eds + [("same", pl)]:
            for s1, s2 in (([0], [0]), ([0, 1], [1]), ([0], [1]), ([0, 1], [1, 0]), ([1], [])):
                try:
                    cases.append({"w": wire.case("sign_edit_sign", pl, [SEEDS[i] for i in s1], new, [SEEDS[i] for i in s2]),
                                  "meta": {"pi": -3, "seq": s1 + s2, "edit": tag}})
                except TypeError:
                    pass

    def rel(c, io, mo):
        if io.startswith("O") != mo.startswith("O"):
            return "signing outcome differs: implementation %s, model %s" % (core.impl_class(io), core.model_class(mo))
        if io.startswith("O") and io != mo:
            return "signed envelope differs from the model's: %s ... vs %s ..." % (io[:100], mo[:100])
        return None

    def oracle(c, io):
        tup = wire.dec(c["w"])
        if tup[0] == "sign_edit_sign" and io.startswith("O"):
            _, pl, s1, new, s2 = tup
            env = wire.dec(io[1:])
            if wire.enc(env.get("signed")) != wire.enc(new):
                return "payload is not the edited payload"
            want = {}
            for sd in s1:
                want[PUBHEX[SEEDS.index(sd)]] = E.raw_sig(SEEDS.index(sd), pl)
            for sd in s2:
                want[PUBHEX[SEEDS.index(sd)]] = E.raw_sig(SEEDS.index(sd), new)
            if env.get("signatures") != want:
                return "after sign / edit / sign again the entries of the re-signing keys are not signatures over the current payload"
            return None
        if tup[0] != "sign_sequence" or not io.startswith("O"):
            if tup[0] == "wrap_as_signable" and io.startswith("O"):
                env = wire.dec(io[1:])
                if wire.enc(env) != wire.enc({"signatures": {}, "signed": tup[1]}):
                    return "wrap_as_signable changed the payload or did not start with an empty signature map"
            return None
        _, pl, seeds = tup
        env = wire.dec(io[1:])
        if wire.enc(env.get("signed")) != wire.enc(pl):
            return "payload changed by wrapping/signing"
        want = {}
        for sd in seeds:
            i = SEEDS.index(sd)
            want[PUBHEX[i]] = E.raw_sig(i, pl)
        if env.get("signatures") != want:
            return "signature map is not {hex(pub): {signature: hex(ed25519(seed, canonical bytes))}} for the signers (independent crypto)"
        return None
    impl, mdl = core.run_stream(ctx, core.Stream("wrap + signing sequences: payloads x every order of 1..3 of 4 seeds x repeated signing", cases, rel, oracle,
                                                 nontrivial=lambda c, i, m: len(c["meta"]["seq"]) > 0))
    # order independence: same payload, same signer set => same canonical bytes
    groups = {}
    for c, (io, _) in zip(cases, impl):
        if io.startswith("O") and c["meta"]["pi"] >= 0:
            key = (c["meta"]["pi"], tuple(sorted(set(c["meta"]["seq"]))))
            groups.setdefault(key, []).append((c, E.canon(wire.dec(io[1:]))))
    for key, lst in groups.items():
        if len({b for _, b in lst}) > 1:
            ctx.violations.append(("property", {"stream": "order independence", "case": lst[0][0]["w"], "impl": "",
                                                "reason": "signing by the same keys in different orders gives different canonical bytes: orders %s" % [c["meta"]["seq"] for c, _ in lst][:4]}))
    # (2) thresholds 1..n+1 against every authorized subset; (3) post-signing edits
    vcases = []
    for c, (io, _) in zip(cases, impl):
        if not io.startswith("O") or c["meta"]["pi"] < 0 or c["meta"]["pi"] >= 10:
            continue
        env = wire.dec(io[1:])
        signers = sorted(set(c["meta"]["seq"]))
        if c["meta"]["seq"] != signers:
            continue
        n = len(signers)
        for K in ([PUBHEX[i] for i in signers], [PUBHEX[i] for i in signers[:1]], [PUBHEX[signers[0]]] * 2, [PUBHEX[i] for i in signers] * 2, [PUBHEX[i] for i in range(5)], [PUBHEX[4]], [PUBHEX[i] for i in signers[1:]] + [PUBHEX[5]]):
            for t in range(1, n + 2):
                vcases.append({"w": wire.case("verify_signable", env, K, t, False), "meta": {"s": "threshold", "edit": None}})
    for pi, pl in enumerate(payloads[:(8 if ctx.quick else 40)]):
        try:
            sigs = {PUBHEX[0]: E.raw_sig(0, pl), PUBHEX[1]: E.gpg_sig(1, pl)}
        except (TypeError, ValueError):
            continue
        if not isinstance(pl, (dict, list)):
            continue
        for tag, new in edits(pl):
            try:
                same = E.canon(new) == E.canon(pl)
            except (TypeError, ValueError):
                continue
            for gpg, k in ((False, 0), (True, 1)):
                vcases.append({"w": wire.case("verify_signable", {"signatures": sigs, "signed": new}, [PUBHEX[k]], 1, gpg),
                               "meta": {"s": "edit", "edit": tag, "same": same}})

    # a stale signature next to a fresh one: sign by A (and B), edit, sign again by B only -- B alone must carry threshold 1 against [A, B]
    for c, (io, _) in zip(cases, impl):
        if io.startswith("O") and c["meta"].get("edit") not in (None, "same") and c["meta"]["pi"] == -3:
            _, pl, s1, new, s2 = wire.dec(c["w"])
            env = wire.dec(io[1:])
            allk = [PUBHEX[SEEDS.index(sd)] for sd in dict.fromkeys(list(s1) + list(s2))]
            for t in (1, len(set(s2)), len(set(s2)) + 1):
                if t >= 1:
                    vcases.append({"w": wire.case("verify_signable", env, allk, t, False), "meta": {"s": "threshold", "edit": None}})

    # wrapping copies: later changes to the caller's object (or to another envelope wrapped from it) never reach the envelope
    wcases = [{"w": wire.case("wrap_isolation", v), "meta": {}} for v in payloads[:40] if isinstance(v, (dict, list)) and v]

    def woracle(c, io):
        if io.startswith("O") and wire.dec(io[1:]):
            return "the envelope does not carry its own copy of the payload: %s" % wire.dec(io[1:])[0]
        return None
    core.run_stream(ctx, core.Stream("wrap_as_signable copies the payload (writes through every nested container of the original and of the envelope)", wcases,
                                     lambda c, io, mo: None, woracle, model=False))

    def voracle(c, io):
        _, env, K, t, gpg = wire.dec(c["w"])
        n = len(E.counting_keys(env, K, bool(gpg)))
        if io.startswith("O") != (n >= t):
            return "%d authorized signer(s) count, threshold %d, implementation says %s" % (n, t, core.impl_class(io))
        m = c["meta"]
        if m["s"] == "edit":
            if m["same"] and not io.startswith("O"):
                return "a reordering that keeps the JSON value stopped an old signature from counting"
            if not m["same"] and io.startswith("O"):
                return "an old signature still counts after the payload edit '%s'" % m["edit"]
        return None
    core.run_stream(ctx, core.Stream("signed envelopes x authorized subsets x thresholds 1..n+1; post-signing edits at every JSON path (value, rename, type, reorder, delete)",
                                     vcases, lambda c, io, mo: None if (core.impl_class(io) == "accept") == (core.model_class(mo) == "accept") else "accept/reject differs: implementation %s, model %s" % (core.impl_class(io), core.model_class(mo)),
                                     voracle))
    # wrap_as_signable as written in signing.py: Gen/Source.v (translated on this run) interpreted by PySrc.run_prog, against the implementation
    from gen import interesting_values
    wvals = [v for v in interesting_values()] + list(J.FIXED[:20]) + E.PAYLOADS[:4] + [True, 1, 1.0, -0.0, (1, [2]), {"k": (1,)}, {1, 2}, frozenset(), b"x", bytearray(b"x"), Obj(3)]
    wsrc = []
    for v in wvals:
        try:
            wsrc.append({"w": wire.case("src_run", "wrap_as_signable", v), "meta": {"fn": "wrap_as_signable"}})
        except TypeError:
            pass
    core.run_stream(ctx, core.Stream("interpreted source (Gen/Source.v via PySrc.run_prog) vs implementation: wrap_as_signable on values of every type",
                                     wsrc, lambda c, io, mo: None if io == mo else "the interpreted source and the implementation differ on wrap_as_signable: impl %s, interpreter %s" % (io[:80], mo[:80]),
                                     None, nontrivial=lambda c, i, m: m != "U", mismatch_kind="tie"))
    ctx.assumptions = ["ed25519 is a parameter of the theorems (sizes, correctness; ideal binding for edit_stops_counting only); the oracle tables come from pyca/cryptography called directly",
                       "canonical-bytes equality across signing orders is checked on the implementation; the theorem states lookup-by-lookup equality of the maps (byte equality follows from C07 order independence)"]

"""C11 -- repodata artifact signing is complete, faithful and client-verifiable."""
import core
import wire
import jsongen as J
import envgen as E
import mdgen as M
from gen import SEEDS, PUBHEX


def art_md(rng, i):
    r = rng.random()
    if r < 0.6:
        return {"name": "pkg%d" % i, "version": "1.%d" % rng.randint(0, 9), "build_number": rng.randint(0, 3), "depends": ["python >=3.%d" % rng.randint(6, 12)],
                "sha256": "%064x" % rng.getrandbits(256), "size": rng.randint(1, 10 ** 7), "timestamp": rng.randint(10 ** 12, 2 * 10 ** 12)}
    if r < 0.85:
        v = J.rand_json(rng, depth=2)
        return v
    if r < 0.9:
        inner = {"name": "pkg%d" % i, "v": rng.randint(0, 3)}
        return {"signatures": rng.choice([{}, {"x": 1}, {PUBHEX[3]: E.raw_sig(3, inner)}]), "signed": inner}      # shaped like an envelope: still just metadata
    return rng.choice([{}, [], "str", 5, None, {"é\ud800": [1.5, -0.0, 1e16]}, M.md("root", 1, {"root": M.delegation((0,), 1)}), M.md("key_mgr", 1, {})])


def gen_repo(rng, quick):
    names_a = ["pkg%d-1.0-0.tar.bz2" % i for i in range(rng.randint(0, 4 if quick else 6))]
    names_b = ["pkg%d-1.0-0.conda" % i for i in range(rng.randint(0, 4 if quick else 6))]
    if rng.random() < 0.15:
        names_a.append("ünï\ud800.tar.bz2")
    if rng.random() < 0.5:
        # artifacts listed in an order that is not the sorted one (files written by other tools, appended entries)
        rng.shuffle(names_a)
        rng.shuffle(names_b)
    r = {}
    fields = ["info", "packages", "packages.conda", "signatures", "removed", "repodata_version"]
    rng.shuffle(fields)
    for f in fields:
        if f == "info" and rng.random() < 0.7:
            r[f] = {"subdir": "noarch"}
        elif f == "packages":
            r[f] = {n: art_md(rng, i) for i, n in enumerate(names_a)}
        elif f == "packages.conda" and rng.random() < 0.7:
            r[f] = {n: art_md(rng, i + 10) for i, n in enumerate(names_b)}
        elif f == "signatures" and rng.random() < 0.6:
            r[f] = rng.choice([{}, {"stale-0.1-0.tar.bz2": {PUBHEX[3]: {"signature": "0" * 128}}}, {"x": 5}, [], "junk", None,
                               {n: {PUBHEX[2]: E.raw_sig(2, "old")} for n in names_a},
                               # well-formed entries by the SAME keys the file is about to be signed with, over earlier metadata
                               {n: {PUBHEX[0]: E.raw_sig(0, {"old": n}), PUBHEX[1]: E.raw_sig(1, {"old": n})} for n in names_a + names_b},
                               {n: {PUBHEX[rng.randrange(2)]: E.raw_sig(rng.randrange(2), "previous")} for n in names_a + names_b + ["gone.conda"]},
                               "ALREADY-CORRECT-0", "ALREADY-CORRECT-1"])
        elif f == "removed" and rng.random() < 0.4:
            r[f] = ["gone-1.0-0.tar.bz2"]
        elif f == "repodata_version" and rng.random() < 0.5:
            r[f] = 1
    # a section that already holds exactly what signing with key 0 / key 1 will produce (the file is still not canonical: it must be rewritten)
    if isinstance(r.get("signatures"), str) and r["signatures"].startswith("ALREADY-CORRECT"):
        i = int(r["signatures"][-1])
        sec = {}
        for part in ("packages", "packages.conda"):
            for n, mdv in (r.get(part) or {}).items():
                try:
                    sec[n] = {PUBHEX[i]: E.raw_sig(i, mdv)}
                except (TypeError, ValueError):
                    pass
        r["signatures"] = sec
    return r


MALFORMED = [{}, {"packages.conda": {}}, [], "packages", ["packages"], None, 5, {"packages": []}, {"packages": None}, {"packages": "x"},
             {"packages": {}, "packages.conda": []}, {"packages": {}, "packages.conda": None}, {"packages": {"a": {1.5: 2}}}]
KEYS = [SEEDS[0].hex(), SEEDS[1].hex()]
BADKEYS = ["", "00" * 31, "00" * 33, SEEDS[0].hex().upper(), "zz" * 32, None, 5, b"\x00" * 32, " " + SEEDS[0].hex()]


def run(ctx):
    rng = ctx.rng
    repos = [gen_repo(rng, ctx.quick) for _ in range(120 if ctx.quick else 2500)]
    repos[0] = {"packages": {}, "packages.conda": {}}
    repos[1] = {"packages": {}}
    cases = []
    for r in repos:
        cases.append({"w": wire.case("sign_all_value", r, rng.choice(KEYS)), "meta": {"tag": "repo"}})
    # signed outputs whose canonical length sits on and around multiples of 64 KiB (block-wise writers): sized through a free-text field
    def sized_repo(target):
        mdv = {"name": "a", "version": "1.0", "build_number": 0, "depends": [], "size": 1}
        r = {"info": {"subdir": "noarch", "comment": ""}, "packages": {"b-1.0-0.tar.bz2": mdv, "a-1.0-0.tar.bz2": dict(mdv, name="b")}, "packages.conda": {}}
        out = dict(r, signatures={n: {PUBHEX[0]: E.raw_sig(0, m)} for n, m in r["packages"].items()})
        r["info"]["comment"] = "x" * (target - len(E.canon(out)))
        return r
    for k in ((1,) if ctx.quick else (1, 2, 3)):
        for d in (-1, 0, 1, 2):
            cases.append({"w": wire.case("sign_all_value", sized_repo(65536 * k + d), KEYS[0]), "meta": {"tag": "repo"}})
    for r in MALFORMED:
        cases.append({"w": wire.case("sign_all_value", r, KEYS[0]), "meta": {"tag": "malformed"}})
    for k in BADKEYS:
        cases.append({"w": wire.case("sign_all_value", repos[2], k), "meta": {"tag": "badkey"}})

    def canon_of(o):
        try:
            return E.canon(wire.dec(o[1:]))
        except Exception:
            return None

    def rel(c, io, mo):
        if io.startswith("O") != mo.startswith("O"):
            return "outcome differs: implementation %s, model %s" % (core.impl_class(io), core.model_class(mo))
        if io.startswith("O"):
            a, b = canon_of(io), canon_of(mo)
            if a is None or a != b:
                return "file content after signing differs from the model's (canonical bytes)"
        return None

    def oracle(c, io):
        _, r, keyhex = wire.dec(c["w"])
        if not io.startswith("O"):
            if core.impl_class(io) == "RuntimeError":
                return "the file written is not in canonical form"
            return None
        out = wire.dec(io[1:])
        i = KEYS.index(keyhex)
        want = {}
        for sec in ("packages", "packages.conda"):
            for n, md in r.get(sec, {}).items():
                want[n] = {PUBHEX[i]: E.raw_sig(i, md)}
        if out.get("signatures") != want:
            return "signatures section is not exactly one well-formed entry per artifact under the signer's key (independent crypto); got names %s" % sorted(out.get("signatures", {}))[:6]
        a = {k: v for k, v in out.items() if k != "signatures"}
        b = {k: v for k, v in r.items() if k != "signatures"}
        if E.canon(a) != E.canon(b):
            return "a field other than 'signatures' changed"
        return None
    impl, mdl = core.run_stream(ctx, core.Stream("sign_all_in_repodata on generated repodata files (0-6 artifacts per section, stale/malformed signatures sections, extra fields, absent packages.conda), malformed documents, bad keys",
                                                 cases, rel, oracle, nontrivial=lambda c, i, m: c["meta"]["tag"] == "repo"))
    # signing again changes nothing; client path; cross-artifact
    again, client = [], []
    for c, (io, _) in zip(cases, impl):
        if not io.startswith("O") or c["meta"]["tag"] != "repo":
            continue
        _, r, keyhex = wire.dec(c["w"])
        out = wire.dec(io[1:])
        again.append({"w": wire.case("sign_all_value", out, keyhex), "meta": {"tag": "again", "want": E.canon(out)}})
        i = KEYS.index(keyhex)
        T = M.envelope(M.md("key_mgr", 1, {"pkg_mgr": M.delegation((i,), 1)}), (), mode="raw")
        arts = [(n, md) for sec in ("packages", "packages.conda") for n, md in r.get(sec, {}).items()]
        if len(client) > (600 if ctx.quick else 20000):
            continue
        sigsec = out.get("signatures") if isinstance(out, dict) and isinstance(out.get("signatures"), dict) else {}
        for n, md in arts:
            if not isinstance(sigsec.get(n), dict):
                continue      # a missing entry is reported by the first stream's oracle
            U = {"signatures": sigsec[n], "signed": md}
            client.append({"w": wire.case("verify_delegation", "pkg_mgr", U, T, False), "meta": {"tag": "own"}})
            for n2, md2 in arts[:3]:
                if n2 != n:
                    client.append({"w": wire.case("verify_delegation", "pkg_mgr", {"signatures": sigsec[n], "signed": md2}, T, False),
                                   "meta": {"tag": "cross"}})

    def again_oracle(c, io):
        if not io.startswith("O") or E.canon(wire.dec(io[1:])) != c["meta"]["want"]:
            return "signing an already signed file again changed it (%s)" % core.impl_class(io)
        return None
    core.run_stream(ctx, core.Stream("signing the signed file again", again, rel, again_oracle))

    def client_oracle(c, io):
        _, name, U, T, gpg = wire.dec(c["w"])
        want = M.delegation_rhs(name, U, T, gpg)
        if want != io.startswith("O"):
            return "client path (%s metadata): delegation rule says %s, verify_delegation says %s" % (c["meta"]["tag"], want, core.impl_class(io))
        return None
    core.run_stream(ctx, core.Stream("client path: each artifact's entry against its own metadata and against other artifacts' metadata, through a pkg_mgr delegation",
                                     client, lambda c, io, mo: None if (core.impl_class(io) == "accept") == (core.model_class(mo) == "accept") else "accept/reject differs: implementation %s model %s" % (core.impl_class(io), core.model_class(mo)),
                                     client_oracle, nontrivial=lambda c, i, m: True))
    ctx.assumptions = ["artifact names within one document are distinct (JSON objects loaded into dicts); a name in both sections gets the packages.conda entry",
                       "artifact metadata that is itself well-formed delegating metadata is refused as pkg_mgr (C06); generated and expected to be refused"]

"""C03 -- root update accepted iff version+1 and signed per old and new root rules."""
import itertools
import core
import wire
from gen import PUBHEX, interesting_values, paths, set_at, del_at, get_at
import envgen as E
import mdgen as M


def subsets(xs):
    for r in range(len(xs) + 1):
        yield from itertools.combinations(xs, r)


def build_pairs(ctx):
    rng = ctx.rng
    out = []
    olds = [((0,), 1), ((0, 1), 2), ((0, 1, 2), 2)]
    news = [((0,), 1), ((1,), 1), ((1, 2), 2), ((0, 1), 1), ((3,), 1), ((0, 1, 2), 3)]
    for (ok, ot), (nk, nt) in itertools.product(olds, news):
        T = M.envelope(M.root_md(1, ok, ot), ok)
        for signers in subsets((0, 1, 2, 3)):
            U = M.envelope(M.root_md(2, nk, nt, expiration="2031-01-01T00:00:00Z"), signers)
            out.append((T, U, {"s": "rules x signer subsets"}))
    # signature states of one signer
    T = M.envelope(M.root_md(1, (0, 1), 2), (0, 1))
    usigned = M.root_md(2, (0, 1), 2)
    for st in E.value_states(0, usigned, {"o": 1}, 1):
        out.append((T, M.envelope(usigned, (0, 1), states={0: st}), {"s": "signature state", "state": st}))
        out.append((T, M.envelope(usigned, (0, 1), states={1: st}), {"s": "signature state", "state": st}))
    # versions
    vers = [(1, 2), (1, 1), (1, 3), (2, 1), (1, 2.0), (1.0, 2), (True, 2), (1, True), (2 ** 53, 2 ** 53 + 1), (float(2 ** 53), float(2 ** 53)),
            (float(2 ** 53), 2 ** 53 + 1), (float(2 ** 53), float(2 ** 53 + 2)), (10 ** 30, 10 ** 30 + 1), (3, 4), (3, "4"), (1, 2.5), (0, 1), (1, None),
            (float("inf"), 2), (1, float("inf")), (1, float("nan")), (-1, 0), (5, 6.0), (2 ** 63 - 1, 2 ** 63),
            (10 ** 400, 1e300), (1e300, 10 ** 400), (10 ** 400, 10 ** 400 + 1), (2 ** 1024, 2 ** 1024 + 1), (1e300, 1e300), (2 ** 1024 - 1, float(2 ** 1023) * 2 if False else 1e308)]
    for tv, uv in vers:
        T = M.envelope(M.root_md(tv, (0,), 1), (0,))
        out.append((T, M.envelope(M.root_md(uv, (0,), 1), (0,)), {"s": "versions", "v": repr((tv, uv))}))
    # declared types and root delegation presence
    for tt, ut in itertools.product(("root", "key_mgr", "other", Ellipsis, 5), repeat=2):
        T = M.envelope(M.md(tt, 1, {"root": M.delegation((0,), 1)}), (0,))
        U = M.envelope(M.md(ut, 2, {"root": M.delegation((0,), 1)}), (0,))
        out.append((T, U, {"s": "types"}))
    for tdl, udl in itertools.product(({}, {"key_mgr": M.delegation((0,), 1)}, {"root": M.delegation((0,), 1)}, {"Root": M.delegation((0,), 1)}), repeat=2):
        out.append((M.envelope(M.md("root", 1, tdl), (0,)), M.envelope(M.md("root", 2, udl), (0,)), {"s": "root delegation presence"}))
    # delegations whose names resemble "root" (file-name forms, case, blanks), before and after the real one: only "root" rules
    for alias in ("root.json", "Root", "root ", "1.root.json", "ROOT", "roots"):
        for first in (False, True):
            for signers in ((0,), (2,), (0, 2)):
                dl = {alias: M.delegation((2,), 1), "root": M.delegation((0,), 1)} if first else {"root": M.delegation((0,), 1), alias: M.delegation((2,), 1)}
                Tt = M.envelope(M.md("root", 1, dict(dl, key_mgr=M.delegation((4,), 1))), (0,))
                out.append((Tt, M.envelope(M.root_md(2, (0,), 1), signers), {"s": "root-like delegation names", "alias": alias}))
                out.append((Tt, M.envelope(M.md("root", 2, dict(dl, key_mgr=M.delegation((4,), 1))), signers), {"s": "root-like delegation names", "alias": alias}))
        Tt = M.envelope(M.md("root", 1, {alias: M.delegation((2,), 1), "key_mgr": M.delegation((4,), 1)}), (2,))
        out.append((Tt, M.envelope(M.md("root", 2, {alias: M.delegation((2,), 1), "key_mgr": M.delegation((4,), 1)}), (2,)), {"s": "root-like delegation names", "alias": alias}))
    # raw-mode signatures must not count; thresholds as floats/bools
    out.append((M.envelope(M.root_md(1, (0,), 1), (0,)), M.envelope(M.root_md(2, (0,), 1), (0,), mode="raw"), {"s": "raw sigs"}))
    for th in (1.0, True, 2.0, 0, -1, 10 ** 20):
        out.append((M.envelope(M.root_md(1, (0, 1), th), (0,)), M.envelope(M.root_md(2, (0, 1), 1), (0, 1)), {"s": "threshold kinds"}))
        out.append((M.envelope(M.root_md(1, (0, 1), 1), (0,)), M.envelope(M.root_md(2, (0, 1), th), (0, 1)), {"s": "threshold kinds"}))
    # one malformation at one JSON path of either side
    T0 = M.envelope(M.root_md(1, (0, 1), 1), (0,))
    U0 = M.envelope(M.root_md(2, (0, 1), 1), (0, 1))
    vals = interesting_values()
    plist = [p for p in paths(U0) if p]
    nper = 6 if ctx.quick else len(vals)
    for p in plist:
        for v in rng.sample(vals, nper):
            out.append((T0, set_at(U0, p, v), {"s": "mutation-U", "path": repr(p)}))
            if p[0] == "signed":
                Tm = set_at(T0, p, v)
                out.append((Tm, U0, {"s": "mutation-T", "path": repr(p)}))
        out.append((T0, del_at(U0, p), {"s": "deletion-U", "path": repr(p)}))
        if p[0] == "signed":
            out.append((del_at(T0, p), U0, {"s": "deletion-T", "path": repr(p)}))
    # one root key under several spellings (trusted side, offered side, or only in the unsigned map): never a second signer
    for sp in M.RESPELL:
        Tr = M.envelope(M.md("root", 1, {"root": M.respelled(0, 2, (sp,)), "key_mgr": M.delegation((4,), 1)}), (0,))
        Ur = M.respell_signatures(M.envelope(M.root_md(2, (0,), 1), (0,)), 0, (sp,))
        out.append((Tr, Ur, {"s": "respelled key in the trusted root", "sp": sp}))
        Us = M.md("root", 2, {"root": M.respelled(0, 2, (sp,)), "key_mgr": M.delegation((4,), 1)})
        out.append((T0, M.respell_signatures(M.envelope(Us, (0,)), 0, (sp,)), {"s": "respelled key in the offered root", "sp": sp}))
        T2 = M.envelope(M.root_md(1, (0, 1), 2), (0, 1))
        out.append((T2, M.respell_signatures(M.envelope(M.root_md(2, (0, 1), 2), (0,)), 0, (sp, "upper", "lead_ws")), {"s": "respelled entries in the map", "sp": sp}))
    # self-appointed: new root lists and is signed by attacker keys only / attacker raises its own threshold
    out.append((T0, M.envelope(M.root_md(2, (2, 3), 1), (2, 3)), {"s": "self-appointed"}))
    out.append((T0, M.envelope(M.root_md(2, (2, 3), 1, extra_field={"root": PUBHEX[2]}), (2, 3)), {"s": "self-appointed"}))
    return out


def run(ctx):
    pairs = build_pairs(ctx)
    cases = [{"w": wire.case("verify_root", T, U), "meta": m} for T, U, m in pairs]

    def rel(c, io, mo):
        ia, ma = core.impl_class(io), core.model_class(mo)
        if (ia == "accept") != (ma == "accept"):
            return "accept/reject differs: implementation %s, model %s" % (ia, ma)
        return None

    def oracle(c, io):
        _, T, U = wire.dec(c["w"])
        try:
            want = M.root_rhs(T, U)
        except Exception as e:  # noqa: the declarative side cannot be evaluated (e.g. unserializable payload)
            want = False
        got = io.startswith("O")
        if got != want:
            return "update rule says %s, verify_root %s (%s)" % ("accept" if want else "reject", "accepted" if got else "rejected", core.impl_class(io))
        return None

    def nontriv(c, io, mo):
        _, T, U = wire.dec(c["w"])
        try:
            return M.dm_ok(T) and M.dm_ok(U)
        except Exception:
            return False
    core.run_stream(ctx, core.Stream("verify_root: rules x signer subsets x signature states x versions x types x path mutations", cases, rel, oracle, nontriv))
    # the body of verify_root as written in authentication.py (Gen/Source.v, translated on this run), interpreted, with the model answering for
    # verify_signable: against the implementation on the same cases
    scases = [{"w": c["w"].replace("verify_root", "src_verify_root", 1), "meta": c["meta"]} for c in cases[:: (2 if ctx.quick else 1)]]
    core.run_stream(ctx, core.Stream("interpreted source of verify_root (Gen/Source.v via PySrc.run_body, verify_signable answered by the model) vs implementation",
                                     scases, lambda c, io, mo: None if core.impl_class(io) == core.model_class(mo) else "the interpreted source and the implementation differ: impl %s, interpreter %s" % (core.impl_class(io), core.model_class(mo)),
                                     None, nontrivial=lambda c, i, m: m != "U", mismatch_kind="tie"))
    def want(c):
        _, T, U = wire.dec(c["w"])
        try:
            return M.root_rhs(T, U)
        except Exception:
            return False
    sub = [c for c in cases if c["meta"]["s"] in ("rules x signer subsets", "signature state", "self-appointed", "raw sigs", "types",
                                                 "respelled key in the trusted root", "respelled key in the offered root", "respelled entries in the map")]
    core.failing_stdout_streams(ctx, "verify_root on the signer-subset / signature-state / self-appointed cases", sub, want)
    ctx.assumptions = ["float versions/thresholds with |x| < 1e16 (float view computed from the decimal token)",
                       "OpenPGP-style signatures are made by the harness (RFC 4880 framing + ed25519); GnuPG itself is exercised under C10"]

"""C18 -- in-place signing is all-or-nothing with respect to failures (fault injection at every executed line)."""
import json
import os
import re
import subprocess

import core
import wire
import implrun

HERE = os.path.dirname(os.path.dirname(os.path.abspath(__file__)))
SYM = {"Sign": "G", "Serialize": "S", "OpenTrunc": "O", "Read": "R?"}


def to_regex(p):
    if p[0] == "E":
        return SYM.get(p[1], "")
    if p[0] == "Seq":
        return "".join(to_regex(x) for x in p[1])
    if p[0] == "Loop":
        return "(?:%s)*" % to_regex(p[1])
    return "(?:%s|%s)" % (to_regex(p[1]), to_regex(p[2]))


def has_unknown(p):
    if p[0] == "E":
        return p[1] == "Unknown"
    if p[0] == "Seq":
        return any(has_unknown(x) for x in p[1])
    if p[0] == "Loop":
        return has_unknown(p[1])
    return has_unknown(p[1]) or has_unknown(p[2])


def worker(quick, with_sslib):
    env = implrun.base_env()
    if with_sslib:
        env["PYTHONPATH"] = os.path.join(HERE, "fake_sslib") + os.pathsep + core.REPO
    cmd = [core.PY, os.path.join(HERE, "fault_worker.py")] + (["--quick"] if quick else [])
    p = subprocess.run(cmd, env=env, capture_output=True, text=True, timeout=3000, cwd="/tmp")
    if p.returncode != 0:
        raise RuntimeError("fault worker failed: %s" % p.stderr[-1500:])
    return json.loads(p.stdout), " ".join(cmd) + ("   (PYTHONPATH=%s)" % env["PYTHONPATH"])


def run(ctx):
    sks = json.load(open(os.path.join(core.BUILD, "skeleton.json")))
    for name, p in sks.items():
        if has_unknown(p):
            ctx.notes.append("skeleton of %s contains a call the translator cannot classify" % name)
    for with_sslib in (True, False):
        results, cmd = worker(ctx.quick, with_sslib)
        for r in results:
            nv = len(r["violations"])
            for v in r["violations"][:3]:
                ctx.violations.append(("property", {"stream": "fault injection: " + r["scenario"], "case": wire.case("fault", r["scenario"], v.get("event", -1)),
                                                    "impl": v["what"], "reason": v["what"], "script": cmd, "where": v.get("where")}))
            # the effects observed in the baseline run must be a trace of the generated skeleton (validates the translator)
            if r.get("skeleton") and r.get("observed_effects") is not None:
                rx = to_regex(sks[r["skeleton"]])
                if not re.fullmatch(rx, r["observed_effects"]):
                    ctx.violations.append(("correspondence", {"stream": "observed effects vs generated skeleton", "case": wire.case("effects", r["scenario"]),
                                                              "impl": r["observed_effects"], "model": rx, "reason": "the effect sequence observed for %s (%s) is not a trace of the skeleton generated from the source (%s)"
                                                              % (r["scenario"], r["observed_effects"], rx)}))
            if r.get("observed_effects") is not None and not re.fullmatch(r"[RGS]*O*", r["observed_effects"]):
                ctx.violations.append(("property", {"stream": "observed effect order", "case": wire.case("effects", r["scenario"]), "impl": r["observed_effects"],
                                                    "reason": "%s: the output file was opened for writing before all signing / serialization was done (observed effects %s: R read, G sign, S serialize, O open for writing)"
                                                    % (r["scenario"], r["observed_effects"]), "script": cmd}))
            ctx.streams.append({"stream": "%s%s" % (r["scenario"], "" if with_sslib else " [no securesystemslib]"),
                                "cases": r.get("fault_points_tested", 1), "distinct_nontrivial": r.get("fault_points_tested", 1),
                                "impl_outcomes": {"line_events": r.get("line_events"), "first_output_event": r.get("first_output_event"),
                                                  "observed_effects": r.get("observed_effects"), "events_in_output_phase": r.get("events_in_output_phase")},
                                "unmodelled": 0, "mismatches": 0, "oracle_violations": nv, "wall_s": 0})
    ctx.kernel_sample = []
    ctx.assumptions = ["faults are injected at line granularity (sys.settrace) in every executed line of conda_content_trust before the output file is opened; bytecode-level and OS-level faults (ENOSPC inside write, power loss) are outside the claim",
                       "the GPG path is exercised with an in-process stand-in signer behind securesystemslib's interface"]

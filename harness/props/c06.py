"""C06 -- declared type bound to role by signed content alone; stripping non-counting entries keeps acceptance."""
import core
import wire
from gen import PUBHEX
import envgen as E
import mdgen as M
from props import c01, c03, c05


def strip_env(env, K, gpg):
    good = {bytes.hex(b) for b in E.counting_keys(env, K, gpg)}
    return {"signatures": {k: v for k, v in env["signatures"].items() if k in good}, "signed": env["signed"]}


def run(ctx):
    def rel(c, io, mo):
        ia, ma = core.impl_class(io), core.model_class(mo)
        if ia == "accept" and ma != "accept":
            return "implementation accepts, model says %s" % ma
        return None

    # (ii) type-mismatched delegating metadata under every decoration of the signature map
    T = M.envelope(M.md("root", 3, {"root": M.delegation((0,), 1), "key_mgr": M.delegation((1,), 1), "pkg_mgr": M.delegation((1,), 1),
                                    "зеркало": M.delegation((0, 1), 1), "clés": M.delegation((0, 1), 1), "key_mgr\u2024json": M.delegation((0, 1), 1)}), (0,))
    decorations = [{}, {"junk": 5}, {"junk": None}, {"\ud800": {"x": 1}}, {PUBHEX[2]: "notadict"}, {PUBHEX[2]: {"signature": "zz"}},
                   {"é" * 64: {"signature": "0" * 128}}, {PUBHEX[2].upper(): {"signature": "0" * 128}}, {"a": [], "b": {}, "c": 1.5},
                   {PUBHEX[3]: {"signature": "0" * 128, "other_headers": ""}}, {PUBHEX[3]: {"signature": "0" * 127}}]
    cases = []
    for declared, asrole in (("root", "key_mgr"), ("key_mgr", "root"), ("root", "pkg_mgr"), ("key_mgr", "pkg_mgr"), ("key_mgr", "Key_mgr"),
                             ("key_mgr", "зеркало"), ("root", "clés"), ("key_mgr", "key_mgr\u2024json")):
        for ver in (1, 4):
          dl0 = {"root": M.delegation((1,), 1)} if declared == "root" else {}
          # the plain document, then unusual spellings the documented schema still admits
          variants = [M.md(declared, ver, dl0)]
          if ver == 1:
              variants += [M.md(declared, ver, dl0, expiration="2030-1-05T00:00:00Z"), M.md(declared, ver, dl0, timestamp="2020-1-1T0:0:0Z"),
                           M.md(declared, ver, dl0, expiration="2030-01-01t00:00:00z"), M.md(declared, ver, dl0, timestamp="２０２０-01-01T00:00:00Z"),
                           M.md(declared, True, dl0), M.md(declared, 2.0, dl0), M.md(declared, ver, dl0, timestamp=Ellipsis),
                           M.md(declared, ver, dl0, extra_field={"x": [1, None]}), M.md(declared, ver, dl0, spec=""),
                           M.md(declared, ver, dl0, spec="1.0.0"), M.md(declared, ver, dl0, spec="2.0.0-b\u00eata\udc80"), M.md(declared, ver, dl0, spec="not a version"),
                           M.md(declared, ver, dict(dl0, **{"é": M.delegation((), 7.0), "": M.delegation((0, 1, 2, 3), True)})),
                           M.md(declared, 2 ** 80, dl0, expiration="9999-12-31T23:59:59Z")]
              if declared != "root":
                  variants.append(M.md(declared, Ellipsis, dl0))
          for signed in variants:
            assert M.signed_ok(signed), signed
            for gpg in (False, True):
                base = M.envelope(signed, (0, 1), mode="gpg" if gpg else "raw")
                for dec in decorations:
                    for front in (False, True):
                        sigs = dict(dec, **base["signatures"]) if front else dict(base["signatures"], **dec)
                        cases.append({"w": wire.case("verify_delegation", asrole, {"signatures": sigs, "signed": signed}, T, gpg),
                                      "meta": {"s": "type mismatch", "declared": declared, "as": asrole}})

    def oracle_mismatch(c, io):
        if io.startswith("O"):
            return "metadata declaring type %s accepted as role %s" % (c["meta"]["declared"], c["meta"]["as"])
        return None
    core.run_stream(ctx, core.Stream("type-mismatched delegating metadata x decorations of the unsigned signature map", cases, rel, oracle_mismatch))
    # the same under standard outputs that cannot print everything (ASCII, failing on every write): an error inside a diagnostic is not an acceptance
    sub = cases[:: max(1, len(cases) // 600)]
    core.failing_stdout_streams(ctx, "type-mismatched delegating metadata", sub, lambda c: False)
    core.run_stream(ctx, core.Stream("type-mismatched delegating metadata, ASCII-only standard output", sub, rel, oracle_mismatch, env={"PYTHONIOENCODING": "ascii:strict"}))

    # (i) metamorphic: accepted envelope => stripped envelope accepted (all three verifiers), on the implementation
    base = []
    for c in c01.build_cases(ctx):
        base.append(c)
    impl, _ = core.run_stream(ctx, core.Stream("verify_signable product (source of accepted envelopes)", base, rel, None, c01.nontrivial))
    stripped = []
    for c, (io, _) in zip(base, impl):
        if io.startswith("O"):
            _, env, K, t, gpg = wire.dec(c["w"])
            s = strip_env(env, K, bool(gpg))
            if s != env:
                stripped.append({"w": wire.case("verify_signable", s, K, t, gpg), "meta": {"s": "stripped", "orig": c["w"][:300]}})
    rows = c05.build(ctx)
    dcases = [{"w": wire.case(fn, name, U, Tt, gpg), "meta": m} for fn, name, U, Tt, gpg, m in rows]
    # decorate accepted delegation cases with junk, then strip again
    impl2, _ = core.run_stream(ctx, core.Stream("verify_delegation product (source of accepted envelopes)", dcases, rel, None))
    for c, (io, _) in zip(dcases, impl2):
        if io.startswith("O"):
            _, name, U, Tt, gpg = wire.dec(c["w"])
            K = Tt["signed"]["delegations"][name]["pubkeys"]
            s = strip_env(U, K, bool(gpg))
            if s != U:
                stripped.append({"w": wire.case("verify_delegation", name, s, Tt, gpg), "meta": {"s": "stripped", "orig": c["w"][:300]}})
    pairs = c03.build_pairs(ctx)
    rcases = [{"w": wire.case("verify_root", Tt, U), "meta": m} for Tt, U, m in pairs]
    impl3, _ = core.run_stream(ctx, core.Stream("verify_root product (source of accepted envelopes)", rcases, rel, None))
    for c, (io, _) in zip(rcases, impl3):
        if io.startswith("O"):
            _, Tt, U = wire.dec(c["w"])
            K = list(dict.fromkeys(Tt["signed"]["delegations"]["root"]["pubkeys"] + U["signed"]["delegations"]["root"]["pubkeys"]))
            s = strip_env(U, K, True)
            if s != U:
                stripped.append({"w": wire.case("verify_root", Tt, s), "meta": {"s": "stripped", "orig": c["w"][:300]}})

    def oracle_strip(c, io):
        if not io.startswith("O"):
            return "the envelope was accepted, but the same envelope keeping only its valid authorized signatures is rejected (%s)" % core.impl_class(io)
        return None
    if stripped:
        core.run_stream(ctx, core.Stream("accepted envelopes stripped of every non-counting entry (all three verifiers)", stripped, rel, oracle_strip))
    ctx.assumptions = ["stripping is computed by the harness with independent crypto (pyca/cryptography directly)"]

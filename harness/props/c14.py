"""C14 -- the delegating-metadata checker enforces exactly the documented schema."""
import itertools
import core
import wire
import mutgen as G
import mdgen as M
import envgen as E
from gen import interesting_values, PUBHEX

DATES = [
    "2020-01-01T00:00:00Z", "2020-1-1T0:0:0Z", "2020-01-01t00:00:00z", "２０２０-01-01T00:00:00Z", "2020-01- 1T00:00:00Z",
    "2020-02-29T00:00:00Z", "2021-02-29T00:00:00Z", "1900-02-29T00:00:00Z", "2000-02-29T00:00:00Z", "2020-04-31T00:00:00Z",
    "2020-12-31T23:59:59Z", "2020-12-31T23:59:60Z", "2020-12-31T23:59:61Z", "2020-12-31T24:00:00Z", "2020-13-01T00:00:00Z", "2020-00-10T00:00:00Z",
    "2020-01-00T00:00:00Z", "2020-01-32T00:00:00Z", "0000-01-01T00:00:00Z", "0001-01-01T00:00:00Z", "9999-12-31T23:59:59Z",
    "10000-01-01T00:00:00Z", "2020-01-01T00:00:00", "2020-01-01T00:00:00Z\n", " 2020-01-01T00:00:00Z", "2020-01-01 00:00:00Z",
    "2020-01-01T00:00:00+00:00", "2020-01-01T00:00:00.000Z", "2020-01-01T00:00Z", "20200101T000000Z", "", "Z", "2020-01-01T00:60:00Z",
    "2020-01-01T0:5:7Z", "2020-1-01T00:00:00Z", "2020-010-1T00:00:00Z", "2020-11-1T00:00:00Z", "2020-1-11T00:00:00Z", "2020-111T00:00:00Z",
    "2020-01-01T٠٠:00:00Z", "2020-01-01T00:00:0٠Z", "٢٠٢٠-٠١-٠١T٠٠:٠٠:٠٠Z", "2020-01-01T00:00:00ｚ", "2020-01-01T00:00:00ſ", "2020-01-01ıT00:00:00Z",
    "2020-01-01T1:00:00Z", "2020-01-01T23:5:00Z", "2020-01-01T23:05:5Z", "2020-01-31T00:00:00Z", "2020-06-31T00:00:00Z", "2020-3-31T00:00:00Z",
    "-020-01-01T00:00:00Z", "+2020-01-01T00:00:00Z", "2020-01-01T-1:00:00Z", "2020-01-01T00:00:00Z ", "2020-01-01T 0:00:00Z", "202-01-01T00:00:00Z",
]


def valid_docs():
    docs = []
    for mtype in ("root", "key_mgr"):
        for ver, ts in ((1, M.TS), (Ellipsis, M.TS), (7, Ellipsis), (True, M.TS), (2.0, M.TS)):
            for dl in ({}, {"root": M.delegation((0,), 1)}, {"root": M.delegation((0, 1), 2), "key_mgr": M.delegation((), 1), "é": M.delegation((2,), 3)}):
                if mtype == "root" and ver is Ellipsis:
                    continue
                docs.append(M.md(mtype, ver, dl, ts))
    envs = []
    for i, d in enumerate(docs):
        sigs = [(), (0,), (0, 1)][i % 3]
        envs.append(M.envelope(d, sigs, mode="gpg" if i % 2 else "raw"))
    return envs


def run(ctx):
    acc_rel = lambda c, io, mo: None if (core.impl_class(io) == "accept") == (core.model_class(mo) == "accept") \
        else "accept/reject differs: implementation %s, model %s" % (core.impl_class(io), core.model_class(mo))

    def oracle(c, io):
        v = wire.dec(c["w"])[1]
        try:
            want = M.dm_ok(v)
        except Exception as e:  # noqa
            return None
        got = io.startswith("O")
        if got != want:
            return "documented schema says %s, checker says %s (%s)" % ("accept" if want else "reject", "accept" if got else "reject", core.impl_class(io))
        return None
    cases = []
    envs = valid_docs()
    vals = interesting_values() + DATES[:12] + [PUBHEX[0].upper(), PUBHEX[0][:-1], 0.0, 1.5, -3, 2 ** 70, "key_mgr", "ROOT", "root ", "pkg_mgr"]
    full = envs if not ctx.quick else envs[:4]
    light = [] if not ctx.quick else envs[4:]
    for env in full:
        cases.append({"w": wire.case("checkformat_delegating_metadata", env), "meta": {"tag": "valid"}})
        for tag, (m,) in G.mutations((env,), vals):
            try:
                cases.append({"w": wire.case("checkformat_delegating_metadata", m), "meta": {"tag": tag[0]}})
            except TypeError:
                pass
    for env in light:
        cases.append({"w": wire.case("checkformat_delegating_metadata", env), "meta": {"tag": "valid"}})
        for tag, (m,) in G.mutations((env,), vals[:8]):
            try:
                cases.append({"w": wire.case("checkformat_delegating_metadata", m), "meta": {"tag": tag[0]}})
            except TypeError:
                pass
    # two mutations at once around the version/timestamp rule and the signature map
    base = envs[0]
    for ver, ts in itertools.product([Ellipsis, 1, 0, "1", None, 1.0, True], [Ellipsis, M.TS, "x", None, 5]):
        for mtype in ("root", "key_mgr", "pkg_mgr", 5):
            d = M.md(mtype, ver, {"root": M.delegation((0,), 1)}, ts)
            cases.append({"w": wire.case("checkformat_delegating_metadata", {"signatures": {}, "signed": d}), "meta": {"tag": "ver-ts"}})
    # the signed portion replaced by the list / tuple of its key-value pairs (dict() would silently turn it back into a dictionary)
    for env in envs[:6]:
        for conv in (lambda d: [[k, v] for k, v in d.items()], lambda d: [(k, v) for k, v in d.items()], lambda d: tuple([k, v] for k, v in d.items()), lambda d: list(d)):
            cases.append({"w": wire.case("checkformat_delegating_metadata", {"signatures": env["signatures"], "signed": conv(env["signed"])}), "meta": {"tag": "signed-as-pairs"}})
    P = base["signed"]
    for name, v in E.value_states(0, P, {"o": 1}, 1).items():
        cases.append({"w": wire.case("checkformat_delegating_metadata", {"signatures": {"anykey": v}, "signed": P}), "meta": {"tag": "sigvalue"}})
    core.run_stream(ctx, core.Stream("checkformat_delegating_metadata: valid documents (optional-field combinations x roles x signature maps) and every single mutation at every JSON path",
                                     cases, acc_rel, oracle, nontrivial=lambda c, i, m: c["meta"]["tag"] != "valid"))
    # the envelope gate as written in common.py: Gen/Source.v (translated on this run) interpreted by PySrc.run_prog, against the implementation
    senv = list(envs[:3]) + [v for v in interesting_values()]
    for x in interesting_values():
        try:
            senv += [{"signatures": {}, "signed": x}, {"signatures": x, "signed": {}}, {"signed": x, "signatures": {"k": 1}}]
        except TypeError:
            pass
    senv += [{"signatures": {}}, {"signed": {}}, {}, {"signatures": {}, "signed": {}, "x": 1}, {"signatures": {}, "Signed": {}}, {"signatures": {}, 1: {}},
             {1: {}, 2: {}}, {"signatures": {}, None: 1}, {"signatures": {}, ("signed",): 1}, {"signatures": {}, b"signed": 1}, {"signatures": {}, "signed": b"x"},
             {"signatures": {}, "signed": bytearray(b"x")}, {"signatures": {}, "signed": {1}}, {"signatures": {}, "signed": wire.Obj(1)}, {"signatures": {}, 1.5: 2}]
    for tag, (m,) in G.mutations((envs[0],), vals[:12]):
        senv.append(m)
    scases = []
    for fn in ("is_signable", "checkformat_signable"):
        for v in senv:
            try:
                scases.append({"w": wire.case("src_run", fn, v), "meta": {"fn": fn}})
            except TypeError:
                pass

    def rel_src(c, io, mo):
        if io != mo:
            return "the interpreted source and the implementation differ on %s: impl %s, interpreter %s" % (c["meta"]["fn"], io[:80], mo[:80])
        return None
    core.run_stream(ctx, core.Stream("interpreted source (Gen/Source.v via PySrc.run_prog) vs implementation: is_signable / checkformat_signable on envelope shapes",
                                     scases, rel_src, None, nontrivial=lambda c, i, m: m != "U", mismatch_kind="tie"))
    # dates: model of strptime + datetime range checks vs the implementation, and vs an independent regex oracle
    dcases = []
    dates = list(DATES)
    rng = ctx.rng
    alphabet = "0123456789-:TZtz ٠９"
    for _ in range(400 if ctx.quick else 6000):
        s = list(rng.choice(DATES[:20]))
        for _ in range(rng.randint(1, 2)):
            i = rng.randrange(len(s)) if s else 0
            r = rng.random()
            if r < 0.5 and s:
                s[i] = rng.choice(alphabet)
            elif r < 0.75 and s:
                del s[i]
            else:
                s.insert(i, rng.choice(alphabet))
        dates.append("".join(s))
    for y in (1, 4, 100, 400, 1900, 2000, 2023, 2024, 9999):
        for mo in range(1, 13):
            for d in (28, 29, 30, 31):
                dates.append("%04d-%02d-%02dT12:00:00Z" % (y, mo, d))
    for s in dates:
        dcases.append({"w": wire.case("checkformat_utc_isoformat", s), "meta": {"tag": "date"}})

    def date_oracle(c, io):
        s = wire.dec(c["w"])[1]
        want = M.utc_ok(s)
        if want != io.startswith("O"):
            return "UTC grammar says %s for %r, checker says %s" % (want, s, core.impl_class(io))
        if not io.startswith("O") and core.impl_class(io) != "TypeError":
            return "date rejection must be TypeError, got %s" % core.impl_class(io)
        return None
    core.run_stream(ctx, core.Stream("checkformat_utc_isoformat: boundary dates, random edits, month-end sweep", dcases, acc_rel, date_oracle))
    # delegations on their own
    dlc = []
    good = M.delegation((0, 1), 2)
    for tag, (m,) in G.mutations((good,), vals):
        try:
            dlc.append({"w": wire.case("checkformat_delegation", m), "meta": {"tag": tag[0]}})
        except TypeError:
            pass

    def dl_oracle(c, io):
        v = wire.dec(c["w"])[1]
        want = M.delegation_ok(v)
        if want != io.startswith("O"):
            return "schema says %s, checkformat_delegation says %s" % (want, core.impl_class(io))
        return None
    core.run_stream(ctx, core.Stream("checkformat_delegation: every mutation of a valid delegation", dlc, acc_rel, dl_oracle))
    # whatever the checker accepts is safe for the verifiers: extreme but accepted versions / thresholds / key lists on both sides
    nums = [1, True, 2.0, 3, 10 ** 400, 1e300, 2 ** 1024, 1e16, 2 ** 53 + 1, float(2 ** 53), 1e308, 2 ** 63]
    vc = []
    for tv, uv in itertools.product(nums, repeat=2):
        T = M.envelope(M.root_md(tv, (0,), 1), (0,))
        U = M.envelope(M.root_md(uv, (0,), 1), (0,))
        vc.append({"w": wire.case("verify_root", T, U), "meta": {"tag": "versions"}})
    for th in nums:
        T = M.envelope(M.md("root", 1, {"root": M.delegation((0, 1), th), "key_mgr": M.delegation((), th), "pkg_mgr": M.delegation((2,), 1)}), (0,))
        U = M.envelope(M.md("root", 2, {"root": M.delegation((0,), th)}), (0, 1))
        vc.append({"w": wire.case("verify_root", T, U), "meta": {"tag": "thresholds"}})
        for name in ("root", "key_mgr", "pkg_mgr", "nope"):
            for gpg in (False, True):
                vc.append({"w": wire.case("verify_delegation", name, M.envelope(M.md("key_mgr", th, {}), (0, 1), mode="gpg" if gpg else "raw"), T, gpg), "meta": {"tag": "thresholds"}})
    # checker-accepted roots of which one, the other, both or none delegate "root" (a root may delegate only key_mgr as far as the schema goes)
    with_root = {"root": M.delegation((0,), 1), "key_mgr": M.delegation((1,), 1)}
    without_root = {"key_mgr": M.delegation((1,), 1)}
    for dt, du in itertools.product((with_root, without_root, {}), repeat=2):
        for tv, uv in ((1, 2), (1, 1), (2.0, 3)):
            T = M.envelope(M.md("root", tv, dt), (0,))
            U = M.envelope(M.md("root", uv, du), (0,))
            vc.append({"w": wire.case("verify_root", T, U), "meta": {"tag": "root-delegation-present-or-not"}})
            vc.append({"w": wire.case("verify_delegation", "root", U, T, True), "meta": {"tag": "root-delegation-present-or-not"}})
    fam = {"verify_root": G.FAMILIES["verify_root"], "verify_delegation": G.FAMILIES["verify_delegation"]}

    def vor(c, io):
        fn = wire.dec(c["w"])[0]
        args = wire.dec(c["w"])[1:]
        docs = [a for a in args if isinstance(a, dict)]
        if not all(M.dm_ok(d) for d in docs):
            return None
        if not io.startswith("O") and core.impl_class(io) not in fam[fn]:
            return "%s on checker-accepted metadata ended in %s (outside %s)" % (fn, core.impl_class(io), sorted(fam[fn]))
        return None
    core.run_stream(ctx, core.Stream("verifiers on checker-accepted metadata with extreme versions / thresholds (huge ints, integral floats up to 1e308, bools)", vc,
                                     lambda c, io, mo: None if core.impl_class(io) == core.model_class(mo) or core.model_class(mo) == "unmodelled" else "outcome class differs: implementation %s, model %s" % (core.impl_class(io), core.model_class(mo)),
                                     vor))
    # the whole checker and its parts as written in common.py, interpreted, against the implementation on the cases of the streams above
    wc = [{"w": wire.case("src_run", "checkformat_delegating_metadata", wire.dec(c["w"])[1]), "meta": {"fn": "checkformat_delegating_metadata"}} for c in cases]
    wc += [{"w": wire.case("src_run", "checkformat_delegation", wire.dec(c["w"])[1]), "meta": {"fn": "checkformat_delegation"}} for c in dlc]
    wc += [{"w": wire.case("src_run", "checkformat_utc_isoformat", wire.dec(c["w"])[1]), "meta": {"fn": "checkformat_utc_isoformat"}} for c in dcases[::3]]
    for v in interesting_values() + nums + [0, -1, 0.5, "1", b"1", float("nan"), float("inf"), -0.0]:
        wc.append({"w": wire.case("src_run", "checkformat_natural_int", v), "meta": {"fn": "checkformat_natural_int"}})
        wc.append({"w": wire.case("src_run", "checkformat_utc_isoformat", v), "meta": {"fn": "checkformat_utc_isoformat"}})
        wc.append({"w": wire.case("src_run", "checkformat_list_of_hex_keys", v), "meta": {"fn": "checkformat_list_of_hex_keys"}})
        wc.append({"w": wire.case("src_run", "checkformat_delegations", v), "meta": {"fn": "checkformat_delegations"}})
    kk = PUBHEX[0]
    for l in ([kk], [kk, kk], [kk, PUBHEX[1]], [kk, kk.upper()], [], [kk, 5], (kk,), [kk[:-1]], [PUBHEX[1], kk, PUBHEX[1]]):
        wc.append({"w": wire.case("src_run", "checkformat_list_of_hex_keys", l), "meta": {"fn": "checkformat_list_of_hex_keys"}})
    for d in ({"root": good}, {"root": good, "key_mgr": M.delegation((1,), 1)}, {"root": good, 5: good}, {"root": 5}, {}, {"root": M.delegation((0, 0), 1)}, {"x": good, "y": {"pubkeys": [], "threshold": 0}}):
        wc.append({"w": wire.case("src_run", "checkformat_delegations", d), "meta": {"fn": "checkformat_delegations"}})
    core.run_stream(ctx, core.Stream("interpreted source (Gen/Source.v via PySrc.run_prog) vs implementation: the whole checker and its parts on the cases of the streams above",
                                     wc, rel_src, None, nontrivial=lambda c, i, m: m != "U", mismatch_kind="tie"))
    ctx.assumptions = ["'integer' is the code's grammar int(x) == x and x >= 1 (True and 2.0 included), written into the schema (DESIGN N2)",
                       "the UTC grammar is CPython's strptime for %Y-%m-%dT%H:%M:%SZ plus datetime range checks (Time.v)"]

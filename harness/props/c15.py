"""C15 -- leaf format validators decide exact grammars; one spelling per key."""
import itertools
import re
import core
import wire
from gen import interesting_values

PREDS = {"is_hex_key": 64, "is_hex_signature": 128, "is_gpg_fingerprint": 40, "is_hex_string": None}
RAISERS = {"checkformat_hex_key": 64, "checkformat_gpg_fingerprint": 40, "checkformat_hex_string": None}
ALPHABET = ["0", "9", "a", "f", "g", "A", "F", " ", "\n", "x", "٠", "ａ"]
LENGTHS = [0, 1, 2, 39, 40, 41, 63, 64, 65, 127, 128, 129]
SUBST = [0, 9, 11, 12, 13, 32, 0x2f, 0x3a, 0x40, 0x47, 0x60, 0x67, 0x7f, 0x80, 0xa0, 0xb2, 0xb9, 0x660, 0x966, 0x2028,
         0x2070, 0xff10, 0xff21, 0xff41, 0x1d7ce, 0xd800, 0xdfff, 0x10ffff, 0x131, 0x130, 0x17f, 0x212a, 0x41, 0x46,
         0x61, 0x66, 0x30, 0x39, 0x5f, 0x78]


def grammar(v, n):
    """declarative grammar, independent of the model"""
    if type(v) is not str:
        return False
    if n is None:
        return len(v) > 0 and len(v) % 2 == 0 and re.fullmatch(r"[0-9a-f]*", v) is not None
    return re.fullmatch(r"[0-9a-f]{%d}" % n, v) is not None


def strings(ctx):
    maxk = 2 if ctx.quick else 3
    embeds = [""]
    for k in range(1, maxk + 1):
        embeds += ["".join(t) for t in itertools.product(ALPHABET, repeat=k)]
    out = set()
    for e in embeds:
        for L in LENGTHS:
            pad = L - len(e)
            if pad < 0:
                continue
            base = ("0123456789abcdef" * 9)[:pad]
            for pos in {0, pad // 2, pad}:
                out.add(base[:pos] + e + base[pos:])
    valid = ("0123456789abcdef" * 9)
    for L in (40, 64, 128):
        for c in SUBST:
            for pos in (0, L // 2 - 1, L - 1):
                s = valid[:L]
                out.add(s[:pos] + chr(c) + s[pos + 1:])
    # whitespace that bytes.fromhex would skip, prefixes int(s,16) would accept
    for L in (40, 64, 128):
        s = valid[:L]
        out.update([" " + s, s + " ", s[:2] + " " + s[2:], "0x" + s[2:], "0x" + s, s[:-2] + "_" + s[-1], s.upper(), s + "\n", "\t" + s[1:]])
    return sorted(out)


def entry_cases():
    sig, hdr, fpr = "0" * 128, "04ff", "a" * 40
    fields = {"signature": [sig, sig[:-1], sig.upper(), 5, None, "zz" * 64],
              "other_headers": [hdr, "", "04f", "04FF", "0" * 600, 7, None],
              "see_also": [fpr, fpr[:-1], fpr.upper(), 3, None],
              "extra": [1]}
    out = []
    names = list(fields)
    for r in range(len(names) + 1):
        for sub in itertools.combinations(names, r):
            for vals in itertools.product(*[fields[k] for k in sub]):
                d = dict(zip(sub, vals))
                out.append(d)
                if len(d) >= 2:
                    out.append(dict(reversed(list(d.items()))))
    out += [{1: sig}, {"signature": sig, 1: 2}, {None: 1}, [], "x", None, 5, {"signature": {"signature": sig}}]
    return out


def entry_grammar(v, gpg_only):
    if type(v) is not dict:
        return False
    ks = set(v)
    raw = ks == {"signature"} and grammar(v["signature"], 128)
    gpg = (ks in ({"signature", "other_headers"}, {"signature", "other_headers", "see_also"})
           and grammar(v["signature"], 128) and grammar(v["other_headers"], None)
           and ("see_also" not in v or grammar(v["see_also"], 40)))
    return gpg if gpg_only else (raw or gpg)


def run(ctx):
    acc = lambda o: o in ("Ot",) or (o.startswith("O") and o != "Of")

    def rel_exact(c, io, mo):
        ia, ma = core.impl_class(io), core.model_class(mo)
        if c["meta"]["kind"] == "pred":
            if io != mo:
                return "predicate value differs: impl %s model %s" % (io, mo)
        else:
            if (ia == "accept") != (ma == "accept"):
                return "accept/reject differs: impl %s model %s" % (ia, ma)
        return None

    def oracle(c, io):
        m = c["meta"]
        want = m["want"]
        if want is None:
            return None
        if m["kind"] == "pred":
            if io not in ("Ot", "Of"):
                return "predicate did not return a bool: %s" % io
            got = io == "Ot"
        else:
            got = io.startswith("O")
            if not got and core.impl_class(io) not in ("TypeError", "ValueError"):
                return "raising form left the TypeError/ValueError family: %s" % io
        if got != want:
            return "grammar says %s, implementation says %s" % ("accept" if want else "reject", "accept" if got else "reject")
        return None

    cases = []
    valid = "0123456789abcdef" * 9
    # the same characters as bytes / bytearray: never a hex STRING; and a mixed-case spelling
    nonstr = [f(valid[:L].encode()) for L in (2, 40, 64, 128) for f in (bytes, bytearray)] + [b"AB" * 32, b"\x00" * 32]
    # containers of exactly the accepted lengths that are not strings (len() answers 40 / 64 / 128 for them too)
    for L in (40, 64, 128):
        nonstr += [[7] * L, list(valid[:L]), tuple(valid[:L]), {i: i for i in range(L)}, [valid[:2]] * L]
    values = strings(ctx) + [v for v in interesting_values()] + nonstr + ["A" + valid[1:64], valid[:39] + "F", "aB" * 64]
    for fn, n in list(PREDS.items()) + list(RAISERS.items()):
        kind = "pred" if fn in PREDS else "raise"
        for v in values:
            cases.append({"w": wire.case(fn, v), "meta": {"kind": kind, "fn": fn, "want": grammar(v, n)}})
    st = core.Stream("hex-grammar (exhaustive embeddings over a 12-symbol alphabet, substitutions, non-strings)", cases, rel_exact, oracle,
                     nontrivial=lambda c, i, m: type(wire.dec(c["w"])[1]) is str and len(wire.dec(c["w"])[1]) in (40, 64, 128))
    impl, mdl = core.run_stream(ctx, st)
    # predicate form agrees with raising form on every input (implementation side)
    byfn = {}
    for c, (io, _) in zip(cases, impl):
        byfn.setdefault(c["meta"]["fn"], []).append(io)
    for p, r in (("is_hex_key", "checkformat_hex_key"), ("is_gpg_fingerprint", "checkformat_gpg_fingerprint"), ("is_hex_string", "checkformat_hex_string")):
        for v, a, b in zip(values, byfn[p], byfn[r]):
            if (a == "Ot") != b.startswith("O"):
                ctx.violations.append(("property", {"stream": "predicate-vs-raiser", "case": wire.case(p, v), "impl": a,
                                                    "reason": "%s says %s but %s says %s" % (p, a, r, b)}))
    # signature entries
    ecases = []
    for v in entry_cases():
        for fn, gpg_only, kind in (("is_signature", False, "pred"), ("is_gpg_signature", True, "pred"),
                                   ("checkformat_signature", False, "raise"), ("checkformat_gpg_signature", True, "raise"),
                                   ("checkformat_any_signature", False, "raise")):
            ecases.append({"w": wire.case(fn, v), "meta": {"kind": kind, "fn": fn, "want": entry_grammar(v, gpg_only)}})
    st2 = core.Stream("signature-entry shapes (all key subsets x value classes, both insertion orders)", ecases, rel_exact, oracle,
                      nontrivial=lambda c, i, m: isinstance(wire.dec(c["w"])[1], dict) and "signature" in wire.dec(c["w"])[1])
    core.run_stream(ctx, st2)
    # key lists: duplicates under any spelling
    k = "0123456789abcdef" * 4
    lists = [[k], [k, k], [k, k.upper()], [k, " " + k], [k, "ab" * 32], [k, "ab" * 32, k], [], [k, 5], (k,), k, None,
             [k, "AB" * 32], ["ab" * 32, "AB" * 32], [k[:-1]], [k, "ａ" + k[1:]],
             [k, k.encode()], [k.encode()], [k, "0123456789abcdeF" + k[16:]], ["ab" * 32, "aB" + "ab" * 31], [k, k[:-1] + "\n"], [k[:-1] + "\n"], [k, bytearray(k.encode())]]

    def okl(l):
        return type(l) is list and all(grammar(x, 64) for x in l) and len(set(bytes.fromhex(x) for x in l)) == len(l)
    lcases = [{"w": wire.case("checkformat_list_of_hex_keys", l), "meta": {"kind": "raise", "fn": "checkformat_list_of_hex_keys", "want": okl(l)}} for l in lists]
    core.run_stream(ctx, core.Stream("key lists (duplicates, alternative spellings)", lcases, rel_exact, oracle))
    # the text of common.py itself, as translated on this run (Gen/Source.v) and interpreted by PySrc.run_prog, against the implementation:
    # validates the interpreter's account of the builtins (bytes.fromhex, str.isalnum/lower, len, isinstance, hasattr, ==, in, sorted,
    # try/except) on the very inputs of the streams above; exact agreement of returned value / exception class is required
    hexfns = ["is_hex_string", "checkformat_hex_string", "is_hex_signature", "is_hex_key", "checkformat_hex_key", "is_gpg_fingerprint",
              "checkformat_gpg_fingerprint", "checkformat_string", "checkformat_byteslike", "checkformat_expiration_distance"]
    sigfns = ["is_signature", "checkformat_signature", "is_gpg_signature", "checkformat_gpg_signature", "checkformat_any_signature"]
    step = 1 if not ctx.quick else 3
    svals = values[::step] + [v for v in interesting_values()] + nonstr + [list("ab" * 20), tuple("ab" * 20), [7] * 40, {i: i for i in range(40)}, "a" * 40, b"a" * 40]
    scases = [{"w": wire.case("src_run", fn, v), "meta": {"fn": fn}} for fn in hexfns for v in svals]
    evals = entry_cases() + [v for v in interesting_values()]
    scases += [{"w": wire.case("src_run", fn, v), "meta": {"fn": fn}} for fn in sigfns + hexfns[:2] for v in evals]

    def rel_src(c, io, mo):
        if io != mo:
            return "the interpreted source and the implementation differ on %s: impl %s, interpreter %s" % (c["meta"]["fn"], io[:80], mo[:80])
        return None
    core.run_stream(ctx, core.Stream("interpreted source (Gen/Source.v via PySrc.run_prog) vs implementation: 15 translated functions of common.py x the values above",
                                     scases, rel_src, None, nontrivial=lambda c, i, m: m != "U", mismatch_kind="tie"))
    ctx.assumptions = ["strings range over all of Unicode in the theorems; the correspondence enumerates the embeddings listed in the stream names"]

"""C12 -- verification is pure: no argument mutation, no state carried across calls (histories, threads, configurations)."""
import json
import os
import subprocess

import core
import wire
import implrun
import jsongen as J
import envgen as E
import mdgen as M
from gen import SEEDS, PUBHEX

HERE = os.path.dirname(os.path.dirname(os.path.abspath(__file__)))


def build_pool(rng):
    """objects shared by all calls; neighbours that differ in exactly what a careless cache key would leave out"""
    pool, names = [], {}

    def add(name, v):
        names[name] = len(pool)
        pool.append(v)
        return {"p": names[name]}
    P, P2 = {"a": 1, "b": [1, 2.5, "é"]}, {"a": True, "b": [1, 2.5, "é"]}       # equal under ==, different JSON values
    P3 = {"a": 1.0, "b": [1, 2.5, "é"]}
    add("P", P); add("P2", P2); add("P3", P3)
    for tag, pl in (("P", P), ("P2", P2), ("P3", P3)):
        add("env_raw_" + tag, {"signatures": {PUBHEX[0]: E.raw_sig(0, pl), PUBHEX[1]: E.raw_sig(1, pl)}, "signed": pl})
        add("env_gpg_" + tag, {"signatures": {PUBHEX[0]: E.gpg_sig(0, pl), PUBHEX[1]: E.gpg_sig(1, pl)}, "signed": pl})
    # same signatures, other payload (forgeries)
    add("forged_raw", {"signatures": {PUBHEX[0]: E.raw_sig(0, P), PUBHEX[1]: E.raw_sig(1, P)}, "signed": P2})
    add("forged_gpg", {"signatures": {PUBHEX[0]: E.gpg_sig(0, P), PUBHEX[1]: E.gpg_sig(1, P)}, "signed": {"other": 1}})
    add("K01", [PUBHEX[0], PUBHEX[1]]); add("K0", [PUBHEX[0]]); add("K23", [PUBHEX[2], PUBHEX[3]])
    r1 = M.envelope(M.root_md(1, (0, 1), 2), (0, 1))
    r2 = M.envelope(M.root_md(2, (0, 1), 2), (0, 1))
    r2_forged = {"signatures": r2["signatures"], "signed": dict(r2["signed"], delegations={"root": M.delegation((0, 1), 2), "key_mgr": M.delegation((5,), 1)})}
    r2_selfapp = M.envelope(M.root_md(2, (2, 3), 1), (2, 3))
    r3 = M.envelope(M.root_md(3, (0, 1), 2), (0, 1))
    add("r1", r1); add("r2", r2); add("r2_forged", r2_forged); add("r2_selfapp", r2_selfapp); add("r3", r3)
    # trusted metadata with the same type / version / timestamp but different delegations
    tA = M.envelope(M.md("root", 5, {"key_mgr": M.delegation((1,), 1), "root": M.delegation((0,), 1)}), (0,))
    tB = M.envelope(M.md("root", 5, {"key_mgr": M.delegation((2,), 1), "root": M.delegation((0,), 1)}), (0,))
    tC = M.envelope(M.md("root", 5, {"root": M.delegation((0,), 1)}), (0,))
    km1 = M.envelope(M.md("key_mgr", 1, {"pkg_mgr": M.delegation((3,), 1)}), (1,), mode="raw")
    km2 = M.envelope(M.md("key_mgr", 1, {"pkg_mgr": M.delegation((3,), 1)}), (2,), mode="raw")
    add("tA", tA); add("tB", tB); add("tC", tC); add("km1", km1); add("km2", km2)
    add("junk_env", {"signatures": {"junk": 5, PUBHEX[0]: E.raw_sig(0, P)}, "signed": P})
    # numbers the checker accepts in more than one spelling (1.0, True): an in-place "normalisation" changes the signed bytes
    tF = M.envelope(M.md("root", 5.0, {"key_mgr": {"pubkeys": [PUBHEX[1]], "threshold": 1.0}, "root": {"pubkeys": [PUBHEX[0]], "threshold": True}}), (0,))
    add("tF", tF)
    # same key, same signature value, same payload, other hashed headers
    g = E.gpg_sig(0, P)
    hdr2 = bytearray(bytes.fromhex(g["other_headers"])); hdr2[7] ^= 1
    add("env_gpg_P_hdr", {"signatures": {PUBHEX[0]: dict(g, other_headers=bytes(hdr2).hex()), PUBHEX[1]: E.gpg_sig(1, P)}, "signed": P})
    # the primitives take bytes-like data: a bytearray handed in must come back unchanged and give the same verdict every time
    add("data_ba", bytearray(E.canon(P))); add("ent_gpg", E.gpg_sig(0, P)); add("sig_raw", E.raw_sig(0, P)["signature"])
    return pool, names


def call_universe(names, rng):
    p = lambda n: {"p": names[n]}
    w = lambda v: {"w": wire.enc(v)}
    calls = []
    for env in ("env_raw_P", "env_raw_P2", "env_raw_P3", "env_gpg_P", "env_gpg_P2", "forged_raw", "forged_gpg", "junk_env", "env_gpg_P_hdr"):
        for K in ("K01", "K0", "K23"):
            for t in (1, 2):
                for g in (False, True):
                    calls.append(["verify_signable", [p(env), p(K), w(t), w(g)]])
    for T, U in (("r1", "r2"), ("r1", "r2_forged"), ("r1", "r2_selfapp"), ("r2", "r3"), ("r1", "r3"), ("r2", "r2"), ("r2", "r1"), ("r1", "km1")):
        calls.append(["verify_root", [p(T), p(U)]])
    for T in ("tA", "tB", "tC", "r1", "tF"):
        for U in ("km1", "km2"):
            for nm in ("key_mgr", "pkg_mgr"):
                calls.append(["verify_delegation", [w(nm), p(U), p(T), w(False)]])
    calls.append(["verify_signable", [p("tF"), p("K0"), w(1), w(True)]])
    calls.append(["verify_gpg_signature", [p("ent_gpg"), w(PUBHEX[0]), p("data_ba")]])
    calls.append(["verify_gpg_signature", [p("ent_gpg"), w(PUBHEX[1]), p("data_ba")]])
    for x in ("P", "P2", "P3", "r1", "tA", "tF", "km1", "K01", "junk_env"):
        calls.append(["canonserialize", [p(x)]])
        calls.append(["checkformat_delegating_metadata", [p(x)]])
        calls.append(["is_signable", [p(x)]])
        calls.append(["checkformat_list_of_hex_keys", [p(x)]])
    return calls


def run_worker(job, env=None, stdout_enc=None):
    import tempfile, shutil
    e = implrun.base_env(env)
    if stdout_enc:
        e["PYTHONIOENCODING"] = stdout_enc + ":strict"
    d = tempfile.mkdtemp(prefix="ccthist")
    try:
        inp, outp = os.path.join(d, "job.json"), os.path.join(d, "out.json")
        with open(inp, "w") as f:
            json.dump(job, f)
        with open(os.devnull, "wb") as so:
            p = subprocess.run([core.PY, os.path.join(HERE, "history_worker.py"), "--in", inp, "--out", outp], env=e, cwd=d, stdout=so, stderr=subprocess.PIPE, timeout=3000)
        if not os.path.exists(outp):
            raise RuntimeError("history worker produced nothing: %s" % p.stderr.decode(errors="replace")[-1500:])
        return json.load(open(outp))
    finally:
        shutil.rmtree(d, ignore_errors=True)


def run(ctx):
    rng = ctx.rng
    pool, names = build_pool(rng)
    calls = call_universe(names, rng)
    # expected outcome of every distinct call: the model, on fresh encodings
    mdl = ctx.get_model()

    def as_wire(c):
        fn, args = c
        return "u" + wire.enc(fn) + "".join(wire.enc(pool[a["p"]]) if "p" in a else a["w"] for a in args) + ";"
    expected = {}
    for c in calls:
        expected[json.dumps(c)] = mdl.run1(as_wire(c))
    nh = 40 if ctx.quick else 600
    hists = [[rng.choice(calls) for _ in range(rng.randint(5, 40))] for _ in range(nh)]
    # targeted orders: genuine then forgery, forgery then genuine, same header different delegations
    idx = {json.dumps(c): c for c in calls}
    hists.append(calls)
    hists.append(list(reversed(calls)))
    wpool = [wire.enc(x) for x in pool]

    def judge(res, mode):
        for hi, (h, outs) in enumerate(zip(hists, res["outcomes"])):
            for ci, (c, o) in enumerate(zip(h, outs)):
                exp = expected[json.dumps(c)]
                if exp == "U":
                    continue
                same = (core.impl_class(o) == core.model_class(exp)) if not c[0].startswith("is_") and c[0] != "canonserialize" else (o == exp)
                if not same:
                    prefix = [x[0] for x in h[:ci]][-6:]
                    ctx.violations.append(("property", {"stream": mode, "case": as_wire(c), "impl": o[:200], "model": exp[:200],
                                                        "reason": "%s: call %d of history %d (%s) gave %s, but the same call on its own gives %s (history-dependent verdict); preceding calls: %s"
                                                        % (mode, ci, hi, c[0], core.impl_class(o), core.model_class(exp), prefix)}))
                    return
        for m in res["mutations"][:3]:
            ctx.violations.append(("property", {"stream": mode, "case": wire.case("pool", m["pool"]), "impl": str(m),
                                                "reason": "%s: a shared argument (pool object %d) was modified by %s" % (mode, m["pool"], m["fn"])}))
    job = {"pool": wpool, "histories": hists, "threads": 0}
    judge(run_worker(job), "sequential histories over a shared pool")
    judge(run_worker(dict(job, threads=8)), "8 threads over the shared pool")
    ncfg = 0
    for env, enc, pre, only_auth in (({"PYTHONHASHSEED": "7"}, "ascii", [], True), ({"LC_ALL": "C"}, "latin-1", ["cryptography.x509", "ssl", "json", "decimal"], False),
                                     ({"PYTHONHASHSEED": "random", "TZ": "Asia/Tokyo"}, "utf-8", ["cryptography.hazmat.backends", "hashlib"], False),
                                     ({"PYTHONWARNINGS": "error"}, "utf-8", [], False)):
        sub = dict(job, histories=hists[: (10 if ctx.quick else 100)] + hists[-2:], preimport=pre, only_auth=only_auth)
        saved = hists
        res = run_worker(sub, env=env, stdout_enc=enc)
        hs = sub["histories"]
        for hi, (h, outs) in enumerate(zip(hs, res["outcomes"])):
            for ci, (c, o) in enumerate(zip(h, outs)):
                exp = expected[json.dumps(c)]
                if exp != "U" and core.impl_class(o) != core.model_class(exp) and not c[0].startswith("is_") and c[0] != "canonserialize":
                    ctx.violations.append(("property", {"stream": "configuration grid", "case": as_wire(c), "impl": o[:200], "model": exp[:200], "env": env,
                                                        "reason": "under configuration %s / stdout %s / preimports %s the verdict of %s is %s instead of %s"
                                                        % (env, enc, pre, c[0], core.impl_class(o), core.model_class(exp))}))
                    break
        ncfg += 1
    ncalls = sum(len(h) for h in hists)
    ctx.streams.append({"stream": "%d histories (5-40 calls) over a shared pool of %d objects, sequentially, from 8 threads, and under %d configurations (imports, stdout encoding, hash seed, locale)" % (len(hists), len(pool), ncfg),
                        "cases": ncalls * 2, "distinct_nontrivial": len(calls), "impl_outcomes": {}, "unmodelled": sum(1 for v in expected.values() if v == "U"),
                        "mismatches": 0, "oracle_violations": 0, "wall_s": 0})
    # every distinct call on its own, in fresh processes, in three different orders
    singles = [{"w": as_wire(c), "meta": {"fn": c[0]}} for c in calls]

    def rel(c, io, mo):
        if c["meta"]["fn"].startswith("is_") or c["meta"]["fn"] == "canonserialize":
            return None if io == mo else "value differs"
        return None if core.impl_class(io) == core.model_class(mo) else "verdict differs: implementation %s, model %s" % (core.impl_class(io), core.model_class(mo))
    core.run_stream(ctx, core.Stream("every distinct call on its own (fresh decode of its arguments)", singles, rel, None))
    for k in range(2):
        order = list(range(len(singles)))
        rng.shuffle(order)
        got = implrun.run_impl([singles[i]["w"] for i in order])
        for i, (o, mut) in zip(order, got):
            exp = expected[json.dumps(calls[i])]
            if exp != "U" and core.impl_class(o) != core.model_class(exp):
                ctx.violations.append(("property", {"stream": "shuffled order", "case": singles[i]["w"], "impl": o[:200], "model": exp[:200],
                                                    "reason": "the verdict of %s depends on the order of unrelated earlier calls" % calls[i][0]}))
                break
    # verdicts before and after every other public entry point of the package ran in the same process
    core.history_independence(ctx, "verdicts do not depend on what else the package did in the process", [x["w"] for x in singles][:80])
    # wrapping copies: later changes to either side do not affect the other
    wcases = [{"w": wire.case("wrap_isolation", v), "meta": {}} for v in (list(J.FIXED[:14]) + E.PAYLOADS[:3] + [J.rand_json(rng, depth=3) for _ in range(30 if ctx.quick else 400)])
              if isinstance(v, (dict, list))]
    # tuples are immutable but may hold lists and dicts: those must be copied as well
    for v in ((1, [2, 3]), {"t": (1, {"k": [1]})}, [([1], {"a": (2, [3])})], ((("deep", [1]),),), {"a": ({"b": ()}, [])}):
        wcases.append({"w": wire.case("wrap_isolation", v), "meta": {}})

    def wrap_oracle(c, io):
        if io.startswith("O") and wire.dec(io[1:]):
            return "wrap_as_signable does not isolate the envelope from the payload: %s" % wire.dec(io[1:])[0]
        return None
    core.run_stream(ctx, core.Stream("wrap_as_signable, then writes through every container of the original / of the envelope", wcases, lambda c, io, mo: None, wrap_oracle, model=False))
    # the wall clock is not an argument: the same call under two clocks (1990 and 2900) on metadata whose timestamps and expirations
    # lie before, between and after them
    ccases = []
    for ts, ex in (("1980-01-01T00:00:00Z", "1985-01-01T00:00:00Z"), ("2500-06-01T12:00:00Z", "2501-06-01T12:00:00Z"), ("1980-01-01T00:00:00Z", "2500-01-01T00:00:00Z"),
                   ("2950-01-01T00:00:00Z", "2960-01-01T00:00:00Z"), ("2500-01-01T00:00:00Z", "1980-01-01T00:00:00Z")):
        T = M.envelope(M.root_md(1, (0, 1), 1, timestamp=ts, expiration=ex), (0,))
        U = M.envelope(M.root_md(2, (0, 1), 1, timestamp=ts, expiration=ex), (0, 1))
        K = M.envelope(M.md("key_mgr", 1, {"pkg_mgr": M.delegation((2,), 1)}, timestamp=ts, expiration=ex), (4,), mode="raw")
        B = M.envelope(M.md("root", 1, {}, timestamp=ts, expiration=ex), (4,), mode="raw")       # declares another type than the role it is offered for
        for fn, args in (("verify_root", [T, U]), ("verify_delegation", ["key_mgr", K, T, False]), ("verify_delegation", ["key_mgr", B, T, False]),
                         ("verify_delegation", ["root", U, T, True]), ("checkformat_delegating_metadata", [T]), ("checkformat_utc_isoformat", [ts]),
                         ("verify_signable", [K, [PUBHEX[4]], 1, False])):
            ccases.append({"w": wire.case("clock_pair", fn, args), "meta": {"fn": fn}})

    def clock_oracle(c, io):
        if not io.startswith("O"):
            return "the clock harness failed: %s" % io[:80]
        a, b = wire.dec(io[1:])
        if a != b:
            return "the outcome of %s on the same arguments depends on the wall clock: %s in 1990, %s in 2900" % (c["meta"]["fn"], a, b)
        return None
    core.run_stream(ctx, core.Stream("the same verification calls under two wall clocks (datetime.now / utcnow / today / time.time patched package-wide)", ccases,
                                     lambda c, io, mo: None, clock_oracle, model=False))
    ctx.kernel_sample = ctx.kernel_sample[:6]
    ctx.assumptions = ["thread interleavings are sampled (8 threads, switch interval 1e-6 s), not enumerated; the theorems cannot exhibit CPython-internal interleavings",
                       "alias classification of store sites is the translator's (trusted); calls into json / cryptography / hashlib are assumed not to modify their arguments"]

"""C07 -- canonical serialization: deterministic, order-independent, injective, frozen."""
import itertools
import json
import os
import subprocess
import tempfile

import core
import wire
import implrun
import jsongen as J
import envgen as E


def perms_of(v, rng, limit=24):
    """the same JSON value under other insertion orders of its dicts (top level: all permutations up to 5 keys)"""
    out = []
    if isinstance(v, dict) and 2 <= len(v) <= 5:
        for p in itertools.islice(itertools.permutations(list(v.items())), 1, limit):
            out.append(dict(p))
    def shuffle(x):
        if isinstance(x, dict):
            items = [(k, shuffle(y)) for k, y in x.items()]
            rng.shuffle(items)
            return dict(items)
        if isinstance(x, list):
            return [shuffle(y) for y in x]
        return x
    out.append(shuffle(v))
    return out


def in_domain(v):
    """C07's domain: no high surrogate immediately followed by a low surrogate, in any string or key"""
    if isinstance(v, str):
        return J.no_pair(v)
    if isinstance(v, list):
        return all(in_domain(x) for x in v)
    if isinstance(v, dict):
        return all(J.no_pair(k) and in_domain(x) for k, x in v.items())
    return True


def run(ctx):
    rng = ctx.rng
    n = 250 if ctx.quick else 5000
    vals = list(J.FIXED) + E.PAYLOADS + [J.rand_json(rng, depth=rng.randint(1, 4)) for _ in range(n)]
    vals += [[x] for x in J.FLOATS] + [[x] for x in J.INTS] + [10 ** 3999 + 7, -(10 ** 2000)]
    vals += ["".join(chr(c) for c in J.BOUNDARY_CP), {chr(c): c for c in J.BOUNDARY_CP}, J.deep_chain(40)]
    vals += ["😀", "a\ud83d", "\ude00\ud83d", {"😀": 1, "\U0001f600x": 2}]          # outside the domain: still byte-exact
    cases = [{"w": wire.case("canonserialize", v), "meta": {"tag": "value", "dom": in_domain(v)}} for v in vals]
    # non-JSON inputs: TypeError
    for v in (b"x", {1, 2}, {"a": b"x"}, wire.Obj(1), (1, 2), {"a": (1, [2, (3,)])}):
        cases.append({"w": wire.case("canonserialize", v), "meta": {"tag": "nonjson", "dom": False}})

    def rel(c, io, mo):
        return None if io == mo else "canonical bytes differ: implementation %s ... model %s ..." % (io[:80], mo[:80])

    def oracle(c, io):
        v = wire.dec(c["w"])[1]
        if c["meta"]["tag"] == "nonjson":
            return None
        if not io.startswith("O"):
            return "serialization of a JSON value failed: %s" % core.impl_class(io)
        b = wire.dec(io[1:])
        if b != json.dumps(v, indent=2, sort_keys=True).encode("utf-8"):
            return "bytes are not the published format json.dumps(indent=2, sort_keys=True) in UTF-8"
        if any(x > 127 for x in b):
            return "output is not ASCII"
        if c["meta"]["dom"]:
            back = json.loads(b)
            if wire.enc(back) != wire.enc(json.loads(json.dumps(v, sort_keys=True))):
                return "parsing the canonical bytes does not give the value back"
        return None
    impl, mdl = core.run_stream(ctx, core.Stream("canonserialize: fixed adversarial values (every escape class, surrogate boundaries, floats incl. subnormal/max/2^53/inf/nan, ints to 4000 digits, depth 40) + %d random JSON values" % n,
                                                 cases, rel, oracle, nontrivial=lambda c, i, m: c["meta"]["tag"] == "value"))
    # order independence and injectivity on the implementation's bytes
    by_bytes = {}
    pcases = []
    for c, (io, _) in zip(cases, impl):
        if c["meta"]["tag"] != "value" or not io.startswith("O"):
            continue
        v = wire.dec(c["w"])[1]
        by_bytes.setdefault(io, []).append(v)
        if isinstance(v, (dict, list)) and len(pcases) < (400 if ctx.quick else 8000):
            for p in perms_of(v, rng, 8 if ctx.quick else 24):
                pcases.append({"w": wire.case("canonserialize", p), "meta": {"tag": "perm", "want": io}})
    for io, vs in by_bytes.items():
        keys = {wire.enc(json.loads(json.dumps(v, sort_keys=True))) if in_domain(v) else None for v in vs}
        keys.discard(None)
        if len(keys) > 1:
            ctx.violations.append(("property", {"stream": "injectivity", "case": wire.case("canonserialize", vs[0]), "impl": io[:200],
                                                "reason": "two different JSON values share their canonical bytes"}))

    def perm_oracle(c, io):
        if io != c["meta"]["want"]:
            return "another insertion order of the same JSON value gives different canonical bytes"
        return None
    core.run_stream(ctx, core.Stream("insertion orders: all permutations of top-level dicts (<= 5 keys) and random reorderings at every depth", pcases, rel, perm_oracle))
    # interpreter configurations: hash seed, locale, timezone, working directory
    sample = [c["w"] for c in cases[:60]] + [c["w"] for c in pcases[:60]]
    base = implrun.run_impl(sample)
    d1 = tempfile.mkdtemp(prefix="cctcwd")
    try:
        configs = [({"PYTHONHASHSEED": "1"}, None), ({"PYTHONHASHSEED": "random"}, None), ({"PYTHONHASHSEED": "4294967295", "LC_ALL": "C", "LANG": "C"}, None),
                   ({"LC_ALL": "POSIX", "TZ": "Asia/Kolkata", "PYTHONUTF8": "0"}, d1), ({"TZ": "America/St_Johns", "LC_ALL": "C.UTF-8", "PYTHONIOENCODING": "latin-1"}, d1),
                   ({"PYTHONWARNINGS": "error"}, None), ({"LC_ALL": "C", "PYTHONUTF8": "0", "PYTHONIOENCODING": "ascii"}, None)]
        for env, cwd in configs:
            got = implrun.run_impl(sample, env=env, cwd=cwd)
            for w, a, b in zip(sample, base, got):
                if a[0] != b[0]:
                    ctx.violations.append(("property", {"stream": "interpreter configurations", "case": w, "impl": b[0][:200], "env": env,
                                                        "reason": "canonical bytes depend on the interpreter configuration %s" % env}))
                    break
        ctx.streams.append({"stream": "same values under %d interpreter configurations (hash seed, locale, timezone, cwd, stdout encoding)" % len(configs), "cases": len(sample) * len(configs),
                            "distinct_nontrivial": len(sample), "impl_outcomes": {}, "unmodelled": 0, "mismatches": 0, "oracle_violations": 0, "wall_s": 0})
    finally:
        os.rmdir(d1)
    # what gets SIGNED is the canonical serialization of the value -- also for strings whose characters spell JSON text of another value
    from cryptography.hazmat.primitives.asymmetric.ed25519 import Ed25519PrivateKey
    from gen import SEEDS
    from modelrun import ed_sign
    spl = ["12", "null", "{}", "\"abc\"", "[\n  1\n]", "true", "{\n  \"a\": 1\n}", "1.0", "\\u00e9", 12, None, {}, "abc", [1], {"a": 1}, 1.0, "é"]
    scases = [{"w": wire.case("serialize_and_sign", pl, Ed25519PrivateKey.from_private_bytes(SEEDS[0])), "meta": {"tag": "signed-bytes"}} for pl in spl]

    def soracle(c, io):
        pl = wire.dec(c["w"])[1]
        want = "O" + wire.enc(ed_sign(SEEDS[0], json.dumps(pl, indent=2, sort_keys=True).encode("utf-8")).hex())
        return None if io == want else "serialize_and_sign(%r) is not the signature over the canonical serialization of that value" % (pl,)
    core.run_stream(ctx, core.Stream("serialize_and_sign signs exactly the canonical bytes (strings that look like JSON text included)", scases,
                                     lambda c, io, mo: None if io == mo else "signature differs from the model's", soracle))
    # the same through the envelope API: wrap_as_signable + sign_signable must sign the canonical bytes of exactly the value given --
    # JSON values that Python's == identifies (true / 1 / 1.0, 0.0 / -0.0) included, at every depth
    twins = [True, False, 1, 0, 1.0, -0.0, 0.0, {"x": True}, {"x": 1}, {"x": 1.0}, [True, 1, 1.0, False, 0, -0.0], {"a": {"b": [False, {"c": True}]}},
             {"noarch": True, "n": 0}, [[True]], {"t": [1.0, 1]}, "true", None]
    wcases = [{"w": wire.case("sign_sequence", pl, [SEEDS[0]]), "meta": {"tag": "wrap-sign"}} for pl in twins]

    def woracle(c, io):
        pl = wire.dec(c["w"])[1]
        if not io.startswith("O"):
            return "wrapping and signing a JSON value failed: %s" % core.impl_class(io)
        env = wire.dec(io[1:])
        cb = json.dumps(pl, indent=2, sort_keys=True).encode("utf-8")
        if json.dumps(env.get("signed"), indent=2, sort_keys=True).encode("utf-8") != cb:
            return "the envelope's payload no longer has the canonical bytes of the value that was wrapped (%r)" % (pl,)
        sig = env["signatures"].get(PUBHEX0, {}).get("signature")
        if sig != ed_sign(SEEDS[0], cb).hex():
            return "the signature in the envelope is not over the canonical bytes of the value that was wrapped (%r)" % (pl,)
        return None
    from gen import PUBHEX
    PUBHEX0 = PUBHEX[0]
    core.run_stream(ctx, core.Stream("wrap_as_signable + sign_signable sign exactly the canonical bytes of the value given (==-equal JSON twins)", wcases,
                                     lambda c, io, mo: None if io == mo else "envelope differs from the model's", woracle))
    # the stored bytes are a function of the value written, not of what the file held before: v1 then an ==-equal but different v2
    pairs = [({"noarch": 1}, {"noarch": True}), ({"v": 1.0}, {"v": 1}), ([0.0], [-0.0]), ({"a": [True, 2]}, {"a": [1, 2]}), (1, True), ({"x": {"y": 0}}, {"x": {"y": False}}),
             ({"b": 1, "a": 2}, {"a": 2, "b": 1}), ({"k": "v"}, {"k": "v"})]
    hcases = []
    for a, b in pairs:
        for x, y in ((a, b), (b, a)):
            hcases.append({"w": wire.case("persist_history", x, [["write"], ["replace", y], ["write"]]), "meta": {"tag": "rewrite"}})

    def horacle(c, io):
        _, x, ops = wire.dec(c["w"])
        y = ops[1][1]
        if not io.startswith("O"):
            return "writing a JSON value over a file holding another failed: %s" % core.impl_class(io)
        raw = wire.dec(io[1:])[-2]
        if raw != json.dumps(y, indent=2, sort_keys=True).encode("utf-8"):
            return "after writing %r over a file that held %r the stored bytes are not the canonical bytes of the value written" % (y, x)
        return None
    core.run_stream(ctx, core.Stream("stored bytes depend on the value written, not on the file's previous content (==-equal twins, both orders)", hcases,
                                     lambda c, io, mo: None if io == mo else "history outcome differs from the model's", horacle))
    # the same values after the rest of the package ran in the same process
    core.history_independence(ctx, "canonical bytes do not depend on what the process did before", [c["w"] for c in cases[:40]] + [c["w"] for c in pcases[:20]])
    # the parser model against json.loads: canonical texts, other valid texts, invalid texts
    texts = ['1', '-0', '01', '1.0', '1.50', '1E5', '-1.5e-3', '[1,]', '{"a":1,}', '{"a":1,"a":2,"b":3,"a":4}', '"\\ud83d\\ude00"', '"\\ud83d"', '"\\ud83d\\u0041"',
             '"\\ude00\\ud83d"', '"\\ud83d\\ud83d\\ude00"', '"\\u+123"', '"\\u12"', '"\\uD83D\\uDE00"', '"a\x1fb"', '"a\x7fb"', '"\\x41"', '"\\/"', 'tru', 'True', 'NaN', '-NaN',
             'Infinity', '-Infinity', '+1', '.5', '2.', '1e', '1-2', '[1 2]', '"a""b"', '1"a"', '﻿1', '', '  ', '[', '{"a":', '"abc', '[1,2]x', '1 2', '-', '0x10', '1_0', '٣',
             '{1:2}', '[,1]', '{,}', '\t1\r\n', '\x0c1', "'a'", '[-0.0, 1e999, -1e999]', '123456789012345678901234567890', '{"a":[}', '[1,2', '{"a" 1}', '"\\"']
    some = [wire.dec(c["w"])[1] for c in cases[: (120 if ctx.quick else 1500)] if c["meta"]["tag"] == "value"]
    texts += [E.canon(v).decode("ascii") for v in some] + [json.dumps(v) for v in some[:80]] + [json.dumps(v, separators=(",", ":")) for v in some[:40]]
    for _ in range(300 if ctx.quick else 6000):
        t = list(rng.choice(texts))
        for _ in range(rng.randint(1, 2)):
            if t:
                i = rng.randrange(len(t))
                r = rng.random()
                if r < 0.4:
                    del t[i]
                elif r < 0.8:
                    t[i] = rng.choice('[]{},:"\\ 0123456789.eE+-truefalsn u\n')
                else:
                    t.insert(i, rng.choice('[]{},:"\\ 01.eE-tn'))
        texts.append("".join(t))
    tcases = [{"w": wire.case("json_loads", t), "meta": {"tag": "text"}} for t in texts]

    def trel(c, io, mo):
        if io[0] != mo[0]:
            return "json.loads and the parser model disagree on acceptance: %s vs %s" % (core.impl_class(io), core.model_class(mo))
        if io[0] == "O" and wire.enc(wire.dec(io[1:])) != wire.enc(wire.dec(mo[1:])):
            return "json.loads and the parser model return different values"
        return None
    core.run_stream(ctx, core.Stream("parser model vs json.loads: canonical texts, other valid texts, %d mutated/invalid texts" % len(texts), tcases, trel, None,
                                     nontrivial=lambda c, i, m: i.startswith("O")))
    ctx.assumptions = ["injectivity is claimed on the domain of the property (no high surrogate immediately followed by a low surrogate); outside it the collision is proved (C07_surrogate_pair_collision)",
                       "float tokens are repr() of the float (CPython), carried as text by the model; dtoa is not modelled",
                       "ints have fewer than 4300 decimal digits (CPython's int/str conversion limit)"]

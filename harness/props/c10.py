"""C10 -- OpenPGP-wrapped signatures follow RFC 4880 v4 and interoperate with GnuPG."""
import hashlib
import core
import wire
import implrun
import envgen as E
import mdgen as M
import gpghome
from gen import SEEDS, PUBHEX
from modelrun import ed_sign


def flipbit(b, i):
    b = bytearray(b)
    b[i // 8] ^= 1 << (i % 8)
    return bytes(b)


def mk(i, data, hdr):
    return {"other_headers": hdr.hex(), "signature": ed_sign(SEEDS[i], hashlib.sha256(E.frame(data, hdr)).digest()).hex()}


def run(ctx):
    rng = ctx.rng
    cases = []
    hdr_lens = [1, 2, 35, 255, 256, 65536] + ([] if ctx.quick else [65535, 70000, 131072 + 35])
    datas = [b"", b"x", E.canon({"a": 1}), rng.randbytes(300), b"\x04\xff\x00\x00\x00\x01", rng.randbytes(65)]
    block_datas = [rng.randbytes(n) for n in (64, 4096, 65535, 65536, 65537, 131072)]       # hash block sizes and 64 KiB multiples
    nbits = 10 if ctx.quick else 64
    for hl in hdr_lens:
        hdr = rng.randbytes(hl)
        big = hl > 1000
        nbits = 1 if big else (10 if ctx.quick else 64)
        for data in (datas[2:4] if big else datas):
            k = PUBHEX[0]
            g = mk(0, data, hdr)
            add = lambda v, key, d, tag: cases.append({"w": wire.case("verify_gpg_signature", v, key, d), "meta": {"tag": tag}})
            add(g, k, data, "valid")
            add(dict(g, see_also="f075dd2f6f4cb3bd76134bbb81b6ca16ef9cd589"), k, data, "valid+see_also")
            add(g, k, bytearray(data), "valid-bytearray")
            sig = bytes.fromhex(g["signature"])
            for b in rng.sample(range(512), nbits):
                add(dict(g, signature=flipbit(sig, b).hex()), k, data, "sig-bit")
            for b in rng.sample(range(8 * hl), min(nbits, 8 * hl)):
                add(dict(g, other_headers=flipbit(hdr, b).hex()), k, data, "hdr-bit")
            if data:
                for b in rng.sample(range(8 * len(data)), min(nbits, 8 * len(data))):
                    add(g, k, flipbit(data, b), "data-bit")
            for b in rng.sample(range(256), nbits):
                add(g, flipbit(bytes.fromhex(k), b).hex(), data, "key-bit")
            add(g, PUBHEX[1], data, "other-key")
            # boundary between payload and headers moved: same concatenation, different length field
            if hl >= 2:
                add(dict(g, other_headers=hdr[1:].hex()), k, data + hdr[:1], "boundary->data")
            if data:
                add(dict(g, other_headers=(data[-1:] + hdr).hex()), k, data[:-1], "boundary->hdr")
            if big:
                # a long payload whose tail is moved into the headers: lengths that agree modulo 2^16 must still differ
                long_data = rng.randbytes(65536 + 40)
                g2 = mk(0, long_data, hdr[:35])
                add(g2, k, long_data, "valid-long-payload")
                add(dict(g2, other_headers=(long_data[-65536:] + hdr[:35]).hex()), k, long_data[:-65536], "boundary-64KiB")
            add(dict(g, other_headers=(hdr + b"\x04\xff").hex()), k, data, "hdr+trailer")
            add(dict(g, other_headers=""), k, data + hdr, "empty-hdr")
            add(dict(g, other_headers=hdr.hex().upper()), k, data, "hdr-upper")
            add(dict(g, signature=g["signature"][:-2]), k, data, "sig-short")
            add(g, k.upper(), data, "key-upper")
            add(g, k, data.hex(), "data-str")
            # raw-mode signature (no framing) presented as OpenPGP entry
            add({"other_headers": hdr.hex(), "signature": ed_sign(SEEDS[0], data).hex()}, k, data, "raw-as-gpg")
            # hashing order / trailer variants a wrong implementation would accept
            for tag, msg in (("hdr-first", hdr + data + b"\x04\xff" + len(hdr).to_bytes(4, "big")), ("le-length", data + hdr + b"\x04\xff" + len(hdr).to_bytes(4, "little")),
                             ("no-trailer", data + hdr), ("len16", data + hdr + b"\x04\xff" + (len(hdr) % 65536).to_bytes(2, "big")),
                             ("sha512", None), ("undigested", None)):
                if tag == "sha512":
                    s = ed_sign(SEEDS[0], hashlib.sha512(E.frame(data, hdr)).digest())
                elif tag == "undigested":
                    s = ed_sign(SEEDS[0], E.frame(data, hdr))
                else:
                    s = ed_sign(SEEDS[0], hashlib.sha256(msg).digest())
                add({"other_headers": hdr.hex(), "signature": s.hex()}, k, data, "wrong-" + tag)

    for bd in block_datas:
        g = mk(0, bd, E.HDR)
        cases.append({"w": wire.case("verify_gpg_signature", g, PUBHEX[0], bd), "meta": {"tag": "valid-len%d" % len(bd)}})
        cases.append({"w": wire.case("verify_gpg_signature", mk(0, bd + bd, E.HDR), PUBHEX[0], bd), "meta": {"tag": "doubled-len%d" % len(bd)}})
        cases.append({"w": wire.case("verify_gpg_signature", g, PUBHEX[0], bd[:-1]), "meta": {"tag": "short-len%d" % len(bd)}})
    # a header whose octets 2..3 equal its own subpacket-length field, and the payload/header boundary moved by two octets: the length in the
    # trailer is the number of header octets actually hashed, not what the header says about itself
    ln = 48
    Hs = bytes([4, 0, ln >> 8, ln & 255, ln >> 8, ln & 255]) + rng.randbytes(ln)
    sgs = ed_sign(SEEDS[0], hashlib.sha256(E.frame(b"12345", Hs)).digest()).hex()
    for hdr, dat, tag in ((Hs, b"12345", "self-describing-valid"), (b"45" + Hs, b"123", "self-describing-shifted"), (Hs, b"123", "self-describing-other")):
        cases.append({"w": wire.case("verify_gpg_signature", {"other_headers": hdr.hex(), "signature": sgs}, PUBHEX[0], dat), "meta": {"tag": tag}})
    # every value of each of the first six header octets (version, type, public-key algorithm, HASH algorithm, length): the digest is
    # SHA-256 whatever the header claims; and a digest by the claimed algorithm is NOT accepted
    data = E.canon({"sweep": 1})
    for pos in range(6):
        for b in range(256):
            hdr = bytearray(E.HDR); hdr[pos] = b; hdr = bytes(hdr)
            cases.append({"w": wire.case("verify_gpg_signature", mk(0, data, hdr), PUBHEX[0], data), "meta": {"tag": "octet%d=%d" % (pos, b)}})
    for b, alg in ((1, "md5"), (2, "sha1"), (8, "sha256"), (9, "sha384"), (10, "sha512"), (11, "sha224")):
        hdr = bytearray(E.HDR); hdr[3] = b; hdr = bytes(hdr)
        dg = hashlib.new(alg, E.frame(data, hdr)).digest()
        for hb in (b, 8):
            h2 = bytearray(hdr); h2[3] = hb; h2 = bytes(h2)
            dg = hashlib.new(alg, E.frame(data, h2)).digest()
            cases.append({"w": wire.case("verify_gpg_signature", {"other_headers": h2.hex(), "signature": ed_sign(SEEDS[0], dg).hex()}, PUBHEX[0], data),
                          "meta": {"tag": "digest-by-%s" % alg}})

    def rel(c, io, mo):
        return None if io == mo else "verdict differs: implementation %s, model %s" % (core.impl_class(io), core.model_class(mo))

    def oracle(c, io):
        _, v, k, data = wire.dec(c["w"])
        shape = E.is_gpg_shape(v) and type(k) is str and E.HEX64.match(k) is not None and isinstance(data, (bytes, bytearray))
        if not shape:
            return None if not io.startswith("O") else "malformed OpenPGP entry / key / data accepted"
        ok = E.verify(k, hashlib.sha256(E.frame(bytes(data), bytes.fromhex(v["other_headers"]))).digest(), v["signature"])
        if ok != io.startswith("O"):
            return "SHA-256(payload || headers || 04 ff || be32 len) %s under the key, implementation says %s (case %s)" % ("verifies" if ok else "does not verify", core.impl_class(io), c["meta"]["tag"])
        if not ok and core.impl_class(io) != "InvalidSignature":
            return "well-formed but invalid entry reported as %s" % core.impl_class(io)
        return None
    core.run_stream(ctx, core.Stream("verify_gpg_signature: payloads x header lengths %s x {valid, bit flips of signature/header/payload/key, boundary shifts, wrong framings}" % hdr_lens,
                                     cases, rel, oracle, nontrivial=lambda c, i, m: True))

    # ---- several OpenPGP entries in one envelope: each entry is judged on its own digest, whatever came before it in the map
    import itertools
    P = {"multi": ["é", 1.5]}
    ents = {
        "valid": lambda i: E.gpg_sig(i, P), "valid-hdr1": lambda i: E.gpg_sig(i, P, hdr=b"\x04"), "flip-sig": lambda i: dict(E.gpg_sig(i, P), signature=E.flip(E.gpg_sig(i, P)["signature"])),
        "flip-hdr": lambda i: dict(E.gpg_sig(i, P), other_headers=E.flip(E.gpg_sig(i, P)["other_headers"])), "other-payload": lambda i: E.gpg_sig(i, {"other": 1}),
        "raw": lambda i: E.raw_sig(i, P), "misfiled": lambda i: E.gpg_sig((i + 1) % 4, P),
    }
    mcases = []
    for n in (2, 3):
        for combo in itertools.product(ents, repeat=n):
            if n == 3 and ctx.quick and combo.count("valid") + combo.count("valid-hdr1") == 0:
                continue
            sigs = {PUBHEX[i]: ents[e](i) for i, e in enumerate(combo)}
            for t in (1, 2):
                mcases.append({"w": wire.case("verify_signable", {"signatures": sigs, "signed": P}, PUBHEX[:3], t, True), "meta": {"tag": list(combo)}})

    # OpenPGP mode requested by a true value that is not the bool (verify_delegation lets 1 and 1.0 through): still OpenPGP mode
    for combo in itertools.product(ents, repeat=2):
        sigs = {PUBHEX[i]: ents[e](i) for i, e in enumerate(combo)}
        for flag in (1, 1.0):
            mcases.append({"w": wire.case("verify_signable", {"signatures": sigs, "signed": P}, PUBHEX[:3], 1, flag), "meta": {"tag": list(combo) + ["gpg=%r" % flag]}})
    T10 = M.envelope(M.md("root", 3, {"root": M.delegation((0,), 1), "key_mgr": M.delegation((0, 1, 2), 1)}), (0,))
    for e in ents:
        for flag in (True, 1, 1.0):
            U = {"signatures": {PUBHEX[1]: ents[e](1)}, "signed": P}
            mcases.append({"w": wire.case("verify_delegation", "key_mgr", U, T10, flag), "meta": {"tag": [e, "delegation gpg=%r" % flag]}})

    def moracle(c, io):
        d = wire.dec(c["w"])
        if d[0] == "verify_delegation":
            env, K, t = d[2], PUBHEX[:3], 1
        else:
            _, env, K, t, gpg = d
        n = len(E.counting_keys(env, K, True))
        if io.startswith("O") != (n >= t):
            return "%d entries verify per RFC 4880 framing, threshold %d, implementation says %s (entries in order: %s)" % (n, t, core.impl_class(io), c["meta"]["tag"])
        return None
    core.run_stream(ctx, core.Stream("verify_signable(gpg=True): every ordered pair/triple of entry kinds {valid, corrupted signature/header, other payload, raw, mis-filed}",
                                     mcases, lambda c, io, mo: None if (core.impl_class(io) == "accept") == (core.model_class(mo) == "accept") else "accept/reject differs", moracle))

    # ---- GnuPG leg: detached signatures from the real gpg binary through the library's own GPG signing path
    nsig = 3 if ctx.quick else 20
    with gpghome.gpg_home(fresh_keys=0 if ctx.quick else 1) as (env, fprs):
        qs = []
        # public key values, via the library (fetch_keyval_from_gpg goes through the stand-in)
        probe = implrun.run_impl([wire.case("gpg_sign_dict", {"signatures": {}, "signed": {"probe": i}}, f) for i, f in enumerate(fprs)], env=env)
        for f, (io, _) in zip(fprs, probe):
            if not io.startswith("O"):
                raise RuntimeError("gpg leg cannot sign with %s: %s" % (f, io))
            qs.append(wire.dec(io[1:])[2])
        gcases = []
        docs = []
        for i in range(nsig):
            n = len(fprs)
            keys = list(range(n))
            md = {"type": "root", "version": i + 2, "metadata_spec_version": "0.6.0", "timestamp": M.TS, "expiration": M.EX,
                  "delegations": {"root": {"pubkeys": [qs[j] for j in keys], "threshold": rng.randint(1, n)},
                                  "key_mgr": {"pubkeys": [PUBHEX[4]], "threshold": 1}}, "note": "é\ud800 %d" % rng.getrandbits(40)}
            docs.append(md)
            gcases.append({"w": wire.case("gpg_sign_file", {"signatures": {}, "signed": md}, fprs), "meta": {"tag": "sign-file"}})
            gcases.append({"w": wire.case("gpg_sign_dict", {"signatures": {}, "signed": md}, fprs[i % n]), "meta": {"tag": "sign-dict"}})
        # sign, edit the signed portion, sign again with the same OpenPGP key: the entry must be the FRESH signature over the edited payload
        for i, md in enumerate(docs[:2]):
            gcases.append({"w": wire.case("gpg_sign_edit_sign", {"signatures": {}, "signed": md}, fprs[i % len(fprs)], dict(md, version=md["version"] + 1, note="edited")),
                           "meta": {"tag": "sign-edit-sign", "q": qs[i % len(fprs)]}})
        gcases.append({"w": wire.case("gpg_sign_via", b"data", fprs[0], True), "meta": {"tag": "via"}})
        gcases.append({"w": wire.case("gpg_sign_via", b"data", fprs[0].upper(), False), "meta": {"tag": "via-bad"}})
        gcases.append({"w": wire.case("gpg_sign_via", "data", fprs[0], False), "meta": {"tag": "via-bad"}})
        gcases.append({"w": wire.case("gpg_sign_dict", {"signed": 1}, fprs[0]), "meta": {"tag": "dict-bad"}})
        gimpl = implrun.run_impl([c["w"] for c in gcases], env=env)
    vcases = []
    for c, (io, _) in zip(gcases, gimpl):
        tag = c["meta"]["tag"]
        if tag in ("via-bad", "dict-bad"):
            if io.startswith("O") or core.impl_class(io) not in ("TypeError", "ValueError"):
                ctx.violations.append(("property", {"stream": "gpg leg", "case": c["w"], "impl": io[:200], "reason": "malformed argument to the GPG signing path: %s" % io[:80]}))
            continue
        if not io.startswith("O"):
            ctx.violations.append(("property", {"stream": "gpg leg", "case": c["w"], "impl": io[:300], "reason": "the library's GPG signing path failed with a working gpg: %s" % core.impl_class(io)}))
            continue
        out = wire.dec(io[1:])
        if tag == "sign-dict":
            env2, created, q = out
            # the model's transcription of the same signer output must give the same envelope
            vcases.append({"w": wire.case("gpg_transcribe", created, q, wire.dec(c["w"])[1], wire.dec(c["w"])[2]), "meta": {"tag": "transcribe", "want": "O" + wire.enc(env2)}})
            signed = env2["signed"]
            vcases.append({"w": wire.case("verify_signable", env2, [q], 1, True), "meta": {"tag": "gnupg-accept"}})
            ent = env2["signatures"][q]
            data = E.canon(signed)
            vcases.append({"w": wire.case("verify_gpg_signature", ent, q, data), "meta": {"tag": "gnupg-accept"}})
            vcases.append({"w": wire.case("verify_gpg_signature", ent, q, data + b" "), "meta": {"tag": "gnupg-reject"}})
            vcases.append({"w": wire.case("verify_gpg_signature", dict(ent, other_headers=flipbit(bytes.fromhex(ent["other_headers"]), 77).hex()), q, data), "meta": {"tag": "gnupg-reject"}})
            vcases.append({"w": wire.case("verify_gpg_signature", dict(ent, signature=flipbit(bytes.fromhex(ent["signature"]), 300).hex()), q, data), "meta": {"tag": "gnupg-reject"}})
            vcases.append({"w": wire.case("verify_gpg_signature", ent, PUBHEX[0], data), "meta": {"tag": "gnupg-reject"}})
            vcases.append({"w": wire.case("verify_signable", dict(env2, signed=dict(signed, version=99)), [q], 1, True), "meta": {"tag": "gnupg-reject"}})
            vcases.append({"w": wire.case("verify_signable", env2, [q], 1, False), "meta": {"tag": "gnupg-reject"}})
        elif tag == "sign-edit-sign":
            q = c["meta"]["q"]
            vcases.append({"w": wire.case("verify_signable", out, [q], 1, True), "meta": {"tag": "gnupg-accept"}})
            vcases.append({"w": wire.case("verify_signable", dict(out, signed=wire.dec(c["w"])[1]["signed"]), [q], 1, True), "meta": {"tag": "gnupg-reject"}})
        elif tag == "sign-file":
            md = out["signed"]
            prev = M.envelope(dict(md, version=md["version"] - 1, note="prev"), ())
            th = md["delegations"]["root"]["threshold"]
            vcases.append({"w": wire.case("verify_root", prev, out), "meta": {"tag": "gnupg-accept"}})
            vcases.append({"w": wire.case("verify_signable", out, md["delegations"]["root"]["pubkeys"], len(out["signatures"]), True), "meta": {"tag": "gnupg-accept"}})
            vcases.append({"w": wire.case("verify_signable", out, md["delegations"]["root"]["pubkeys"], len(out["signatures"]) + 1, True), "meta": {"tag": "gnupg-reject"}})
        elif tag == "via":
            if set(out) != {"other_headers", "signature", "see_also"} or not E.is_gpg_shape(out):
                ctx.violations.append(("property", {"stream": "gpg leg", "case": c["w"], "impl": io[:300], "reason": "sign_via_gpg(include_fingerprint=True) did not return a well-formed OpenPGP entry with see_also"}))

    def vrel(c, io, mo):
        if c["meta"]["tag"] == "transcribe":
            return None if mo == c["meta"]["want"] else "model transcription of the signer's output differs from the library's envelope"
        return None if (core.impl_class(io) == "accept") == (core.model_class(mo) == "accept") else "accept/reject differs: implementation %s, model %s" % (core.impl_class(io), core.model_class(mo))

    def voracle(c, io):
        t = c["meta"]["tag"]
        if t == "gnupg-accept" and not io.startswith("O"):
            return "a genuine GnuPG signature transcribed by the library is rejected (%s)" % core.impl_class(io)
        if t == "gnupg-reject" and io.startswith("O"):
            return "a corrupted / misused GnuPG signature is accepted"
        return None
    # transcribe cases are model-only: give the implementation a harmless call of the same arity
    tw = [c for c in vcases if c["meta"]["tag"] != "transcribe"]
    core.run_stream(ctx, core.Stream("GnuPG %s signatures through sign_root_metadata_via_gpg / _dict_via_gpg (stand-in for securesystemslib calling the gpg binary): accepted; corruptions rejected" % nsig,
                                     tw, vrel, voracle, nontrivial=lambda c, i, m: True))
    mdl = ctx.get_model()
    for c in vcases:
        if c["meta"]["tag"] == "transcribe":
            mo = mdl.run1(c["w"])
            if mo != c["meta"]["want"]:
                ctx.violations.append(("correspondence", {"stream": "transcription", "case": c["w"], "impl": c["meta"]["want"][:300], "model": mo[:300],
                                                          "reason": "model transcription of the signer's output differs from the library's envelope"}))
    ctx.assumptions = ["GnuPG 2.2.40 and the harness stand-in for securesystemslib (packet parsing) are outside the model; the GnuPG leg is a test of interoperability",
                       "header lengths up to %d bytes in the correspondence; the theorems hold for every length below 2^32" % max(hdr_lens)]

"""C19 -- key material round-trips losslessly and matches RFC 8032."""
import itertools
import core
import wire
import ed25519_ref as R
import jsongen as J
import envgen as E
from gen import interesting_values, Obj
from modelrun import ed_pub, ed_sign
from cryptography.hazmat.primitives.asymmetric.ed25519 import Ed25519PrivateKey, Ed25519PublicKey


def run(ctx):
    rng = ctx.rng
    n = 40 if ctx.quick else 1500
    import hashlib
    # key material with bytes a text-minded reader would strip or translate: final / leading LF, CR, NUL, space, ^Z -- in the seed and in the derived public key
    special = [b"\x07" * 31 + b"\n", b"\n" * 32, b"\r\n" + b"\x01" * 28 + b"\r\n", b" " + b"\x02" * 30 + b" ", b"\x00" + b"\x03" * 30 + b"\x00", b"\x1a" * 32]
    for last in (0x0a, 0x0d, 0x20, 0x00):
        i = 0
        while True:
            sd = hashlib.sha256(b"c19 %d %d" % (last, i)).digest()
            if ed_pub(sd)[-1] == last:
                special.append(sd)
                break
            i += 1
    seeds = special + [bytes.fromhex(v[0]) for v in R.VECTORS] + [bytes(32), b"\xff" * 32, bytes(range(32))] + [rng.randbytes(32) for _ in range(n)]
    msgs = [bytes.fromhex(v[2]) for v in R.VECTORS] + [b"", b"\x00", b"a" * 64, b"\xff" * 200] + [rng.randbytes(rng.randint(0, 300)) for _ in range(n)]
    cases = []
    # (1) the public key the library derives, the hex it files under, the signatures it makes = RFC 8032
    for i, sd in enumerate(seeds):
        m = msgs[i % len(msgs)]
        cases.append({"w": wire.case("pub_of_seed", sd, None), "meta": {"k": "pub", "seed": sd.hex()}})
        cases.append({"w": wire.case("sign_raw", sd, m), "meta": {"k": "sign", "seed": sd.hex(), "msg": m.hex()}})
        cases.append({"w": wire.case("public_key_of", Ed25519PrivateKey.from_private_bytes(sd)), "meta": {"k": "pubobj", "seed": sd.hex()}})
        if i < (22 if ctx.quick else 200):
            pl = J.rand_json(rng, depth=2) if i % 3 else {"name": "pkg", "n": i}
            if i % 5 == 4:
                pl = ["12", "null", "{}", "\"abc\"", "[\n  1\n]", "true", "{\n  \"a\": 1\n}"][(i // 5) % 7]      # strings that spell canonical JSON text
            try:
                E.canon(pl)
            except (TypeError, ValueError):
                pl = {"n": i}
            cases.append({"w": wire.case("serialize_and_sign", pl, Ed25519PrivateKey.from_private_bytes(sd)), "meta": {"k": "libsign", "seed": sd.hex()}})
            cases.append({"w": wire.case("sign_sequence", pl, [sd]), "meta": {"k": "filed", "seed": sd.hex()}})
            cases.append({"w": wire.case("keyfile_roundtrip", sd), "meta": {"k": "files", "seed": sd.hex()}})
    # (1a) payloads that are falsy in Python are JSON values like any other: [] "" 0 0.0 null false {} and containers of them
    for j, pl in enumerate([[], "", 0, 0.0, -0.0, None, False, {}, [[]], {"": []}, [0], "0"]):
        sd = seeds[j % len(seeds)]
        cases.append({"w": wire.case("sign_sequence", pl, [sd]), "meta": {"k": "filed", "seed": sd.hex()}})
        cases.append({"w": wire.case("serialize_and_sign", pl, Ed25519PrivateKey.from_private_bytes(sd)), "meta": {"k": "libsign", "seed": sd.hex()}})
    # (1b) signing an envelope that already holds entries under other notations of the signer's key (and other keys):
    # the new signature is filed under the canonical hex, nothing else changes
    for sd in seeds[:6]:
        ph = ed_pub(sd).hex()
        pl = {"n": 1, "s": "é"}
        for pre in ({ph.upper(): {"signature": "00" * 64}}, {ph + "\n": E.raw_sig(0, pl), " " + ph: 5}, {E.mixcase(ph): {"signature": "11" * 64}, ph: {"signature": "22" * 64}},
                    {ph[:-1] + "\n": {"signature": "33" * 64}}, {"junk": None}):
            cases.append({"w": wire.case("sign_signable", {"signatures": dict(pre), "signed": pl}, Ed25519PrivateKey.from_private_bytes(sd)),
                          "meta": {"k": "filed-pre", "seed": sd.hex(), "pre": list(pre)}, "mutates": True})
    # (2) conversions, every order, both classes
    for sd in seeds[: (10 if ctx.quick else 100)]:
        pub = ed_pub(sd)
        for cls, raw in (("pub", pub), ("priv", sd)):
            obj = Ed25519PublicKey.from_public_bytes(raw) if cls == "pub" else Ed25519PrivateKey.from_private_bytes(raw)
            cases += [{"w": wire.case("key_from_bytes", cls, raw), "meta": {"k": "conv"}}, {"w": wire.case("key_to_bytes", cls, obj), "meta": {"k": "conv"}},
                      {"w": wire.case("key_to_hex", cls, obj), "meta": {"k": "conv"}}, {"w": wire.case("key_from_hex", cls, raw.hex()), "meta": {"k": "conv"}},
                      {"w": wire.case("key_from_bytes", cls, bytearray(raw)), "meta": {"k": "conv"}}]
    # (3) equivalence laws
    objs = []
    for sd in seeds[:4]:
        objs += [Ed25519PrivateKey.from_private_bytes(sd), Ed25519PublicKey.from_public_bytes(ed_pub(sd)), Ed25519PublicKey.from_public_bytes(sd)]
    others = [None, 5, "k", b"\x00" * 32, Obj(1), [], seeds[0].hex()]
    for cls in ("pub", "priv"):
        for a, b in itertools.product(objs + others[:3], objs + others):
            cases.append({"w": wire.case("key_is_equivalent_to", cls, a, b), "meta": {"k": "equiv"}})
    # (4) malformed encodings
    good = seeds[0]
    bads_b = [b"", good[:31], good + b"\x00", good * 2, bytearray(good), bytearray(good[:31]), good.hex(), None, 5, [good], memoryview(good).tobytes()[:16], Obj(2)]
    h = good.hex()
    bads_h = ["", h[:-1], h[:-2], h + "0", h + "00", h.upper(), h[:10].upper() + h[10:], "0x" + h[2:], " " + h[1:], h[:-1] + "\n", h[:-1] + "g", "٠" + h[1:],
              good, bytearray(good), None, 5, [h], h[:32] + " " + h[32:], "ａ" + h[1:], h.encode()]
    for cls in ("pub", "priv"):
        for b in bads_b + interesting_values():
            try:
                cases.append({"w": wire.case("key_from_bytes", cls, b), "meta": {"k": "bad"}})
            except TypeError:
                pass
        for b in bads_h + interesting_values():
            try:
                cases.append({"w": wire.case("key_from_hex", cls, b), "meta": {"k": "bad"}})
            except TypeError:
                pass
        for b in others + [Ed25519PublicKey.from_public_bytes(good), Ed25519PrivateKey.from_private_bytes(good)]:
            cases.append({"w": wire.case("key_to_bytes", cls, b), "meta": {"k": "bad-obj"}})
            cases.append({"w": wire.case("key_to_hex", cls, b), "meta": {"k": "bad-obj"}})

    def rel(c, io, mo):
        if io != mo:
            return "key operation differs: implementation %s, model %s" % (io[:150], mo[:150])
        return None

    def oracle(c, io):
        m = c["meta"]
        tup = wire.dec(c["w"])
        if m["k"] == "pub":
            sd = bytes.fromhex(m["seed"])
            if io != "O" + wire.enc(R.secret_to_public(sd)):
                return "public key derived by the library differs from RFC 8032 (reference transcription)"
        elif m["k"] == "sign":
            sd, msg = bytes.fromhex(m["seed"]), bytes.fromhex(m["msg"])
            if io != "O" + wire.enc(R.sign(sd, msg)):
                return "signature produced by the library differs from RFC 8032 (reference transcription)"
        elif m["k"] == "libsign":
            sd = bytes.fromhex(m["seed"])
            want = R.sign(sd, E.canon(tup[1])).hex()
            if io != "O" + wire.enc(want):
                return "serialize_and_sign is not hex(Ed25519(seed, canonical bytes)) per RFC 8032"
        elif m["k"] == "filed":
            sd = bytes.fromhex(m["seed"])
            env = wire.dec(io[1:]) if io.startswith("O") else None
            if not env or list(env["signatures"]) != [R.secret_to_public(sd).hex()]:
                return "the signature is not filed under the hex of the RFC 8032 public key of the seed"
            if env["signatures"][R.secret_to_public(sd).hex()] != {"signature": R.sign(sd, E.canon(tup[1])).hex()}:
                return "the signature filed is not the RFC 8032 signature of the seed over the canonical bytes of the payload %r" % (tup[1],)
        elif m["k"] == "filed-pre":
            sd = bytes.fromhex(m["seed"])
            env = wire.dec(io[1:]) if io.startswith("O") else None
            ph = R.secret_to_public(sd).hex()
            pre = tup[1]["signatures"]
            if not env or env["signatures"].get(ph) != {"signature": R.sign(sd, E.canon(tup[1]["signed"])).hex()}:
                return "the new signature is not filed under the canonical hex of the signer's RFC 8032 public key"
            for k, v in pre.items():
                if k != ph and (k not in env["signatures"] or wire.enc(env["signatures"][k]) != wire.enc(v)):
                    return "signing altered or removed the existing entry %r" % k
            if set(env["signatures"]) != set(pre) | {ph}:
                return "signing added entries other than the signer's"
        elif m["k"] == "files":
            sd = bytes.fromhex(m["seed"])
            if io != "O" + wire.enc([sd, R.secret_to_public(sd), Ed25519PrivateKey.from_private_bytes(sd), Ed25519PublicKey.from_public_bytes(R.secret_to_public(sd)), True, True]):
                return "key files do not hold / load back the same key pair"
        elif m["k"] in ("bad", "bad-obj"):
            if not io.startswith("O") and core.impl_class(io) not in ("TypeError", "ValueError", "AttributeError"):
                return "malformed key input ended in %s" % core.impl_class(io)
            if m["k"] == "bad" and io.startswith("O"):
                arg = tup[2]
                ok = (tup[0] == "key_from_hex" and type(arg) is str and E.HEX64.match(arg)) or \
                     (tup[0] == "key_from_bytes" and ((type(arg) is bytes) or (type(arg) is bytearray and tup[1] == "priv")) and len(arg) == 32)
                if not ok:
                    return "malformed key encoding accepted: %r" % (arg,)
        return None
    # key files as found on disk: the two files are independent inputs -- the public key loaded is the one in the .pub file, and a .pub
    # file of the wrong length or encoding is rejected
    kcases = []
    s0, s1 = seeds[0], seeds[1]
    for pri, pub in ((s0, ed_pub(s0)), (s0, ed_pub(s1)), (s1, ed_pub(s0)), (s0, ed_pub(s0)[:31]), (s0, ed_pub(s0) + b"\x00"), (s0, b""), (s0, ed_pub(s0).hex().encode()),
                     (s0[:31], ed_pub(s0)), (s0 + b"\n", ed_pub(s0)), (b"", b""), (s0, ed_pub(s0) + b"\n")):
        kcases.append({"w": wire.case("keyfiles_load", pri, pub), "meta": {"k": "keyfiles"}})

    def koracle(c, io):
        _, pri, pub = wire.dec(c["w"])
        good = len(pri) == 32 and len(pub) == 32
        if good:
            if io != "O" + wire.enc([pri, pub]):
                return "key files holding a 32-byte private and a 32-byte public value do not load back as those two keys: %s" % io[:80]
        elif io.startswith("O"):
            return "a key file of the wrong length (private %d bytes, public %d bytes) was accepted" % (len(pri), len(pub))
        elif core.impl_class(io) not in ("TypeError", "ValueError"):
            return "malformed key file ended in %s" % core.impl_class(io)
        return None
    core.run_stream(ctx, core.Stream("keyfiles_to_keys on key files given as bytes (consistent pairs, pairs from different seeds, wrong lengths, hex text)", kcases,
                                     lambda c, io, mo: None, koracle, model=False))
    # the Gallina specification of RFC 8032 (extracted, no oracle table) against the library's backend: same public key, same signature
    # bytes, same verdicts (also on corrupted signatures and the RFC's vectors); SHA-512 against hashlib
    gseeds = [bytes.fromhex(R.VECTORS[1][0])] + ([] if ctx.quick else [rng.randbytes(32), special[0]] + [rng.randbytes(32) for _ in range(10)] + special[1:4])
    gcases = []
    for i, sd in enumerate(gseeds):
        msg = [bytes.fromhex(R.VECTORS[1][2]), b"", rng.randbytes(200)][i % 3]
        sg = ed_sign(sd, msg)
        pk = ed_pub(sd)
        gcases += [{"w": wire.case("rfc8032_pub", sd, None), "meta": {"k": "g"}}, {"w": wire.case("rfc8032_sign", sd, msg), "meta": {"k": "g"}},
                   {"w": wire.case("rfc8032_verify", pk, msg, sg), "meta": {"k": "g"}}]
        if i < (1 if ctx.quick else 4):
            bad = bytearray(sg); bad[rng.randrange(64)] ^= 1 << rng.randrange(8)
            gcases += [{"w": wire.case("rfc8032_verify", pk, msg + b"x", sg), "meta": {"k": "g"}}, {"w": wire.case("rfc8032_verify", pk, msg, bytes(bad)), "meta": {"k": "g"}}]
    for m in (b"", b"abc", b"a" * 111, b"a" * 112, b"a" * 128, rng.randbytes(300)):
        gcases.append({"w": wire.case("sha512", m, None), "meta": {"k": "g"}})
    core.run_stream(ctx, core.Stream("the Gallina RFC 8032 specification (extracted) vs the library: public keys, signatures, verification verdicts, SHA-512", gcases,
                                     lambda c, io, mo: None if io == mo else "Gallina RFC 8032 and the library differ: %s vs %s" % (io[:60], mo[:60]), None))
    core.run_stream(ctx, core.Stream("key derivation/signing vs RFC 8032 (section 7.1 vectors + random seeds/messages), conversions in every direction, equivalence, key files, malformed encodings",
                                     cases, rel, oracle, nontrivial=lambda c, i, m: c["meta"]["k"] not in ("bad", "bad-obj")))
    # composition of conversions: any type-correct chain is the identity (checked on the implementation results above through the model);
    ctx.assumptions = ["conformance of OpenSSL's ed25519 to RFC 8032 is sampled (vectors + %d random seeds/messages), not proved" % n,
                       "key objects are the pyca classes; the wire format carries them as raw bytes"]

"""C04 -- root chain integrity over arbitrary histories of offered updates."""
import core
import wire
from gen import PUBHEX
import envgen as E
import mdgen as M


def gen_history(rng, n):
    """an evolving honest chain interleaved with adversarial offers; returns (T0, offers, tags)"""
    # some chains start at a large version (date serials, counters past 2^31 / 2^53): 'exactly plus one' must not soften with magnitude
    keys, th, ver = (0, 1), rng.choice((1, 2, 2)), rng.choice((1, 1, 1, 3, 2026100200, 4 * 10 ** 9, 10 ** 12, 2 ** 53 - 5, 10 ** 30))
    # some chains carry, next to "root", delegations whose names merely resemble it (file-name forms); their keys are NOT root keys
    alias = rng.choice([None, None, "root.json", "1.root.json", "Root"])
    alias_keys = (3,)

    def mkroot(v, ks, t, **kw):
        if alias is None:
            return M.root_md(v, ks, t, **kw)
        dl = {alias: M.delegation(alias_keys, 1), "root": M.delegation(ks, t), "key_mgr": M.delegation((4,), 1)}
        return M.md("root", v, dl, **kw)
    T0 = M.envelope(mkroot(ver, keys, th), keys)
    honest = [T0]
    offers, tags = [], []
    cur_keys, cur_th, cur_ver = keys, th, ver
    for _ in range(n):
        r = rng.random()
        if r < 0.35:      # honest update, possibly rotating keys / changing threshold
            nk = tuple(sorted(rng.sample(range(4), rng.randint(1, 3))))
            nt = rng.randint(1, len(nk))
            signers = tuple(sorted(set(rng.sample(cur_keys, min(len(cur_keys), max(cur_th, 1)))) | set(rng.sample(nk, nt))))
            U = M.envelope(mkroot(cur_ver + 1, nk, nt), signers)
            offers.append(U); tags.append("honest")
            # the model decides; we track optimistically only if enough old signers (always true here)
            honest.append(U)
            cur_keys, cur_th, cur_ver = nk, nt, cur_ver + 1
        elif r < 0.45:
            offers.append(rng.choice(honest)); tags.append("replay")
        elif r < 0.55:
            U = M.envelope(M.root_md(cur_ver + 2, cur_keys, cur_th), cur_keys)
            offers.append(U); tags.append("skip")
        elif r < 0.60 and alias is not None:
            # signed only by the keys listed under the look-alike name
            U = M.envelope(mkroot(cur_ver + 1, alias_keys, 1), alias_keys)
            offers.append(U); tags.append("look-alike-role-keys")
        elif r < 0.63:
            # keeps every current root key in the list, adds its own, and is signed by the added keys only
            others = tuple(i for i in range(4) if i not in cur_keys) or (3,)
            U = M.envelope(M.root_md(cur_ver + 1, tuple(cur_keys) + others, 1), others)
            offers.append(U); tags.append("keep-and-add")
        elif r < 0.65:
            others = tuple(i for i in range(4) if i not in cur_keys) or (3,)
            U = M.envelope(M.root_md(cur_ver + 1, others, 1), others)
            offers.append(U); tags.append("self-appointed")
        elif r < 0.75:
            few = cur_keys[:max(0, cur_th - 1)]
            U = M.envelope(M.root_md(cur_ver + 1, cur_keys, cur_th), few)
            offers.append(U); tags.append("insufficient")
        elif r < 0.85:
            old = honest[max(0, len(honest) - 3)]
            oldkeys = [PUBHEX.index(k) for k in old["signed"]["delegations"]["root"]["pubkeys"]]
            U = M.envelope(M.root_md(cur_ver + 1, tuple(oldkeys), 1), tuple(oldkeys))
            offers.append(U); tags.append("revoked-keys")
        elif r < 0.86:
            U = M.envelope(M.root_md(cur_ver + 1, cur_keys, cur_th), cur_keys, mode="raw")
            offers.append(U); tags.append("raw-mode-sigs")
        elif r < 0.90:
            # a holder of ONE current key lists its signature under several notations of that key and appoints itself
            one = cur_keys[0]
            sps = rng.sample(M.RESPELL, 3)
            U = M.respell_signatures(M.envelope(M.root_md(cur_ver + 1, (one,), 1), (one,)), one, sps)
            offers.append(U); tags.append("one-key-many-spellings")
        elif r < 0.93:
            # an outsider's self-signed root that is not even well formed (bad date, missing field, wrong types): an ERROR is not an acceptance
            others = tuple(i for i in range(4) if i not in cur_keys) or (3,)
            bad = rng.choice([dict(expiration="2034-01-01"), dict(timestamp=5), dict(metadata_spec_version=Ellipsis), dict(version="%d" % (cur_ver + 1))])
            U = M.envelope(M.root_md(bad.pop("version", cur_ver + 1), others, 1, **bad), others)
            if rng.random() < 0.3:
                U["signatures"]["not a key"] = "not an entry"
            offers.append(U); tags.append("malformed-self-appointed")
        else:
            U = M.envelope(M.root_md(cur_ver, cur_keys, cur_th, expiration="2040-01-01T00:00:00Z"), cur_keys)
            offers.append(U); tags.append("same-version")
    return T0, offers, tags


def run(ctx):
    rng = ctx.rng
    nh = 25 if ctx.quick else 150
    maxlen = 12 if ctx.quick else 40
    hist = [gen_history(rng, rng.randint(1, maxlen)) for _ in range(nh)]
    cases, pcases, singles = [], [], []
    for T0, offers, tags in hist:
        cases.append({"w": wire.case("root_history", T0, offers), "meta": {"s": "history", "tags": tags}})
        pcases.append({"w": wire.case("root_history_persist", T0, offers), "meta": {"s": "history-persist", "tags": tags}})

    def rel(c, io, mo):
        if io != mo:
            return "verdict sequence / final trusted root differ: implementation %s ... model %s ..." % (io[:80], mo[:80])
        return None
    impl, mdl = core.run_stream(ctx, core.Stream("offer histories (honest rotations, replays, rollbacks, skips, self-appointed, insufficient, revoked keys)", cases, rel,
                                                 nontrivial=lambda c, i, m: "Ot" in (i or "")))
    # persistence between steps: same verdicts and same final root as the in-memory model run
    mdl_by = {c["w"].replace("root_history", "root_history_persist", 1): m for c, m in zip(cases, mdl)}
    import implrun
    pimpl = implrun.run_impl([c["w"] for c in pcases])
    for c, (io, _) in zip(pcases, pimpl):
        if io != mdl_by[c["w"]]:
            ctx.violations.append(("property", {"stream": "persisting the trusted root between steps", "case": c["w"], "impl": io[:500],
                                                "reason": "verdicts or final root change when the trusted root is written and reloaded between offers"}))
    ctx.streams.append({"stream": "same histories with write_metadata_to_file/load between steps", "cases": len(pcases),
                        "distinct_nontrivial": len(pcases), "impl_outcomes": {}, "unmodelled": 0, "mismatches": 0, "oracle_violations": 0, "wall_s": 0})
    # a client driven by the command line (exit status 0 = install the offer): same verdicts, same final root
    ccases = [c["w"].replace("root_history", "root_history_cli", 1) for c in cases]
    cimpl = implrun.run_impl(ccases)
    for c, w, (io, _) in zip(cases, ccases, cimpl):
        if io != mdl_by[c["w"].replace("root_history", "root_history_persist", 1)]:
            ctx.violations.append(("property", {"stream": "client driven by `verify-metadata trusted offer && cp offer trusted`", "case": w, "impl": io[:500],
                                                "reason": "a client that installs an offer when the verify-metadata command exits with status 0 ends with other verdicts / another trusted root than the update rule allows"}))
    ctx.streams.append({"stream": "same histories through the command line client (exit status 0 installs the offer)", "cases": len(ccases),
                        "distinct_nontrivial": len(ccases), "impl_outcomes": {}, "unmodelled": 0, "mismatches": 0, "oracle_violations": 0, "wall_s": 0})
    # every offer re-evaluated in a fresh process against the state the history had reached: verdict must not depend on the prefix
    fresh = []
    for (T0, offers, tags), (io, _) in zip(hist, impl):
        if not io.startswith("O"):
            continue
        verdicts = wire.dec(io[1:])[0]
        t = T0
        for u, v in zip(offers, verdicts):
            fresh.append({"w": wire.case("verify_root", t, u), "meta": {"s": "fresh", "want": v}})
            if v:
                t = u
    fresh = fresh[: (150 if ctx.quick else 3000)]

    def oracle_fresh(c, io):
        if io.startswith("O") != c["meta"]["want"]:
            return "verdict inside the history (%s) differs from the verdict of the same pair in a fresh process (%s)" % (c["meta"]["want"], core.impl_class(io))
        try:
            _, T, U = wire.dec(c["w"])
            if M.root_rhs(T, U) != io.startswith("O"):
                return "per-step update rule violated"
        except Exception:
            pass
        return None
    core.run_stream(ctx, core.Stream("each (state, offer) pair of the histories in a fresh process", fresh,
                                     lambda c, io, mo: None if (core.impl_class(io) == "accept") == (core.model_class(mo) == "accept") else "accept/reject differs", oracle_fresh))
    ctx.assumptions = ["theorems are over unbounded histories; the correspondence samples lengths <= %d" % maxlen]

"""C08 -- persisting metadata never changes its trust status (histories over real files)."""
import json
import core
import wire
import jsongen as J
import envgen as E
import mdgen as M
from gen import SEEDS, PUBHEX


def shuffle_keys(v, rng):
    if isinstance(v, dict):
        items = [(k, shuffle_keys(x, rng)) for k, x in v.items()]
        rng.shuffle(items)
        return dict(items)
    if isinstance(v, list):
        return [shuffle_keys(x, rng) for x in v]
    return v


def run(ctx):
    rng = ctx.rng
    nh = 60 if ctx.quick else 1200
    maxlen = 10 if ctx.quick else 40
    cases = []
    for h in range(nh):
        kind = rng.random()
        if kind < 0.35:
            # a root envelope (OpenPGP-style entries) verified against its predecessor
            keys = tuple(sorted(rng.sample(range(4), rng.randint(1, 3))))
            th = rng.randint(1, len(keys))
            md = M.root_md(2, keys, th, note=J.rand_json(rng, depth=2))
            signers = tuple(sorted(rng.sample(range(4), rng.randint(0, 4))))
            init = M.envelope(md, signers, mode="gpg")
            prev = M.envelope(M.root_md(1, keys, th), keys)
            queries = [["vroot", prev], ["verify", [PUBHEX[i] for i in keys], th, True], ["verify", [PUBHEX[i] for i in keys], th, False]]
        elif kind < 0.6:
            md = M.md("key_mgr", rng.randint(1, 3), {"pkg_mgr": M.delegation((2,), 1)}, extra=J.rand_json(rng, depth=2))
            init = M.envelope(md, tuple(rng.sample(range(5), rng.randint(0, 3))), mode=rng.choice(["raw", "gpg"]))
            T = M.envelope(M.md("root", 1, {"root": M.delegation((0,), 1), "key_mgr": M.delegation((1, 4), rng.randint(1, 2))}), (0,))
            queries = [["vdeleg", "key_mgr", T, False], ["vdeleg", "key_mgr", T, True], ["verify", [PUBHEX[1], PUBHEX[4]], 1, False]]
        else:
            pl = J.rand_json(rng, depth=3)
            signers = rng.sample(range(4), rng.randint(0, 3))
            sigs = {}
            for i in signers:
                sigs[PUBHEX[i]] = E.raw_sig(i, pl) if rng.random() < 0.6 else E.gpg_sig(i, pl, see_also=rng.random() < 0.3)
            if rng.random() < 0.3:
                sigs["junk é"] = rng.choice([5, None, {"signature": "zz"}, [1]])
            # entries under other notations of a signer's key (valid or junk values): ignored, and left alone by later signing
            for i in signers:
                if rng.random() < 0.4:
                    sp = rng.choice(["upper", "mixed", "lead_ws", "trail_nl", "nl_for_last"])
                    sigs[E.KEY_SPELLINGS[sp](PUBHEX[i])] = rng.choice([sigs[PUBHEX[i]], {"signature": "00" * 64}, E.raw_sig((i + 1) % 4, pl)])
            for i in range(4):
                if i not in signers and rng.random() < 0.2:
                    sigs[PUBHEX[i].upper()] = E.raw_sig(i, pl)
                elif i not in signers and rng.random() < 0.2:
                    # an entry in some other tool's format under a well-formed key: skipped, in whatever position the file order puts it
                    sigs[PUBHEX[i]] = rng.choice([{"keyid": "x", "sig": "y"}, {}, {"signature": 5}, "text", None])
            init = {"signatures": sigs, "signed": pl}
            K = [PUBHEX[i] for i in rng.sample(range(5), rng.randint(1, 4))]
            queries = [["verify", K, t, g] for t in (1, 2) for g in (False, True)]
        init = shuffle_keys(init, rng)
        ops = []
        # the file may already exist: the same value in another layout, or a value that is == but a different JSON value
        def twin(v):
            if isinstance(v, dict):
                return {k: twin(x) for k, x in v.items()}
            if isinstance(v, list):
                return [twin(x) for x in v]
            if type(v) is int and v in (0, 1):
                return rng.choice([float(v), bool(v)])
            if type(v) is bool:
                return int(v)
            if type(v) is float and v == v and abs(v) < 10 and v == int(v):
                return int(v)
            return v
        pre = rng.random()
        if pre < 0.15:
            ops.append(["prefill", json.dumps(init, separators=(",", ":")).encode()])
        elif pre < 0.25:
            # the file as another tool may have written it: raw UTF-8 instead of \\u escapes (lone surrogates cannot be written that way)
            try:
                ops += [["prefill", json.dumps(init, ensure_ascii=False, indent=1).encode("utf-8")], ["load"]]
            except UnicodeEncodeError:
                ops.append(["prefill", json.dumps(init, separators=(",", ":")).encode()])
        elif pre < 0.5:
            other = {"signatures": init["signatures"], "signed": twin(init["signed"])}
            ops += [["replace", other], ["write"], ["replace", init]]
        elif pre < 0.6:
            ops.append(["prefill", b"{not json"])
        for _ in range(rng.randint(2, maxlen)):
            r = rng.random()
            if r < 0.3:
                ops += [["write"], ["load"]]
            elif r < 0.4:
                ops.append(["write"])
            elif r < 0.45:
                # a failed attempt to store something unserializable must leave the stored file as it was
                ops += [["write"], ["trywrite", rng.choice([{"k": b"bytes"}, {"s": {1, 2}}, [b"x"], {"signatures": {}, "signed": {"v": bytearray(b"y")}}])], ["load"]]
            elif r < 0.55:
                ops.append(["sign", SEEDS[rng.randrange(5)]])
            else:
                ops.append(rng.choice(queries))
        ops = [rng.choice(queries)] + ops + [["write"], ["load"]] + queries
        cases.append({"w": wire.case("persist_history", init, ops), "meta": {"ops": [o[0] for o in ops]}})

    # targeted: a file another tool wrote in raw UTF-8 (non-ASCII text in keys and values), loaded, verified, stored again
    for i in range(6):
        pl = {"名前": "日本語 %d" % i, "é": ["ü", {"ключ": "значение"}], "n": i}
        sigs = {PUBHEX[0]: E.raw_sig(0, pl), PUBHEX[1]: E.gpg_sig(1, pl)}
        init = {"signatures": sigs, "signed": pl}
        raw = json.dumps(init, ensure_ascii=False, indent=[None, 1, 4][i % 3]).encode("utf-8")
        if i == 5:
            raw = b"\xef\xbb\xbf" + raw          # with a byte-order mark
        q = [["verify", [PUBHEX[0], PUBHEX[1]], 2, False], ["verify", [PUBHEX[1]], 1, True]]
        ops = [["prefill", raw], ["load"]] + q + [["sign", SEEDS[2]], ["write"], ["load"]] + q
        cases.insert(i, {"w": wire.case("persist_history", {"signatures": {}, "signed": pl}, ops), "meta": {"ops": [o[0] for o in ops]}})

    def rel(c, io, mo):
        return None if io == mo else "history differs: implementation %s ... model %s ..." % (io[:120], mo[:120])

    def oracle(c, io):
        _, init, ops = wire.dec(c["w"])
        if not io.startswith("O"):
            return None
        out = wire.dec(io[1:])
        verdicts, raw, final = out[:-2], out[-2], out[-1]
        if raw is not None:
            try:
                if E.canon(json.loads(raw)) != raw:
                    return "the file written is not in canonical form"
            except Exception:
                return "the file written is not JSON"
        # the history ends with write, load and queries only: the file must hold exactly the canonical bytes of the value in memory
        if raw is not None and raw != final:
            return "after a final write/load the file does not hold the canonical bytes of the value that was written"
        if E.canon(init["signed"]) != E.canon(json.loads(final)["signed"]):
            return "the signed payload changed over the history"
        # every query must give the same verdict at each point of the history where no signature by a new key was added in between
        seen = {}
        signed_since = {}
        vi = 0
        for op in ops:
            if op[0] == "sign":
                seen.clear()
            elif op[0] in ("verify", "vroot", "vdeleg"):
                key = wire.enc(op)
                v = verdicts[vi]
                vi += 1
                if key in seen and seen[key] != v:
                    return "the verdict of %s changed across write/load cycles (%s -> %s)" % (op[0], seen[key], v)
                seen[key] = v
        # signatures once present stay present (as JSON values) unless re-signed by the same key
        fin = json.loads(final)["signatures"]
        resigned = {PUBHEX[SEEDS.index(op[1])] for op in ops if op[0] == "sign"}
        for k, v in init["signatures"].items():
            if k in resigned:
                continue
            if k not in fin or E.canon(fin[k]) != E.canon(v):
                return "the entry under %s was lost or altered" % k[:16]
        for k in resigned:
            if fin.get(k) != E.raw_sig(PUBHEX.index(k), init["signed"]):
                return "re-signing did not file the signer's signature over the payload"
        return None
    core.run_stream(ctx, core.Stream("histories of write / load / add-signature / verify (verify_signable, verify_root, verify_delegation) over real files; %d histories, up to %d steps; payloads with floats, non-ASCII, nesting; shuffled key orders"
                                     % (nh, maxlen), cases, rel, oracle, nontrivial=lambda c, i, m: "sign" in c["meta"]["ops"] or "verify" in c["meta"]["ops"]))
    # "any metadata": values that are not envelopes, in particular top-level strings whose characters spell JSON text, an envelope, a number
    plain = ["{}", "[1]", "{\"signatures\": {}, \"signed\": 1}", " {\"a\": 1}", "{oops", "[", "12", "null", "\"x\"", "", "é\ud800", "{\n  \"a\": 1\n}",
             [], [1, [2.5, None]], 12, 1.5, None, True, {"a": {"b": []}}, ["{}"], {"k": "[1]"}]
    vcases = [{"w": wire.case("persist_history", v, [["write"], ["load"], ["write"], ["load"]]), "meta": {"ops": ["write", "load"]}} for v in plain]

    def voracle(c, io):
        _, init, _ops = wire.dec(c["w"])
        if not io.startswith("O"):
            return "storing and loading a JSON value failed: %s" % core.impl_class(io)
        out = wire.dec(io[1:])
        if out[-2] != E.canon(init):
            return "the file written for %r is not the canonical serialization of that value" % (init,)
        if out[-1] != E.canon(init):
            return "%r does not load back as an equal JSON value (canonical bytes %r)" % (init, out[-1][:60])
        return None
    core.run_stream(ctx, core.Stream("write/load cycles of values that are not envelopes (top-level strings that spell JSON text, lists, numbers, null)", vcases, rel, voracle))
    # the same histories in a process whose locale is not UTF-8 (LC_ALL=C, UTF-8 mode off): what a file means must not depend on it
    core.run_stream(ctx, core.Stream("the same histories under LC_ALL=C with PYTHONUTF8=0 (files in raw UTF-8 from other tools included)", cases[: (30 if ctx.quick else 300)], rel, oracle,
                                     env={"LC_ALL": "C", "LANG": "C", "PYTHONUTF8": "0", "PYTHONIOENCODING": "utf-8"}))
    ctx.assumptions = ["theorem for the verdict invariance is proved for verify_signable (the other two verifiers call it after the schema check; their invariance is exercised by the histories)",
                       "NaN compares equal as a JSON token; the harness never uses Python == on floats"]

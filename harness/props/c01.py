"""C01 threshold soundness / C02 threshold completeness: shared streams over verify_signable."""
import itertools
import core
import wire
from gen import PUBHEX, SEEDS, Obj
import envgen as E


def build_cases(ctx):
    rng = ctx.rng
    cases = []
    P, OP = E.PAYLOADS[0], E.PAYLOADS[1]
    k0, k1, k2, k3 = PUBHEX[:4]
    # A: one entry, every key spelling x value state x mode x key list
    vs0 = E.value_states(0, P, OP, 1)
    for ks, kf in E.KEY_SPELLINGS.items():
        for vn, v in vs0.items():
            for gpg in (False, True):
                for K in ([k0], [k0, k1], [k1], []):
                    env = {"signatures": {kf(k0): v}, "signed": P}
                    cases.append({"w": wire.case("verify_signable", env, K, 1, gpg), "meta": {"s": "A", "ks": ks, "vs": vn}})
    # B: argument variations around a valid two-signer envelope
    for gpgsigs in (False, True):
        mk = (lambda i, p: E.gpg_sig(i, p)) if gpgsigs else (lambda i, p: E.raw_sig(i, p))
        Ks = [[], [k0], [k0, k1], [k0, k1, k2], [k0, k0], [k0, 5], [k0, k1.upper()], (k0, k1), None, k0, [k1, k0]]
        ts = [0, 1, 2, 3, 2 ** 64, True, False, 1.0, 2.0, -1, "1", None, [1], float("nan"), float("inf"), -float("inf"), 0.5, 1e300]
        gs = [False, True, 0, 1, None, "yes", "", 2, [0]]
        pls = [P, OP, "str", 7, 1.5, None, True, (1, 2), b"bytes", {"k": b"b"}, {1: 2}, {"s": {1, 2}}, Obj(1), {"a": {"b": {"c": [1, [2, [3]]]}}}]
        for K, t in itertools.product(Ks, ts):
            env = {"signatures": {k0: mk(0, P), k1: mk(1, P)}, "signed": P}
            cases.append({"w": wire.case("verify_signable", env, K, t, gpgsigs), "meta": {"s": "B-Kt"}})
        for g in gs:
            env = {"signatures": {k0: mk(0, P), k1: mk(1, P)}, "signed": P}
            cases.append({"w": wire.case("verify_signable", env, [k0, k1], 2, g), "meta": {"s": "B-gpgflag"}})
        for pl in pls:
            try:
                sigs = {k0: mk(0, pl), k1: mk(1, pl)}
            except TypeError:
                sigs = {k0: mk(0, P), k1: mk(1, P)}
            for t in (1, 2, 3):
                cases.append({"w": wire.case("verify_signable", {"signatures": sigs, "signed": pl}, [k0, k1], t, gpgsigs), "meta": {"s": "B-payload"}})
        # malformed envelopes
        good = {"signatures": {k0: mk(0, P)}, "signed": P}
        for env in [None, [], "x", {}, {"signed": P}, {"signatures": {}}, dict(good, extra=1), {"signatures": [], "signed": P},
                    {"signatures": None, "signed": P}, {"signatures": {k0: mk(0, P)}, "signed": b"x"}, {"signed": P, "signatures": {k0: mk(0, P)}}]:
            cases.append({"w": wire.case("verify_signable", env, [k0], 1, gpgsigs), "meta": {"s": "B-envelope"}})
    # D: all ordered triples over a reduced set of entry kinds
    kinds = []
    for i, k in enumerate([k0, k1]):
        vs = E.value_states(i, P, OP, 1 - i)
        for vn in ("raw", "gpg", "raw_other_payload", "raw_misfiled", "gpg_flip_hdr"):
            kinds.append((k, vs[vn], "%d:%s" % (i, vn)))
    vs1 = E.value_states(1, P, OP, 0)
    for vn in ("sig_nl_for_last", "gpg_sig_nl_for_last", "sig_mixed", "gpg_hdr_nl_for_last"):
        kinds.append((k1, vs1[vn], "1:" + vn))     # junk under an AUTHORIZED key: skipped, never fatal
    kinds.append((E.mixcase(k1), vs1["raw"], "1mixed:raw"))
    kinds.append((k0.upper(), vs0["raw"], "0up:raw"))
    kinds.append((k2, E.value_states(2, P, OP, 0)["raw"], "2:raw"))
    kinds.append(("junk\ud800é", 5, "junk"))
    n = 3 if not ctx.quick else 2
    for combo in itertools.product(kinds, repeat=n):
        sigs = {}
        for k, v, _ in combo:
            sigs[k] = v
        env = {"signatures": sigs, "signed": P}
        for gpg in (False, True):
            for t in (1, 2, 3):
                cases.append({"w": wire.case("verify_signable", env, [k0, k1], t, gpg), "meta": {"s": "D", "kinds": [c[2] for c in combo]}})
    # E: alternative spellings of ONE key, in the authorized list and/or in the signature map: never a second signer
    for ks, kf in E.KEY_SPELLINGS.items():
        if ks == "canon":
            continue
        alt = kf(k0)
        for gpg in (False, True):
            mk = (lambda p: E.gpg_sig(0, p)) if gpg else (lambda p: E.raw_sig(0, p))
            try:
                sigs = {k0: mk(P), alt: mk(P)}
            except TypeError:
                continue
            for K in ([k0, alt], [alt, k0], [k0], [alt], [k0, k1, alt]):
                for t in (1, 2):
                    cases.append({"w": wire.case("verify_signable", {"signatures": sigs, "signed": P}, K, t, gpg), "meta": {"s": "E", "ks": ks}})
            # three notations of the same key at once, threshold 2 and 3
            sigs3 = {k0: mk(P), alt: mk(P), " " + k0: mk(P), k0 + " ": mk(P), k0.upper(): mk(P)}
            for t in (2, 3):
                cases.append({"w": wire.case("verify_signable", {"signatures": sigs3, "signed": P}, [k0, k1], t, gpg), "meta": {"s": "E3", "ks": ks}})
    # F: payloads that a lossy or normalising serializer would conflate: a signature over one never counts for the other
    for a, b in E.CONFUSABLE_PAYLOADS:
        for x, y in ((a, b), (b, a)):
            for gpg in (False, True):
                try:
                    sg = E.gpg_sig(0, x) if gpg else E.raw_sig(0, x)
                except (TypeError, ValueError, UnicodeError):
                    continue
                for pl in (y, {"k": y}, [y]):
                    try:
                        sg2 = E.gpg_sig(0, {"k": x} if isinstance(pl, dict) else [x] if isinstance(pl, list) else x) if gpg else \
                            E.raw_sig(0, {"k": x} if isinstance(pl, dict) else [x] if isinstance(pl, list) else x)
                    except (TypeError, ValueError, UnicodeError):
                        continue
                    cases.append({"w": wire.case("verify_signable", {"signatures": {k0: sg2}, "signed": pl}, [k0], 1, gpg), "meta": {"s": "F"}})
    # G: the boundary between payload and hashed header moved, with a header whose own fields would "explain" the other split:
    # an authorized key signed payload 12345 with a header whose octets 2..3 equal its subpacket-length field; the same signature
    # presented for payload 123 with other_headers = "45" + header must not count (the trailer counts the octets actually hashed)
    import hashlib
    from modelrun import ed_sign
    from gen import SEEDS
    for tail in (b"45", b"5", b"2345"):
        full = 12345
        short = int(str(full)[: 5 - len(tail)])
        ln = 48
        H = bytes([4, 0, ln >> 8, ln & 255, ln >> 8, ln & 255]) + rng.randbytes(ln)
        sg = ed_sign(SEEDS[0], hashlib.sha256(E.frame(E.canon(full), H)).digest()).hex()
        for hdr, pl in ((tail + H, short), (H, full), (H, short), (tail + H, full)):
            for t in (1,):
                cases.append({"w": wire.case("verify_signable", {"signatures": {k0: {"other_headers": hdr.hex(), "signature": sg}}, "signed": pl}, [k0], t, True), "meta": {"s": "G"}})
    # C: random larger maps
    nrand = 1500 if ctx.quick else 20000
    allkinds = []
    for i in range(4):
        vs = E.value_states(i, P, OP, (i + 1) % 4)
        for ks, kf in E.KEY_SPELLINGS.items():
            for vn, v in vs.items():
                allkinds.append((kf(PUBHEX[i]), v))
    for _ in range(nrand):
        pl = rng.choice(E.PAYLOADS)
        m = rng.randint(0, 6)
        sigs = {}
        for _ in range(m):
            if rng.random() < 0.55:
                i = rng.randrange(4)
                mode = rng.random() < 0.5
                sigs[PUBHEX[i]] = E.gpg_sig(i, pl) if mode else E.raw_sig(i, pl)
            else:
                k, v = rng.choice(allkinds)
                sigs[k] = v
        items = list(sigs.items())
        rng.shuffle(items)
        K = rng.sample(PUBHEX[:5], rng.randint(0, 4))
        cases.append({"w": wire.case("verify_signable", {"signatures": dict(items), "signed": pl}, K, rng.randint(1, 4), rng.random() < 0.5),
                      "meta": {"s": "C"}})
    return cases


def oracle_sound(c, io):
    fn, env, K, t, gpg = wire.dec(c["w"])
    if not io.startswith("O"):
        return None
    if not E.args_wellformed(env, K, t):
        return "accepted although the arguments are malformed"
    try:
        n = len(E.counting_keys(env, K, E.truthy(gpg)))
    except Exception as e:  # noqa
        return "accepted although the payload has no canonical form (%s)" % type(e).__name__
    if n < t:
        return "accepted with %d distinct authorized valid signer(s), threshold %d" % (n, t)
    return None


def oracle_complete(c, io):
    fn, env, K, t, gpg = wire.dec(c["w"])
    if io.startswith("O"):
        return None
    if not E.args_wellformed(env, K, t):
        return None
    try:
        n = len(E.counting_keys(env, K, E.truthy(gpg)))
    except Exception:
        return None
    if n >= t:
        return "rejected (%s) although %d distinct authorized valid signer(s) >= threshold %d" % (core.impl_class(io), n, t)
    return None


def nontrivial(c, io, mo):
    # reaches the per-entry logic: arguments well formed
    try:
        fn, env, K, t, gpg = wire.dec(c["w"])
        return E.args_wellformed(env, K, t) and len(env["signatures"]) > 0
    except Exception:
        return False


def run(ctx):
    def rel(c, io, mo):
        ia, ma = core.impl_class(io), core.model_class(mo)
        if ia == "accept" and ma != "accept":
            return "implementation accepts, model says %s" % ma
        return None
    cases = build_cases(ctx)
    core.run_stream(ctx, core.Stream("verify_signable: entry kinds x key lists x thresholds x modes x payloads (A,B,D exhaustive; C random)",
                                     cases, rel, oracle_sound, nontrivial))
    sub = [c for c in cases if c["meta"]["s"] in ("A", "D", "E", "E3", "F", "G")]
    core.failing_stdout_streams(ctx, "verify_signable on the entry-kind cases", sub,
                                lambda c: oracle_sound(c, "O") is None)
    ctx.assumptions = ["'cryptographically valid' is the verdict of the ed25519 verification primitive (pyca/OpenSSL in the implementation, the oracle table in the model)",
                       "dict keys pairwise distinct (Python dict invariant) for 'no key counts twice'"]

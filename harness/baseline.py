#!/usr/bin/env python3
"""Run the repository's pinned test suite (command of /root/.vp/BASELINE.json) and
check that every test of its stable_pass list passes.  Exit 0 iff all 64 pass."""
import json, os, subprocess, sys, tempfile, xml.etree.ElementTree as ET

def main():
    base = json.load(open("/root/.vp/BASELINE.json"))
    fd, out = tempfile.mkstemp(suffix=".xml", prefix="cctbase")
    os.close(fd)
    try:
        cmd = base["cmd"].replace("<file>", out)
        env = dict(os.environ)
        env.pop("CCT_VERIF", None)
        p = subprocess.run(cmd, shell=True, capture_output=True, text=True, env=env)
        passed = set()
        for tc in ET.parse(out).getroot().iter("testcase"):
            if not any(ch.tag in ("failure", "error", "skipped") for ch in tc):
                passed.add(tc.get("classname") + "::" + tc.get("name"))
        missing = [t for t in base["stable_pass"] if t not in passed]
        print("baseline: %d/%d stable tests pass" % (len(base["stable_pass"]) - len(missing), len(base["stable_pass"])))
        for m in missing:
            print("  NOT PASSING:", m)
        return 1 if missing else 0
    finally:
        os.unlink(out)
        try:
            subprocess.run("cd /repo && git checkout -- test-report.xml 2>/dev/null", shell=True)
        except Exception:
            pass

if __name__ == "__main__":
    sys.exit(main())

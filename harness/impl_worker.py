"""Implementation worker: runs cases against the real conda_content_trust found on PYTHONPATH.

Usage: python impl_worker.py --in cases.txt --out results.txt [--only-auth]
  cases.txt:   <id>\t<wire case>            (wire case = tuple: function name, arguments)
  results.txt: <id>\t<outcome>\t<mut>       outcome: O<wire value> | E<exception tag>;  mut: 1 if an argument changed
Everything the library prints goes to this process's real stdout (the parent decides where that
goes and with which encoding)."""
import sys, os, io, json, struct, tempfile, shutil, datetime, copy

sys.path.insert(0, os.path.dirname(os.path.abspath(__file__)))
import wire  # noqa: E402


def load_api(only_auth=False):
    api = {}
    if only_auth:
        # import nothing but the authentication module first (D1 class of defects)
        import conda_content_trust.authentication as A
    import conda_content_trust.common as C
    import conda_content_trust.authentication as A
    import conda_content_trust.signing as S
    import conda_content_trust.metadata_construction as M
    for n in dir(C):
        if n.startswith("checkformat_") or n.startswith("is_"):
            api[n] = getattr(C, n)
    api["canonserialize"] = C.canonserialize
    api["json_loads"] = json.loads
    api["verify_signature"] = A.verify_signature
    api["verify_gpg_signature"] = A.verify_gpg_signature
    api["verify_signable"] = A.verify_signable
    api["verify_delegation"] = A.verify_delegation
    api["verify_root"] = A.verify_root
    api["src_verify_root"] = A.verify_root
    api["src_verify_delegation"] = A.verify_delegation      # implementation side of the interpreted body (model side: Harness.v)
    api["wrap_as_signable"] = S.wrap_as_signable
    api["serialize_and_sign"] = S.serialize_and_sign

    def sign_signable(s, k):
        S.sign_signable(s, k)
        return s
    api["sign_signable"] = sign_signable

    def sign_sequence(payload, seeds):
        s = S.wrap_as_signable(payload)
        for sd in seeds:
            S.sign_signable(s, C.PrivateKey.from_bytes(sd))
        return s
    api["sign_sequence"] = sign_sequence

    def sign_edit_sign(payload, seeds1, new_payload, seeds2):
        s = S.wrap_as_signable(payload)
        for sd in seeds1:
            S.sign_signable(s, C.PrivateKey.from_bytes(sd))
        s["signed"] = new_payload
        for sd in seeds2:
            S.sign_signable(s, C.PrivateKey.from_bytes(sd))
        return s
    api["sign_edit_sign"] = sign_edit_sign

    KCLS = {"pub": C.PublicKey, "priv": C.PrivateKey}
    api["key_from_bytes"] = lambda cls, v: KCLS[cls].from_bytes(v)
    api["key_to_bytes"] = lambda cls, k: KCLS[cls].to_bytes(k)
    api["key_to_hex"] = lambda cls, k: KCLS[cls].to_hex(k)
    api["key_from_hex"] = lambda cls, v: KCLS[cls].from_hex(v)
    api["key_is_equivalent_to"] = lambda cls, a, b: KCLS[cls].is_equivalent_to(a, b)
    api["public_key_of"] = lambda k: k.public_key()
    api["sign_raw"] = lambda seed, msg: C.PrivateKey.from_bytes(seed).sign(msg)

    def keyfile_roundtrip(seed):
        d = tempfile.mkdtemp(prefix="cctw")
        old = M.gen_keys
        try:
            priv = C.PrivateKey.from_bytes(seed)
            M.gen_keys = lambda: (priv, priv.public_key())
            # the pair's name may itself look like one of the two file names
            name = os.path.join(d, ("k", "k.pub", "key.pri", "a.b.pub.pri")[seed[0] % 4])
            # the key files may already exist (longer, other content): writing must replace them
            for ext in (".pri", ".pub"):
                with open(name + ext, "wb") as f:
                    f.write(b"previous content, longer than a raw key: " + seed.hex().encode() + b"\n")
            r1, r2 = M.gen_and_write_keys(name)
            raw = (open(name + ".pri", "rb").read(), open(name + ".pub", "rb").read())
            lp, lq = C.keyfiles_to_keys(name)
            return [raw[0], raw[1], lp, lq, C.PrivateKey.is_equivalent_to(r1, lp), C.PublicKey.is_equivalent_to(r2, lq)]
        finally:
            M.gen_keys = old
            shutil.rmtree(d, ignore_errors=True)
    api["keyfile_roundtrip"] = keyfile_roundtrip

    def keyfiles_load(pri, pub):
        d = tempfile.mkdtemp(prefix="cctw")
        try:
            name = os.path.join(d, "k")
            with open(name + ".pri", "wb") as f:
                f.write(pri)
            with open(name + ".pub", "wb") as f:
                f.write(pub)
            lp, lq = C.keyfiles_to_keys(name)
            return [C.PrivateKey.to_bytes(lp), C.PublicKey.to_bytes(lq)]
        finally:
            shutil.rmtree(d, ignore_errors=True)
    api["keyfiles_load"] = keyfiles_load

    def _rs():
        import conda_content_trust.root_signing as RS
        return RS

    def gpg_sign_dict(signable, fpr):
        RS = _rs()
        rec = {}
        oc, oe = RS.gpg_funcs.create_signature, RS.gpg_funcs.export_pubkey

        def c2(data, keyid):
            r = oc(data, keyid)
            rec["created"] = copy.deepcopy(r)
            return r

        def e2(keyid):
            r = oe(keyid)
            rec["q"] = r["keyval"]["public"]["q"]
            return r
        RS.gpg_funcs.create_signature, RS.gpg_funcs.export_pubkey = c2, e2
        try:
            out = RS.sign_root_metadata_dict_via_gpg(signable, fpr)
        finally:
            RS.gpg_funcs.create_signature, RS.gpg_funcs.export_pubkey = oc, oe
        return [out, rec.get("created"), rec.get("q")]
    api["gpg_sign_dict"] = gpg_sign_dict

    def gpg_sign_file(signable, fprs):
        RS = _rs()
        d = tempfile.mkdtemp(prefix="cctw")
        try:
            fn = os.path.join(d, "root.json")
            C.write_metadata_to_file(signable, fn)
            for f in fprs:
                RS.sign_root_metadata_via_gpg(fn, f)
            raw = open(fn, "rb").read()
            val = json.loads(raw)
            if C.canonserialize(val) != raw:
                raise RuntimeError("NONCANONICAL-FILE")
            return val
        finally:
            shutil.rmtree(d, ignore_errors=True)
    api["gpg_sign_file"] = gpg_sign_file

    def gpg_sign_edit_sign(signable, fpr, new_signed):
        """sign through the file API, replace the signed portion in the file, sign again with the same OpenPGP key"""
        RS = _rs()
        d = tempfile.mkdtemp(prefix="cctw")
        try:
            fn = os.path.join(d, "root.json")
            C.write_metadata_to_file(signable, fn)
            RS.sign_root_metadata_via_gpg(fn, fpr)
            cur = C.load_metadata_from_file(fn)
            cur["signed"] = new_signed
            C.write_metadata_to_file(cur, fn)
            RS.sign_root_metadata_via_gpg(fn, fpr)
            return json.loads(open(fn, "rb").read())
        finally:
            shutil.rmtree(d, ignore_errors=True)
    api["gpg_sign_edit_sign"] = gpg_sign_edit_sign
    api["gpg_sign_via"] = lambda data, fpr, inc: _rs().sign_via_gpg(data, fpr, inc)

    def persist_history(init, ops):
        d = tempfile.mkdtemp(prefix="cctw")
        try:
            fn = os.path.join(d, "md.json")
            mem = init
            outs = []
            for op in ops:
                if op[0] == "write":
                    C.write_metadata_to_file(mem, fn)
                elif op[0] == "load":
                    mem = C.load_metadata_from_file(fn)
                elif op[0] == "replace":
                    mem = op[1]
                elif op[0] == "trywrite":
                    try:
                        C.write_metadata_to_file(op[1], fn)
                    except (TypeError, ValueError, RecursionError):
                        pass
                elif op[0] == "prefill":
                    with open(fn, "wb") as f:
                        f.write(op[1])
                elif op[0] == "sign":
                    S.sign_signable(mem, C.PrivateKey.from_bytes(op[1]))
                else:
                    try:
                        if op[0] == "verify":
                            A.verify_signable(mem, op[1], op[2], op[3])
                        elif op[0] == "vroot":
                            A.verify_root(op[1], mem)
                        else:
                            A.verify_delegation(op[1], mem, op[2], op[3])
                        outs.append(True)
                    except (C.CCT_Error, TypeError, ValueError):
                        outs.append(False)
            raw = open(fn, "rb").read() if os.path.exists(fn) else None
            return outs + [raw, C.canonserialize(mem)]
        finally:
            shutil.rmtree(d, ignore_errors=True)
    api["persist_history"] = persist_history

    def wrap_isolation(obj):
        """wrap, then write through every container of the original / of the envelope: the other side must not move"""
        import wire as W

        def containers(v, acc):
            if isinstance(v, dict):
                acc.append(v)
                for x in v.values():
                    containers(x, acc)
            elif isinstance(v, list):
                acc.append(v)
                for x in v:
                    containers(x, acc)
            elif isinstance(v, tuple):          # immutable itself, but may hold mutable containers
                for x in v:
                    containers(x, acc)
            return acc

        def poke(c):
            if isinstance(c, dict):
                c["__poked__"] = 1
                for k in list(c):
                    if k != "__poked__":
                        c[k] = None
                        break
            else:
                c.append("__poked__")
                c[0] = None

        def same_object(a, b):
            """some mutable container reachable from a IS one reachable from b"""
            ids = {id(c) for c in containers(a, [])}
            return any(id(c) in ids for c in containers(b, []))
        bad = []
        e = S.wrap_as_signable(obj)
        if e["signed"] is obj and isinstance(obj, (dict, list)):
            bad.append("the envelope holds the very same object")
        if same_object(e, obj):
            bad.append("the envelope shares a mutable container with the original payload")
        snap = W.enc(e)
        for c in containers(obj, []):
            poke(c)
            if W.enc(e) != snap:
                bad.append("a change to the original payload shows in the envelope")
                break
        obj2 = W.dec(W.enc(obj))
        e2 = S.wrap_as_signable(obj2)
        snap2 = W.enc(obj2)
        for c in containers(e2, []):
            poke(c)
            if W.enc(obj2) != snap2:
                bad.append("a change to the envelope shows in the original payload")
                break
        return bad
    api["wrap_isolation"] = wrap_isolation

    def sign_all_value(r, keyhex):
        d = tempfile.mkdtemp(prefix="cctw")
        try:
            fn = os.path.join(d, "repodata.json")
            # the input file may be laid out more generously than the canonical output (wide indent, trailing blank lines),
            # so the signed document can be SHORTER than the file it replaces
            txt = json.dumps(r)
            lay = len(txt) % 3
            with open(fn, "w") as f:
                f.write(txt if lay == 0 else json.dumps(r, indent=8) + "\n" * 40 if lay == 1 else json.dumps(r, indent="\t") + " " * 300)
            S.sign_all_in_repodata(fn, keyhex)
            with open(fn, "rb") as f:
                raw = f.read()
            val = json.loads(raw)
            if C.canonserialize(val) != raw:
                raise RuntimeError("NONCANONICAL-FILE")
            return val
        finally:
            shutil.rmtree(d, ignore_errors=True)
    api["sign_all_value"] = sign_all_value

    def root_history(t0, offers, persist=False):
        verdicts, t = [], t0
        d = tempfile.mkdtemp(prefix="cctw") if persist else None
        try:
            for u in offers:
                try:
                    A.verify_root(t, u)
                    ok = True
                except (C.CCT_Error, TypeError, ValueError):
                    ok = False
                verdicts.append(ok)
                if ok:
                    t = u
                if persist:
                    fn = os.path.join(d, "trusted.json")
                    C.write_metadata_to_file(t, fn)
                    t = C.load_metadata_from_file(fn)
            return [verdicts, C.canonserialize(t)]
        finally:
            if d:
                shutil.rmtree(d, ignore_errors=True)
    api["root_history"] = root_history

    def root_history_cli(t0, offers):
        """a client driven by the command line: `verify-metadata trusted offer && cp offer trusted`"""
        import contextlib
        import conda_content_trust.cli as CLI
        d = tempfile.mkdtemp(prefix="cctw")
        try:
            tf, of = os.path.join(d, "trusted.json"), os.path.join(d, "offer.json")
            C.write_metadata_to_file(t0, tf)
            verdicts = []
            for u in offers:
                with open(of, "w") as f:
                    json.dump(u, f)
                try:
                    with contextlib.redirect_stdout(io.StringIO()), contextlib.redirect_stderr(io.StringIO()):
                        rc = CLI.cli(["verify-metadata", tf, of])
                    rc = 0 if rc is None else rc        # sys.exit(None) is exit status 0
                except SystemExit as e:
                    rc = 0 if e.code is None else e.code
                except BaseException as e:  # noqa: an uncaught exception ends the process with status 1
                    if isinstance(e, KeyboardInterrupt):
                        raise
                    rc = 1
                verdicts.append(rc == 0)
                if rc == 0:
                    shutil.copyfile(of, tf)
            return [verdicts, C.canonserialize(C.load_metadata_from_file(tf))]
        finally:
            shutil.rmtree(d, ignore_errors=True)
    api["root_history_cli"] = root_history_cli
    api["root_history_persist"] = lambda t0, offers: root_history(t0, offers, True)

    def pub_of_seed(seed, _):
        return C.PublicKey.to_bytes(C.PrivateKey.from_bytes(seed).public_key())
    api["pub_of_seed"] = pub_of_seed
    # the same operations under the names the Gallina RFC 8032 specification is dispatched by (model side: no oracle table)
    # the function of common.py named by the first argument, applied to the second: the implementation side of the interpreted source
    api["src_run"] = lambda name, a: (getattr(C, name, None) or getattr(S, name))(a)
    api["rfc8032_pub"] = lambda seed, _: C.PublicKey.to_bytes(C.PrivateKey.from_bytes(seed).public_key())
    api["rfc8032_sign"] = lambda seed, msg: C.PrivateKey.from_bytes(seed).sign(msg)

    def rfc8032_verify(pk, msg, sg):
        try:
            A.verify_signature(sg.hex(), C.PublicKey.from_bytes(pk), msg)
            return True
        except cryptography.exceptions.InvalidSignature:
            return False
    api["rfc8032_verify"] = rfc8032_verify
    api["sha512"] = lambda m, _: __import__("hashlib").sha512(m).digest()

    EPOCH = datetime.datetime(1, 1, 1)

    class FakeDT(datetime.datetime):
        _reads = []

        @classmethod
        def utcnow(cls):
            return EPOCH + datetime.timedelta(seconds=cls._reads.pop(0), microseconds=123456)

    def with_clock(reads, f, *a):
        old = C.datetime
        FakeDT._reads = list(reads)
        C.datetime = FakeDT
        try:
            return f(*a)
        finally:
            C.datetime = old

    def build_delegating_metadata(n_ts, n_ex, ty, dl, ver, ts, ex):
        reads = ([n_ts] if ts is None else []) + ([n_ex] if ex is None else [])
        # optional arguments that are None are omitted, so that the function's own defaults are exercised
        kw = {k: v for k, v in (("delegations", dl), ("timestamp", ts), ("expiration", ex)) if v is not None}
        md = with_clock(reads, lambda: M.build_delegating_metadata(ty, version=ver, **kw))
        _own_checker(md)
        return md
    api["build_delegating_metadata"] = build_delegating_metadata

    def _own_checker(md):
        """what a builder returns must pass the library's own checker once wrapped (supported types only)"""
        if isinstance(md, dict) and isinstance(md.get("type"), str) and md.get("type") in ("root", "key_mgr"):
            try:
                C.checkformat_delegating_metadata(S.wrap_as_signable(md))
            except (TypeError, ValueError) as e:
                raise RuntimeError("BUILT-METADATA-FAILS-THE-CHECKER: %s" % str(e)[:80])

    def build_root_metadata(n_ex, n_ts, ver, rk, rt, kk, kt, ts, ex):
        reads = ([n_ex] if ex is None else []) + ([n_ts] if ts is None else [])
        kw = {k: v for k, v in (("root_timestamp", ts), ("root_expiration", ex)) if v is not None}
        md = with_clock(reads, lambda: M.build_root_metadata(ver, rk, rt, kk, kt, **kw))
        _own_checker(md)
        return md
    api["build_root_metadata"] = build_root_metadata

    def clock_pair(fn, args):
        """the same call under two wall clocks (years 1990 and 2900, every way the package can read the time): outcome classes"""
        import time as _time
        outs = []
        mods = [C, A, S, M] + [m for n, m in sys.modules.items() if n.startswith("conda_content_trust.") and m is not None]
        for year in (1990, 2900):
            class _FixedDT(datetime.datetime):
                @classmethod
                def now(cls, tz=None):
                    return cls(year, 1, 1, tzinfo=tz)

                @classmethod
                def utcnow(cls):
                    return cls(year, 1, 1)

                @classmethod
                def today(cls):
                    return cls(year, 1, 1)

            class _FixedTime:
                def __getattr__(self, n):
                    return getattr(_time, n)

                @staticmethod
                def time():
                    return (year - 1970) * 31557600.0

                @staticmethod
                def time_ns():
                    return int((year - 1970) * 31557600.0) * 10 ** 9

            class _FixedDTModule:
                datetime = _FixedDT

                def __getattr__(self, n):
                    return getattr(datetime, n)
            saved = []
            for m in mods:
                for attr, val in list(vars(m).items()):
                    if val is datetime.datetime:
                        saved.append((m, attr, val)); setattr(m, attr, _FixedDT)
                    elif val is datetime:
                        saved.append((m, attr, val)); setattr(m, attr, _FixedDTModule())
                    elif val is _time:
                        saved.append((m, attr, val)); setattr(m, attr, _FixedTime())
            try:
                try:
                    api[fn](*copy.deepcopy(args))
                    outs.append("accept")
                except BaseException as e:  # noqa
                    if isinstance(e, KeyboardInterrupt):
                        raise
                    outs.append(classify(e))
            finally:
                for m, attr, val in saved:
                    setattr(m, attr, val)
        return outs
    api["clock_pair"] = clock_pair

    import cryptography.exceptions
    classes = [
        (C.SignatureError, "SignatureError"), (C.MetadataVerificationError, "MetadataVerificationError"),
        (C.UnknownRoleError, "UnknownRoleError"), (C.CCT_Error, "CCT_Error"),
        (cryptography.exceptions.InvalidSignature, "InvalidSignature"),
        (UnicodeEncodeError, "UnicodeEncodeError"), (json.JSONDecodeError, "JSONDecodeError"),
        (struct.error, "StructError"), (KeyError, "KeyError"), (IndexError, "IndexError"),
        (AttributeError, "AttributeError"), (OverflowError, "OverflowError"), (ZeroDivisionError, "ZeroDivisionError"),
        (AssertionError, "AssertionError"), (RecursionError, "RecursionError"), (MemoryError, "MemoryError"),
        (TypeError, "TypeError"), (ValueError, "ValueError"), (ImportError, "ImportError"), (OSError, "OSError"),
    ]

    def classify(e):
        for cls, name in classes:
            if isinstance(e, cls):
                return name
        return type(e).__name__
    return api, classify


MUTATORS = {"sign_signable", "persist_history", "wrap_isolation"}
SCRIBBLE = {"build_delegating_metadata", "build_root_metadata", "wrap_as_signable", "sign_sequence", "sign_edit_sign", "sign_all_value"}


def scribble(v, depth=0):
    """write into every container of a returned value: results must not alias state the library keeps"""
    if depth > 6:
        return
    if isinstance(v, dict):
        for x in list(v.values()):
            scribble(x, depth + 1)
        try:
            v["__scribbled__"] = 0
        except Exception:
            pass
    elif isinstance(v, list):
        for x in v:
            scribble(x, depth + 1)
        v.append("__scribbled__")


class _FailingStdout:
    """a standard output on which every write fails (a closed pipe, a full disk): CCT_STDOUT=oserror|closed"""
    encoding = "utf-8"

    def __init__(self, kind):
        self.kind = kind

    def write(self, s):
        if self.kind == "closed":
            raise ValueError("I/O operation on closed file.")
        raise BrokenPipeError(32, "Broken pipe")

    def flush(self):
        pass


def main():
    args = sys.argv[1:]
    inp = args[args.index("--in") + 1]
    outp = args[args.index("--out") + 1]
    api, classify = load_api("--only-auth" in args)
    if os.environ.get("CCT_STDOUT") in ("oserror", "closed"):
        sys.stdout = _FailingStdout(os.environ["CCT_STDOUT"])
    with open(inp) as fi, open(outp, "w") as fo:
        for line in fi:
            line = line.rstrip("\n")
            if not line:
                continue
            cid, w = line.split("\t", 1)
            try:
                tup = wire.dec(w)
                fn, a = tup[0], list(tup[1:])
            except Exception as e:  # harness fault, not a library outcome
                fo.write("%s\tH%s\t0\n" % (cid, type(e).__name__))
                continue
            before = None if fn in MUTATORS else wire.case(fn, *a)
            try:
                r = api[fn](*a)
                try:
                    out = "O" + wire.enc(r)
                except TypeError:
                    out = "O?"
            except BaseException as e:  # noqa
                if isinstance(e, (KeyboardInterrupt,)):
                    raise
                out = "E" + classify(e)
            mut = 0
            if before is not None:
                try:
                    mut = 0 if wire.case(fn, *a) == before else 1
                except Exception:
                    mut = 1
            fo.write("%s\t%s\t%d\n" % (cid, out, mut))
            if out.startswith("O") and fn in SCRIBBLE:
                scribble(r)
    sys.stdout.flush()


if __name__ == "__main__":
    main()

"""A scratch GNUPGHOME with the repository's two OpenPGP test keys (and optionally a freshly generated ed25519 key)."""
import contextlib
import os
import shutil
import subprocess
import tempfile

HERE = os.path.dirname(os.path.abspath(__file__))
REPO = os.environ.get("CCT_REPO", "/repo")
KEYFILES = ["tests/testdata/test_key_1_268B62D0.pri.asc", "tests/testdata/test_key_2_7DB43643.pri.asc"]


def _gpg(home, args, **kw):
    env = dict(os.environ, GNUPGHOME=home)
    return subprocess.run(["gpg", "--batch", "--no-tty", "--quiet"] + args, env=env, capture_output=True, **kw)


def primary_fingerprints(home):
    out = _gpg(home, ["--list-secret-keys", "--with-colons"], text=True).stdout
    fprs, want = [], False
    for l in out.splitlines():
        f = l.split(":")
        if f[0] == "sec":
            want = True
        elif f[0] == "fpr" and want:
            fprs.append(f[9].lower())
            want = False
    return fprs


@contextlib.contextmanager
def gpg_home(fresh_keys=0):
    home = tempfile.mkdtemp(prefix="cctgnupg")
    os.chmod(home, 0o700)
    try:
        for f in KEYFILES:
            p = _gpg(home, ["--import", os.path.join(REPO, f)])
            if p.returncode != 0:
                raise RuntimeError("gpg --import failed: %s" % p.stderr.decode(errors="replace")[-300:])
        for i in range(fresh_keys):
            _gpg(home, ["--passphrase", "", "--pinentry-mode", "loopback", "--quick-generate-key", "Fresh Key %d <fresh%d@example.invalid>" % (i, i), "ed25519", "sign", "never"])
        env = {"GNUPGHOME": home, "PYTHONPATH": os.path.join(HERE, "fake_sslib") + os.pathsep + REPO}
        yield env, primary_fingerprints(home)
    finally:
        subprocess.run(["gpgconf", "--kill", "all"], env=dict(os.environ, GNUPGHOME=home), capture_output=True)
        shutil.rmtree(home, ignore_errors=True)

(* JsonParse.v: json.loads on str, as CPython 3.12 implements it (C scanner): a character-level lexer
   (whitespace, punctuation, strings with every escape and joining of escaped surrogate pairs, atoms), the
   classification of atoms (true/false/null/NaN/Infinity/-Infinity, NUMBER_RE) and a stack machine over tokens
   (last duplicate key wins, at the position of its first occurrence).  Float tokens are kept as text.
   Also: canonical form of a value (every dict sorted by key).  Definitions only. *)
From CCT Require Import Prelude Hex Json.
From Coq Require Import Decimal DecimalN.
Open Scope N_scope.

Inductive tok := TLBrace | TRBrace | TLBrack | TRBrack | TComma | TColon | TStr (s : ustr) | TAtom (a : ustr).

Definition is_json_ws (c : N) : bool := (c =? 32) || (c =? 9) || (c =? 10) || (c =? 13).
Definition is_digit_c (c : N) : bool := (48 <=? c) && (c <=? 57).
Definition is_alpha_c (c : N) : bool := ((65 <=? c) && (c <=? 90)) || ((97 <=? c) && (c <=? 122)).
Definition is_atom_char (c : N) : bool := is_digit_c c || is_alpha_c c || (c =? 43) || (c =? 45) || (c =? 46).
Definition punct (c : N) : option tok :=
  if c =? 123 then Some TLBrace else if c =? 125 then Some TRBrace
  else if c =? 91 then Some TLBrack else if c =? 93 then Some TRBrack
  else if c =? 44 then Some TComma else if c =? 58 then Some TColon else None.
Definition simple_escape (c : N) : option N :=
  if c =? 34 then Some 34 else if c =? 92 then Some 92 else if c =? 47 then Some 47
  else if c =? 98 then Some 8 else if c =? 102 then Some 12 else if c =? 110 then Some 10
  else if c =? 114 then Some 13 else if c =? 116 then Some 9 else None.
Definition is_high (c : N) : bool := (55296 <=? c) && (c <=? 56319).
Definition is_low (c : N) : bool := (56320 <=? c) && (c <=? 57343).
Definition join_surrogates (h l : N) : N := 65536 + (h - 55296) * 1024 + (l - 56320).

Inductive lst :=
 | LDef
 | LAtom (acc : ustr)                              (* reversed *)
 | LStr (acc : ustr) (hi : bool)                   (* reversed content; hi: the last character is an ESCAPED high surrogate *)
 | LEsc (acc : ustr) (hi : bool)
 | LU (acc : ustr) (hi : bool) (k : nat) (v : N).  (* k hex digits still to read *)

Definition unrev (acc : ustr) : ustr := rev_append acc [].

Fixpoint lex (st : lst) (s : ustr) : option (list tok) :=
  match s with
  | [] => match st with LDef => Some [] | LAtom acc => Some [TAtom (unrev acc)] | _ => None end
  | c :: r =>
      match st with
      | LStr acc hi =>
          if c =? 34 then option_map (cons (TStr (unrev acc))) (lex LDef r)
          else if c =? 92 then lex (LEsc acc hi) r
          else if c <? 32 then None
          else lex (LStr (c :: acc) false) r
      | LEsc acc hi =>
          if c =? 117 then lex (LU acc hi 4 0) r
          else match simple_escape c with Some x => lex (LStr (x :: acc) false) r | None => None end
      | LU acc hi k v =>
          match hexval c with
          | None => None
          | Some d =>
              let v' := 16 * v + d in
              match k with
              | S O =>
                  if hi && is_low v'
                  then match acc with h :: acc' => lex (LStr (join_surrogates h v' :: acc') false) r | [] => None end
                  else lex (LStr (v' :: acc) (is_high v')) r
              | S k' => lex (LU acc hi k' v') r
              | O => None
              end
          end
      | _ =>
          let pending := match st with LAtom acc => acc | _ => [] end in
          let flush (k : list tok) := match st with LAtom acc => TAtom (unrev acc) :: k | _ => k end in
          if is_atom_char c then lex (LAtom (c :: pending)) r
          else if is_json_ws c then option_map flush (lex LDef r)
          else if c =? 34 then option_map flush (lex (LStr [] false) r)
          else match punct c with
               | Some t => option_map (fun k => flush (t :: k)) (lex LDef r)
               | None => None
               end
      end
  end.

(* ---- atoms *)
Fixpoint uint_of_chars (l : ustr) : Decimal.uint :=
  match l with
  | [] => Decimal.Nil
  | c :: r =>
      let u := uint_of_chars r in
      if c =? 48 then Decimal.D0 u else if c =? 49 then Decimal.D1 u else if c =? 50 then Decimal.D2 u
      else if c =? 51 then Decimal.D3 u else if c =? 52 then Decimal.D4 u else if c =? 53 then Decimal.D5 u
      else if c =? 54 then Decimal.D6 u else if c =? 55 then Decimal.D7 u else if c =? 56 then Decimal.D8 u
      else Decimal.D9 u
  end.

Fixpoint span_digits (s : ustr) : ustr * ustr :=
  match s with
  | c :: r => if is_digit_c c then let (d, t) := span_digits r in (c :: d, t) else ([], s)
  | [] => ([], [])
  end.

(* integer part: a single 0, or a non-zero digit followed by digits *)
Definition int_part_ok (d : ustr) : bool :=
  match d with
  | [] => false
  | [c] => is_digit_c c
  | c :: _ => negb (c =? 48)
  end.

(* NUMBER_RE of json.scanner matched against the whole atom: optional minus, integer part, optional fraction
   (dot, one or more digits), optional exponent (e or E, optional sign, one or more digits) *)
Inductive numkind := NumInt (neg : bool) (digits : ustr) | NumFloat | NumBad.
Definition number_kind (a : ustr) : numkind :=
  let (neg, body) := match a with c :: r => if c =? 45 then (true, r) else (false, a) | [] => (false, a) end in
  let (ip, r1) := span_digits body in
  if negb (int_part_ok ip) then NumBad else
  match r1 with
  | [] => NumInt neg ip
  | _ =>
      let (frac_ok, r2) :=
        match r1 with
        | 46 :: r => let (fp, t) := span_digits r in (match fp with [] => false | _ => true end, t)
        | _ => (true, r1)
        end in
      if negb frac_ok then NumBad else
      match r2 with
      | [] => NumFloat
      | c :: r =>
          if (c =? 101) || (c =? 69) then
            let r' := match r with 43 :: t => t | 45 :: t => t | _ => r end in
            let (ed, rest) := span_digits r' in
            match ed, rest with
            | _ :: _, [] => NumFloat
            | _, _ => NumBad
            end
          else NumBad
      end
  end.

Definition atom_value (a : ustr) : option pv :=
  if ustr_eqb a (U"true") then Some (VBool true)
  else if ustr_eqb a (U"false") then Some (VBool false)
  else if ustr_eqb a (U"null") then Some VNone
  else if ustr_eqb a (U"NaN") || ustr_eqb a (U"Infinity") || ustr_eqb a (U"-Infinity") then Some (VFloat a)
  else match number_kind a with
       | NumInt neg d => let n := Z.of_N (N.of_uint (uint_of_chars d)) in Some (VInt (if neg then (- n)%Z else n))
       | NumFloat => Some (VFloat a)
       | NumBad => None
       end.

(* ---- the machine over tokens *)
Inductive frame := FList (acc : list pv) | FDict (acc : list (pv * pv)) (key : option ustr).
Inductive mode := MVal | MValOrClose | MKeyOrClose | MKey | MColon | MAfter | MEnd.
Record mst := { stack : list frame; md : mode; result : option pv }.

Definition deliver (x : pv) (stk : list frame) : option mst :=
  match stk with
  | [] => Some {| stack := []; md := MEnd; result := Some x |}
  | FList acc :: s => Some {| stack := FList (x :: acc) :: s; md := MAfter; result := None |}
  | FDict acc (Some k) :: s => Some {| stack := FDict (dset acc k x) None :: s; md := MAfter; result := None |}
  | FDict _ None :: _ => None
  end.

Definition wants_value (m : mode) : bool := match m with MVal | MValOrClose => true | _ => false end.

Definition step (s : mst) (t : tok) : option mst :=
  match t with
  | TStr x =>
      if wants_value (md s) then deliver (VStr x) (stack s)
      else match md s, stack s with
           | MKeyOrClose, FDict acc None :: r | MKey, FDict acc None :: r =>
               Some {| stack := FDict acc (Some x) :: r; md := MColon; result := None |}
           | _, _ => None
           end
  | TAtom a => if wants_value (md s) then match atom_value a with Some v => deliver v (stack s) | None => None end else None
  | TLBrack => if wants_value (md s) then Some {| stack := FList [] :: stack s; md := MValOrClose; result := None |} else None
  | TLBrace => if wants_value (md s) then Some {| stack := FDict [] None :: stack s; md := MKeyOrClose; result := None |} else None
  | TRBrack =>
      match md s, stack s with
      | MValOrClose, FList [] :: r => deliver (VList []) r
      | MAfter, FList acc :: r => deliver (VList (rev_append acc [])) r
      | _, _ => None
      end
  | TRBrace =>
      match md s, stack s with
      | MKeyOrClose, FDict [] None :: r => deliver (VDict []) r
      | MAfter, FDict acc None :: r => deliver (VDict acc) r
      | _, _ => None
      end
  | TComma =>
      match md s, stack s with
      | MAfter, FList acc :: r => Some {| stack := stack s; md := MVal; result := None |}
      | MAfter, FDict acc None :: r => Some {| stack := stack s; md := MKey; result := None |}
      | _, _ => None
      end
  | TColon =>
      match md s with
      | MColon => Some {| stack := stack s; md := MVal; result := None |}
      | _ => None
      end
  end.

Fixpoint run (s : mst) (ts : list tok) : option mst :=
  match ts with
  | [] => Some s
  | t :: r => match step s t with Some s' => run s' r | None => None end
  end.

Definition init : mst := {| stack := []; md := MVal; result := None |}.

(* json.loads(text) *)
Definition parse (s : ustr) : option pv :=
  match lex LDef s with
  | Some ts => match run init ts with
               | Some f => match md f with MEnd => result f | _ => None end
               | None => None
               end
  | None => None
  end.

(* ---- json.load on a file opened in binary mode: json.loads(bytes) = detect_encoding, decode with 'surrogatepass', parse.
   UTF-8 (with or without a byte-order mark) is modelled; the UTF-16/32 guesses of detect_encoding are Unmodelled. *)
Definition is_cont (c : N) : bool := (128 <=? c) && (c <=? 191).

(* CPython's UTF-8 decoder with the surrogatepass handler: shortest forms only, code points up to 0x10FFFF, and the
   three-byte encodings of D800..DFFF are let through *)
Fixpoint utf8_decode (b : bytes) : option ustr :=
  match b with
  | [] => Some []
  | b0 :: r =>
      if b0 <? 128 then option_map (cons b0) (utf8_decode r)
      else if (194 <=? b0) && (b0 <=? 223) then
        match r with
        | b1 :: r' => if is_cont b1 then option_map (cons ((b0 - 192) * 64 + (b1 - 128))) (utf8_decode r') else None
        | _ => None
        end
      else if (224 <=? b0) && (b0 <=? 239) then
        match r with
        | b1 :: b2 :: r' =>
            if is_cont b1 && is_cont b2 && (negb (b0 =? 224) || (160 <=? b1))
            then option_map (cons (((b0 - 224) * 64 + (b1 - 128)) * 64 + (b2 - 128))) (utf8_decode r') else None
        | _ => None
        end
      else if (240 <=? b0) && (b0 <=? 244) then
        match r with
        | b1 :: b2 :: b3 :: r' =>
            if is_cont b1 && is_cont b2 && is_cont b3 && (negb (b0 =? 240) || (144 <=? b1)) && (negb (b0 =? 244) || (b1 <=? 143))
            then option_map (cons ((((b0 - 240) * 64 + (b1 - 128)) * 64 + (b2 - 128)) * 64 + (b3 - 128))) (utf8_decode r') else None
        | _ => None
        end
      else None
  end.

(* json.detect_encoding: does it answer utf-8 / utf-8-sig? (byte-order marks of UTF-16/32, NUL in the first bytes: other guesses) *)
Definition guessed_utf8 (b : bytes) : bool :=
  match b with
  | 255 :: 254 :: _ | 254 :: 255 :: _ => false
  | [b0; b1] => negb (b0 =? 0) && negb (b1 =? 0)
  | b0 :: b1 :: _ :: _ :: _ => negb (b0 =? 0) && negb (b1 =? 0)
  | _ => true
  end.

Definition strip_bom (b : bytes) : bytes := match b with 239 :: 187 :: 191 :: r => r | _ => b end.

Definition load_file (b : bytes) : res pv :=
  if negb (guessed_utf8 b) then Unmodelled else
  match utf8_decode (strip_bom b) with
  | None => Err ValueError                       (* UnicodeDecodeError *)
  | Some s => match parse s with Some v => Ok v | None => Err JSONDecodeError end
  end.

Definition load_bytes (b : bytes) : option pv := match load_file b with Ok v => Some v | _ => None end.

(* ---- canonical form: tuples become lists, every dict is sorted by key *)
Fixpoint canon (v : pv) : pv :=
  match v with
  | VList l | VTuple l => VList (map canon l)
  | VDict m =>
      VDict (map (fun kv => (VStr (fst kv), snd kv))
                 (sort_kv ((fix go (m : list (pv * pv)) : list (ustr * pv) :=
                              match m with [] => [] | (k, x) :: r => (key_text k, canon x) :: go r end) m)))
  | _ => v
  end.

(* Heap.v: object identity for the copy made by wrap_as_signable (C12).  A Python object graph (tree-shaped, as
   produced by a JSON parser) is a tree whose containers carry their identity (a location); a store through a
   location replaces the content of every node with that identity.  Definitions only. *)
From CCT Require Import Prelude.
Open Scope N_scope.

Inductive hv :=
 | HAtom (v : pv)                                   (* immutable: None, bool, int, float, str *)
 | HList (l : N) (items : list hv)
 | HDict (l : N) (items : list (pv * hv)).

(* the value an object graph denotes *)
Fixpoint erase (t : hv) : pv :=
  match t with
  | HAtom v => v
  | HList _ items => VList (map erase items)
  | HDict _ items => VDict (map (fun kv => (fst kv, erase (snd kv))) items)
  end.

(* identities of all containers reachable from t *)
Fixpoint locs (t : hv) : list N :=
  match t with
  | HAtom _ => []
  | HList l items => l :: flat_map locs items
  | HDict l items => l :: flat_map (fun kv => locs (snd kv)) items
  end.

(* a store through location a: the container with that identity gets new content (append / item assignment /
   pop / clear ... are all of this form) *)
Inductive content := CList (items : list hv) | CDict (items : list (pv * hv)).
Fixpoint store (a : N) (c : content) (t : hv) : hv :=
  match t with
  | HAtom v => HAtom v
  | HList l items =>
      if l =? a then match c with CList new => HList l new | CDict _ => HList l items end
      else HList l (map (store a c) items)
  | HDict l items =>
      if l =? a then match c with CDict new => HDict l new | CList _ => HDict l items end
      else HDict l (map (fun kv => (fst kv, store a c (snd kv))) items)
  end.

(* copy.deepcopy: every container is re-created with a fresh identity (next, next+1, ...); returns the copy and the
   next unused identity *)
Fixpoint deepcopy (next : N) (t : hv) : hv * N :=
  match t with
  | HAtom v => (HAtom v, next)
  | HList _ items =>
      let '(items', n') :=
        (fix go (items : list hv) (n : N) : list hv * N :=
           match items with
           | [] => ([], n)
           | x :: r => let '(x', n1) := deepcopy n x in let '(r', n2) := go r n1 in (x' :: r', n2)
           end) items (next + 1) in
      (HList next items', n')
  | HDict _ items =>
      let '(items', n') :=
        (fix go (items : list (pv * hv)) (n : N) : list (pv * hv) * N :=
           match items with
           | [] => ([], n)
           | (k, x) :: r => let '(x', n1) := deepcopy n x in let '(r', n2) := go r n1 in ((k, x') :: r', n2)
           end) items (next + 1) in
      (HDict next items', n')
  end.

(* copy.copy: a new top-level container sharing its children *)
Definition shallowcopy (next : N) (t : hv) : hv :=
  match t with
  | HAtom v => HAtom v
  | HList _ items => HList next items
  | HDict _ items => HDict next items
  end.

(* wrap_as_signable(obj) (signing.py:61-91): a new dict holding a new empty dict and a DEEP copy of obj *)
Definition wrap (next : N) (obj : hv) : hv :=
  HDict next [(VStr (U"signatures"), HDict (next + 1) []); (VStr (U"signed"), fst (deepcopy (next + 2) obj))].

(* Num.v: the numeric tower as far as the library uses it:
   int(x), x >= 1, x < 1, x <= 0, == between numbers, float tokens. *)
From CCT Require Import Prelude.
Open Scope Z_scope.

(* numeric view of a float, computed from its JSON token by exact decimal arithmetic.
   Exact for NaN / +-Infinity and every finite float whose repr is its exact value or
   determines floor and integrality (all |x| < 10^16); see DESIGN 4.1. *)
Inductive fview :=
 | FNan | FInf (neg : bool)
 | FInt (z : Z)            (* integral, value z (-0.0 is FInt 0) *)
 | FFrac (fl : Z)          (* not integral, floor fl *)
 | FBad.                   (* token not of the grammar *)

Definition is_digit (c : N) : bool := ((48 <=? c) && (c <=? 57))%N.
Fixpoint take_digits (s : ustr) : ustr * ustr :=
  match s with
  | c :: r => if is_digit c then let (d, t) := take_digits r in (c :: d, t) else ([], s)
  | [] => ([], [])
  end.
Fixpoint digits_val (acc : Z) (s : ustr) : Z :=
  match s with [] => acc | c :: r => digits_val (10 * acc + Z.of_N (c - 48)) r end.

Definition float_view (tok : ustr) : fview :=
  let (neg, body) := match tok with 45%N :: r => (true, r) | _ => (false, tok) end in
  if ustr_eqb body (U"Infinity") then FInf neg
  else if ustr_eqb tok (U"NaN") then FNan
  else
    let (ip, r1) := take_digits body in
    match ip with
    | [] => FBad
    | _ =>
      let (fp, r2) := match r1 with 46%N :: r => take_digits r | _ => ([], r1) end in
      let oexp : option Z :=
        match r2 with
        | [] => Some 0
        | c :: r => if ((c =? 101) || (c =? 69))%N then
                      let (eneg, r') := match r with 45%N :: t => (true, t) | 43%N :: t => (false, t) | _ => (false, r) end in
                      let (ed, rest) := take_digits r' in
                      match ed, rest with
                      | _ :: _, [] => Some (if eneg then - digits_val 0 ed else digits_val 0 ed)
                      | _, _ => None
                      end
                    else None
        end in
      match oexp with
      | None => FBad
      | Some ex =>
        let m := digits_val 0 (ip ++ fp) in
        let k := ex - Z.of_nat (length fp) in
        if 0 <=? k then FInt (if neg then - (m * 10 ^ k) else m * 10 ^ k)
        else
          let p := 10 ^ (- k) in
          if m mod p =? 0 then FInt (if neg then - (m / p) else m / p)
          else FFrac (if neg then - (m / p) - 1 else m / p)
      end
    end.

(* comparison of a Python value with an int constant c:  cmp_int v c = Some (Lt/Eq/Gt) for numbers
   (NaN: None-like, all comparisons false), Err TypeError otherwise *)
Inductive ncmp := NLt | NEq | NGt | NUnord.
Definition cmp_Z (a b : Z) : ncmp := match a ?= b with Lt => NLt | Eq => NEq | Gt => NGt end.

Definition num_cmp_int (v : pv) (c : Z) : res ncmp :=
  match v with
  | VInt z => Ok (cmp_Z z c)
  | VBool b => Ok (cmp_Z (if b then 1 else 0) c)
  | VFloat t =>
      match float_view t with
      | FNan => Ok NUnord
      | FInf neg => Ok (if neg then NLt else NGt)
      | FInt z => Ok (cmp_Z z c)
      | FFrac fl => Ok (if fl <? c then NLt else NGt)
      | FBad => Unmodelled
      end
  | _ => Err TypeError
  end.

Definition py_ge_int (v : pv) (c : Z) : res bool :=
  r <- num_cmp_int v c ;; Ok (match r with NEq | NGt => true | _ => false end).
Definition py_lt_int (v : pv) (c : Z) : res bool :=
  r <- num_cmp_int v c ;; Ok (match r with NLt => true | _ => false end).
Definition py_le_int (v : pv) (c : Z) : res bool :=
  r <- num_cmp_int v c ;; Ok (match r with NLt | NEq => true | _ => false end).

(* int(x), as far as its result class matters:
   IntOk z; IntNe = returns an int that certainly differs from x, or raises ValueError
   (both end in ValueError in checkformat_natural_int); exceptions otherwise *)
Inductive intres := IntIs (z : Z) (same : bool).   (* int(x) = z ; same = (int(x) == x) *)

Definition py_int (v : pv) : res intres :=
  match v with
  | VInt z => Ok (IntIs z true)
  | VBool b => Ok (IntIs (if b then 1 else 0) true)
  | VFloat t =>
      match float_view t with
      | FNan => Err ValueError
      | FInf _ => Err OverflowError
      | FInt z => Ok (IntIs z true)
      | FFrac fl => Ok (IntIs (if fl <? 0 then fl + 1 else fl) false)
      | FBad => Unmodelled
      end
  | VStr _ | VBytes _ | VBytearray _ => Err ValueError  (* either not a literal, or an int that is != the text *)
  | _ => Err TypeError
  end.

(* the integer value of a value accepted by checkformat_natural_int *)
Definition int_value (v : pv) : option Z :=
  match v with
  | VInt z => Some z
  | VBool b => Some (if b then 1 else 0)
  | VFloat t => match float_view t with FInt z => Some z | _ => None end
  | _ => None
  end.

(* Python == between a value and an int *)
Definition py_eq_int (v : pv) (c : Z) : bool :=
  match num_cmp_int v c with Ok NEq => true | _ => false end.

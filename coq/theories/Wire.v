(* Wire.v: ASCII wire format between the Python harness and the model (decoder and encoder).
   Part of the correspondence harness, not of the model of the library. *)
From CCT Require Import Prelude Hex.
Open Scope N_scope.

(* string body: printable ASCII except double quote and backslash literally, otherwise backslash + 6 hex digits *)
Fixpoint dec_str (fuel : nat) (s : list N) (acc : list N) : option (list N * list N) :=
  match fuel with
  | O => None
  | S f =>
      match s with
      | 34 :: r => Some (rev_append acc [], r)
      | 92 :: a :: b :: c :: d :: e :: g :: r =>
          match hexval a, hexval b, hexval c, hexval d, hexval e, hexval g with
          | Some a, Some b, Some c, Some d, Some e, Some g =>
              dec_str f r ((((((a * 16 + b) * 16 + c) * 16 + d) * 16 + e) * 16 + g) :: acc)
          | _, _, _, _, _, _ => None
          end
      | c :: r => if (32 <=? c) && (c <=? 126) && negb (c =? 92) then dec_str f r (c :: acc) else None
      | [] => None
      end
  end.

Definition dec_quoted (s : list N) : option (list N * list N) :=
  match s with 34 :: r => dec_str (S (length r)) r [] | _ => None end.

Fixpoint dec_digits (s : list N) (acc : Z) (any : bool) : option (Z * list N) :=
  match s with
  | 59 :: r => if any then Some (acc, r) else None
  | c :: r => if (48 <=? c) && (c <=? 57) then dec_digits r (10 * acc + Z.of_N (c - 48))%Z true else None
  | [] => None
  end.
Definition dec_int (s : list N) : option (Z * list N) :=
  match s with
  | 45 :: r => match dec_digits r 0%Z false with Some (z, r') => Some ((- z)%Z, r') | None => None end
  | _ => dec_digits s 0%Z false
  end.

Fixpoint pair_up (l : list pv) : option (list (pv * pv)) :=
  match l with
  | [] => Some []
  | k :: v :: r => option_map (cons (k, v)) (pair_up r)
  | _ => None
  end.

Fixpoint dec (fuel : nat) (s : list N) : option (pv * list N) :=
  match fuel with
  | O => None
  | S f =>
      match s with
      | 110 :: r => Some (VNone, r)
      | 116 :: r => Some (VBool true, r)
      | 102 :: r => Some (VBool false, r)
      | 105 :: r => match dec_int r with Some (z, r') => Some (VInt z, r') | None => None end
      | 100 :: r => match dec_quoted r with Some (t, r') => Some (VFloat t, r') | None => None end
      | 115 :: r => match dec_quoted r with Some (t, r') => Some (VStr t, r') | None => None end
      | 98 :: r => match dec_quoted r with Some (t, r') => Some (VBytes t, r') | None => None end
      | 97 :: r => match dec_quoted r with Some (t, r') => Some (VBytearray t, r') | None => None end
      | 107 :: r => match dec_quoted r with Some (t, r') => Some (VPub t, r') | None => None end
      | 112 :: r => match dec_quoted r with Some (t, r') => Some (VPriv t, r') | None => None end
      | 111 :: r => match dec_int r with Some (z, r') => Some (VObj (Z.to_N z), r') | None => None end
      | 68 :: r =>
          match dec_int r with
          | Some (a, r1) => match dec_int r1 with
              | Some (b, r2) => match dec_int r2 with
                  | Some (c, r3) => Some (VDelta a b c, r3)
                  | None => None end
              | None => None end
          | None => None
          end
      | 108 :: r => match dec_seq f r with Some (l, r') => Some (VList l, r') | None => None end
      | 117 :: r => match dec_seq f r with Some (l, r') => Some (VTuple l, r') | None => None end
      | 101 :: r => match dec_seq f r with Some (l, r') => Some (VSet l, r') | None => None end
      | 109 :: r => match dec_seq f r with
                    | Some (l, r') => match pair_up l with Some m => Some (VDict m, r') | None => None end
                    | None => None
                    end
      | _ => None
      end
  end
with dec_seq (fuel : nat) (s : list N) : option (list pv * list N) :=
  match fuel with
  | O => None
  | S f =>
      match s with
      | 59 :: r => Some ([], r)
      | _ => match dec f s with
             | Some (v, r) => match dec_seq f r with Some (l, r') => Some (v :: l, r') | None => None end
             | None => None
             end
      end
  end.

Definition decode (s : list N) : option pv :=
  match dec (S (length s)) s with Some (v, []) => Some v | _ => None end.

(* ---- encoder *)
Definition hex6 (c : N) : list N :=
  [hexdigit (c / 1048576 mod 16); hexdigit (c / 65536 mod 16); hexdigit (c / 4096 mod 16);
   hexdigit (c / 256 mod 16); hexdigit (c / 16 mod 16); hexdigit (c mod 16)].
Definition enc_char (c : N) : list N :=
  if (32 <=? c) && (c <=? 126) && negb (c =? 92) && negb (c =? 34) then [c] else 92 :: hex6 c.
Definition enc_quoted (s : list N) : list N := 34 :: flat_map enc_char s ++ [34].

Fixpoint pos_digits (fuel : nat) (n : N) (acc : list N) : list N :=
  match fuel with
  | O => acc
  | S f => if n <? 10 then (48 + n) :: acc else pos_digits f (n / 10) ((48 + n mod 10) :: acc)
  end.
Definition enc_nat_N (n : N) : list N := pos_digits (S (N.to_nat (N.log2 n))) n [].
Definition enc_int (z : Z) : list N :=
  match z with
  | Z0 => [48; 59]
  | Zpos p => enc_nat_N (Npos p) ++ [59]
  | Zneg p => 45 :: enc_nat_N (Npos p) ++ [59]
  end.

Fixpoint enc (v : pv) : list N :=
  match v with
  | VNone => [110] | VBool true => [116] | VBool false => [102]
  | VInt z => 105 :: enc_int z
  | VFloat t => 100 :: enc_quoted t
  | VStr t => 115 :: enc_quoted t
  | VBytes t => 98 :: enc_quoted t
  | VBytearray t => 97 :: enc_quoted t
  | VPub t => 107 :: enc_quoted t
  | VPriv t => 112 :: enc_quoted t
  | VObj n => 111 :: enc_int (Z.of_N n)
  | VDelta a b c => 68 :: enc_int a ++ enc_int b ++ enc_int c
  | VList l => 108 :: (fix go (l : list pv) := match l with [] => [59] | x :: r => enc x ++ go r end) l
  | VTuple l => 117 :: (fix go (l : list pv) := match l with [] => [59] | x :: r => enc x ++ go r end) l
  | VSet l => 101 :: (fix go (l : list pv) := match l with [] => [59] | x :: r => enc x ++ go r end) l
  | VDict m => 109 :: (fix go (m : list (pv * pv)) :=
                         match m with [] => [59] | (k, x) :: r => enc k ++ enc x ++ go r end) m
  end.

Definition exn_name (e : exn) : list N :=
  match e with
  | TypeError => U"TypeError" | ValueError => U"ValueError" | KeyError => U"KeyError"
  | AttributeError => U"AttributeError" | OverflowError => U"OverflowError"
  | AssertionError => U"AssertionError" | UnicodeEncodeError => U"UnicodeEncodeError"
  | InvalidSignature => U"InvalidSignature" | StructError => U"StructError"
  | SignatureError => U"SignatureError" | MetadataVerificationError => U"MetadataVerificationError"
  | UnknownRoleError => U"UnknownRoleError" | ImportErr => U"ImportError" | OSErr => U"OSError"
  | JSONDecodeError => U"JSONDecodeError" | SystemExitE => U"SystemExit"
  end.

Definition enc_res (r : res pv) : list N :=
  match r with
  | Ok v => 79 :: enc v                   (* O<value> *)
  | Err e => 69 :: exn_name e             (* E<name> *)
  | Unmodelled => [85]                    (* U *)
  end.

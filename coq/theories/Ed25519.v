(* Ed25519.v: executable Ed25519 (RFC 8032, section 5.1 "pure" variant) with SHA-512 (FIPS 180-4) in Gallina.
   A transcription of the RFC's reference code (section 6): secret expansion, public key, signing, verification.
   Checked inside Coq against the test vectors of RFC 8032 section 7.1 (props/C19.v) and, extracted, against the library's
   backend on random seeds and messages on every run.  Not constant time; a specification, not an implementation to deploy. *)
From CCT Require Import Prelude.
Open Scope N_scope.

(* ---- SHA-512 *)
Definition w64 : N := 18446744073709551616.
Definition add64 (a b : N) : N := (a + b) mod w64.
Definition rotr64 (x n : N) : N := N.lor (N.shiftr x n) (N.shiftl x (64 - n) mod w64).
Definition not64 (x : N) : N := w64 - 1 - x.
Definition ch64 (x y z : N) : N := N.lxor (N.land x y) (N.land (not64 x) z).
Definition maj64 (x y z : N) : N := N.lxor (N.lxor (N.land x y) (N.land x z)) (N.land y z).
Definition bsig0_512 x := N.lxor (N.lxor (rotr64 x 28) (rotr64 x 34)) (rotr64 x 39).
Definition bsig1_512 x := N.lxor (N.lxor (rotr64 x 14) (rotr64 x 18)) (rotr64 x 41).
Definition ssig0_512 x := N.lxor (N.lxor (rotr64 x 1) (rotr64 x 8)) (N.shiftr x 7).
Definition ssig1_512 x := N.lxor (N.lxor (rotr64 x 19) (rotr64 x 61)) (N.shiftr x 6).

Definition K512 : list N :=
 [4794697086780616226; 8158064640168781261; 13096744586834688815; 16840607885511220156;
  4131703408338449720; 6480981068601479193; 10538285296894168987; 12329834152419229976;
  15566598209576043074; 1334009975649890238; 2608012711638119052; 6128411473006802146;
  8268148722764581231; 9286055187155687089; 11230858885718282805; 13951009754708518548;
  16472876342353939154; 17275323862435702243; 1135362057144423861; 2597628984639134821;
  3308224258029322869; 5365058923640841347; 6679025012923562964; 8573033837759648693;
  10970295158949994411; 12119686244451234320; 12683024718118986047; 13788192230050041572;
  14330467153632333762; 15395433587784984357; 489312712824947311; 1452737877330783856;
  2861767655752347644; 3322285676063803686; 5560940570517711597; 5996557281743188959;
  7280758554555802590; 8532644243296465576; 9350256976987008742; 10552545826968843579;
  11727347734174303076; 12113106623233404929; 14000437183269869457; 14369950271660146224;
  15101387698204529176; 15463397548674623760; 17586052441742319658; 1182934255886127544;
  1847814050463011016; 2177327727835720531; 2830643537854262169; 3796741975233480872;
  4115178125766777443; 5681478168544905931; 6601373596472566643; 7507060721942968483;
  8399075790359081724; 8693463985226723168; 9568029438360202098; 10144078919501101548;
  10430055236837252648; 11840083180663258601; 13761210420658862357; 14299343276471374635;
  14566680578165727644; 15097957966210449927; 16922976911328602910; 17689382322260857208;
  500013540394364858; 748580250866718886; 1242879168328830382; 1977374033974150939;
  2944078676154940804; 3659926193048069267; 4368137639120453308; 4836135668995329356;
  5532061633213252278; 6448918945643986474; 6902733635092675308; 7801388544844847127].
Definition H0_512 : list N :=
 [7640891576956012808; 13503953896175478587; 4354685564936845355; 11912009170470909681;
  5840696475078001361; 11170449401992604703; 2270897969802886507; 6620516959819538809].

Fixpoint be_bytes64 (k : nat) (n : N) : bytes :=
  match k with O => [] | S k' => be_bytes64 k' (n / 256) ++ [n mod 256] end.

Definition pad512 (msg : bytes) : bytes :=
  let l := N.of_nat (length msg) in
  let zeros := N.to_nat ((239 - l mod 128) mod 128) in
  msg ++ [128] ++ repeat 0 zeros ++ be_bytes64 16 (8 * l).

Fixpoint words64 (fuel : nat) (b : bytes) : list N :=
  match fuel with
  | O => []
  | S f => match b with
           | b0 :: b1 :: b2 :: b3 :: b4 :: b5 :: b6 :: b7 :: r =>
               (((((((b0 * 256 + b1) * 256 + b2) * 256 + b3) * 256 + b4) * 256 + b5) * 256 + b6) * 256 + b7) :: words64 f r
           | _ => []
           end
  end.

Definition next_w512 (rev : list N) : N :=
  add64 (add64 (ssig1_512 (nth 1 rev 0)) (nth 6 rev 0)) (add64 (ssig0_512 (nth 14 rev 0)) (nth 15 rev 0)).
Fixpoint extend512 (n : nat) (rev : list N) : list N :=
  match n with O => rev | S n' => extend512 n' (next_w512 rev :: rev) end.

Definition round512 (st : list N) (kw : N * N) : list N :=
  match st with
  | [a; b; c; d; e; f; g; h] =>
      let t1 := add64 (add64 (add64 h (bsig1_512 e)) (add64 (ch64 e f g) (fst kw))) (snd kw) in
      let t2 := add64 (bsig0_512 a) (maj64 a b c) in
      [add64 t1 t2; a; b; c; add64 d t1; e; f; g]
  | _ => st
  end.

Definition compress512 (h : list N) (block : list N) : list N :=
  let w := rev (extend512 64 (rev block)) in
  let st := fold_left round512 (combine K512 w) h in
  map (fun p => add64 (fst p) (snd p)) (combine h st).

Fixpoint blocks512 (fuel : nat) (ws : list N) (h : list N) : list N :=
  match fuel with
  | O => h
  | S f => match ws with
           | [] => h
           | _ => blocks512 f (skipn 16 ws) (compress512 h (firstn 16 ws))
           end
  end.

Definition sha512 (msg : bytes) : bytes :=
  let p := pad512 msg in
  let ws := words64 (length p) p in
  flat_map (be_bytes64 8) (blocks512 (length ws) ws H0_512).

(* ---- the field and the curve (RFC 8032 section 5.1) *)
Open Scope Z_scope.
Definition fp : Z := 2 ^ 255 - 19.
Definition fq : Z := 2 ^ 252 + 27742317777372353535851937790883648493.

(* arithmetic modulo p = 2^255 - 19 on canonical representatives 0 <= x < p; the reduction uses 2^255 = 19 (mod p)
   (fred_spec in proofs/Ed25519Facts.v: fred x = x mod p for 0 <= x < 2^510) *)
Definition m255 : Z := 2 ^ 255 - 1.
Definition fred1 (x : Z) : Z := Z.land x m255 + 19 * Z.shiftr x 255.
Definition fred (x : Z) : Z := let y := fred1 (fred1 x) in if fp <=? y then y - fp else y.
Definition fmul (a b : Z) : Z := fred (a * b).
Definition fadd (a b : Z) : Z := let s := a + b in if fp <=? s then s - fp else s.
Definition fsub (a b : Z) : Z := if b <=? a then a - b else a + fp - b.

Fixpoint powp (b : Z) (e : positive) : Z :=
  match e with
  | xH => b
  | xO e' => let t := powp b e' in fmul t t
  | xI e' => let t := powp b e' in fmul (fmul t t) b
  end.
Definition pow_fp (b e : Z) : Z := match e with Zpos e' => powp (b mod fp) e' | _ => 1 end.
Definition inv_fp (x : Z) : Z := pow_fp x (fp - 2).

(* the curve constant d = -121665/121666 and a square root of -1, as literals (so that nothing is computed when the extracted program
   starts); their defining equations are checked in proofs/Ed25519Facts.v (constants_defined) *)
Definition cd : Z := 37095705934669439343138083508754565189542113879843219016388785533085940283555.
Definition sqrt_m1 : Z := 19681161376707505956807079304988542015446066515923890162744021073123829784752.

Definition point := (Z * Z * Z * Z)%type.      (* extended homogeneous coordinates (X, Y, Z, T), each canonical *)

(* RFC 8032 section 5.1.4 / the reference code's point_add *)
Definition point_add (P Q : point) : point :=
  let '(x1, y1, z1, t1) := P in let '(x2, y2, z2, t2) := Q in
  let A := fmul (fsub y1 x1) (fsub y2 x2) in
  let B := fmul (fadd y1 x1) (fadd y2 x2) in
  let C := fmul (fmul (fadd t1 t1) t2) cd in
  let D := fmul (fadd z1 z1) z2 in
  let E := fsub B A in let F := fsub D C in let G := fadd D C in let H := fadd B A in
  (fmul E F, fmul G H, fmul F G, fmul E H).

Definition neutral : point := (0, 1, 1, 0).

(* double-and-add, most significant bit first *)
Fixpoint pmul (s : positive) (P : point) : point :=
  match s with
  | xH => P
  | xO s' => let Q := pmul s' P in point_add Q Q
  | xI s' => let Q := pmul s' P in point_add (point_add Q Q) P
  end.
Definition point_mul (s : Z) (P : point) : point := match s with Zpos s' => pmul s' P | _ => neutral end.

Definition point_equal (P Q : point) : bool :=
  let '(x1, y1, z1, _) := P in let '(x2, y2, z2, _) := Q in
  (fmul x1 z2 =? fmul x2 z1) && (fmul y1 z2 =? fmul y2 z1).

Definition recover_x (y : Z) (sign : bool) : option Z :=
  if fp <=? y then None else
  let y2 := fmul y y in
  let x2 := fmul (fsub y2 1) (inv_fp (fadd (fmul cd y2) 1)) in
  if x2 =? 0 then (if sign then None else Some 0) else
  let x := pow_fp x2 ((fp + 3) / 8) in
  let x := if fmul x x =? x2 then x else fmul x sqrt_m1 in
  if negb (fmul x x =? x2) then None else
  Some (if Bool.eqb (Z.odd x) sign then x else fp - x).

(* the base point: y = 4/5, x the even root (literals; checked in constants_defined) *)
Definition g_y : Z := 46316835694926478169428394003475163141307993866256225615783033603165251855960.
Definition g_x : Z := 15112221349535400772501151409588531511454012693041857206046113283949847762202.
Definition base : point := (g_x, g_y, 1, 46827403850823179245072216630277197565144205554125654976674165829533817101731).

(* ---- encodings: little endian *)
Fixpoint le_bytes (k : nat) (n : Z) : bytes :=
  match k with O => [] | S k' => Z.to_N (n mod 256) :: le_bytes k' (n / 256) end.
Fixpoint le_num (b : bytes) : Z :=
  match b with [] => 0 | x :: r => Z.of_N x + 256 * le_num r end.

Definition point_compress (P : point) : bytes :=
  let '(x, y, z, _) := P in
  let zi := inv_fp z in
  let x := fmul x zi in let y := fmul y zi in
  le_bytes 32 (y + (if Z.odd x then 2 ^ 255 else 0)).

Definition point_decompress (b : bytes) : option point :=
  if negb (Nat.eqb (length b) 32) then None else
  let n := le_num b in
  let sign := Z.testbit n 255 in
  let y := n mod 2 ^ 255 in
  match recover_x y sign with
  | Some x => Some (x, y, 1, fmul x y)
  | None => None
  end.

(* ---- keys, signing, verification (RFC 8032 5.1.5 - 5.1.7) *)
Definition secret_expand (seed : bytes) : Z * bytes :=
  let h := sha512 seed in
  let a := le_num (firstn 32 h) in
  let a := Z.land a (2 ^ 254 - 8) in
  (Z.lor a (2 ^ 254), skipn 32 h).

Definition public_key (seed : bytes) : bytes :=
  point_compress (point_mul (fst (secret_expand seed)) base).

Definition sha512_modq (b : bytes) : Z := le_num (sha512 b) mod fq.

Definition sign (seed msg : bytes) : bytes :=
  let (a, prefix) := secret_expand seed in
  let A := point_compress (point_mul a base) in
  let r := sha512_modq (prefix ++ msg) in
  let Rs := point_compress (point_mul r base) in
  let h := sha512_modq (Rs ++ A ++ msg) in
  Rs ++ le_bytes 32 ((r + h * a) mod fq).

Definition verify (pub msg sig : bytes) : bool :=
  if negb (Nat.eqb (length pub) 32) || negb (Nat.eqb (length sig) 64) then false else
  match point_decompress pub, point_decompress (firstn 32 sig) with
  | Some A, Some R =>
      let s := le_num (skipn 32 sig) in
      if fq <=? s then false else
      let h := sha512_modq (firstn 32 sig ++ pub ++ msg) in
      point_equal (point_mul s base) (point_add R (point_mul h A))
  | _, _ => false
  end.

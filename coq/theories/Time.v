(* Time.v: datetime.strptime(s, "%Y-%m-%dT%H:%M:%SZ") as CPython 3.12 implements it
   (regex per directive, IGNORECASE, \d = Unicode Nd), the proleptic Gregorian range
   checks of datetime(), and the civil-date arithmetic used by isoformat(). *)
From CCT Require Import Prelude.
From CCT.Gen Require UnicodeNd.
Open Scope N_scope.

Fixpoint nd_lookup (runs : list N) (c : N) : option N :=
  match runs with
  | [] => None
  | s :: r => if (s <=? c) && (c <? s + 10) then Some (c - s) else nd_lookup r c
  end.
Definition nd_val (c : N) : option N := nd_lookup UnicodeNd.nd_run_starts c.

(* character classes of the directive regexes *)
Inductive cc :=
 | CLit (c : N)                 (* literal, case-sensitive (digits, space, punctuation) *)
 | CLitI (up lo : N)            (* literal letter under IGNORECASE *)
 | CRange (lo hi : N)           (* [lo-hi], ASCII *)
 | CNd.                         (* \d *)

Definition cc_match (k : cc) (c : N) : bool :=
  match k with
  | CLit x => c =? x
  | CLitI u l => (c =? u) || (c =? l)
  | CRange lo hi => (lo <=? c) && (c <=? hi)
  | CNd => match nd_val c with Some _ => true | None => false end
  end.

(* match a sequence of classes at the head of s; returns matched text and rest *)
Fixpoint seq_match (q : list cc) (s : ustr) : option (ustr * ustr) :=
  match q, s with
  | [], _ => Some ([], s)
  | k :: q', c :: s' =>
      if cc_match k c then
        match seq_match q' s' with Some (m, r) => Some (c :: m, r) | None => None end
      else None
  | _ :: _, [] => None
  end.

(* a group is an ordered list of alternatives; a pattern a list of groups.
   Backtracking search in priority order, as sre does: the first alternative whose
   continuation matches wins. Returns the texts of the groups and the unmatched rest. *)
Definition group := list (list cc).

Fixpoint pat_match (p : list group) (s : ustr) : option (list ustr * ustr) :=
  match p with
  | [] => Some ([], s)
  | g :: p' =>
      (fix try (alts : list (list cc)) : option (list ustr * ustr) :=
         match alts with
         | [] => None
         | a :: alts' =>
             match seq_match a s with
             | Some (m, r) =>
                 match pat_match p' r with
                 | Some (ms, rest) => Some (m :: ms, rest)
                 | None => try alts'
                 end
             | None => try alts'
             end
         end) g
  end.

Definition d0 := 48. Definition d9 := 57.
Definition lit1 (c : N) : group := [[CLit c]].
Definition g_Y : group := [[CNd; CNd; CNd; CNd]].
Definition g_m : group := [[CLit 49; CRange 48 50]; [CLit 48; CRange 49 57]; [CRange 49 57]].
Definition g_d : group := [[CLit 51; CRange 48 49]; [CRange 49 50; CNd]; [CLit 48; CRange 49 57];
                           [CRange 49 57]; [CLit 32; CRange 49 57]].
Definition g_H : group := [[CLit 50; CRange 48 51]; [CRange 48 49; CNd]; [CNd]].
Definition g_M : group := [[CRange 48 53; CNd]; [CNd]].
Definition g_S : group := [[CLit 54; CRange 48 49]; [CRange 48 53; CNd]; [CNd]].
Definition utc_pattern : list group :=
  [g_Y; lit1 45; g_m; lit1 45; g_d; [[CLitI 84 116]]; g_H; lit1 58; g_M; lit1 58; g_S; [[CLitI 90 122]]].

(* int() of a matched group: Nd digits by value; the space allowed by %d is skipped *)
Fixpoint group_int (acc : N) (s : ustr) : N :=
  match s with
  | [] => acc
  | c :: r => match nd_val c with Some v => group_int (10 * acc + v) r | None => group_int acc r end
  end.

Definition is_leap (y : N) : bool :=
  ((y mod 4 =? 0) && negb (y mod 100 =? 0)) || (y mod 400 =? 0).
Definition days_in_month (y m : N) : N :=
  match m with
  | 2 => if is_leap y then 29 else 28
  | 4 | 6 | 9 | 11 => 30
  | _ => 31
  end.

Record dt := { dt_y : N; dt_mo : N; dt_d : N; dt_h : N; dt_mi : N; dt_s : N }.

Definition parse_utc (s : ustr) : option dt :=
  match pat_match utc_pattern s with
  | Some ([y; _; m; _; d; _; h; _; mi; _; se; _], []) =>
      let y := group_int 0 y in let m := group_int 0 m in let d := group_int 0 d in
      let h := group_int 0 h in let mi := group_int 0 mi in let se := group_int 0 se in
      if (1 <=? y) && (1 <=? d) && (d <=? days_in_month y m) && (se <=? 59)
      then Some {| dt_y := y; dt_mo := m; dt_d := d; dt_h := h; dt_mi := mi; dt_s := se |}
      else None
  | _ => None
  end.

Definition utc_ok (s : ustr) : bool := match parse_utc s with Some _ => true | None => false end.

(* ---- civil date arithmetic (days since 0001-01-01 = ordinal - 1), era based *)
Open Scope Z_scope.
Definition days_from_civil (y m d : Z) : Z :=
  let y' := if m <=? 2 then y - 1 else y in
  let era := y' / 400 in
  let yoe := y' - era * 400 in
  let mp := if m >? 2 then m - 3 else m + 9 in
  let doy := (153 * mp + 2) / 5 + d - 1 in
  let doe := yoe * 365 + yoe / 4 - yoe / 100 + doy in
  era * 146097 + doe - 306.          (* shifted so that 0001-01-01 is day 0 *)

Definition civil_from_days (z : Z) : Z * Z * Z :=
  let z := z + 306 in
  let era := z / 146097 in
  let doe := z - era * 146097 in
  let yoe := (doe - doe / 1460 + doe / 36524 - doe / 146096) / 365 in
  let y := yoe + era * 400 in
  let doy := doe - (365 * yoe + yoe / 4 - yoe / 100) in
  let mp := (5 * doy + 2) / 153 in
  let d := doy - (153 * mp + 2) / 5 + 1 in
  let m := if mp <? 10 then mp + 3 else mp - 9 in
  ((if m <=? 2 then y + 1 else y), m, d).

(* zero padded decimal *)
Definition digit_c (n : Z) : N := (48 + Z.to_N n)%N.
Definition pad2 (n : Z) : ustr := [digit_c (n / 10 mod 10); digit_c (n mod 10)].
Definition pad4 (n : Z) : ustr :=
  [digit_c (n / 1000 mod 10); digit_c (n / 100 mod 10); digit_c (n / 10 mod 10); digit_c (n mod 10)].

(* datetime(second-precision instant t, seconds since 0001-01-01T00:00:00).isoformat() + "Z" *)
Definition fmt_utc (t : Z) : ustr :=
  let days := t / 86400 in
  let sod := t mod 86400 in
  let '(y, m, d) := civil_from_days days in
  pad4 y ++ [45%N] ++ pad2 m ++ [45%N] ++ pad2 d ++ [84%N] ++
  pad2 (sod / 3600) ++ [58%N] ++ pad2 (sod / 60 mod 60) ++ [58%N] ++ pad2 (sod mod 60) ++ [90%N].

Definition instant_of (x : dt) : Z :=
  days_from_civil (Z.of_N (dt_y x)) (Z.of_N (dt_mo x)) (Z.of_N (dt_d x)) * 86400
  + Z.of_N (dt_h x) * 3600 + Z.of_N (dt_mi x) * 60 + Z.of_N (dt_s x).

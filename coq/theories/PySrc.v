(* PySrc.v: a deep embedding of the Python subset used by the leaf validators of
   conda_content_trust/common.py, and its interpreter over the value universe of Prelude.v.
   harness/translate_src.py regenerates Gen/Source.v -- the functions of the package as terms of this
   syntax, straight from Python's own `ast` -- on every run; proofs/SourceFacts.v proves that the
   hand-written model of Formats.v computes exactly what this interpreter computes on that text.
   Definitions only.

   What the embedding leaves out (the translator drops it and says so in Gen/Source.v): docstrings,
   type annotations, the argument expressions of raised exceptions (messages) and `from None`.
   Anything else outside the subset becomes EUnsupported / SUnsupported, on which the interpreter
   answers Unmodelled, so a refinement theorem about such a function cannot be proved.

   No fuel: expressions and statements are evaluated by structural recursion; a call of another
   function of the package goes to the `callee` parameter, and run_prog ties the knot by recursion on
   the program, whose functions are listed callers first (the translator orders them and refuses
   recursion), so every function can call exactly the ones after it. *)
From Coq Require Import String.
From CCT Require Import Prelude Hex Num Time Json.
Open Scope N_scope.

Inductive cmpop := CEq | CNotEq | CLt | CLtE | CGt | CGtE | CIn | CNotIn.

Inductive expr :=
 | EName (x : string)
 | EStr (s : ustr) | EInt (z : Z) | EBool (b : bool) | ENone
 | ECall (f : string) (args : list expr)          (* f(args): a builtin (len, int, bytes.fromhex) or a function of the package *)
 | EMeth (o : expr) (m : string) (args : list expr)   (* o.m(args) *)
 | EIsInstance (o : expr) (cls : string)          (* isinstance(o, cls) for a builtin class name *)
 | EHasAttr (o : expr) (a : string)               (* hasattr(o, "a") *)
 | ECmp (op : cmpop) (a b : expr)
 | EAnd (a b : expr) | EOr (a b : expr) | ENot (a : expr)
 | ESub (o k : expr)                              (* o[k] *)
 | EList (l : list expr)
 | ESet (l : list expr)                           (* {a, b}: a set display *)
 | EListComp (elt : expr) (x : string) (it : expr)   (* [elt for x in it] *)
 | EDict (l : list (expr * expr))                 (* {k: v, ...}: a dict display *)
 | ETuple (l : list expr)                         (* (a, b): a tuple display *)
 | EAdd (a b : expr)                              (* a + b on ints (bools count as 0 / 1) *)
 | ETypeIn (o : expr) (classes : list string)     (* type(o) in NAME, NAME a module-level tuple of builtin classes, resolved by the translator *)
 | EUnsupported (what : string).

Inductive stmt :=
 | SExpr (e : expr)
 | SAssign (x : string) (e : expr)
 | SIf (c : expr) (t f : list stmt)
 | SReturn (e : expr)
 | SRaise (cls : string)
 | STry (body : list stmt) (handlers : list (list string * list stmt))
 | STryElse (body : list stmt) (handlers : list (list string * list stmt)) (orelse : list stmt)   (* try / except / else *)
 | SFor (x : string) (it : expr) (body : list stmt)
 | SPass
 | SAssert (e : expr)
 | SUnsupported (what : string).

Record fundef := { fparams : list string; fbody : list stmt }.
Definition program := list (string * fundef).

(* ---- exceptions *)
Definition exn_of_name (n : string) : option exn :=
  if String.eqb n "TypeError" then Some TypeError
  else if String.eqb n "ValueError" then Some ValueError
  else if String.eqb n "KeyError" then Some KeyError
  else if String.eqb n "AttributeError" then Some AttributeError
  else if String.eqb n "OverflowError" then Some OverflowError
  else if String.eqb n "AssertionError" then Some AssertionError
  else if String.eqb n "SignatureError" then Some SignatureError
  else if String.eqb n "MetadataVerificationError" then Some MetadataVerificationError
  else if String.eqb n "UnknownRoleError" then Some UnknownRoleError
  else None.

Definition exn_eqb (a b : exn) : bool :=
  match a, b with
  | TypeError, TypeError | ValueError, ValueError | KeyError, KeyError | AttributeError, AttributeError
  | OverflowError, OverflowError | AssertionError, AssertionError | UnicodeEncodeError, UnicodeEncodeError
  | InvalidSignature, InvalidSignature | StructError, StructError | SignatureError, SignatureError
  | MetadataVerificationError, MetadataVerificationError | UnknownRoleError, UnknownRoleError
  | ImportErr, ImportErr | OSErr, OSErr | JSONDecodeError, JSONDecodeError | SystemExitE, SystemExitE => true
  | _, _ => false
  end.

(* does `except cls` catch e?  the classes of the package's hierarchy and of the builtins it names *)
Definition catches1 (cls : string) (e : exn) : bool :=
  if String.eqb cls "Exception" then match e with SystemExitE => false | _ => true end
  else if String.eqb cls "CCT_Error" then match e with SignatureError | MetadataVerificationError | UnknownRoleError => true | _ => false end
  else if String.eqb cls "ValueError" then match e with ValueError | UnicodeEncodeError | JSONDecodeError => true | _ => false end
  else if String.eqb cls "LookupError" then match e with KeyError => true | _ => false end
  else match exn_of_name cls with Some c => exn_eqb c e | None => false end.
Definition catches (clss : list string) (e : exn) : bool := existsb (fun c => catches1 c e) clss.

(* ---- environments *)
Definition env := list (string * pv).
Fixpoint lookup (r : env) (x : string) : option pv :=
  match r with [] => None | (y, v) :: r' => if String.eqb x y then Some v else lookup r' x end.
Fixpoint bind_params (ps : list string) (vs : list pv) : option env :=
  match ps, vs with
  | [], [] => Some []
  | p :: ps', v :: vs' => option_map (cons (p, v)) (bind_params ps' vs')
  | _, _ => None
  end.

(* ---- builtins over pv *)
(* truthiness: the cases that can be decided without the float reader (the interpreter answers Unmodelled elsewhere) *)
Definition truth (v : pv) : res bool :=
  match v with
  | VNone => Ok false | VBool b => Ok b | VInt z => Ok (negb (Z.eqb z 0))
  | VStr s => Ok (negb (Nat.eqb (length s) 0))
  | VBytes b | VBytearray b => Ok (negb (Nat.eqb (length b) 0))
  | VList l | VTuple l | VSet l => Ok (negb (Nat.eqb (length l) 0))
  | VDict m => Ok (negb (Nat.eqb (length m) 0))
  | _ => Unmodelled
  end.

(* characters bytes.fromhex lets through: hex digits of either case and ASCII whitespace *)
Definition hexws_char (c : N) : bool :=
  is_ws c || match hexval c with Some _ => true | None => false end.

Fixpoint strs_of (l : list pv) : option (list ustr) :=
  match l with
  | [] => Some []
  | VStr s :: r => option_map (cons s) (strs_of r)
  | _ => None
  end.
(* values of builtin types whose == with a str is False and which are hashable or not as CPython says -- as dict keys only the
   hashable ones occur; an instance of a user class (VObj) may define __eq__/__hash__ and is left out *)
Definition plain_key (v : pv) : bool :=
  match v with
  | VStr _ | VInt _ | VBool _ | VNone | VFloat _ | VBytes _ | VTuple _ => true
  | _ => false
  end.

(* a == b where the answer does not need the float reader; lists compare by length first, then element by element up to
   the first difference (list_richcompare) *)
Fixpoint py_eq (a b : pv) {struct a} : res bool :=
  match a, b with
  | VStr x, VStr y => Ok (ustr_eqb x y)
  | VInt x, VInt y => Ok (Z.eqb x y)
  | VInt x, VBool y | VBool y, VInt x => Ok (Z.eqb x (if y then 1 else 0))
  | VBool x, VBool y => Ok (Bool.eqb x y)
  | VInt x, VFloat t | VFloat t, VInt x =>
      match num_cmp_int (VFloat t) x with Ok c => Ok (match c with NEq => true | _ => false end) | Err e => Err e | Unmodelled => Unmodelled end
  | VNone, VNone => Ok true
  | VList xs, VList ys =>
      if negb (Nat.eqb (length xs) (length ys)) then Ok false else
      (fix go (xs ys : list pv) {struct xs} : res bool :=
         match xs, ys with
         | x :: xs', y :: ys' => r <- py_eq x y ;; if (r : bool) then go xs' ys' else Ok false
         | _, _ => Ok true
         end) xs ys
  | VSet xs, VSet ys =>
      (* decided when the right-hand set holds str only and every element on the left is a str or of a builtin type that never
         equals a str: then the sets are equal iff each is included in the other *)
      match strs_of ys with
      | Some bs =>
          if forallb plain_key xs
          then Ok (forallb (fun x => match x with VStr s => existsb (ustr_eqb s) bs | _ => false end) xs
                   && forallb (fun s => existsb (key_is s) xs) bs)
          else Unmodelled
      | None => Unmodelled
      end
  | VStr _, (VInt _ | VBool _ | VNone | VBytes _ | VBytearray _ | VList _ | VTuple _ | VDict _)
  | (VInt _ | VBool _ | VNone | VBytes _ | VBytearray _ | VList _ | VTuple _ | VDict _), VStr _ => Ok false
  | VNone, (VInt _ | VBool _ | VList _) | (VInt _ | VBool _ | VList _), VNone => Ok false
  | VList _, (VInt _ | VBool _) | (VInt _ | VBool _), VList _ => Ok false
  | _, _ => Unmodelled
  end.

(* a in b: the str cases as in Prelude.py_in_str; any value in a list by == *)
Definition py_in (a b : pv) : res bool :=
  match a with
  | VStr k => py_in_str k b
  | _ => match b with
         | VList l => (fix mem (l : list pv) : res bool :=
                         match l with [] => Ok false | y :: r => e <- py_eq a y ;; if (e : bool) then Ok true else mem r end) l
         | _ => Unmodelled
         end
  end.

(* sorted(l) for a list: nothing is compared below two elements; str elements sort by code points; anything else is outside the model *)
Fixpoint dedup_strs (ss : list ustr) : list ustr :=
  match ss with [] => [] | s :: r => if existsb (ustr_eqb s) r then dedup_strs r else s :: dedup_strs r end.
Definition sort_strs (ss : list ustr) : list ustr := map fst (sort_kv (map (fun s => (s, tt)) ss)).
Definition py_sorted (l : list pv) : res pv :=
  match l with
  | [] | [_] => Ok (VList l)
  | _ => match strs_of l with Some ss => Ok (VList (map VStr (sort_strs ss))) | None => Unmodelled end
  end.

Definition cmp_values (op : cmpop) (a b : pv) : res pv :=
  match op with
  | CEq => r <- py_eq a b ;; Ok (VBool r)
  | CNotEq => r <- py_eq a b ;; Ok (VBool (negb r))
  | CLt => match b with VInt c => r <- py_lt_int a c ;; Ok (VBool r) | _ => Unmodelled end
  | CLtE => match b with VInt c => r <- py_le_int a c ;; Ok (VBool r) | _ => Unmodelled end
  | CGtE => match b with VInt c => r <- py_ge_int a c ;; Ok (VBool r) | _ => Unmodelled end
  | CGt => match b with VInt c => r <- py_le_int a c ;; Ok (VBool (negb r)) | _ => Unmodelled end
  | CIn => r <- py_in a b ;; Ok (VBool r)
  | CNotIn => r <- py_in a b ;; Ok (VBool (negb r))
  end.

Definition is_instance (v : pv) (cls : string) : res bool :=
  if String.eqb cls "str" then Ok (is_str v)
  else if String.eqb cls "dict" then Ok (is_dict v)
  else if String.eqb cls "list" then Ok (is_list v)
  else if String.eqb cls "timedelta" then Ok (match v with VDelta _ _ _ => true | _ => false end)
  else if String.eqb cls "bytes" then Ok (match v with VBytes _ => true | _ => false end)
  else Unmodelled.

Definition tytag_of_name (n : string) : option tytag :=
  if String.eqb n "dict" then Some TyDict else if String.eqb n "list" then Some TyList else if String.eqb n "tuple" then Some TyTuple
  else if String.eqb n "str" then Some TyStr else if String.eqb n "int" then Some TyInt else if String.eqb n "float" then Some TyFloat
  else if String.eqb n "bool" then Some TyBool else if String.eqb n "NoneType" then Some TyNone
  else if String.eqb n "bytes" then Some TyBytes else if String.eqb n "set" then Some TySet else None.
Fixpoint tytags_of_names (l : list string) : option (list tytag) :=
  match l with
  | [] => Some []
  | n :: r => match tytag_of_name n, tytags_of_names r with Some t, Some ts => Some (t :: ts) | _, _ => None end
  end.
(* type(v) in (classes): exact type, for the values whose class Prelude.type_tag knows; other values have a class outside the list *)
Definition type_in_names (v : pv) (classes : list string) : res bool :=
  match tytags_of_names classes with
  | Some ts => Ok (type_in v ts)
  | None => Unmodelled
  end.

(* hasattr(v, "decode"): bytes and bytearray have it, no other value of the universe does *)
Definition has_attr (v : pv) (a : string) : res bool :=
  if String.eqb a "decode" then Ok (match v with VBytes _ | VBytearray _ => true | _ => false end)
  else Unmodelled.

Fixpoint py_all (l : list pv) : res pv :=
  match l with [] => Ok (VBool true) | x :: r => t <- truth x ;; if (t : bool) then py_all r else Ok (VBool false) end.

(* ints and bools as integers (for +) *)
Definition threshold_like (v : pv) : option Z :=
  match v with VInt z => Some z | VBool b => Some (if b then 1 else 0)%Z | _ => None end.

Definition call_builtin (f : string) (args : list pv) : res pv :=
  if String.eqb f "len" then
    match args with [v] => n <- py_len v ;; Ok (VInt (Z.of_nat n)) | _ => Err TypeError end
  else if String.eqb f "bytes.fromhex" then
    match args with
    | [VStr s] => match fromhex s with Some b => Ok (VBytes b) | None => Err ValueError end
    | [_] => Err TypeError
    | _ => Err TypeError
    end
  else if String.eqb f "int" then                (* int(x) for numbers; text is outside the model (int("12") parses) *)
    match args with
    | [VStr _] | [VBytes _] | [VBytearray _] => Unmodelled
    | [v] => r <- py_int v ;; match r with IntIs z _ => Ok (VInt z) end
    | _ => Unmodelled
    end
  else if String.eqb f "all" then                (* all(list) *)
    match args with
    | [VList l] => py_all l
    | _ => Unmodelled
    end
  else if String.eqb f "datetime.strptime" then  (* only with the format of the package; the object returned is not inspected *)
    match args with
    | [VStr s; VStr fmt] => if ustr_eqb fmt (U"%Y-%m-%dT%H:%M:%SZ") then (if utc_ok s then Ok (VObj 0) else Err ValueError) else Unmodelled
    | [_; VStr fmt] => if ustr_eqb fmt (U"%Y-%m-%dT%H:%M:%SZ") then Err TypeError else Unmodelled
    | _ => Unmodelled
    end
  else if String.eqb f "deepcopy" then           (* copy.deepcopy: the identity on the immutable values of the universe (aliasing: Heap.v);
                                                    instances of user classes and key objects are left out *)
    match args with
    | [VObj _] | [VPub _] | [VPriv _] => Unmodelled
    | [v] => Ok v
    | _ => Err TypeError
    end
  else if String.eqb f "sorted" then
    match args with [VList l] => py_sorted l | _ => Unmodelled end
  else if String.eqb f "set" then                (* set(d): the keys of a dict (pairwise distinct in CPython); set(l) for a list of str *)
    match args with
    | [VDict m] => Ok (VSet (map fst m))
    | [VList l] => match strs_of l with Some ss => Ok (VSet (map VStr (dedup_strs ss))) | None => Unmodelled end
    | _ => Unmodelled
    end
  else if String.eqb f "list(keys)" then         (* list(d.keys()) *)
    match args with [VDict m] => Ok (VList (map fst m)) | _ => Unmodelled end
  else Unmodelled.

(* o.m(args) for the str methods the validators use; exact on the alphabet stated, Unmodelled outside it *)
Definition call_method (o : pv) (m : string) (args : list pv) : res pv :=
  match o, args with
  | VStr s, [] =>
      if String.eqb m "isalnum" then
        if forallb hexws_char s then Ok (VBool (isalnum_hexws s)) else Unmodelled
      else if String.eqb m "lower" then
        if forallb (fun c => c <? 128) s then Ok (VStr (lower_hexws s)) else Unmodelled
      else Unmodelled
  | _, _ => Unmodelled
  end.

(* ---- the interpreter *)
Inductive outcome := ONormal (r : env) | OReturn (v : pv) | ORaise (e : exn) | OUnmod.

Section Interp.
  Variable callee : string -> list pv -> res pv.     (* the functions defined after the current one, then the builtins *)

  Fixpoint eval (r : env) (e : expr) {struct e} : res pv :=
    let evals := fix evals (l : list expr) : res (list pv) :=
      match l with
      | [] => Ok []
      | a :: l' => v <- eval r a ;; vs <- evals l' ;; Ok (v :: vs)
      end in
    match e with
    | EName x => match lookup r x with Some v => Ok v | None => Unmodelled end
    | EStr s => Ok (VStr s) | EInt z => Ok (VInt z) | EBool b => Ok (VBool b) | ENone => Ok VNone
    | ECall f args => vs <- evals args ;; callee f vs
    | EMeth o m args => ov <- eval r o ;; vs <- evals args ;; call_method ov m vs
    | EIsInstance o cls => ov <- eval r o ;; b <- is_instance ov cls ;; Ok (VBool b)
    | EHasAttr o a => ov <- eval r o ;; b <- has_attr ov a ;; Ok (VBool b)
    | ECmp op a b => va <- eval r a ;; vb <- eval r b ;; cmp_values op va vb
    | EAnd a b => va <- eval r a ;; t <- truth va ;; if (t : bool) then eval r b else Ok va
    | EOr a b => va <- eval r a ;; t <- truth va ;; if (t : bool) then Ok va else eval r b
    | ENot a => va <- eval r a ;; t <- truth va ;; Ok (VBool (negb t))
    | ESub o k => ov <- eval r o ;; kv <- eval r k ;;
                  match kv with VStr ks => subscript ov ks | _ => Unmodelled end
    | EList l => vs <- evals l ;; Ok (VList vs)
    | ESet l => vs <- evals l ;; Ok (VSet vs)
    | ETuple l => vs <- evals l ;; Ok (VTuple vs)
    | EAdd a b => va <- eval r a ;; vb <- eval r b ;;
                  match threshold_like va, threshold_like vb with
                  | Some x, Some y => Ok (VInt (x + y))
                  | _, _ => Unmodelled
                  end
    | EDict l =>
        (* entries evaluated left to right, key before value; str keys only; a repeated key keeps its first position and takes the later value *)
        (fix build (l : list (expr * expr)) (acc : list (pv * pv)) : res pv :=
           match l with
           | [] => Ok (VDict acc)
           | (ke, ve) :: l' => kv <- eval r ke ;; vv <- eval r ve ;;
                               match kv with VStr k => build l' (dset acc k vv) | _ => Unmodelled end
           end) l []
    | EListComp elt x it =>
        iv <- eval r it ;;
        match iv with
        | VList vs | VTuple vs =>
            (fix each (vs : list pv) : res pv :=
               match vs with
               | [] => Ok (VList [])
               | a :: vs' => v <- eval ((x, a) :: r) elt ;; rest <- each vs' ;;
                             match rest with VList l => Ok (VList (v :: l)) | _ => Unmodelled end
               end) vs
        | _ => Unmodelled
        end
    | ETypeIn o classes => ov <- eval r o ;; b <- type_in_names ov classes ;; Ok (VBool b)
    | EUnsupported _ => Unmodelled
    end.

  Definition of_res (x : res pv) (k : pv -> outcome) : outcome :=
    match x with Ok v => k v | Err e => ORaise e | Unmodelled => OUnmod end.

  Fixpoint exec (r : env) (s : stmt) {struct s} : outcome :=
    let execs := fix execs (r : env) (l : list stmt) : outcome :=
      match l with
      | [] => ONormal r
      | s :: l' => match exec r s with ONormal r' => execs r' l' | o => o end
      end in
    match s with
    | SExpr e => of_res (eval r e) (fun _ => ONormal r)
    | SAssign x e => of_res (eval r e) (fun v => ONormal ((x, v) :: r))
    | SIf c t f => of_res (eval r c) (fun v => match truth v with
                                              | Ok true => execs r t | Ok false => execs r f
                                              | Err e => ORaise e | Unmodelled => OUnmod end)
    | SReturn e => of_res (eval r e) OReturn
    | SRaise cls => match exn_of_name cls with Some e => ORaise e | None => OUnmod end
    | STry body hs =>
        match execs r body with
        | ORaise e =>
            (fix pick (hs : list (list string * list stmt)) : outcome :=
               match hs with
               | [] => ORaise e
               | (cl, h) :: hs' => if catches cl e then execs r h else pick hs'
               end) hs
        | o => o
        end
    | STryElse body hs orelse =>
        (* the else suite runs when the body raised nothing; what IT raises is not caught by the handlers *)
        match execs r body with
        | ORaise e =>
            (fix pick (hs : list (list string * list stmt)) : outcome :=
               match hs with
               | [] => ORaise e
               | (cl, h) :: hs' => if catches cl e then execs r h else pick hs'
               end) hs
        | ONormal r' => execs r' orelse
        | o => o
        end
    | SFor x it body =>
        of_res (eval r it) (fun v =>
          match (match v with VList vs | VTuple vs => Some vs | VDict m => Some (map fst m) | _ => None end) with
          | Some vs =>
              (fix loop (vs : list pv) (r : env) : outcome :=
                 match vs with
                 | [] => ONormal r
                 | a :: vs' => match execs ((x, a) :: r) body with ONormal r' => loop vs' r' | o => o end
                 end) vs r
          | None => OUnmod
          end)
    | SPass => ONormal r
    | SAssert e => of_res (eval r e) (fun v => match truth v with
                                              | Ok true => ONormal r | Ok false => ORaise AssertionError
                                              | Err e => ORaise e | Unmodelled => OUnmod end)
    | SUnsupported _ => OUnmod
    end.

  Fixpoint exec_list (r : env) (l : list stmt) : outcome :=
    match l with
    | [] => ONormal r
    | s :: l' => match exec r s with ONormal r' => exec_list r' l' | o => o end
    end.

  Definition run_body (d : fundef) (args : list pv) : res pv :=
    match bind_params (fparams d) args with
    | None => Err TypeError
    | Some r => match exec_list r (fbody d) with
                | ONormal _ => Ok VNone
                | OReturn v => Ok v
                | ORaise e => Err e
                | OUnmod => Unmodelled
                end
    end.
End Interp.

(* callers first: the head may call everything in the tail *)
Fixpoint run_prog (p : program) (f : string) (args : list pv) : res pv :=
  match p with
  | [] => call_builtin f args
  | (g, d) :: rest => if String.eqb f g then run_body (run_prog rest) d args else run_prog rest f args
  end.

(* names arriving from the correspondence harness *)
Fixpoint string_of_ustr (u : ustr) : string :=
  match u with [] => EmptyString | c :: r => String (Ascii.ascii_of_N c) (string_of_ustr r) end.

(* PersistFacts.v: writing metadata to a file and loading it back (C08).
   write = the canonical serializer, load = json.load; a stored value comes back in canonical form. *)
From CCT Require Import Prelude Hex Num Time Formats Json JsonParse Auth Signing.
From CCT.Gen Require Params.
From CCT.proofs Require Import HexFacts SigFacts AuthFacts SignableFacts DelegationFacts SchemaFacts FamilyFacts SigningFacts
     JsonLexFacts SortFacts JsonFacts.
From Coq Require Import Lia Permutation.
Open Scope N_scope.

(* ---- the byte layer of json.load: on ASCII text without NUL the encoding guess is UTF-8, there is no byte-order mark to strip
   and decoding is the identity *)
Lemma lex_nul st r : lex st (0 :: r) = None.
Proof. destruct st; reflexivity. Qed.

Lemma lex_In_nul s : In 0 s -> forall st, lex st s = None.
Proof.
  induction s as [|c s IH]; intros Hin st; [destruct Hin|].
  destruct (N.eq_dec c 0) as [->|Hc]; [apply lex_nul|].
  assert (Hs : In 0 s) by (destruct Hin as [E|E]; [congruence|exact E]).
  destruct st; cbn [lex].
  - destruct (is_atom_char c); [apply IH; exact Hs|]. destruct (is_json_ws c); [rewrite IH by exact Hs; reflexivity|].
    destruct (c =? 34); [rewrite IH by exact Hs; reflexivity|]. destruct (punct c); [rewrite IH by exact Hs; reflexivity|reflexivity].
  - destruct (is_atom_char c); [apply IH; exact Hs|]. destruct (is_json_ws c); [rewrite IH by exact Hs; reflexivity|].
    destruct (c =? 34); [rewrite IH by exact Hs; reflexivity|]. destruct (punct c); [rewrite IH by exact Hs; reflexivity|reflexivity].
  - destruct (c =? 34); [rewrite IH by exact Hs; reflexivity|]. destruct (c =? 92); [apply IH; exact Hs|].
    destruct (c <? 32); [reflexivity|apply IH; exact Hs].
  - destruct (c =? 117); [apply IH; exact Hs|]. destruct (simple_escape c); [apply IH; exact Hs|reflexivity].
  - destruct (hexval c); [|reflexivity]. destruct k as [|[|k]]; [reflexivity| |apply IH; exact Hs].
    destruct (hi && is_low (16 * v + n)); [destruct acc; [reflexivity|apply IH; exact Hs]|apply IH; exact Hs].
Qed.

Lemma parse_no_nul s v : parse s = Some v -> ~ In 0 s.
Proof. intros H Hin. unfold parse in H. rewrite (lex_In_nul s Hin) in H. discriminate. Qed.

Lemma utf8_decode_ascii b : ascii b -> utf8_decode b = Some b.
Proof.
  induction 1 as [|c b Hc _ IH]; [reflexivity|]. cbn [utf8_decode].
  assert ((c <? 128) = true) as -> by (apply N.ltb_lt; exact Hc). rewrite IH. reflexivity.
Qed.

Lemma strip_bom_ascii b : ascii b -> strip_bom b = b.
Proof.
  intros H. destruct b as [|c b]; [reflexivity|]. inversion H as [|? ? Hc _]; subst.
  unfold strip_bom. destruct c as [|p]; [reflexivity|]. do 8 (destruct p as [p|p|]; try reflexivity); exfalso; cbn in Hc; lia.
Qed.

Lemma guessed_utf8_text b : ascii b -> ~ In 0 b -> guessed_utf8 b = true.
Proof.
  intros Ha Hn.
  assert (Hz : forall c, In c b -> (c =? 0) = false /\ c < 128).
  { intros c Hc. split; [apply N.eqb_neq; intros ->; apply Hn; exact Hc|]. unfold ascii in Ha. rewrite Forall_forall in Ha. apply Ha; exact Hc. }
  destruct b as [|b0 [|b1 r]]; [reflexivity| |].
  - destruct (Hz b0 (or_introl eq_refl)) as [_ H0]. unfold guessed_utf8.
    destruct b0 as [|p]; [reflexivity|]. do 8 (destruct p as [p|p|]; try reflexivity); exfalso; cbn in H0; lia.
  - destruct (Hz b0 (or_introl eq_refl)) as [Z0 H0]. destruct (Hz b1 (or_intror (or_introl eq_refl))) as [Z1 H1].
    assert (G : guessed_utf8 (b0 :: b1 :: r) = match r with [] => negb (b0 =? 0) && negb (b1 =? 0) | [_] => true | _ :: _ :: _ => negb (b0 =? 0) && negb (b1 =? 0) end).
    { unfold guessed_utf8. destruct b0 as [|p]; [destruct r as [|? [|? ?]]; reflexivity|].
      do 8 (destruct p as [p|p|]; try (destruct r as [|? [|? ?]]; reflexivity)); exfalso; cbn in H0; lia. }
    rewrite G, Z0, Z1. destruct r as [|? [|? ?]]; reflexivity.
Qed.

Theorem load_file_canonical v : jdom v = true -> load_file (pser 0 v) = Ok (canon v).
Proof.
  intros Hd. pose proof (pser_ascii v 0%nat Hd) as Ha. pose proof (parse_pser v Hd) as Hp.
  unfold load_file. rewrite (guessed_utf8_text _ Ha (parse_no_nul _ _ Hp)). cbn [negb].
  rewrite (strip_bom_ascii _ Ha), (utf8_decode_ascii _ Ha), Hp. reflexivity.
Qed.

(* write_metadata_to_file then load_metadata_from_file *)
Definition store_load (v : pv) : res pv :=
  b <- canonserialize v ;; match load_bytes b with Some v' => Ok v' | None => Err JSONDecodeError end.

Theorem load_write v : jdom v = true -> store_load v = Ok (canon v).
Proof.
  intros Hd. unfold store_load, canonserialize, load_bytes. rewrite ser_pser by exact Hd. cbn [bind].
  rewrite load_file_canonical by exact Hd. reflexivity.
Qed.

(* the loaded value is the same JSON value: canonical forms agree, canonical bytes are unchanged *)
Theorem canon_idem v : jdom v = true -> canon (canon v) = canon v.
Proof.
  intros Hd. pose proof (parse_pser (canon v) (jdom_canon v Hd)) as H. rewrite pser_canon in H by exact Hd.
  rewrite parse_pser in H by exact Hd. congruence.
Qed.

Theorem bytes_unchanged v : jdom v = true -> canonserialize (canon v) = canonserialize v.
Proof. intros Hd. symmetry. apply ser_order_independent; auto using jdom_canon. symmetry. apply canon_idem; exact Hd. Qed.

(* any number of write/load cycles *)
Fixpoint cycles (n : nat) (v : pv) : res pv :=
  match n with O => Ok v | S k => v' <- store_load v ;; cycles k v' end.

Theorem cycles_stable n v : jdom v = true -> cycles (S n) v = Ok (canon v).
Proof.
  revert v. induction n as [|n IH]; intros v Hd.
  - cbn [cycles]. rewrite load_write by exact Hd. reflexivity.
  - change (cycles (S (S n)) v) with (v' <- store_load v ;; cycles (S n) v'). rewrite load_write by exact Hd. cbn [bind].
    rewrite IH by (apply jdom_canon; exact Hd). rewrite canon_idem by exact Hd. reflexivity.
Qed.

(* ---- lookups in a stored-and-loaded dict *)
Definition str_keys (m : list (pv * pv)) : Prop := Forall (fun kv => is_str (fst kv) = true) m.

Lemma dget_Some_In m k x : dget m k = Some x -> In (VStr k, x) m.
Proof.
  induction m as [|[k' y] m IH]; cbn [dget]; [discriminate|]. destruct (key_is k k') eqn:E.
  - intros [= ->]. apply key_is_eq in E as ->. left; reflexivity.
  - intros H. right. auto.
Qed.

Lemma dget_None_notin m k : str_keys m -> dget m k = None -> ~ In k (map (fun kv => key_text (fst kv)) m).
Proof.
  induction m as [|[k' y] m IH]; intros Hs H Hin; [destruct Hin|]. cbn [dget] in H.
  inversion Hs as [|? ? Hk Hs']; subst. cbn [fst] in Hk. destruct k'; try discriminate. cbn [key_is] in H.
  destruct (ustr_eqb s k) eqn:E; [discriminate|]. cbn [map fst key_text] in Hin. destruct Hin as [->|Hin].
  - rewrite ustr_eqb_refl in E. discriminate.
  - apply (IH Hs' H Hin).
Qed.

Lemma In_dget_nodup m k x : str_keys m -> NoDup (map (fun kv => key_text (fst kv)) m) -> In (VStr k, x) m -> dget m k = Some x.
Proof.
  induction m as [|[k' y] m IH]; intros Hs Hnd Hin; [destruct Hin|].
  inversion Hs as [|? ? Hk Hs']; subst. inversion Hnd as [|? ? Hn Hnd']; subst. cbn [dget].
  destruct Hin as [[= -> ->]|Hin].
  - cbn [key_is]. rewrite ustr_eqb_refl. reflexivity.
  - destruct (key_is k k') eqn:E.
    + apply key_is_eq in E as ->. exfalso. apply Hn. cbn [fst key_text]. apply in_map_iff. exists (VStr k, x). split; auto.
    + apply IH; auto.
Qed.

Lemma jdom_dict_keys m : jdom (VDict m) = true -> str_keys m /\ NoDup (map (fun kv => key_text (fst kv)) m).
Proof.
  cbn [jdom]. intros H. apply andb_true_iff in H as [H Hk]. split; [|apply keys_nodupb_NoDup; exact Hk].
  rewrite forallb_forall in H. apply Forall_forall. intros kv Hkv. specialize (H _ Hkv). apply andb_true_iff in H as [H _].
  destruct (fst kv); try discriminate. reflexivity.
Qed.

Theorem dget_canon m k : jdom (VDict m) = true ->
  match canon (VDict m) with VDict m' => dget m' k | _ => None end = option_map canon (dget m k).
Proof.
  intros Hd. destruct (jdom_dict_keys m Hd) as [Hs Hnd]. rewrite canon_dict.
  set (es := map (fun kx => (VStr (fst kx), canon (snd kx))) (entries m)).
  assert (Hs' : str_keys es) by (apply Forall_forall; intros kv Hkv; apply in_map_iff in Hkv as (kx & <- & _); reflexivity).
  assert (Hnd' : NoDup (map (fun kv => key_text (fst kv)) es)).
  { unfold es. rewrite map_map. cbn [fst key_text]. apply entries_keys_nodup. cbn [jdom] in Hd. apply andb_true_iff in Hd as [_ Hk]. exact Hk. }
  destruct (dget m k) as [x|] eqn:E; cbn [option_map].
  - apply In_dget_nodup; auto. apply dget_Some_In in E. unfold es. apply in_map_iff. exists (k, x). split; [reflexivity|].
    unfold entries. apply In_sort_kv. apply in_map_iff. exists (VStr k, x). split; [reflexivity|exact E].
  - destruct (dget es k) as [y|] eqn:E'; [|reflexivity]. exfalso.
    apply dget_Some_In in E'. unfold es in E'. apply in_map_iff in E' as ([k0 x0] & [= -> _] & Hin).
    unfold entries in Hin. apply (proj1 (In_sort_kv _ _)) in Hin. apply in_map_iff in Hin as ([k1 x1] & [= Hk _] & Hin).
    apply (dget_None_notin m k Hs E). rewrite <- Hk. apply in_map_iff. exists (k1, x1). split; auto.
Qed.

Lemma subscript_canon v k : jdom v = true -> is_dict v = true ->
  subscript (canon v) k = match subscript v k with Ok x => Ok (canon x) | Err e => Err e | Unmodelled => Unmodelled end.
Proof.
  intros Hd Hv. destruct v; try discriminate. pose proof (dget_canon m k Hd) as H. rewrite canon_dict in *.
  cbn [subscript]. rewrite H. destruct (dget m k); reflexivity.
Qed.

(* ---- an envelope stays an envelope; its payload bytes are unchanged; every entry is still there, as the same JSON value *)
Theorem persist_envelope s sm sd :
  jdom s = true -> is_signable s = true -> subscript s (U"signatures") = Ok (VDict sm) -> subscript s (U"signed") = Ok sd ->
  subscript (canon s) (U"signed") = Ok (canon sd)
  /\ canonserialize (canon sd) = canonserialize sd
  /\ (exists sm', subscript (canon s) (U"signatures") = Ok (VDict sm') /\ canon (VDict sm) = VDict sm'
                  /\ forall k, dget sm' k = option_map canon (dget sm k)).
Proof.
  intros Hd Hs Esg Esd.
  assert (Hdict : is_dict s = true) by (destruct s; try discriminate; reflexivity).
  assert (Hparts : jdom sd = true /\ jdom (VDict sm) = true).
  { destruct s as [| | | | | | | | | |m| | | |]; try discriminate. cbn [subscript] in Esg, Esd.
    destruct (dget m (U"signatures")) eqn:E1; try discriminate. destruct (dget m (U"signed")) eqn:E2; try discriminate.
    injection Esg as ->. injection Esd as ->. apply dget_Some_In in E1, E2.
    cbn [jdom] in Hd. apply andb_true_iff in Hd as [Hd _]. rewrite forallb_forall in Hd.
    pose proof (Hd _ E1) as H1. pose proof (Hd _ E2) as H2. cbn [fst snd] in H1, H2.
    apply andb_true_iff in H1 as [_ H1]. apply andb_true_iff in H2 as [_ H2]. auto. }
  destruct Hparts as [Hsd Hsm].
  split; [rewrite subscript_canon, Esd by auto; reflexivity|]. split; [apply bytes_unchanged; exact Hsd|].
  rewrite subscript_canon, Esg by auto. rewrite canon_dict. eexists. split; [reflexivity|]. split; [reflexivity|].
  intros k. pose proof (dget_canon sm k Hsm) as H. rewrite canon_dict in H. exact H.
Qed.

(* ---- the verdict of verify_signable is the same before and after a write/load cycle *)
Lemma canon_str x s : canon x = VStr s -> x = VStr s.
Proof. destruct x; cbn; try discriminate; auto. Qed.

Lemma length_entries m : length (entries m) = length m.
Proof. unfold entries. rewrite (Permutation_length (sort_perm _)). apply map_length. Qed.

Lemma canon_dict_view m : jdom (VDict m) = true ->
  exists m', canon (VDict m) = VDict m' /\ length m' = length m /\ all_str_keys m' = true
             /\ (forall k, dget m' k = option_map canon (dget m k)) /\ all_str_keys m = true.
Proof.
  intros Hd. rewrite canon_dict. eexists. split; [reflexivity|]. split; [rewrite map_length; apply length_entries|].
  split; [apply forallb_forall; intros kv Hkv; apply in_map_iff in Hkv as (kx & <- & _); reflexivity|].
  split.
  - intros k. pose proof (dget_canon m k Hd) as H. rewrite canon_dict in H. exact H.
  - destruct (jdom_dict_keys m Hd) as [Hs _]. apply forallb_forall. unfold str_keys in Hs. rewrite Forall_forall in Hs. auto.
Qed.

Lemma jdom_dget m k x : jdom (VDict m) = true -> dget m k = Some x -> jdom x = true.
Proof.
  intros Hd E. apply dget_Some_In in E. cbn [jdom] in Hd. apply andb_true_iff in Hd as [Hd _].
  rewrite forallb_forall in Hd. specialize (Hd _ E). apply andb_true_iff in Hd as [_ Hd]. exact Hd.
Qed.

Lemma raw_shape_canon v : jdom v = true -> (raw_shape (canon v) <-> raw_shape v).
Proof.
  intros Hd. split.
  - intros (sg & E & Hs). destruct v; try (cbn [canon] in E; discriminate).
    destruct (canon_dict_view m Hd) as (m' & Ec & Hl & _ & Hg & Hstr). rewrite Ec in E. injection E as ->.
    cbn [length] in Hl. destruct m as [|[k x] [|]]; try discriminate.
    specialize (Hg (U"signature")). cbn [dget key_is] in Hg. rewrite ustr_eqb_refl in Hg.
    cbn [all_str_keys forallb fst] in Hstr. destruct k; try discriminate. cbn [key_is] in Hg.
    destruct (ustr_eqb s (U"signature")) eqn:Ek; cbn [option_map] in Hg; [|discriminate].
    apply ustr_eqb_eq in Ek as ->. injection Hg as Hg. symmetry in Hg. apply canon_str in Hg as ->. exists sg. auto.
  - intros (sg & -> & Hs). exists sg. split; [reflexivity|exact Hs].
Qed.

Lemma gpg_shape_canon v : jdom v = true -> (gpg_shape (canon v) <-> gpg_shape v).
Proof.
  intros Hd. destruct v; try (split; intros (m0 & ? & ? & E & _); cbn in E; discriminate).
  destruct (canon_dict_view m Hd) as (m' & Ec & Hl & Hs' & Hg & Hs). rewrite Ec.
  assert (Hget : forall k s, dget m' k = Some (VStr s) <-> dget m k = Some (VStr s)).
  { intros k s. rewrite Hg. destruct (dget m k) as [x|]; cbn [option_map]; split; try discriminate.
    - intros [= H]. apply canon_str in H as ->. reflexivity.
    - intros [= ->]. reflexivity. }
  split.
  - intros (m0 & oh & sg & [= <-] & _ & H1 & Ho & H2 & Hsg & Hlen).
    exists m, oh, sg. split; [reflexivity|]. split; [exact Hs|]. split; [apply Hget; exact H1|]. split; [exact Ho|].
    split; [apply Hget; exact H2|]. split; [exact Hsg|]. rewrite Hl in Hlen.
    destruct Hlen as [Hlen|(Hlen & fp & H3 & Hfp)]; [left; exact Hlen|right]. split; [exact Hlen|]. exists fp. split; [apply Hget; exact H3|exact Hfp].
  - intros (m0 & oh & sg & [= <-] & _ & H1 & Ho & H2 & Hsg & Hlen).
    exists m', oh, sg. split; [reflexivity|]. split; [exact Hs'|]. split; [apply Hget; exact H1|]. split; [exact Ho|].
    split; [apply Hget; exact H2|]. split; [exact Hsg|]. rewrite <- Hl in Hlen.
    destruct Hlen as [Hlen|(Hlen & fp & H3 & Hfp)]; [left; exact Hlen|right]. split; [exact Hlen|]. exists fp. split; [apply Hget; exact H3|exact Hfp].
Qed.

Section Verdict.
  Variable ed_verify : bytes -> bytes -> bytes -> bool.
  Variable sha256 : bytes -> bytes.
  Notation vsig := (verify_signable ed_verify sha256).
  Notation valid := (valid_entry ed_verify sha256).

  Lemma valid_entry_canon gpg kl data k v : jdom v = true -> (valid gpg kl data k (canon v) <-> valid gpg kl data k v).
  Proof.
    intros Hd. unfold valid_entry. split; intros (h & -> & Hh & Hin & H); exists h; (split; [reflexivity|]); (split; [exact Hh|]); (split; [exact Hin|]).
    - destruct gpg.
      + destruct H as (m' & oh & sg & hb & sb & msg & Ev & Hshape & H1 & Eh & H2 & Es & Ef & Hv).
        pose proof (proj1 (gpg_shape_canon v Hd) Hshape) as Hsh.
        destruct v; try (destruct Hsh as (m0 & ? & ? & E & _); discriminate).
        destruct (canon_dict_view m Hd) as (m'' & Ec & _ & _ & Hg & _). rewrite Ec in Ev. injection Ev as ->.
        exists m, oh, sg, hb, sb, msg. split; [reflexivity|]. split; [exact Hsh|].
        assert (Hget : forall k s, dget m' k = Some (VStr s) -> dget m k = Some (VStr s)).
        { intros k s. rewrite Hg. destruct (dget m k) as [x|]; cbn [option_map]; try discriminate. intros [= H]. apply canon_str in H as ->. reflexivity. }
        repeat split; auto.
      + destruct H as (m' & sg & sb & Ev & Hshape & H2 & Es & Hv).
        assert (Hsh : raw_shape v \/ gpg_shape v).
        { destruct Hshape as [H|H]; [left; apply raw_shape_canon; auto|right; apply gpg_shape_canon; auto]. }
        destruct v; try (destruct Hsh as [(? & E & _)|(m0 & ? & ? & E & _)]; discriminate).
        destruct (canon_dict_view m Hd) as (m'' & Ec & _ & _ & Hg & _). rewrite Ec in Ev. injection Ev as ->.
        exists m, sg, sb. split; [reflexivity|]. split; [exact Hsh|].
        split; [|auto]. specialize (Hg (U"signature")). rewrite H2 in Hg. destruct (dget m (U"signature")) as [x|]; cbn [option_map] in Hg; try discriminate.
        injection Hg as Hg. symmetry in Hg. apply canon_str in Hg as ->. reflexivity.
    - destruct gpg.
      + destruct H as (m & oh & sg & hb & sb & msg & -> & Hshape & H1 & Eh & H2 & Es & Ef & Hv).
        destruct (canon_dict_view m Hd) as (m' & Ec & _ & _ & Hg & _).
        exists m', oh, sg, hb, sb, msg. split; [exact Ec|]. split; [apply gpg_shape_canon; auto|].
        rewrite !Hg, H1, H2. repeat split; auto.
      + destruct H as (m & sg & sb & -> & Hshape & H2 & Es & Hv).
        destruct (canon_dict_view m Hd) as (m' & Ec & _ & _ & Hg & _).
        exists m', sg, sb. split; [exact Ec|].
        split; [destruct Hshape as [H|H]; [left; apply raw_shape_canon; auto|right; apply gpg_shape_canon; auto]|].
        rewrite Hg, H2. repeat split; auto.
  Qed.

  (* moving acceptance from one envelope to another with the same payload bytes and entry-wise at least as valid signatures *)
  Lemma transfer_acceptance s1 s2 K t gpg sm1 sm2 sd1 sd2 data :
    vsig s1 K t gpg = Ok tt ->
    subscript s1 (U"signatures") = Ok (VDict sm1) -> subscript s1 (U"signed") = Ok sd1 -> canonserialize sd1 = Ok data ->
    NoDup (map fst sm1) ->
    is_signable s2 = true -> subscript s2 (U"signatures") = Ok (VDict sm2) -> subscript s2 (U"signed") = Ok sd2 -> canonserialize sd2 = Ok data ->
    (py_truth gpg = true -> Forall (fun kv => entry_small (snd kv)) sm2) ->
    (forall kl k v1, In (k, v1) sm1 -> valid (py_truth gpg) kl data k v1 -> exists v2, In (k, v2) sm2 /\ valid (py_truth gpg) kl data k v2) ->
    vsig s2 K t gpg = Ok tt.
  Proof.
    intros H E1 D1 S1 Hnd Hs2 E2 D2 S2 Hsmall Hmap.
    pose proof H as H0. apply verify_signable_ok in H0 as (kl0 & tz0 & _ & _ & _ & _ & _ & -> & Hk & Et & Hz & _).
    apply verify_signable_sound in H as (kl & tz & sd & data' & sm & _ & [= <-] & Et' & _ & Esd & Ed & Esg & cs & Hi & Hn & Hl & Hf).
    rewrite Et in Et'. injection Et' as <-.
    rewrite D1 in Esd. injection Esd as <-. rewrite S1 in Ed. injection Ed as <-. rewrite E1 in Esg. injection Esg as <-.
    specialize (Hn Hnd).
    assert (Hcs2 : exists cs2, map fst cs2 = map fst cs /\ incl cs2 sm2
                               /\ Forall (fun kv => valid (py_truth gpg) kl0 data (fst kv) (snd kv)) cs2).
    { clear Hn Hl. induction cs as [|[k v1] cs IHc]; [exists []; repeat split; [intros ? []|constructor]|].
      inversion Hf as [|? ? Hv Hf']; subst. cbn [fst snd] in Hv.
      destruct IHc as (cs2 & Hm & Hinc & Hv2); [intros x Hx; apply Hi; right; exact Hx|exact Hf'|].
      destruct (Hmap kl0 k v1 (Hi _ (or_introl eq_refl)) Hv) as (v2 & Hin2 & Hval2).
      exists ((k, v2) :: cs2). split; [cbn [map fst]; rewrite Hm; reflexivity|]. split.
      - intros x [<-|Hx]; auto.
      - constructor; auto. }
    destruct Hcs2 as (cs2 & Hm & Hinc & Hv2).
    destruct t; cbn [threshold_value] in Et; try discriminate.
    - injection Et as <-. destruct b; [|lia].
      (* a bool threshold True behaves as 1 *)
      eapply verify_signable_ok. exists kl0, 1%Z, sd2, data, sm2.
      assert (Hc : exists good, count_m (entry_counts ed_verify sha256 (py_truth gpg) kl0 data) sm2 = Ok good /\ (1 <= Z.of_nat good)%Z).
      { assert (Hcomp : vsig s2 (VList kl0) (VInt 1) gpg = Ok tt).
        { eapply verify_signable_complete with (cs := cs2); eauto; try lia.
          - eapply NoDup_map_inv. rewrite Hm. exact Hn.
          - rewrite <- (map_length fst), Hm, map_length. exact Hl. }
        apply verify_signable_ok in Hcomp as (kl1 & tz1 & sd1' & data1 & sm1' & good & _ & [= <-] & _ & [= <-] & _ & Esd' & Ed' & Esg' & Hc & Hg).
        rewrite D2 in Esd'. injection Esd' as <-. rewrite S2 in Ed'. injection Ed' as <-. rewrite E2 in Esg'. injection Esg' as <-. eauto. }
      destruct Hc as (good & Hc & Hg). exists good. repeat split; auto; lia.
    - injection Et as <-. eapply verify_signable_complete with (cs := cs2); eauto; try lia.
      + eapply NoDup_map_inv. rewrite Hm. exact Hn.
      + rewrite <- (map_length fst), Hm, map_length. exact Hl.
  Qed.
End Verdict.

(* ---- an envelope written and loaded back is an envelope with the same verdict *)
Lemma type_in_canon x l : jdom x = true -> type_in (canon x) l = type_in x l.
Proof. destruct x; cbn [jdom]; try discriminate; intros _; reflexivity. Qed.

Lemma canon_envelope m sm sd : two_fields m (U"signatures") (U"signed") (VDict sm) sd ->
  canon (VDict m) = VDict [(VStr (U"signatures"), canon (VDict sm)); (VStr (U"signed"), canon sd)].
Proof. intros [-> | ->]; rewrite canon_dict; reflexivity. Qed.

Lemma is_signable_canon s : jdom s = true -> is_signable s = true -> is_signable (canon s) = true.
Proof.
  intros Hd Hs. apply is_signable_iff in Hs as (m & sm & sd & -> & Htf & Hty).
  assert (Hsd : jdom sd = true).
  { destruct (two_fields_dget m (U"signatures") (U"signed") _ _ eq_refl Htf) as [_ E2]. eapply jdom_dget; eauto. }
  rewrite (canon_envelope m sm sd Htf). rewrite canon_dict.
  apply is_signable_iff. eexists _, _, (canon sd). split; [reflexivity|]. split; [left; reflexivity|].
  rewrite type_in_canon by exact Hsd. exact Hty.
Qed.

Lemma entry_small_canon v : jdom v = true -> (entry_small v <-> entry_small (canon v)).
Proof.
  intros Hd. unfold entry_small. destruct v; try (split; intros H m0 oh hb E; cbn [canon] in E; discriminate).
  destruct (canon_dict_view m Hd) as (m' & Ec & _ & _ & Hg & _). rewrite Ec. split.
  - intros H m0 oh hb [= <-] E Eh. apply (H m oh hb eq_refl); auto.
    rewrite Hg in E. destruct (dget m (U"other_headers")) as [x|]; cbn [option_map] in E; try discriminate.
    injection E as E. apply canon_str in E as ->. reflexivity.
  - intros H m0 oh hb [= <-] E Eh. apply (H m' oh hb eq_refl); auto. rewrite Hg, E. reflexivity.
Qed.

Section Verdict2.
  Variable ed_verify : bytes -> bytes -> bytes -> bool.
  Variable sha256 : bytes -> bytes.
  Notation vsig := (verify_signable ed_verify sha256).
  Notation valid := (valid_entry ed_verify sha256).

  Theorem persist_keeps_verdict s K t gpg sm :
    jdom s = true -> subscript s (U"signatures") = Ok (VDict sm) ->
    (py_truth gpg = true -> Forall (fun kv => entry_small (snd kv)) sm) ->
    (vsig (canon s) K t gpg = Ok tt <-> vsig s K t gpg = Ok tt).
  Proof.
    intros Hd Esg Hsmall.
    assert (Hsig : forall u, vsig u K t gpg = Ok tt -> is_signable u = true).
    { intros u H. apply verify_signable_ok in H as (? & ? & ? & ? & ? & ? & H & _). exact H. }
    assert (Hboth : is_signable s = true -> (vsig (canon s) K t gpg = Ok tt <-> vsig s K t gpg = Ok tt)).
    { intros Hs. pose proof (is_signable_canon s Hd Hs) as Hs'.
      apply is_signable_iff in Hs as (m & sm0 & sd & -> & Htf & Hty).
      destruct (two_fields_dget m (U"signatures") (U"signed") _ _ eq_refl Htf) as [E1 E2].
      cbn [subscript] in Esg. rewrite E1 in Esg. injection Esg as ->.
      assert (Hsd : jdom sd = true) by (eapply jdom_dget; eauto).
      assert (Hsm : jdom (VDict sm) = true) by (eapply jdom_dget; eauto).
      destruct (persist_envelope (VDict m) sm sd Hd) as (C1 & C2 & sm' & C3 & C4 & C5).
      { apply is_signable_iff. eauto 6. } { cbn [subscript]. rewrite E1. reflexivity. } { cbn [subscript]. rewrite E2. reflexivity. }
      destruct (jdom_dict_keys sm Hsm) as [Hstr Hnd].
      assert (Hnd1 : NoDup (map fst sm)).
      { clear -Hstr Hnd. induction sm as [|[k v] sm IH]; [constructor|]. inversion Hstr as [|? ? Hk Hs]; subst. inversion Hnd as [|? ? Hn Hd]; subst.
        cbn [map fst]. constructor; [|apply IH; auto]. intros Hin. apply Hn. cbn [fst]. apply in_map_iff in Hin as ([k' v'] & <- & Hin).
        apply in_map_iff. exists (k', v'). split; auto. }
      assert (Hsm' : jdom (VDict sm') = true) by (rewrite <- C4; apply jdom_canon; exact Hsm).
      destruct (jdom_dict_keys sm' Hsm') as [Hstr' Hnd'].
      assert (Hnd2 : NoDup (map fst sm')).
      { clear -Hstr' Hnd'. induction sm' as [|[k v] sm IH]; [constructor|]. inversion Hstr' as [|? ? Hk Hs]; subst. inversion Hnd' as [|? ? Hn Hd]; subst.
        cbn [map fst]. constructor; [|apply IH; auto]. intros Hin. apply Hn. cbn [fst]. apply in_map_iff in Hin as ([k' v'] & <- & Hin).
        apply in_map_iff. exists (k', v'). split; auto. }
      destruct (canonserialize sd) as [data| |] eqn:Ed.
      2:{ split; intros H; apply verify_signable_ok in H as (? & ? & sdx & dx & ? & ? & _ & _ & _ & _ & _ & Ex & Edx & _);
            [rewrite C1 in Ex; injection Ex as <-; rewrite C2 in Edx; discriminate | cbn [subscript] in Ex; rewrite E2 in Ex; injection Ex as <-; rewrite Ed in Edx; discriminate]. }
      2:{ split; intros H; apply verify_signable_ok in H as (? & ? & sdx & dx & ? & ? & _ & _ & _ & _ & _ & Ex & Edx & _);
            [rewrite C1 in Ex; injection Ex as <-; rewrite C2 in Edx; discriminate | cbn [subscript] in Ex; rewrite E2 in Ex; injection Ex as <-; rewrite Ed in Edx; discriminate]. }
      split; intros H.
      - pose proof C2 as S1.
        assert (Hs2 : is_signable (VDict m) = true) by (apply is_signable_iff; eauto 6).
        assert (E2' : subscript (VDict m) (U"signatures") = Ok (VDict sm)) by (cbn [subscript]; rewrite E1; reflexivity).
        assert (D2' : subscript (VDict m) (U"signed") = Ok sd) by (cbn [subscript]; rewrite E2; reflexivity).
        apply (transfer_acceptance ed_verify sha256 (canon (VDict m)) (VDict m) K t gpg sm' sm (canon sd) sd data H C3 C1 S1 Hnd2 Hs2 E2' D2' Ed Hsmall).
        intros kl k v1 Hin Hv. destruct Hv as (h & -> & Hrest). pose proof (In_dget_nodup sm' h v1 Hstr' Hnd' Hin) as Hg.
        rewrite C5 in Hg. destruct (dget sm h) as [v|] eqn:Eg; cbn [option_map] in Hg; try discriminate. injection Hg as <-.
        exists v. split; [apply dget_Some_In; exact Eg|].
        assert (Hjv : jdom v = true) by exact (jdom_dget sm h v Hsm Eg).
        apply (proj1 (valid_entry_canon ed_verify sha256 (py_truth gpg) kl data (VStr h) v Hjv)). exists h. split; [reflexivity|exact Hrest].
      - pose proof C2 as S1.
        assert (E2' : subscript (VDict m) (U"signatures") = Ok (VDict sm)) by (cbn [subscript]; rewrite E1; reflexivity).
        assert (D2' : subscript (VDict m) (U"signed") = Ok sd) by (cbn [subscript]; rewrite E2; reflexivity).
        assert (Hsmall' : py_truth gpg = true -> Forall (fun kv => entry_small (snd kv)) sm').
        { intros Hg. specialize (Hsmall Hg). apply Forall_forall. intros [k v'] Hin. cbn [snd].
          unfold str_keys in Hstr'. rewrite Forall_forall in Hstr'. pose proof (Hstr' _ Hin) as Hk. cbn [fst] in Hk.
          destruct k; try discriminate.
          assert (Hstr2 : str_keys sm') by (apply Forall_forall; exact Hstr').
          pose proof (In_dget_nodup sm' s v' Hstr2 Hnd' Hin) as Hg'.
          rewrite C5 in Hg'. destruct (dget sm s) as [v|] eqn:Eg; cbn [option_map] in Hg'; try discriminate. injection Hg' as <-.
          apply (proj1 (entry_small_canon v (jdom_dget sm s v Hsm Eg))). rewrite Forall_forall in Hsmall. apply (Hsmall (VStr s, v)). apply dget_Some_In; exact Eg. }
        apply (transfer_acceptance ed_verify sha256 (VDict m) (canon (VDict m)) K t gpg sm sm' sd (canon sd) data H E2' D2' Ed Hnd1 Hs' C3 C1 S1 Hsmall').
        intros kl k v1 Hin Hv. destruct Hv as (h & -> & Hrest). pose proof (In_dget_nodup sm h v1 Hstr Hnd Hin) as Hg.
        exists (canon v1). split; [apply dget_Some_In; rewrite C5, Hg; reflexivity|].
        assert (Hjv : jdom v1 = true) by exact (jdom_dget sm h v1 Hsm Hg).
        apply (proj2 (valid_entry_canon ed_verify sha256 (py_truth gpg) kl data (VStr h) v1 Hjv)). exists h. split; [reflexivity|exact Hrest]. }
    split; intros H.
    - destruct (is_signable s) eqn:Es; [apply Hboth; auto|].
      (* the loaded value is an envelope, so the stored one was: canon preserves the two-field shape *)
      exfalso. pose proof (Hsig _ H) as Hc. apply is_signable_iff in Hc as (m' & sm' & x' & Ec & Htf' & Hty').
      destruct s; try (cbn [canon] in Ec; discriminate). cbn [subscript] in Esg. destruct (dget m (U"signatures")) eqn:E1; try discriminate. injection Esg as ->.
      destruct (canon_dict_view m Hd) as (m'' & Ec' & Hl & _ & Hg & Hstr). rewrite Ec' in Ec. injection Ec as ->.
      assert (Hlen : length m = 2%nat) by (destruct Htf' as [-> | ->]; cbn in Hl; auto).
      destruct (two_fields_dget m' (U"signatures") (U"signed") _ _ eq_refl Htf') as [G1 G2]. rewrite Hg in G1, G2.
      destruct (dget m (U"signed")) as [sd|] eqn:E2; cbn [option_map] in G2; try discriminate.
      destruct (jdom_dict_keys m Hd) as [Hstrm Hndm].
      assert (Htf : two_fields m (U"signatures") (U"signed") (VDict sm) sd).
      { destruct m as [|[ka xa] [|[kb xb] [|]]]; try discriminate. cbn [dget] in E1, E2.
        destruct (key_is (U"signatures") ka) eqn:A1.
        - apply key_is_eq in A1 as ->. injection E1 as ->. change (key_is (U"signed") (VStr (U"signatures"))) with false in E2. cbv iota in E2.
          destruct (key_is (U"signed") kb) eqn:B2; [|discriminate]. apply key_is_eq in B2 as ->. injection E2 as ->. left; reflexivity.
        - destruct (key_is (U"signatures") kb) eqn:B1; [|discriminate]. apply key_is_eq in B1 as ->. injection E1 as ->.
          destruct (key_is (U"signed") ka) eqn:A2.
          + apply key_is_eq in A2 as ->. injection E2 as ->. right; reflexivity.
          + change (key_is (U"signed") (VStr (U"signatures"))) with false in E2. discriminate. }
      assert (is_signable (VDict m) = true); [|congruence].
      apply is_signable_iff. exists m, sm, sd. split; [reflexivity|]. split; [exact Htf|].
      injection G2 as G2. rewrite <- G2 in Hty'. rewrite type_in_canon in Hty'; [exact Hty'|]. eapply jdom_dget; eauto.
    - apply Hboth; auto.
  Qed.
End Verdict2.

(* SourceFamFacts.v: fail-closed behaviour of the validators as written in common.py (Gen/Source.v, interpreted): predicates always
   return a bool, raising forms return their argument or raise TypeError / ValueError -- never another exception, never Unmodelled. *)
From Coq Require Import String.
From CCT Require Import Prelude Hex Num Time Formats Json PySrc.
From CCT.Gen Require Source.
From CCT.proofs Require Import HexFacts SigFacts FamilyFacts JsonFacts DecidedFacts SourceFacts SourceSigFacts SourceEnvFacts SourceNumFacts SourceDmFacts SourceJsonFacts.
Open Scope N_scope.

(* the three answers a raising form may give *)
Definition three_way (r : res pv) (ok : pv) : Prop := r = Ok ok \/ r = Err TypeError \/ r = Err ValueError.

Lemma three_way_returns : forall (m : res unit) v,
  (m = Ok tt \/ m = Err TypeError \/ m = Err ValueError) -> three_way (returns_arg m v) v.
Proof. intros m v [-> | [-> | ->]]; unfold three_way, returns_arg; cbn; auto. Qed.

Lemma src_predicates_total : forall v,
  (exists b, run "is_hex_string" [v] = Ok (VBool b)) /\ (exists b, run "is_hex_signature" [v] = Ok (VBool b))
  /\ (exists b, run "is_hex_key" [v] = Ok (VBool b)) /\ (exists b, run "is_gpg_fingerprint" [v] = Ok (VBool b)).
Proof.
  intros v. rewrite src_is_hex_string, src_is_hex_signature, src_is_hex_key, src_is_gpg_fingerprint. repeat split; eexists; reflexivity.
Qed.

Lemma src_entry_predicates_total : forall v, outside_sorted v = false ->
  (exists b, run "is_signature" [v] = Ok (VBool b)) /\ (exists b, run "is_gpg_signature" [v] = Ok (VBool b)).
Proof. intros v O. rewrite (src_is_signature v O), (src_is_gpg_signature v O). split; eexists; reflexivity. Qed.

Lemma src_raisers_three_way : forall v,
  three_way (run "checkformat_hex_string" [v]) v /\ three_way (run "checkformat_hex_key" [v]) v
  /\ three_way (run "checkformat_gpg_fingerprint" [v]) v.
Proof.
  intros v. rewrite src_checkformat_hex_string, src_checkformat_hex_key, src_checkformat_gpg_fingerprint.
  split; [|split]; apply three_way_returns.
  - apply checkformat_hex_string_family.
  - apply checkformat_hex_key_family.
  - apply checkformat_gpg_fingerprint_family.
Qed.

Lemma src_entry_raisers_three_way : forall v, outside_sorted v = false ->
  three_way (run "checkformat_signature" [v]) v /\ three_way (run "checkformat_gpg_signature" [v]) v.
Proof.
  intros v O. rewrite (src_checkformat_signature v O), src_checkformat_gpg_signature.
  split; apply three_way_returns; [apply checkformat_signature_family | apply checkformat_gpg_signature_family3; exact O].
Qed.

(* the whole checker on the JSON domain (what json.load returns), version not text: returns None or raises TypeError / ValueError *)
Lemma src_checker_three_way : forall v, jdom v = true ->
  (forall c ve, subscript v (U"signed") = Ok c -> subscript c (U"version") = Ok ve -> not_text ve = true) ->
  three_way (run "checkformat_delegating_metadata" [v]) VNone.
Proof.
  intros v J NT. rewrite (src_checkformat_delegating_metadata v (jdom_checker_input_ok v J NT)).
  pose proof (dec_cdm v J) as D. pose proof (fam_cdm v) as F. unfold three_way.
  destruct (checkformat_delegating_metadata v) as [[]|e|]; cbn [bind]; [auto| |exfalso; apply D; reflexivity].
  destruct e; try discriminate F; auto.
Qed.

(* SourceLoadFacts.v: whatever json.load returns (the parser of JsonParse.v) has str keys, pairwise distinct, in every dict at every
   depth -- so the side conditions of the source refinement of the checker hold of every file the library can load. *)
From Coq Require Import String Lia FinFun.
From CCT Require Import Prelude Hex Num Time Formats Json JsonParse PySrc.
From CCT.proofs Require Import JsonFacts SchemaFacts SourceFacts SourceSigFacts SourceEnvFacts SourceNumFacts SourceDmFacts.
Open Scope N_scope.

Fixpoint jkeys (v : pv) : bool :=
  match v with
  | VList l => forallb jkeys l
  | VDict m => forallb (fun kv => is_str (fst kv) && jkeys (snd kv)) m && keys_nodupb (map (fun kv => key_text (fst kv)) m)
  | VTuple _ | VSet _ => false
  | _ => true
  end.

Lemma keys_nodupb_app1 : forall ks k, keys_nodupb ks = true -> existsb (ustr_eqb k) ks = false -> keys_nodupb (ks ++ [k]) = true.
Proof.
  induction ks as [|a ks IH]; intros k H E; [reflexivity|].
  cbn [keys_nodupb app] in *. apply andb_prop in H. destruct H as [H1 H2]. cbn [existsb] in E. apply orb_false_elim in E. destruct E as [E1 E2].
  rewrite IH by assumption. rewrite andb_true_r. rewrite existsb_app. cbn [existsb]. rewrite orb_false_r.
  apply negb_true_iff in H1. rewrite H1. cbn. rewrite (ustr_eqb_sym a k), E1. reflexivity.
Qed.

Lemma dset_jkeys : forall acc k x, jkeys (VDict acc) = true -> jkeys x = true -> jkeys (VDict (dset acc k x)) = true.
Proof.
  intros acc k x H X. cbn [jkeys] in *. apply andb_prop in H. destruct H as [F N].
  assert (G : forall acc, forallb (fun kv => is_str (fst kv) && jkeys (snd kv)) acc = true ->
              keys_nodupb (map (fun kv => key_text (fst kv)) acc) = true ->
              forallb (fun kv => is_str (fst kv) && jkeys (snd kv)) (dset acc k x) = true
              /\ (map (fun kv => key_text (fst kv)) (dset acc k x) = map (fun kv => key_text (fst kv)) acc
                  \/ (map (fun kv => key_text (fst kv)) (dset acc k x) = map (fun kv => key_text (fst kv)) acc ++ [k]
                      /\ existsb (ustr_eqb k) (map (fun kv => key_text (fst kv)) acc) = false))).
  { clear acc F N. induction acc as [|[a b] acc IH]; intros F N.
    - cbn. rewrite X. split; [reflexivity|]. right. split; reflexivity.
    - cbn [forallb] in F. apply andb_prop in F. destruct F as [F1 F2]. cbn [fst snd] in F1.
      cbn [map keys_nodupb fst] in N. apply andb_prop in N. destruct N as [N1 N2].
      cbn [dset]. destruct (key_is k a) eqn:K.
      + cbn [forallb fst snd map]. apply andb_prop in F1. destruct F1 as [F1a F1b]. rewrite F1a, X, F2. split; [reflexivity|]. left. reflexivity.
      + cbn [forallb fst snd map]. destruct (IH F2 N2) as [IH1 IH2]. rewrite F1, IH1. split; [reflexivity|].
        destruct IH2 as [E | [E E']]; [left; rewrite E; reflexivity|]. right. rewrite E. split; [reflexivity|].
        cbn [existsb]. rewrite E', orb_false_r. apply andb_prop in F1. destruct F1 as [F1a _]. destruct a; try discriminate F1a.
        cbn in K. cbn [key_text]. rewrite (ustr_eqb_sym k s). exact K. }
  destruct (G acc F N) as [G1 G2]. rewrite G1. cbn [andb].
  destruct G2 as [E | [E E']]; rewrite E; [exact N | apply keys_nodupb_app1; assumption].
Qed.

Definition frame_ok (f : frame) : Prop :=
  match f with FList acc => forallb jkeys acc = true | FDict acc _ => jkeys (VDict acc) = true end.
Definition st_ok (s : mst) : Prop := Forall frame_ok (stack s) /\ (forall x, result s = Some x -> jkeys x = true).

Lemma deliver_ok : forall x stk s', jkeys x = true -> Forall frame_ok stk -> deliver x stk = Some s' -> st_ok s'.
Proof.
  intros x stk s' X F D. destruct stk as [|[acc|acc [k|]] stk]; cbn in D; try discriminate D; injection D as <-.
  - split; [constructor|]. cbn. intros y [= <-]. exact X.
  - inversion F as [|? ? F1 F2]; subst. split; [|cbn; discriminate]. cbn [stack]. constructor; [|exact F2]. cbn. rewrite X. exact F1.
  - inversion F as [|? ? F1 F2]; subst. split; [|cbn; discriminate]. cbn [stack]. constructor; [|exact F2]. apply dset_jkeys; assumption.
Qed.

Lemma atom_jkeys : forall a v, atom_value a = Some v -> jkeys v = true.
Proof.
  intros a v. unfold atom_value.
  destruct (ustr_eqb a (U"true")); [intros [= <-]; reflexivity|].
  destruct (ustr_eqb a (U"false")); [intros [= <-]; reflexivity|].
  destruct (ustr_eqb a (U"null")); [intros [= <-]; reflexivity|].
  destruct (_ || _); [intros [= <-]; reflexivity|].
  destruct (number_kind a); [intros [= <-]; reflexivity | intros [= <-]; reflexivity | discriminate].
Qed.

Lemma forallb_rev_append : forall (f : pv -> bool) a b, forallb f a = true -> forallb f b = true -> forallb f (rev_append a b) = true.
Proof.
  intros f a. induction a as [|x a IH]; intros b A B; [exact B|]. cbn [rev_append]. cbn [forallb] in A. apply andb_prop in A. destruct A as [A1 A2].
  apply IH; [exact A2|]. cbn [forallb]. rewrite A1, B. reflexivity.
Qed.

Lemma step_ok : forall s t s', st_ok s -> step s t = Some s' -> st_ok s'.
Proof.
  intros s t s' [F R] S. destruct s as [stk m res]. unfold step in S. cbn [stack md result] in *.
  repeat match goal with
         | S : match ?x with _ => _ end = Some _ |- _ => destruct x eqn:?; try discriminate S
         | S : (if ?x then _ else _) = Some _ |- _ => destruct x eqn:?; try discriminate S
         end.
  all: subst.
  all: repeat match goal with F : Forall frame_ok (_ :: _) |- _ => inversion F; subst; clear F end.
  all: try (eapply deliver_ok; [ | | exact S]; [first [reflexivity | assumption | (eapply atom_jkeys; eassumption)
                                                    | (cbn [jkeys]; apply forallb_rev_append; [assumption | reflexivity])] | assumption]).
  all: try (injection S as <-; split; [cbn [stack]; repeat constructor; assumption | cbn; discriminate]).
Qed.

Lemma run_ok : forall ts s s', st_ok s -> JsonParse.run s ts = Some s' -> st_ok s'.
Proof.
  induction ts as [|t ts IH]; intros s s' H R; [injection R as <-; exact H|].
  cbn [JsonParse.run] in R. destruct (step s t) as [s1|] eqn:S; [|discriminate R]. exact (IH s1 s' (step_ok s t s1 H S) R).
Qed.

Theorem parse_jkeys : forall t v, parse t = Some v -> jkeys v = true.
Proof.
  intros t v. unfold parse. destruct (lex LDef t) as [ts|]; [|discriminate]. destruct (JsonParse.run init ts) as [f|] eqn:R; [|discriminate].
  assert (I : st_ok init) by (split; [constructor | cbn; discriminate]).
  destruct (run_ok ts init f I R) as [_ RR]. destruct (md f); try discriminate. intros H. exact (RR v H).
Qed.

Theorem load_file_jkeys : forall b v, load_file b = Ok v -> jkeys v = true.
Proof.
  intros b v. unfold load_file. destruct (negb (guessed_utf8 b)); [discriminate|]. destruct (utf8_decode (strip_bom b)) as [s|]; [|discriminate].
  destruct (parse s) as [x|] eqn:P; [|discriminate]. intros [= <-]. exact (parse_jkeys s x P).
Qed.

Lemma jkeys_dict_keys : forall m, jkeys (VDict m) = true ->
  all_str_keys m = true /\ NoDup (map fst m) /\ forallb plain_key (map fst m) = true /\ Forall (fun p => jkeys (snd p) = true) m.
Proof.
  intros m H. cbn [jkeys] in H. apply andb_prop in H. destruct H as [F K].
  apply keys_nodupb_NoDup in K. rewrite forallb_forall in F.
  assert (S : forall p, In p m -> exists k, fst p = VStr k /\ jkeys (snd p) = true).
  { intros p Hp. specialize (F p Hp). apply andb_prop in F. destruct F as [F1 F2]. destruct (fst p); try discriminate F1. eauto. }
  assert (E : map fst m = map VStr (map (fun kv => key_text (fst kv)) m)).
  { rewrite map_map. apply map_ext_in. intros p Hp. destruct (S p Hp) as (k & -> & _). reflexivity. }
  split; [|split; [|split]].
  - unfold all_str_keys. apply forallb_forall. intros p Hp. destruct (S p Hp) as (k & -> & _). reflexivity.
  - rewrite E. apply Injective_map_NoDup; [|exact K]. intros a b [= ->]. reflexivity.
  - rewrite E. apply forallb_forall. intros x Hx. apply in_map_iff in Hx. destruct Hx as (k & <- & _). reflexivity.
  - apply Forall_forall. intros p Hp. destruct (S p Hp) as (k & _ & J). exact J.
Qed.

Lemma jkeys_dict_ok : forall v, jkeys v = true -> dict_ok v.
Proof. intros v H. destruct v; try exact I. destruct (jkeys_dict_keys m H) as (_ & ND & PK & _). split; assumption. Qed.

Lemma jkeys_inside_sorted : forall v, jkeys v = true -> outside_sorted v = false.
Proof. intros v H. destruct v; try reflexivity. destruct (jkeys_dict_keys m H) as (A & _). cbn. rewrite A. reflexivity. Qed.

Lemma jkeys_subscript : forall v k x, jkeys v = true -> subscript v k = Ok x -> jkeys x = true.
Proof.
  intros v k x H S. destruct v; try discriminate S. cbn in S. destruct (dget m k) as [y|] eqn:D; [|discriminate S].
  injection S as <-. destruct (jkeys_dict_keys m H) as (_ & _ & _ & F). rewrite Forall_forall in F.
  clear H. induction m as [|[a b] m IH]; [discriminate D|]. cbn [dget] in D. destruct (key_is k a).
  - injection D as <-. exact (F (a, b) (or_introl eq_refl)).
  - apply IH; [exact D|]. intros p Hp. apply F. right. exact Hp.
Qed.

Lemma jkeys_checker_input_ok : forall v, jkeys v = true ->
  (forall c ve, subscript v (U"signed") = Ok c -> subscript c (U"version") = Ok ve -> not_text ve = true) ->
  checker_input_ok v.
Proof.
  intros v J NT. split; [apply jkeys_dict_ok; exact J|]. split.
  - intros sm S. pose proof (jkeys_subscript v _ _ J S) as Js. destruct (jkeys_dict_keys sm Js) as (A & ND & _ & F).
    split; [exact A|]. split; [exact ND|]. eapply Forall_impl; [|exact F]. intros p Hp. apply jkeys_inside_sorted. exact Hp.
  - intros c S. pose proof (jkeys_subscript v _ _ J S) as Jc. split.
    + intros dl Sd. pose proof (jkeys_subscript c _ _ Jc Sd) as Jd. destruct dl; try exact I.
      destruct (jkeys_dict_keys m Jd) as (_ & ND & _ & F). split; [exact ND|].
      eapply Forall_impl; [|exact F]. intros p Hp. apply jkeys_dict_ok. exact Hp.
    + intros ve Sv. exact (NT c ve S Sv).
Qed.

(* every file the library can load: the checker as written in common.py decides the documented schema on what was loaded *)
Theorem loaded_checker_iff_schema : forall b v, load_file b = Ok v ->
  (forall c ve, subscript v (U"signed") = Ok c -> subscript c (U"version") = Ok ve -> not_text ve = true) ->
  (run "checkformat_delegating_metadata" [v] = Ok VNone <-> dm_ok v).
Proof. intros b v L NT. exact (src_checker_iff_schema v (jkeys_checker_input_ok v (load_file_jkeys b v L) NT)). Qed.

(* and the signature-entry validators on every loaded value *)
Theorem loaded_inside_sorted : forall b v, load_file b = Ok v -> outside_sorted v = false.
Proof. intros b v L. exact (jkeys_inside_sorted v (load_file_jkeys b v L)). Qed.

(* EndToEndFacts.v: the pieces fit together -- root metadata produced by the builders (C16), signed in OpenPGP mode by
   thresholds of the old and of the new root keys (C10/C02), is accepted by verify_root as the successor (C03). *)
From CCT Require Import Prelude Hex Num Time Formats Json Auth Signing Construct.
From CCT.Gen Require Params.
From CCT.proofs Require Import HexFacts SigFacts AuthFacts SignableFacts DelegationFacts RootFacts SchemaFacts FamilyFacts TimeFacts ConstructFacts.
From Coq Require Import Lia.
Open Scope N_scope.

(* the checker on a built payload under any well-shaped signature map *)
Lemma cdm_env_shapes sm md : cdm (env [] md) = Ok tt ->
  Forall (fun kv => raw_shape (snd kv) \/ gpg_shape (snd kv)) sm -> cdm (env sm md) = Ok tt.
Proof.
  intros H F. apply checker_iff_schema in H. apply checker_iff_schema.
  destruct H as (m & sm0 & c & ty & E & Htf & Hty & _ & Hrest).
  unfold env in E. injection E as <-. destruct Htf as [E|E]; [|discriminate E]. injection E as E1 E2. subst sm0 md.
  exists [(VStr (U"signatures"), VDict sm); (VStr (U"signed"), VDict c)], sm, c, ty.
  split; [reflexivity|]. split; [left; reflexivity|]. split; [exact Hty|]. split; [exact F|exact Hrest].
Qed.

Section EndToEnd.
  Variable ed_verify : bytes -> bytes -> bytes -> bool.
  Variable sha256 : bytes -> bytes.
  Notation vroot := (verify_root ed_verify sha256).
  Notation valid := (valid_entry ed_verify sha256).

  Lemma view_built sm n1 n2 ver rk rt kk kt ts ex md :
    build_root_metadata n1 n2 ver rk rt kk kt ts ex = Ok md ->
    view (env sm md) = Ok {| rv_type := VStr (U"root"); rv_keys := rk; rv_threshold := rt; rv_version := ver |}.
  Proof.
    unfold build_root_metadata. intros H. apply build_ok_iff in H. cbv zeta in H. destruct H as (_ & _ & _ & _ & _ & ->).
    reflexivity.
  Qed.

  Theorem built_roots_chain n1 n2 n1' n2' ver ver' klo tzo kk kt ts ex kln tzn kk' kt' ts' ex' md md' z data sm0 sm cso csn :
    build_root_metadata n1 n2 ver (VList klo) (VInt tzo) kk kt ts ex = Ok md ->
    build_root_metadata n1' n2' ver' (VList kln) (VInt tzn) kk' kt' ts' ex' = Ok md' ->
    int_value ver = Some z -> int_value ver' = Some (z + 1)%Z ->
    canonserialize md' = Ok data ->
    (* both signature maps hold only raw- or OpenPGP-shaped entries (what the checker demands), the offer's entries have headers below 4 GiB *)
    Forall (fun kv => raw_shape (snd kv) \/ gpg_shape (snd kv)) sm0 ->
    Forall (fun kv => raw_shape (snd kv) \/ gpg_shape (snd kv)) sm ->
    Forall (fun kv => entry_small (snd kv)) sm ->
    (* a threshold of the old root keys and a threshold of the new root keys have valid OpenPGP-mode entries over the new payload *)
    NoDup cso -> incl cso sm -> (tzo <= Z.of_nat (length cso))%Z -> Forall (fun kv => valid true klo data (fst kv) (snd kv)) cso ->
    NoDup csn -> incl csn sm -> (tzn <= Z.of_nat (length csn))%Z -> Forall (fun kv => valid true kln data (fst kv) (snd kv)) csn ->
    vroot (env sm0 md) (env sm md') = Ok tt.
  Proof.
    intros B B' Iv Iv' Ed F0 F Fs No Io Lo Vo Nn In Ln Vn.
    destruct (root_delegates_both _ _ _ _ _ _ _ _ _ _ B) as (c & -> & Ty & _ & _ & Do & _ & C0).
    destruct (root_delegates_both _ _ _ _ _ _ _ _ _ _ B') as (c' & -> & Ty' & _ & _ & Dn & _ & C0').
    apply verify_root_iff. split; [apply cdm_env_shapes; assumption|]. split; [apply cdm_env_shapes; assumption|].
    eexists _, _, z. split; [exact (view_built sm0 _ _ _ _ _ _ _ _ _ _ B)|]. split; [exact (view_built sm _ _ _ _ _ _ _ _ _ _ B')|].
    cbn [rv_type rv_keys rv_threshold rv_version]. split; [reflexivity|]. split; [reflexivity|]. split; [exact Iv|]. split; [exact Iv'|].
    assert (Hsig : is_signable (env sm (VDict c')) = true).
    { apply is_signable_iff. exists [(VStr (U"signatures"), VDict sm); (VStr (U"signed"), VDict c')], sm, (VDict c'). split; [reflexivity|]. split; [left; reflexivity|reflexivity]. }
    assert (Hko : forallb is_hex_key klo = true /\ (1 <= tzo)%Z).
    { destruct Do as (m & th & ks & E & Htf & Fk & _ & Hn). injection E as <-. destruct Htf as [E|E]; [discriminate E|]. injection E as <- <-.
      split; [|destruct Hn as (z0 & Ez & Hz); cbn in Ez; injection Ez as <-; exact Hz].
      apply forallb_forall. intros k Hk. rewrite Forall_forall in Fk. apply is_hex_key_iff. destruct (Fk k Hk) as (h & -> & Hh). eauto. }
    assert (Hkn : forallb is_hex_key kln = true /\ (1 <= tzn)%Z).
    { destruct Dn as (m & th & ks & E & Htf & Fk & _ & Hn). injection E as <-. destruct Htf as [E|E]; [discriminate E|]. injection E as <- <-.
      split; [|destruct Hn as (z0 & Ez & Hz); cbn in Ez; injection Ez as <-; exact Hz].
      apply forallb_forall. intros k Hk. rewrite Forall_forall in Fk. apply is_hex_key_iff. destruct (Fk k Hk) as (h & -> & Hh). eauto. }
    split.
    - apply (verify_signable_complete ed_verify sha256 (env sm (VDict c')) klo tzo (VBool true) (VDict c') data sm cso); try tauto; try reflexivity; auto.
    - apply (verify_signable_complete ed_verify sha256 (env sm (VDict c')) kln tzn (VBool true) (VDict c') data sm csn); try tauto; try reflexivity; auto.
  Qed.
End EndToEnd.

(* StripFacts.v: verify_root's acceptance survives removing every entry of the unsigned signature map that does not
   count for the trusted root's rule or for the offered root's own rule (C06, third verifier). *)
From CCT Require Import Prelude Hex Num Time Formats Json Auth.
From CCT.Gen Require Params.
From CCT.proofs Require Import HexFacts SigFacts AuthFacts SignableFacts DelegationFacts RootFacts SchemaFacts.
From Coq Require Import Lia.
Open Scope N_scope.

(* the checker on an envelope with fewer signature entries *)
Lemma cdm_submap sm sm' sd : incl sm' sm -> cdm (mk_env sm sd) = Ok tt -> cdm (mk_env sm' sd) = Ok tt.
Proof.
  intros Hi H. apply checker_iff_schema in H. apply checker_iff_schema.
  destruct H as (m & sm0 & c & ty & E & Htf & Hty & Fs & Hrest).
  unfold mk_env in E. injection E as <-.
  destruct Htf as [E|E]; [|discriminate E]. injection E as E1 E2. subst sm0 sd.
  exists [(VStr (U"signatures"), VDict sm'); (VStr (U"signed"), VDict c)], sm', c, ty.
  split; [reflexivity|]. split; [left; reflexivity|]. split; [exact Hty|]. split; [|exact Hrest].
  apply Forall_forall. intros kv Hin. rewrite Forall_forall in Fs. apply Fs. apply Hi. exact Hin.
Qed.

Section Strip.
  Variable ed_verify : bytes -> bytes -> bytes -> bool.
  Variable sha256 : bytes -> bytes.
  Notation vsig := (verify_signable ed_verify sha256).
  Notation vroot := (verify_root ed_verify sha256).
  Notation ecount := (entry_counts ed_verify sha256).

  Lemma view_mk_env sm sm' sd : view (mk_env sm sd) = view (mk_env sm' sd).
  Proof. reflexivity. Qed.

  (* any sub-map that keeps every entry counting for the trusted rule or for the offered root's own rule *)
  Theorem root_submap t sm sm' sd data tv uv klo kln :
    canonserialize sd = Ok data -> NoDup sm -> NoDup sm' -> incl sm' sm ->
    view t = Ok tv -> rv_keys tv = VList klo -> view (mk_env sm sd) = Ok uv -> rv_keys uv = VList kln ->
    (forall kv, In kv sm -> counts (ecount true klo data) kv = true \/ counts (ecount true kln data) kv = true -> In kv sm') ->
    vroot t (mk_env sm sd) = Ok tt -> vroot t (mk_env sm' sd) = Ok tt.
  Proof.
    intros Ed Hn Hn' Hi Vt Ko Vu Kn Hkeep H.
    apply verify_root_iff in H as (Et & Eu & tv' & uv' & tz & Vt' & Vu' & T1 & T2 & I1 & I2 & V1 & V2).
    rewrite Vt in Vt'. injection Vt' as <-. rewrite Vu in Vu'. injection Vu' as <-.
    apply verify_root_iff. split; [exact Et|]. split; [apply (cdm_submap sm sm' sd Hi Eu)|].
    exists tv, uv, tz. rewrite <- (view_mk_env sm sm' sd). repeat (split; auto).
    - rewrite Ko in *. apply (vsig_submap ed_verify sha256 sm sm' sd klo (rv_threshold tv) (VBool true) data); auto.
    - rewrite Kn in *. apply (vsig_submap ed_verify sha256 sm sm' sd kln (rv_threshold uv) (VBool true) data); auto.
  Qed.

  Definition strip_root (klo kln : list pv) (data : bytes) (sm : list (pv * pv)) : list (pv * pv) :=
    filter (fun kv => counts (ecount true klo data) kv || counts (ecount true kln data) kv) sm.

  Theorem strip_preserves_root t sm sd data tv uv klo kln :
    canonserialize sd = Ok data -> NoDup sm ->
    view t = Ok tv -> rv_keys tv = VList klo -> view (mk_env sm sd) = Ok uv -> rv_keys uv = VList kln ->
    vroot t (mk_env sm sd) = Ok tt -> vroot t (mk_env (strip_root klo kln data sm) sd) = Ok tt.
  Proof.
    intros Ed Hn Vt Ko Vu Kn H.
    apply (root_submap t sm (strip_root klo kln data sm) sd data tv uv klo kln); auto.
    - apply NoDup_filter; exact Hn.
    - intros kv Hin. apply filter_In in Hin. tauto.
    - intros kv Hin Hc. apply filter_In. split; [exact Hin|]. apply orb_true_iff. exact Hc.
  Qed.

  (* contrapositive, as the property states it: nothing added to the signature map, short of an entry that counts,
     turns a rejection into an acceptance *)
  Theorem junk_never_helps_root t sm extra sd data tv uv klo kln :
    canonserialize sd = Ok data -> NoDup (sm ++ extra) ->
    view t = Ok tv -> rv_keys tv = VList klo -> view (mk_env sm sd) = Ok uv -> rv_keys uv = VList kln ->
    Forall (fun kv => counts (ecount true klo data) kv = false /\ counts (ecount true kln data) kv = false) extra ->
    vroot t (mk_env (sm ++ extra) sd) = Ok tt -> vroot t (mk_env sm sd) = Ok tt.
  Proof.
    intros Ed Hn Vt Ko Vu Kn Hx H.
    apply (root_submap t (sm ++ extra) sm sd data tv uv klo kln); auto.
    - clear -Hn. induction sm as [|x sm IH]; [constructor|]. cbn [app] in Hn. inversion Hn as [|? ? Hx Hr]; subst.
      constructor; [intros Hin; apply Hx; apply in_or_app; left; exact Hin|apply IH; exact Hr].
    - intros kv Hin. apply in_or_app. left; exact Hin.
    - intros kv Hin Hc. apply in_app_or in Hin as [Hin|Hin]; [exact Hin|].
      rewrite Forall_forall in Hx. destruct (Hx _ Hin) as [H1 H2]. destruct Hc as [Hc|Hc]; congruence.
  Qed.
End Strip.

(* SourceRootFacts.v: verify_root of authentication.py (Gen/Source.v, interpreted; verify_signable answered by the model) against its model. *)
From Coq Require Import String Lia.
From CCT Require Import Prelude Hex Num Time Formats Json Auth PySrc.
From CCT.Gen Require Source Params.
From CCT.proofs Require Import SchemaFacts FamilyFacts SourceFacts SourceSigFacts SourceEnvFacts SourceNumFacts SourceDmFacts SourceAuthFacts.
Open Scope N_scope.

Local Arguments checkformat_delegating_metadata : simpl never.
Local Arguments verify_signable : simpl never.

(* what an accepted document lets the verifier read *)
Lemma cdm_fields : forall v, checkformat_delegating_metadata v = Ok tt ->
  exists c ty dl, subscript v (U"signed") = Ok (VDict c) /\ dget c (U"type") = Some (VStr ty)
    /\ dget c (U"delegations") = Some dl /\ delegations_ok dl
    /\ (ty = U"root" -> exists ve, dget c (U"version") = Some ve /\ natural ve).
Proof.
  intros v H. apply checker_iff_schema in H.
  destruct H as (m & sm & c & ty & -> & TF & _ & _ & DT & _ & _ & (dl & DD & DO) & _ & _ & RV & _ & NV).
  exists c, ty, dl. split; [|split; [exact DT|split; [exact DD|split; [exact DO|]]]].
  - destruct TF as [-> | ->]; reflexivity.
  - intros E. specialize (RV E). unfold dhas in RV. destruct (dget c (U"version")) as [ve|] eqn:DV; [|discriminate RV].
    exists ve. split; [reflexivity | exact (NV ve DV)].
Qed.

Lemma delegations_root : forall dl b, delegations_ok dl -> py_in_str (U"root") dl = Ok b ->
  b = true -> exists re th ks, subscript dl (U"root") = Ok re /\ subscript re (U"threshold") = Ok th /\ subscript re (U"pubkeys") = Ok (VList ks).
Proof.
  intros dl b (m & -> & F) I ->. cbn in I. injection I as I. unfold dhas in I.
  destruct (dget m (U"root")) as [re|] eqn:D; [|discriminate I].
  assert (DOK : delegation_ok re).
  { rewrite Forall_forall in F. clear I. induction m as [|[k d] m IH]; [discriminate D|]. cbn [dget] in D. destruct (key_is (U"root") k).
    - injection D as <-. exact (proj2 (F (k, d) (or_introl eq_refl))).
    - apply IH; [intros x Hx; apply F; right; exact Hx | exact D]. }
  destruct DOK as (dm & th & ks & -> & TF & _).
  exists (VDict dm), th, ks. cbn [subscript]. rewrite D. split; [reflexivity|]. destruct TF as [-> | ->]; split; reflexivity.
Qed.

Lemma natural_int : forall v, natural v -> exists z, py_int v = Ok (IntIs z true) /\ not_text v = true.
Proof.
  intros v (z & IV & _). unfold int_value in IV. destruct v; try discriminate IV.
  - exists (if b then 1 else 0)%Z. split; reflexivity.
  - exists z0. split; reflexivity.
  - cbn [py_int]. destruct (float_view r) eqn:F; try discriminate IV. exists z0. split; reflexivity.
Qed.

Lemma natural_eq_int : forall v c, natural v -> py_eq (VInt c) v = Ok (py_eq_int v c).
Proof.
  intros v c (z & IV & _). unfold int_value in IV. destruct v; try discriminate IV.
  - cbn. unfold py_eq_int. cbn. unfold cmp_Z. destruct b; destruct (Z.compare_spec 1 c), (Z.eqb_spec c 1); try reflexivity; try lia;
      destruct (Z.compare_spec 0 c), (Z.eqb_spec c 0); try reflexivity; lia.
  - cbn. unfold py_eq_int. cbn. unfold cmp_Z. destruct (Z.compare_spec z0 c), (Z.eqb_spec c z0); try reflexivity; lia.
  - cbn [py_eq]. unfold py_eq_int. cbn [num_cmp_int]. destruct (float_view r) eqn:F; try discriminate IV. cbn.
    unfold cmp_Z. destruct (z0 ?= c)%Z; reflexivity.
Qed.

Lemma int_builtin : forall v, not_text v = true ->
  call_builtin "int" [v] = (r <- py_int v ;; match r with IntIs z _ => Ok (VInt z) end).
Proof. intros v H. destruct v; try discriminate H; reflexivity. Qed.

Section Root.
  Variable ed_verify : bytes -> bytes -> bytes -> bool.
  Variable sha256 : bytes -> bytes.
  Notation callee0 := (deleg_callee ed_verify sha256).

  Definition root_inputs_ok (t u : pv) : Prop := checker_input_ok t /\ checker_input_ok u.

  Ltac r_call g :=
    match goal with H : ?callee = deleg_callee _ _ |- context [?callee g ?a] =>
      replace (callee g a) with (run g a) by (rewrite H; unfold deleg_callee; cbn [String.eqb Ascii.eqb Bool.eqb]; reflexivity) end.

  Lemma src_verify_root : forall t u, root_inputs_ok t u ->
    run_body callee0 Source.src_verify_root [t; u] = (verify_root ed_verify sha256 t u ;;; Ok VNone).
  Proof.
    intros t u [Wt Wu].
    remember (verify_root ed_verify sha256 t u ;;; Ok VNone) as rhs eqn:Hr.
    remember callee0 as callee eqn:Hcallee.
    scbn.
    r_call "checkformat_delegating_metadata"%string. rewrite (src_checkformat_delegating_metadata t Wt).
    unfold verify_root in Hr.
    destruct (checkformat_delegating_metadata t) as [[]|e|] eqn:CT; scbn; [|subst rhs; reflexivity|subst rhs; reflexivity].
    r_call "checkformat_delegating_metadata"%string. rewrite (src_checkformat_delegating_metadata u Wu).
    destruct (checkformat_delegating_metadata u) as [[]|e|] eqn:CU; scbn; [|subst rhs; reflexivity|subst rhs; reflexivity].
    cbn [bind] in Hr.
    destruct (cdm_fields t CT) as (ct & tty & tdl & St & Dtt & Dtd & Otd & Vt).
    destruct (cdm_fields u CU) as (cu & uty & udl & Su & Dut & Dud & Oud & Vu).
    rewrite St, Su in *. scbn. cbn [subscript bind] in Hr. rewrite Dtt, Dut. rewrite Dtt, Dut in Hr. scbn. cbn [bind] in Hr.
    unfold str_ne in Hr. cbn [key_is] in Hr.
    destruct (ustr_eqb tty (U"root")) eqn:Et; scbn; [|subst rhs; reflexivity].
    destruct (ustr_eqb uty (U"root")) eqn:Eu; scbn; [|subst rhs; reflexivity].
    cbn [negb orb bind] in Hr.
    apply ustr_eqb_eq in Et. apply ustr_eqb_eq in Eu.
    destruct (Vt Et) as (tv & Dtv & Ntv). destruct (Vu Eu) as (uv & Duv & Nuv).
    rewrite St, Su. scbn. rewrite Dtd, Dud. rewrite Dtd, Dud in Hr. scbn. cbn [bind] in Hr.
    assert (It : exists bt, py_in_str (U"root") tdl = Ok bt) by (destruct Otd as (mm & -> & _); eexists; reflexivity).
    assert (Iu : exists bu, py_in_str (U"root") udl = Ok bu) by (destruct Oud as (mm & -> & _); eexists; reflexivity).
    destruct It as [bt It]. destruct Iu as [bu Iu]. rewrite It, Iu. rewrite It, Iu in Hr. scbn. cbn [bind] in Hr.
    destruct bt; scbn; [|subst rhs; reflexivity].
    destruct bu; scbn; [|subst rhs; reflexivity].
    cbn [negb] in Hr.
    destruct (delegations_root tdl true Otd It eq_refl) as (re & th & ks & R1 & R2 & R3).
    destruct (delegations_root udl true Oud Iu eq_refl) as (nre & nth & nks & N1 & N2 & N3).
    rewrite R1, N1 in Hr. cbn [bind] in Hr. rewrite R2, R3, N2, N3 in Hr. cbn [bind] in Hr. rewrite Dtv, Duv in Hr. cbn [bind] in Hr.
    repeat (first [rewrite St | rewrite Su | rewrite Dtd | rewrite Dud | rewrite R1 | rewrite N1 | rewrite R2 | rewrite R3 | rewrite N2 | rewrite N3
                  | rewrite Dtv | rewrite Duv | progress scbn]).
    destruct (natural_int tv Ntv) as (tz & PI & NT).
    replace (callee "int"%string [tv]) with (call_builtin "int" [tv])
      by (rewrite Hcallee; unfold deleg_callee; cbn [String.eqb Ascii.eqb Bool.eqb]; reflexivity).
    rewrite (int_builtin tv NT), PI. cbn [bind threshold_like].
    rewrite (natural_eq_int uv (tz + 1) Nuv). scbn.
    rewrite PI in Hr.
    destruct (py_eq_int uv (tz + 1)); scbn; [|subst rhs; reflexivity].
    cbn [negb] in Hr.
    repeat match goal with |- context [?c "verify_signable"%string ?a] =>
      match a with [?x1; ?x2; ?x3; ?x4] =>
        replace (c "verify_signable"%string a) with (verify_signable ed_verify sha256 x1 x2 x3 x4 ;;; Ok VNone)
          by (rewrite Hcallee; unfold deleg_callee; cbn [String.eqb Ascii.eqb Bool.eqb]; reflexivity) end end.
    subst rhs.
    destruct (verify_signable ed_verify sha256 u (VList ks) th (VBool true)) as [[]|?|]; scbn; try reflexivity.
    match goal with |- context [?c "verify_signable"%string ?a] =>
      match a with [?x1; ?x2; ?x3; ?x4] =>
        replace (c "verify_signable"%string a) with (verify_signable ed_verify sha256 x1 x2 x3 x4 ;;; Ok VNone)
          by (rewrite Hcallee; unfold deleg_callee; cbn [String.eqb Ascii.eqb Bool.eqb]; reflexivity) end end.
    destruct (verify_signable ed_verify sha256 u (VList nks) nth (VBool true)) as [[]|?|]; reflexivity.
  Qed.
End Root.

From CCT.proofs Require RootFacts.

(* the iff of C03, of the source text *)
Lemma src_verify_root_iff : forall ed_verify sha256 t u, root_inputs_ok t u ->
  (run_body (deleg_callee ed_verify sha256) Source.src_verify_root [t; u] = Ok VNone <-> RootFacts.Link ed_verify sha256 t u).
Proof.
  intros ed_verify sha256 t u W. rewrite (src_verify_root ed_verify sha256 t u W). rewrite <- RootFacts.verify_root_iff.
  destruct (verify_root ed_verify sha256 t u) as [[]|e|]; cbn [bind]; split; intros H; try reflexivity; discriminate H.
Qed.

(* SortFacts.v: the key order of the serializer (code-point lexicographic) is a total order; insertion sort by key
   is idempotent and sends permutations with distinct keys to the same list. *)
From CCT Require Import Prelude Json.
From CCT.proofs Require Import HexFacts.
From Coq Require Import Lia ZifyN ZifyBool Permutation Sorted.
Open Scope N_scope.

Lemma ltb_irrefl a : ustr_ltb a a = false.
Proof. induction a as [|x a IH]; cbn; [reflexivity|]. rewrite IH. rewrite N.ltb_irrefl, andb_false_r. reflexivity. Qed.

Lemma ltb_asym a : forall b, ustr_ltb a b = true -> ustr_ltb b a = false.
Proof.
  induction a as [|x a IH]; intros [|y b]; cbn; try discriminate; auto.
  intros H. apply orb_true_iff in H as [H|H].
  - assert ((y <? x) = false) as -> by lia. assert ((y =? x) = false) as -> by lia. reflexivity.
  - apply andb_true_iff in H as [H1 H2]. assert ((y <? x) = false) as -> by lia. rewrite (IH _ H2). apply andb_false_r.
Qed.

Lemma ltb_trans a : forall b c, ustr_ltb a b = true -> ustr_ltb b c = true -> ustr_ltb a c = true.
Proof.
  induction a as [|x a IH]; intros [|y b] [|z c]; cbn; try discriminate; auto.
  intros H1 H2. apply orb_true_iff in H1. apply orb_true_iff in H2. apply orb_true_iff.
  destruct H1 as [H1|H1]; destruct H2 as [H2|H2].
  - left. lia.
  - apply andb_true_iff in H2 as [H2 _]. left. lia.
  - apply andb_true_iff in H1 as [H1 _]. left. lia.
  - apply andb_true_iff in H1 as [H1 H1']. apply andb_true_iff in H2 as [H2 H2']. right. apply andb_true_iff. split; [lia|eauto].
Qed.

Lemma ltb_total a : forall b, ustr_ltb a b = false -> ustr_ltb b a = false -> a = b.
Proof.
  induction a as [|x a IH]; intros [|y b]; cbn; try discriminate; auto.
  intros H1 H2. apply orb_false_iff in H1 as [H1 H1']. apply orb_false_iff in H2 as [H2 H2'].
  assert (x = y) by lia. subst. rewrite N.eqb_refl in *. cbn in *. f_equal. auto.
Qed.

Lemma leb_refl a : ustr_leb a a = true.
Proof. unfold ustr_leb. rewrite ltb_irrefl. reflexivity. Qed.

Lemma leb_total a b : ustr_leb a b = false -> ustr_leb b a = true.
Proof. unfold ustr_leb. rewrite negb_false_iff, negb_true_iff. apply ltb_asym. Qed.

Lemma leb_antisym a b : ustr_leb a b = true -> ustr_leb b a = true -> a = b.
Proof. unfold ustr_leb. rewrite !negb_true_iff. intros H1 H2. apply ltb_total; auto. Qed.

Lemma leb_trans a b c : ustr_leb a b = true -> ustr_leb b c = true -> ustr_leb a c = true.
Proof.
  unfold ustr_leb. rewrite !negb_true_iff. intros H1 H2.
  destruct (ustr_ltb c a) eqn:E; [|reflexivity].
  (* c < a, not b < a, not c < b *)
  destruct (ustr_ltb a b) eqn:Eab.
  - pose proof (ltb_trans _ _ _ E Eab). congruence.
  - pose proof (ltb_total _ _ Eab H1). subst. congruence.
Qed.

Section Sorting.
  Context {A : Type}.
  Definition kle (a b : ustr * A) : Prop := ustr_leb (fst a) (fst b) = true.

  Lemma In_insert (kx y : ustr * A) l : In y (insert_kv kx l) <-> y = kx \/ In y l.
  Proof.
    induction l as [|h l IH]; cbn [insert_kv]; [cbn; intuition|].
    destruct (ustr_leb (fst kx) (fst h)); cbn [In]; [intuition|]. rewrite IH. intuition.
  Qed.

  Lemma insert_sorted kx l : StronglySorted kle l -> StronglySorted kle (insert_kv kx l).
  Proof.
    induction 1 as [|h l Hs IH Hh]; cbn [insert_kv]; [repeat constructor|].
    destruct (ustr_leb (fst kx) (fst h)) eqn:E.
    - constructor; [constructor; auto|]. constructor; [exact E|].
      rewrite Forall_forall in *. intros y Hy. eapply leb_trans; [exact E|]. apply Hh; auto.
    - constructor; [exact IH|]. rewrite Forall_forall in *. intros y Hy. apply In_insert in Hy as [->|Hy]; [|auto].
      apply leb_total; exact E.
  Qed.

  Lemma sort_sorted (l : list (ustr * A)) : StronglySorted kle (sort_kv l).
  Proof. induction l as [|h l IH]; cbn [sort_kv]; [constructor|]. apply insert_sorted; exact IH. Qed.

  Lemma sorted_sort_id (l : list (ustr * A)) : StronglySorted kle l -> sort_kv l = l.
  Proof.
    induction 1 as [|h l Hs IH Hh]; [reflexivity|]. cbn [sort_kv]. rewrite IH.
    destruct l as [|b l]; [reflexivity|]. cbn [insert_kv]. inversion Hh as [|? ? Hb _]; subst. unfold kle in Hb. rewrite Hb. reflexivity.
  Qed.

  Lemma sort_kv_idem (l : list (ustr * A)) : sort_kv (sort_kv l) = sort_kv l.
  Proof. apply sorted_sort_id, sort_sorted. Qed.

  Lemma insert_perm (kx : ustr * A) l : Permutation (insert_kv kx l) (kx :: l).
  Proof.
    induction l as [|h l IH]; cbn [insert_kv]; [reflexivity|].
    destruct (ustr_leb (fst kx) (fst h)); [reflexivity|]. rewrite IH. apply perm_swap.
  Qed.

  Lemma sort_perm (l : list (ustr * A)) : Permutation (sort_kv l) l.
  Proof. induction l as [|h l IH]; cbn [sort_kv]; [reflexivity|]. rewrite insert_perm. constructor. exact IH. Qed.

  (* two sorted lists with the same entries and pairwise distinct keys are equal *)
  Lemma sorted_perm_eq l : forall l', StronglySorted kle l -> StronglySorted kle l' -> Permutation l l' ->
    NoDup (map fst l) -> l = l'.
  Proof.
    induction l as [|a t IH]; intros l' Hs Hs' Hp Hnd.
    - apply Permutation_nil in Hp. auto.
    - destruct l' as [|a' t']; [apply Permutation_sym, Permutation_nil in Hp; discriminate|].
      inversion Hs as [|? ? Hst Ha]; subst. inversion Hs' as [|? ? Hst' Ha']; subst.
      inversion Hnd as [|? ? Hnin Hnd']; subst.
      assert (a = a') as <-.
      { assert (Hin : In a (a' :: t')) by (eapply Permutation_in; [exact Hp|left; reflexivity]).
        assert (Hin' : In a' (a :: t)) by (eapply Permutation_in; [symmetry; exact Hp|left; reflexivity]).
        destruct Hin as [->|Hin]; [reflexivity|]. destruct Hin' as [->|Hin']; [reflexivity|].
        exfalso. rewrite Forall_forall in Ha, Ha'.
        pose proof (Ha _ Hin') as L1. pose proof (Ha' _ Hin) as L2. unfold kle in *.
        pose proof (leb_antisym _ _ L1 L2) as E. apply Hnin. rewrite E. apply in_map. exact Hin'. }
      f_equal. apply IH; auto. eapply Permutation_cons_inv; eauto.
  Qed.

  Lemma sort_perm_eq (l l' : list (ustr * A)) : Permutation l l' -> NoDup (map fst l) -> sort_kv l = sort_kv l'.
  Proof.
    intros Hp Hnd. apply sorted_perm_eq; try apply sort_sorted.
    - rewrite sort_perm, sort_perm. exact Hp.
    - eapply Permutation_NoDup; [apply Permutation_map; symmetry; apply sort_perm|exact Hnd].
  Qed.
End Sorting.

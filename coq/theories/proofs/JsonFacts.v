(* JsonFacts.v: the canonical serializer on JSON values -- totality, the token stream of its output,
   parse (serialize v) = canon v, injectivity, order independence (C07, C08). *)
From CCT Require Import Prelude Hex Json JsonParse.
From CCT.proofs Require Import HexFacts SigFacts FamilyFacts JsonLexFacts SortFacts.
From Coq Require Import Lia ZifyN ZifyNat ZifyBool Permutation.
From Coq Require DecimalN DecimalPos DecimalFacts.
Open Scope N_scope.

(* ---- the domain: what a JSON parser can return, well formed *)
Definition float_token (r : ustr) : bool :=
  match r with [] => false | _ => forallb is_atom_char r end
  && match atom_value r with Some (VFloat _) => true | _ => false end.

Fixpoint keys_nodupb (ks : list ustr) : bool :=
  match ks with [] => true | k :: r => negb (existsb (ustr_eqb k) r) && keys_nodupb r end.

Fixpoint jdom (v : pv) : bool :=
  match v with
  | VNone | VBool _ | VInt _ => true
  | VFloat r => float_token r
  | VStr s => wf_str s
  | VList l => forallb jdom l
  | VDict m =>
      forallb (fun kv => match fst kv with VStr k => wf_str k | _ => false end && jdom (snd kv)) m
      && keys_nodupb (map (fun kv => key_text (fst kv)) m)
  | _ => false
  end.

(* ---- the serializer as a pure function on the domain *)
Fixpoint pser (lvl : nat) (v : pv) : ustr :=
  match v with
  | VNone => U"null"
  | VBool true => U"true"
  | VBool false => U"false"
  | VInt z => dec_of_Z z
  | VFloat r => r
  | VStr s => quote s
  | VList l | VTuple l =>
      match l with
      | [] => U"[]"
      | _ => [91] ++ join_items (S lvl) (map (pser (S lvl)) l) ++ nl lvl ++ [93]
      end
  | VDict m =>
      match m with
      | [] => U"{}"
      | _ => [123] ++ join_items (S lvl)
                        (map (fun kb => quote (fst kb) ++ [58; 32] ++ snd kb)
                             (sort_kv (map (fun kv => (key_text (fst kv), pser (S lvl) (snd kv))) m)))
                   ++ nl lvl ++ [125]
      end
  | _ => []
  end.

Lemma ser_items_ok lvl l : Forall (fun v => forall lvl, ser lvl v = Ok (pser lvl v)) l ->
  (fix go (l : list pv) : res (list ustr) :=
     match l with [] => Ok [] | x :: r => b <- ser (S lvl) x ;; bs <- go r ;; Ok (b :: bs) end) l
  = Ok (map (pser (S lvl)) l).
Proof.
  induction 1 as [|x l Hx F IH]; [reflexivity|]. cbv beta iota fix. rewrite Hx. cbn [bind]. rewrite IH. reflexivity.
Qed.

Lemma ser_kvs_ok lvl (m : list (pv * pv)) : Forall (fun kv => forall lvl, ser lvl (snd kv) = Ok (pser lvl (snd kv))) m ->
  (fix go (m : list (pv * pv)) : res (list (ustr * ustr)) :=
     match m with [] => Ok [] | (k, x) :: r => b <- ser (S lvl) x ;; bs <- go r ;; Ok ((key_text k, b) :: bs) end) m
  = Ok (map (fun kv => (key_text (fst kv), pser (S lvl) (snd kv))) m).
Proof.
  induction 1 as [|[k x] m Hx F IH]; [reflexivity|]. cbv beta iota fix. cbn [snd] in Hx. rewrite Hx. cbn [bind]. rewrite IH. reflexivity.
Qed.

Theorem ser_pser : forall v lvl, jdom v = true -> ser lvl v = Ok (pser lvl v).
Proof.
  induction v using pv_ind'; intros lvl Hd; cbn [jdom] in Hd; try discriminate; cbn [ser pser]; try reflexivity.
  - destruct b; reflexivity.
  - destruct l as [|x l]; [reflexivity|].
    rewrite (ser_items_ok lvl (x :: l)); [reflexivity|].
    rewrite forallb_forall in Hd. rewrite Forall_forall in *. intros y Hy lvl'. apply H; auto.
  - destruct m as [|kv m]; [reflexivity|].
    apply andb_true_iff in Hd as [Hd _]. rewrite forallb_forall in Hd.
    assert (forallb (fun kv0 => is_str (fst kv0)) (kv :: m) = true) as ->.
    { apply forallb_forall. intros y Hy. specialize (Hd y Hy). destruct (fst y); try discriminate. reflexivity. }
    cbn [negb]. rewrite (ser_kvs_ok lvl (kv :: m)); [reflexivity|].
    rewrite Forall_forall in *. intros y Hy lvl'. apply H; auto. specialize (Hd y Hy). apply andb_true_iff in Hd as [_ Hd]. exact Hd.
Qed.

(* ---- sorting by key commutes with a map over the values *)
Lemma insert_kv_map {A B} (f : A -> B) k x (l : list (ustr * A)) :
  insert_kv (k, f x) (map (fun kx => (fst kx, f (snd kx))) l) = map (fun kx => (fst kx, f (snd kx))) (insert_kv (k, x) l).
Proof.
  induction l as [|[k' y] l IH]; [reflexivity|]. cbn [map insert_kv fst snd].
  destruct (ustr_leb k k'); [reflexivity|]. cbn [map fst snd]. rewrite IH. reflexivity.
Qed.

Lemma sort_kv_map {A B} (f : A -> B) (l : list (ustr * A)) :
  sort_kv (map (fun kx => (fst kx, f (snd kx))) l) = map (fun kx => (fst kx, f (snd kx))) (sort_kv l).
Proof.
  induction l as [|[k x] l IH]; [reflexivity|]. cbn [map sort_kv fst snd]. rewrite IH. apply insert_kv_map.
Qed.

Lemma In_insert_kv {A} (kx y : ustr * A) l : In y (insert_kv kx l) <-> y = kx \/ In y l.
Proof.
  induction l as [|h l IH]; cbn [insert_kv]; [cbn; intuition|].
  destruct (ustr_leb (fst kx) (fst h)); cbn [In]; [intuition|]. rewrite IH. intuition.
Qed.

Lemma In_sort_kv {A} (y : ustr * A) l : In y (sort_kv l) <-> In y l.
Proof.
  induction l as [|h l IH]; cbn [sort_kv]; [reflexivity|]. rewrite In_insert_kv, IH. cbn. intuition.
Qed.

(* the entries of a dict in serialization order *)
Definition entries (m : list (pv * pv)) : list (ustr * pv) := sort_kv (map (fun kv => (key_text (fst kv), snd kv)) m).

Lemma pser_dict lvl kv m :
  pser lvl (VDict (kv :: m)) =
  [123] ++ join_items (S lvl) (map (fun kx => quote (fst kx) ++ [58; 32] ++ pser (S lvl) (snd kx)) (entries (kv :: m))) ++ nl lvl ++ [125].
Proof.
  cbn [pser]. f_equal. f_equal. f_equal. unfold entries.
  replace (map (fun kv0 => (key_text (fst kv0), pser (S lvl) (snd kv0))) (kv :: m))
    with (map (fun kx => (fst kx, pser (S lvl) (snd kx))) (map (fun kv0 => (key_text (fst kv0), snd kv0)) (kv :: m)))
    by (rewrite map_map; reflexivity).
  rewrite sort_kv_map, map_map. reflexivity.
Qed.

Lemma canon_go m :
  (fix go (m0 : list (pv * pv)) : list (ustr * pv) :=
     match m0 with [] => [] | (k, x) :: r => (key_text k, canon x) :: go r end) m
  = map (fun kx => (fst kx, canon (snd kx))) (map (fun kv0 => (key_text (fst kv0), snd kv0)) m).
Proof. induction m as [|[k x] m IH]; [reflexivity|]. cbn [map fst snd]. rewrite <- IH. reflexivity. Qed.

Lemma canon_dict m :
  canon (VDict m) = VDict (map (fun kx => (VStr (fst kx), canon (snd kx))) (entries m)).
Proof.
  cbn [canon]. f_equal. unfold entries. rewrite canon_go, sort_kv_map, map_map. reflexivity.
Qed.

Lemma entries_nil_iff m : entries m = [] <-> m = [].
Proof.
  split; [|intros ->; reflexivity]. destruct m as [|kv m]; [reflexivity|]. intros H.
  assert (In (key_text (fst kv), snd kv) (entries (kv :: m))) by (apply In_sort_kv; left; reflexivity).
  rewrite H in H0. destruct H0.
Qed.

(* ---- atoms written by the serializer are read back as the same values *)
Lemma uint_to_ustr_digits u : forallb is_digit_c (uint_to_ustr u) = true.
Proof. induction u; cbn; auto. Qed.

Lemma uint_of_to u : uint_of_chars (uint_to_ustr u) = u.
Proof. induction u; cbn; congruence. Qed.

Lemma span_digits_all d : forallb is_digit_c d = true -> span_digits d = (d, []).
Proof.
  induction d as [|c d IH]; intros H; [reflexivity|]. cbn [forallb] in H. apply andb_true_iff in H as [Hc Hd].
  cbn [span_digits]. rewrite Hc, (IH Hd). reflexivity.
Qed.

Lemma nzhead_head d : match Decimal.nzhead d with Decimal.D0 _ => False | _ => True end.
Proof. induction d; cbn; auto. Qed.

Lemma digit_is_atom c : is_digit_c c = true -> is_atom_char c = true.
Proof. intros H. unfold is_atom_char. rewrite H. reflexivity. Qed.

Lemma dec_of_N_props n :
  dec_of_N n <> [] /\ forallb is_digit_c (dec_of_N n) = true /\ int_part_ok (dec_of_N n) = true
  /\ N.of_uint (uint_of_chars (dec_of_N n)) = n.
Proof.
  unfold dec_of_N. pose proof (uint_to_ustr_digits (N.to_uint n)) as Hd.
  assert (Hnorm : Decimal.unorm (N.to_uint n) = N.to_uint n).
  { rewrite <- DecimalN.Unsigned.to_of. rewrite DecimalN.Unsigned.of_to. reflexivity. }
  split; [|split; [exact Hd|split]].
  - destruct n; cbn; [discriminate|]. pose proof (DecimalPos.Unsigned.to_uint_nonnil p).
    destruct (Pos.to_uint p); cbn; try discriminate. contradiction.
  - unfold Decimal.unorm in Hnorm. pose proof (nzhead_head (N.to_uint n)) as Hh.
    destruct (Decimal.nzhead (N.to_uint n)) eqn:E; rewrite <- Hnorm; try contradiction; try reflexivity;
      cbn [uint_to_ustr int_part_ok]; match goal with |- context [uint_to_ustr ?u] => destruct (uint_to_ustr u); reflexivity end.
  - rewrite uint_of_to. apply DecimalN.Unsigned.of_to.
Qed.

Lemma digit_head_not_word c d :
  is_digit_c c = true ->
  ustr_eqb (c :: d) (U"true") = false /\ ustr_eqb (c :: d) (U"false") = false /\ ustr_eqb (c :: d) (U"null") = false
  /\ ustr_eqb (c :: d) (U"NaN") = false /\ ustr_eqb (c :: d) (U"Infinity") = false /\ ustr_eqb (c :: d) (U"-Infinity") = false.
Proof.
  intros H. unfold is_digit_c in H.
  change (U"true") with [116; 114; 117; 101]. change (U"false") with [102; 97; 108; 115; 101]. change (U"null") with [110; 117; 108; 108].
  change (U"NaN") with [78; 97; 78]. change (U"Infinity") with [73; 110; 102; 105; 110; 105; 116; 121].
  change (U"-Infinity") with [45; 73; 110; 102; 105; 110; 105; 116; 121].
  cbn [ustr_eqb].
  assert ((c =? 116) = false) as -> by lia. assert ((c =? 102) = false) as -> by lia. assert ((c =? 110) = false) as -> by lia.
  assert ((c =? 78) = false) as -> by lia. assert ((c =? 73) = false) as -> by lia. assert ((c =? 45) = false) as -> by lia.
  repeat split.
Qed.

Lemma atom_nat n : atom_value (dec_of_N n) = Some (VInt (Z.of_N n)).
Proof.
  destruct (dec_of_N_props n) as (Hne & Hd & Hip & Hv).
  destruct (dec_of_N n) as [|c d] eqn:E; [contradiction|].
  pose proof Hd as Hd'. cbn [forallb] in Hd'. apply andb_true_iff in Hd' as [Hc _].
  destruct (digit_head_not_word c d Hc) as (E1 & E2 & E3 & E4 & E5 & E6).
  unfold atom_value. rewrite E1, E2, E3, E4, E5, E6. cbn [orb].
  unfold number_kind. assert ((c =? 45) = false) as -> by (unfold is_digit_c in Hc; lia).
  rewrite (span_digits_all _ Hd), Hip. cbn [negb]. rewrite Hv. reflexivity.
Qed.

Lemma atom_int z :
  atom_value (dec_of_Z z) = Some (VInt z) /\ dec_of_Z z <> [] /\ forallb is_atom_char (dec_of_Z z) = true.
Proof.
  destruct z as [|p|p]; cbn [dec_of_Z].
  - repeat split; try reflexivity. discriminate.
  - destruct (dec_of_N_props (Npos p)) as (Hne & Hd & _). split; [exact (atom_nat (Npos p))|]. split; [exact Hne|].
    apply forallb_forall. rewrite forallb_forall in Hd. intros x Hx. apply digit_is_atom; auto.
  - destruct (dec_of_N_props (Npos p)) as (Hne & Hd & Hip & Hv). split; [|split; [discriminate|]].
    + destruct (dec_of_N (Npos p)) as [|c d] eqn:E; [contradiction|].
      pose proof Hd as Hd'. cbn [forallb] in Hd'. apply andb_true_iff in Hd' as [Hc _].
      unfold atom_value.
      change (U"true") with [116; 114; 117; 101]. change (U"false") with [102; 97; 108; 115; 101]. change (U"null") with [110; 117; 108; 108].
      change (U"NaN") with [78; 97; 78]. change (U"Infinity") with [73; 110; 102; 105; 110; 105; 116; 121].
      change (U"-Infinity") with [45; 73; 110; 102; 105; 110; 105; 116; 121].
      cbn [ustr_eqb]. change (45 =? 116) with false. change (45 =? 102) with false. change (45 =? 110) with false.
      change (45 =? 78) with false. change (45 =? 73) with false. change (45 =? 45) with true. cbn [andb orb].
      assert ((c =? 73) = false) as -> by (unfold is_digit_c in Hc; lia). cbn [andb].
      unfold number_kind. change (45 =? 45) with true. cbv iota.
      rewrite (span_digits_all _ Hd), Hip. cbn [negb]. rewrite Hv. reflexivity.
    + cbn [forallb]. change (is_atom_char 45) with true. cbn [andb].
      apply forallb_forall. rewrite forallb_forall in Hd. intros x Hx. apply digit_is_atom; auto.
Qed.

(* ---- the token stream of a serialized value *)
Definition join_toks (items : list (list tok)) : list tok :=
  match items with
  | [] => []
  | x :: r => x ++ flat_map (fun y => TComma :: y) r
  end.

Fixpoint toks (v : pv) : list tok :=
  match v with
  | VNone => [TAtom (U"null")]
  | VBool true => [TAtom (U"true")]
  | VBool false => [TAtom (U"false")]
  | VInt z => [TAtom (dec_of_Z z)]
  | VFloat r => [TAtom r]
  | VStr s => [TStr s]
  | VList l | VTuple l => TLBrack :: join_toks (map toks l) ++ [TRBrack]
  | VDict m =>
      TLBrace :: join_toks (map (fun kt => TStr (fst kt) :: TColon :: snd kt)
                                (sort_kv (map (fun kv => (key_text (fst kv), toks (snd kv))) m))) ++ [TRBrace]
  | _ => []
  end.

Lemma toks_dict m :
  toks (VDict m) = TLBrace :: join_toks (map (fun kx => TStr (fst kx) :: TColon :: toks (snd kx)) (entries m)) ++ [TRBrace].
Proof.
  cbn [toks]. f_equal. f_equal. f_equal. unfold entries.
  replace (map (fun kv0 => (key_text (fst kv0), toks (snd kv0))) m)
    with (map (fun kx => (fst kx, toks (snd kx))) (map (fun kv0 => (key_text (fst kv0), snd kv0)) m))
    by (rewrite map_map; reflexivity).
  rewrite sort_kv_map, map_map. reflexivity.
Qed.

Lemma nd_nl k r : nd (nl k ++ r). Proof. reflexivity. Qed.
Lemma nd_comma r : nd (44 :: r). Proof. reflexivity. Qed.

Lemma join_items_one lvl (x : ustr) : join_items lvl [x] = nl lvl ++ x.
Proof. reflexivity. Qed.
Lemma join_items_cons lvl (x y : ustr) r : join_items lvl (x :: y :: r) = nl lvl ++ x ++ [44] ++ join_items lvl (y :: r).
Proof. reflexivity. Qed.

(* items separated by "," newline indent, each preceded by newline indent: lexed item by item *)
Lemma lex_join_items {A} (f : A -> ustr) (g : A -> list tok) lvl (xs : list A) k r :
  xs <> [] ->
  (forall x r', In x xs -> nd r' -> lex LDef (f x ++ r') = option_map (app (g x)) (lex LDef r')) ->
  lex LDef (join_items lvl (map f xs) ++ nl k ++ r) = option_map (app (join_toks (map g xs))) (lex LDef r).
Proof.
  intros Hne H. destruct xs as [|x xs]; [contradiction|]. clear Hne.
  revert x H. induction xs as [|y xs IH]; intros x H.
  - cbn [map]. rewrite join_items_one. cbn [join_toks flat_map]. rewrite <- app_assoc, lex_nl.
    rewrite H; [|left; reflexivity|apply nd_nl].
    rewrite lex_nl. rewrite app_nil_r. reflexivity.
  - cbn [map]. rewrite join_items_cons. rewrite <- !app_assoc. rewrite lex_nl. rewrite H; [|left; reflexivity|apply nd_comma].
    cbn [app]. rewrite (lex_punct 44 TComma) by reflexivity.
    change (f y :: map f xs) with (map f (y :: xs)).
    rewrite IH by (intros z r' Hz; apply H; right; exact Hz).
    rewrite !omap_comp. apply omap_ext. intros t. cbn [map join_toks flat_map]. rewrite <- !app_assoc. reflexivity.
Qed.

Theorem lex_pser : forall v lvl rest, jdom v = true -> nd rest ->
  lex LDef (pser lvl v ++ rest) = option_map (app (toks v)) (lex LDef rest).
Proof.
  induction v using pv_ind'; intros lvl rest Hd Hr; cbn [jdom] in Hd; try discriminate.
  - cbn [pser toks]. rewrite lex_atom; [reflexivity|discriminate|reflexivity|exact Hr].
  - destruct b; cbn [pser toks]; (rewrite lex_atom; [reflexivity|discriminate|reflexivity|exact Hr]).
  - cbn [pser toks]. destruct (atom_int z) as (_ & Hne & Ha). rewrite lex_atom; auto.
  - cbn [pser toks]. unfold float_token in Hd. apply andb_true_iff in Hd as [Ha _].
    destruct r as [|c r]; [discriminate|]. rewrite lex_atom; [reflexivity|discriminate|exact Ha|exact Hr].
  - cbn [pser toks]. rewrite lex_quote by exact Hd. reflexivity.
  - (* list *)
    destruct l as [|x l].
    + cbn [pser toks map join_toks app]. change (U"[]") with [91; 93]. cbn [app].
      rewrite (lex_punct 91 TLBrack) by reflexivity. rewrite (lex_punct 93 TRBrack) by reflexivity.
      rewrite omap_comp. reflexivity.
    + cbn [pser toks]. rewrite <- !app_assoc. cbn [app]. rewrite (lex_punct 91 TLBrack) by reflexivity.
      rewrite (lex_join_items (pser (S lvl)) toks); [|discriminate|].
      * cbn [app]. rewrite (lex_punct 93 TRBrack) by reflexivity. rewrite !omap_comp. apply omap_ext.
        intros t. cbn [app]. rewrite <- app_assoc. reflexivity.
      * intros y r' Hy Hr'. rewrite Forall_forall in H. rewrite forallb_forall in Hd. apply H; auto.
  - (* dict *)
    destruct m as [|kv m].
    + cbn [pser toks map sort_kv join_toks app]. change (U"{}") with [123; 125]. cbn [app].
      rewrite (lex_punct 123 TLBrace) by reflexivity. rewrite (lex_punct 125 TRBrace) by reflexivity.
      rewrite omap_comp. reflexivity.
    + rewrite pser_dict, toks_dict. rewrite <- !app_assoc. cbn [app]. rewrite (lex_punct 123 TLBrace) by reflexivity.
      apply andb_true_iff in Hd as [Hd _]. rewrite forallb_forall in Hd.
      rewrite (lex_join_items (fun kx => quote (fst kx) ++ [58; 32] ++ pser (S lvl) (snd kx))
                              (fun kx => TStr (fst kx) :: TColon :: toks (snd kx))).
      * cbn [app]. rewrite (lex_punct 125 TRBrace) by reflexivity. rewrite !omap_comp. apply omap_ext.
        intros t. cbn [app]. rewrite <- app_assoc. reflexivity.
      * intros E. apply entries_nil_iff in E. discriminate.
      * intros [k x] r' Hin Hr'. cbn [fst snd]. unfold entries in Hin. apply (proj1 (In_sort_kv _ _)) in Hin. apply in_map_iff in Hin as ([k0 x0] & [= <- <-] & Hin).
        specialize (Hd _ Hin). cbn [fst snd] in Hd. apply andb_true_iff in Hd as [Hk Hx].
        destruct k0; try discriminate. cbn [key_text].
        rewrite <- !app_assoc. rewrite lex_quote by exact Hk. cbn [app]. rewrite (lex_punct 58 TColon) by reflexivity.
        rewrite lex_ws by reflexivity.
        rewrite Forall_forall in H. destruct (H _ Hin) as [_ Hx']. cbn [snd] in Hx'. rewrite Hx' by auto.
        rewrite !omap_comp. reflexivity.
Qed.

(* ---- the machine rebuilds the canonical form from the token stream *)
Definition continue (o : option mst) (ts : list tok) : option mst :=
  match o with Some s => run s ts | None => None end.

Lemma run_app s ts1 ts2 : run s (ts1 ++ ts2) = continue (run s ts1) ts2.
Proof. revert s; induction ts1 as [|t ts IH]; intros s; cbn [app run continue]; [reflexivity|]. destruct (step s t); auto. Qed.

Lemma atom_value_float r x : atom_value r = Some (VFloat x) -> x = r.
Proof.
  unfold atom_value.
  destruct (ustr_eqb r (U"true")); [discriminate|]. destruct (ustr_eqb r (U"false")); [discriminate|].
  destruct (ustr_eqb r (U"null")); [discriminate|].
  destruct (ustr_eqb r (U"NaN") || ustr_eqb r (U"Infinity") || ustr_eqb r (U"-Infinity")); [intros [= <-]; reflexivity|].
  destruct (number_kind r); try discriminate. intros [= <-]. reflexivity.
Qed.

Lemma insert_kv_perm {A} (kx : ustr * A) l : Permutation (insert_kv kx l) (kx :: l).
Proof.
  induction l as [|h l IH]; cbn [insert_kv]; [reflexivity|].
  destruct (ustr_leb (fst kx) (fst h)); [reflexivity|]. rewrite IH. apply perm_swap.
Qed.

Lemma sort_kv_perm {A} (l : list (ustr * A)) : Permutation (sort_kv l) l.
Proof. induction l as [|h l IH]; cbn [sort_kv]; [reflexivity|]. rewrite insert_kv_perm. constructor. exact IH. Qed.

Lemma keys_nodupb_NoDup ks : keys_nodupb ks = true -> NoDup ks.
Proof.
  induction ks as [|k r IH]; intros H; [constructor|]. cbn in H. apply andb_true_iff in H as [H1 H2].
  constructor; auto. intros Hin. apply negb_true_iff in H1.
  assert (existsb (ustr_eqb k) r = true) by (apply existsb_exists; exists k; split; auto; apply ustr_eqb_refl). congruence.
Qed.

Lemma entries_keys_nodup m : keys_nodupb (map (fun kv => key_text (fst kv)) m) = true -> NoDup (map fst (entries m)).
Proof.
  intros H. apply keys_nodupb_NoDup in H. unfold entries.
  eapply Permutation_NoDup; [apply Permutation_map; symmetry; apply sort_kv_perm|].
  rewrite map_map. exact H.
Qed.

Lemma dset_fresh acc k v : ~ In k (map (fun kv => key_text (fst kv)) acc) -> Forall (fun kv => is_str (fst kv) = true) acc ->
  dset acc k v = acc ++ [(VStr k, v)].
Proof.
  induction acc as [|[x y] acc IH]; intros Hn Hs; [reflexivity|]. cbn [dset].
  inversion Hs as [|? ? Hx Hs']; subst. cbn [fst] in Hx. destruct x; try discriminate. cbn [key_is].
  destruct (ustr_eqb s k) eqn:E.
  - apply ustr_eqb_eq in E. subst. exfalso. apply Hn. left. reflexivity.
  - cbn [app]. rewrite IH; auto. intros Hin. apply Hn. right. exact Hin.
Qed.

Theorem run_toks : forall v stk m ts, jdom v = true -> wants_value m = true ->
  run {| stack := stk; md := m; result := None |} (toks v ++ ts) = continue (deliver (canon v) stk) ts.
Proof.
  induction v using pv_ind'; intros stk md0 ts Hd Hm; cbn [jdom] in Hd; try discriminate.
  - cbn [toks canon app run step md stack]. rewrite Hm. reflexivity.
  - destruct b; cbn [toks canon app run step md stack]; rewrite Hm; reflexivity.
  - cbn [toks canon app run step md stack]. rewrite Hm. destruct (atom_int z) as (-> & _). reflexivity.
  - cbn [toks canon app run step md stack]. rewrite Hm. unfold float_token in Hd. apply andb_true_iff in Hd as [_ Hd].
    destruct (atom_value r) as [[]|] eqn:E; try discriminate. apply atom_value_float in E as ->. reflexivity.
  - cbn [toks canon app run step md stack]. rewrite Hm. reflexivity.
  - (* list *)
    cbn [toks canon]. cbn [app run step md stack]. rewrite Hm.
    destruct l as [|x l].
    + cbn [map join_toks app run step md stack]. reflexivity.
    + rewrite Forall_forall in H. rewrite forallb_forall in Hd.
      assert (Htail : forall l acc, (forall y, In y l -> forall stk m ts, jdom y = true -> wants_value m = true ->
                          run {| stack := stk; md := m; result := None |} (toks y ++ ts) = continue (deliver (canon y) stk) ts) ->
                        (forall y, In y l -> jdom y = true) ->
                run {| stack := FList acc :: stk; md := MAfter; result := None |}
                    (flat_map (fun y => TComma :: y) (map toks l) ++ [TRBrack] ++ ts)
                = continue (deliver (VList (rev acc ++ map canon l)) stk) ts).
      { clear. induction l as [|y l IHl]; intros acc Hy Hj.
        - cbn [map flat_map app run step md stack]. rewrite rev_append_rev. rewrite !app_nil_r. reflexivity.
        - cbn [map flat_map]. rewrite <- !app_assoc. cbn [app run step md stack].
          rewrite Hy; [|left; reflexivity|apply Hj; left; reflexivity|reflexivity]. cbn [deliver continue].
          rewrite IHl; [|intros z Hz; apply Hy; right; exact Hz|intros z Hz; apply Hj; right; exact Hz].
          cbn [rev map]. rewrite <- app_assoc. reflexivity. }
      cbn [map join_toks]. rewrite <- !app_assoc.
      rewrite H; [|left; reflexivity|apply Hd; left; reflexivity|reflexivity]. cbn [deliver continue].
      rewrite Htail; [reflexivity| |].
      * intros y Hy. apply H. right. exact Hy.
      * intros y Hy. apply Hd. right. exact Hy.
  - (* dict *)
    rewrite toks_dict, canon_dict. cbn [app run step md stack]. rewrite Hm.
    apply andb_true_iff in Hd as [Hd Hk]. rewrite forallb_forall in Hd. rewrite Forall_forall in H.
    pose proof (entries_keys_nodup m Hk) as Hnd.
    assert (Hes : forall kx, In kx (entries m) -> jdom (snd kx) = true /\
              (forall stk m ts, wants_value m = true ->
                 run {| stack := stk; md := m; result := None |} (toks (snd kx) ++ ts) = continue (deliver (canon (snd kx)) stk) ts)).
    { intros [k x] Hin. unfold entries in Hin. apply (proj1 (In_sort_kv _ _)) in Hin.
      apply in_map_iff in Hin as ([k0 x0] & [= <- <-] & Hin). cbn [snd].
      specialize (Hd _ Hin). cbn [fst snd] in Hd. apply andb_true_iff in Hd as [_ Hx].
      split; [exact Hx|]. intros. destruct (H _ Hin) as [_ Hx']. cbn [snd] in Hx'. apply Hx'; auto. }
    generalize dependent (entries m). clear H Hd Hk. intros es Hnd Hes.
    destruct es as [|[k x] es].
    + cbn [map join_toks app run step md stack]. reflexivity.
    + assert (Htail : forall es acc,
                NoDup (map (fun kv => key_text (fst kv)) acc ++ map fst es) -> Forall (fun kv => is_str (fst kv) = true) acc ->
                (forall kx, In kx es -> jdom (snd kx) = true /\
                   (forall stk m ts, wants_value m = true ->
                      run {| stack := stk; md := m; result := None |} (toks (snd kx) ++ ts) = continue (deliver (canon (snd kx)) stk) ts)) ->
                run {| stack := FDict acc None :: stk; md := MAfter; result := None |}
                    (flat_map (fun y => TComma :: y) (map (fun kx => TStr (fst kx) :: TColon :: toks (snd kx)) es) ++ [TRBrace] ++ ts)
                = continue (deliver (VDict (acc ++ map (fun kx => (VStr (fst kx), canon (snd kx))) es)) stk) ts).
      { clear. induction es as [|[k x] es IHes]; intros acc Hnd Hs Hes.
        - cbn [map flat_map app run step md stack]. rewrite app_nil_r. reflexivity.
        - cbn [map flat_map fst snd]. rewrite <- !app_assoc. cbn [app run step md stack wants_value].
          destruct (Hes (k, x) (or_introl eq_refl)) as [_ Hx]. cbn [snd] in Hx. rewrite Hx by reflexivity.
          cbn [deliver continue]. rewrite dset_fresh; [|apply NoDup_remove_2 in Hnd; intros Hin; apply Hnd; apply in_or_app; left; exact Hin|exact Hs].
          rewrite IHes.
          + rewrite <- app_assoc. reflexivity.
          + rewrite map_app. cbn [map fst key_text]. rewrite <- app_assoc. cbn [app].
            apply NoDup_remove_1 in Hnd as Hnd'. 
            (* move k from the front of the remaining keys to the end of the accumulated ones *)
            eapply Permutation_NoDup; [|exact Hnd]. apply Permutation_app_head. reflexivity.
          + apply Forall_app. split; [exact Hs|repeat constructor].
          + intros kx Hin. apply Hes. right. exact Hin. }
      cbn [map join_toks fst snd]. rewrite <- !app_assoc. cbn [app run step md stack wants_value].
      destruct (Hes (k, x) (or_introl eq_refl)) as [_ Hx]. cbn [snd] in Hx. rewrite Hx by reflexivity.
      cbn [deliver continue dset].
      rewrite Htail.
      * reflexivity.
      * cbn [map fst key_text app]. exact Hnd.
      * repeat constructor.
      * intros kx Hin. apply Hes. right. exact Hin.
Qed.

(* ---- parsing the canonical text gives the value back (in canonical form) *)
Theorem parse_pser v : jdom v = true -> parse (pser 0 v) = Some (canon v).
Proof.
  intros Hd. unfold parse. rewrite <- (app_nil_r (pser 0 v)). rewrite lex_pser by (auto; exact I).
  cbn [lex option_map]. rewrite app_nil_r. rewrite <- (app_nil_r (toks v)). unfold init.
  rewrite run_toks by auto. cbn [deliver continue run md result]. reflexivity.
Qed.

Theorem parse_ser v b : jdom v = true -> ser 0 v = Ok b -> parse b = Some (canon v).
Proof. intros Hd Hs. rewrite ser_pser in Hs by exact Hd. injection Hs as <-. apply parse_pser; exact Hd. Qed.

(* two values with the same canonical bytes are the same JSON value (equal up to the order of keys) *)
Theorem ser_injective v v' b : jdom v = true -> jdom v' = true -> ser 0 v = Ok b -> ser 0 v' = Ok b -> canon v = canon v'.
Proof.
  intros Hd Hd' H H'. pose proof (parse_ser v b Hd H) as P. pose proof (parse_ser v' b Hd' H') as P'. congruence.
Qed.

(* ---- the canonical bytes depend on the JSON value only *)
Lemma pser_dict_gen lvl m :
  pser lvl (VDict m) =
  match entries m with
  | [] => U"{}"
  | es => [123] ++ join_items (S lvl) (map (fun kx => quote (fst kx) ++ [58; 32] ++ pser (S lvl) (snd kx)) es) ++ nl lvl ++ [125]
  end.
Proof.
  destruct m as [|kv m]; [reflexivity|]. rewrite pser_dict.
  destruct (entries (kv :: m)) eqn:E; [apply entries_nil_iff in E; discriminate|reflexivity].
Qed.

Lemma entries_canon m :
  entries (map (fun kx => (VStr (fst kx), canon (snd kx))) (entries m)) = map (fun kx => (fst kx, canon (snd kx))) (entries m).
Proof.
  unfold entries at 1. rewrite map_map. cbn [fst snd key_text].
  rewrite (sort_kv_map canon). unfold entries. rewrite sort_kv_idem. reflexivity.
Qed.

Theorem pser_canon : forall v lvl, jdom v = true -> pser lvl (canon v) = pser lvl v.
Proof.
  induction v using pv_ind'; intros lvl Hd; cbn [jdom] in Hd; try discriminate; try reflexivity.
  - (* list *)
    cbn [canon pser]. rewrite Forall_forall in H. rewrite forallb_forall in Hd.
    destruct l as [|x l]; [reflexivity|]. cbn [map]. rewrite map_map.
    rewrite H by (try (left; reflexivity); apply Hd; left; reflexivity).
    f_equal. f_equal. f_equal. f_equal. apply map_ext_in. intros y Hy. apply H; [right; exact Hy|apply Hd; right; exact Hy].
  - (* dict *)
    rewrite canon_dict, !pser_dict_gen, entries_canon. apply andb_true_iff in Hd as [Hd _]. rewrite forallb_forall in Hd.
    rewrite Forall_forall in H.
    assert (Hall : forall kx, In kx (entries m) -> pser (S lvl) (canon (snd kx)) = pser (S lvl) (snd kx)).
    { intros [k x] Hin. cbn [snd]. unfold entries in Hin. apply (proj1 (In_sort_kv _ _)) in Hin.
      apply in_map_iff in Hin as ([k0 x0] & [= <- <-] & Hin).
      destruct (H _ Hin) as [_ Hx]. cbn [snd] in Hx. apply Hx.
      specialize (Hd _ Hin). apply andb_true_iff in Hd as [_ Hd]. exact Hd. }
    destruct (entries m) as [|kx es]; [reflexivity|].
    change (map (fun kx0 : ustr * pv => (fst kx0, canon (snd kx0))) (kx :: es))
      with ((fst kx, canon (snd kx)) :: map (fun kx0 : ustr * pv => (fst kx0, canon (snd kx0))) es).
    cbv iota.
    change ((fst kx, canon (snd kx)) :: map (fun kx0 : ustr * pv => (fst kx0, canon (snd kx0))) es)
      with (map (fun kx0 : ustr * pv => (fst kx0, canon (snd kx0))) (kx :: es)).
    rewrite map_map. cbn [fst snd]. f_equal. f_equal. f_equal. apply map_ext_in. intros kx' Hin. rewrite Hall by exact Hin. reflexivity.
Qed.

Lemma NoDup_keys_nodupb ks : NoDup ks -> keys_nodupb ks = true.
Proof.
  induction 1 as [|k r Hn Hnd IH]; [reflexivity|]. cbn. rewrite IH, andb_true_r. apply negb_true_iff.
  destruct (existsb (ustr_eqb k) r) eqn:E; [|reflexivity]. apply existsb_exists in E as (y & Hy & Ey).
  apply ustr_eqb_eq in Ey. subst. contradiction.
Qed.

Theorem jdom_canon : forall v, jdom v = true -> jdom (canon v) = true.
Proof.
  induction v using pv_ind'; intros Hd; cbn [jdom] in Hd; try discriminate; try exact Hd.
  - cbn [canon jdom]. rewrite Forall_forall in H. rewrite forallb_forall in Hd. apply forallb_forall.
    intros y Hy. apply in_map_iff in Hy as (x & <- & Hx). apply H; auto.
  - rewrite canon_dict. cbn [jdom]. apply andb_true_iff in Hd as [Hd Hk]. rewrite forallb_forall in Hd. rewrite Forall_forall in H.
    apply andb_true_iff. split.
    + apply forallb_forall. intros kv Hkv. apply in_map_iff in Hkv as ([k x] & <- & Hin). cbn [fst snd].
      unfold entries in Hin. apply (proj1 (In_sort_kv _ _)) in Hin. apply in_map_iff in Hin as ([k0 x0] & [= <- <-] & Hin).
      specialize (Hd _ Hin). cbn [fst snd] in Hd. apply andb_true_iff in Hd as [Hk0 Hx]. destruct k0; try discriminate. cbn [key_text].
      rewrite Hk0. destruct (H _ Hin) as [_ Hx']. cbn [snd] in Hx'. apply Hx'. exact Hx.
    + rewrite map_map. cbn [fst key_text]. apply NoDup_keys_nodupb. apply entries_keys_nodup. exact Hk.
Qed.

(* equal JSON values (equal canonical forms) have equal canonical bytes; together with ser_injective: iff *)
Theorem ser_order_independent v v' : jdom v = true -> jdom v' = true -> canon v = canon v' -> ser 0 v = ser 0 v'.
Proof.
  intros Hd Hd' E. rewrite !ser_pser by assumption. rewrite <- (pser_canon v 0 Hd), <- (pser_canon v' 0 Hd'), E. reflexivity.
Qed.

(* the canonical form identifies dicts that differ in insertion order, at any depth *)
Theorem canon_perm m m' : Permutation m m' -> keys_nodupb (map (fun kv => key_text (fst kv)) m) = true ->
  canon (VDict m) = canon (VDict m').
Proof.
  intros Hp Hk. rewrite !canon_dict. f_equal. f_equal. unfold entries. apply sort_perm_eq.
  - apply Permutation_map. exact Hp.
  - rewrite map_map. cbn [fst]. apply keys_nodupb_NoDup. exact Hk.
Qed.

Theorem canon_dict_congr m m' :
  Forall2 (fun kv kv' => key_text (fst kv) = key_text (fst kv') /\ canon (snd kv) = canon (snd kv')) m m' ->
  canon (VDict m) = canon (VDict m').
Proof.
  intros F. cbn [canon]. f_equal. f_equal. f_equal.
  induction F as [|[k x] [k' x'] m m' [Hk Hx] F IH]; [reflexivity|]. cbn [fst snd] in *. rewrite Hk, Hx, IH. reflexivity.
Qed.

Theorem canon_list_congr l l' : Forall2 (fun x x' => canon x = canon x') l l' -> canon (VList l) = canon (VList l').
Proof. intros F. cbn [canon]. f_equal. induction F as [|x x' l l' Hx F IH]; [reflexivity|]. cbn [map]. rewrite Hx, IH. reflexivity. Qed.

(* parse-then-serialize fixpoint *)
Theorem ser_fixpoint v b : jdom v = true -> ser 0 v = Ok b ->
  exists v', parse b = Some v' /\ ser 0 v' = Ok b /\ jdom v' = true.
Proof.
  intros Hd Hs. exists (canon v). split; [apply parse_ser; auto|]. split; [|apply jdom_canon; exact Hd].
  rewrite ser_pser by (apply jdom_canon; exact Hd). rewrite pser_canon by exact Hd. rewrite ser_pser in Hs by exact Hd. exact Hs.
Qed.

(* total on the domain, and pure ASCII (so that its UTF-8 encoding is the same byte list) *)
Definition ascii (s : ustr) : Prop := Forall (fun c => c < 128) s.

Lemma ascii_app a b : ascii a -> ascii b -> ascii (a ++ b).
Proof. intros. apply Forall_app; auto. Qed.

Lemma ascii_hexd d : d < 16 -> hexd d < 128.
Proof. unfold hexd. destruct (d <? 10) eqn:E; lia. Qed.

Lemma ascii_u_escape c : ascii (u_escape c).
Proof. unfold u_escape. repeat constructor; try lia; apply ascii_hexd; apply N.mod_lt; lia. Qed.

Lemma ascii_quote s : ascii (quote s).
Proof.
  unfold quote. constructor; [lia|]. apply ascii_app; [|repeat constructor; lia].
  induction s as [|c s IH]; [constructor|]. cbn [flat_map]. apply ascii_app; [|exact IH].
  unfold quote_char.
  repeat match goal with |- ascii (if ?b then _ else _) => destruct b eqn:?; [repeat constructor; lia|] end.
  destruct ((32 <=? c) && (c <=? 126)) eqn:E; [repeat constructor; lia|].
  destruct (c <? 65536); [apply ascii_u_escape|apply ascii_app; apply ascii_u_escape].
Qed.

Lemma ascii_nl k : ascii (nl k).
Proof. unfold nl. constructor; [lia|]. apply Forall_forall. intros x Hx. apply repeat_spec in Hx. subst. lia. Qed.

Lemma atom_char_ascii c : is_atom_char c = true -> c < 128.
Proof. unfold is_atom_char, is_digit_c, is_alpha_c. lia. Qed.

Lemma ascii_join_items lvl items : Forall ascii items -> ascii (join_items lvl items).
Proof.
  induction 1 as [|x r Hx F IH]; [constructor|]. destruct r as [|y r].
  - rewrite join_items_one. apply ascii_app; [apply ascii_nl|exact Hx].
  - rewrite join_items_cons. apply ascii_app; [apply ascii_nl|]. apply ascii_app; [exact Hx|]. apply ascii_app; [repeat constructor; lia|exact IH].
Qed.

Theorem pser_ascii : forall v lvl, jdom v = true -> ascii (pser lvl v).
Proof.
  induction v using pv_ind'; intros lvl Hd; cbn [jdom] in Hd; try discriminate.
  - repeat constructor; lia.
  - destruct b; repeat constructor; lia.
  - cbn [pser]. destruct (atom_int z) as (_ & _ & Ha). apply Forall_forall. rewrite forallb_forall in Ha. intros c Hc. apply atom_char_ascii; auto.
  - cbn [pser]. unfold float_token in Hd. apply andb_true_iff in Hd as [Ha _]. destruct r; [discriminate|].
    apply Forall_forall. rewrite forallb_forall in Ha. intros c Hc. apply atom_char_ascii; auto.
  - apply ascii_quote.
  - cbn [pser]. destruct l as [|x l]; [repeat constructor; lia|].
    apply ascii_app; [repeat constructor; lia|]. apply ascii_app; [|apply ascii_app; [apply ascii_nl|repeat constructor; lia]].
    apply ascii_join_items. rewrite Forall_forall in *. rewrite forallb_forall in Hd. intros s Hs. apply in_map_iff in Hs as (y & <- & Hy). apply H; auto.
  - rewrite pser_dict_gen. destruct (entries m) eqn:E; [repeat constructor; lia|]. rewrite <- E.
    apply andb_true_iff in Hd as [Hd _]. rewrite forallb_forall in Hd. rewrite Forall_forall in H.
    apply ascii_app; [repeat constructor; lia|]. apply ascii_app; [|apply ascii_app; [apply ascii_nl|repeat constructor; lia]].
    apply ascii_join_items. apply Forall_forall. intros s Hs. apply in_map_iff in Hs as ([k x] & <- & Hin). cbn [fst snd].
    unfold entries in Hin. apply (proj1 (In_sort_kv _ _)) in Hin. apply in_map_iff in Hin as ([k0 x0] & [= <- <-] & Hin).
    apply ascii_app; [apply ascii_quote|]. apply ascii_app; [repeat constructor; lia|].
    destruct (H _ Hin) as [_ Hx]. cbn [snd] in Hx. apply Hx. specialize (Hd _ Hin). apply andb_true_iff in Hd as [_ Hd]. exact Hd.
Qed.

Theorem ser_total v : jdom v = true -> exists b, ser 0 v = Ok b /\ ascii b.
Proof. intros Hd. exists (pser 0 v). split; [apply ser_pser; exact Hd|apply pser_ascii; exact Hd]. Qed.

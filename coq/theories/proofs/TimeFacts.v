(* TimeFacts.v: the timestamp the library formats (datetime.isoformat() + "Z") is read back by its own checker
   (strptime "%Y-%m-%dT%H:%M:%SZ") as the same instant, for every second of the years 1..9999 (C16). *)
From CCT Require Import Prelude Time.
From Coq Require Import Lia ZifyN ZifyNat ZifyBool.
Open Scope Z_scope.
Ltac Zify.zify_post_hook ::= Z.to_euclidean_division_equations.

(* ---- a finite sweep over 0 <= z < n, lifted to a universally quantified statement *)
Fixpoint zr (fuel : nat) (z : Z) (P : Z -> bool) : bool :=
  match fuel with O => true | S f => P z && zr f (z + 1) P end.
Definition zrange_forall (n : N) (P : Z -> bool) : bool := zr (N.to_nat n) 0 P.

Lemma zr_spec fuel P : forall z0, zr fuel z0 P = true -> forall z, z0 <= z < z0 + Z.of_nat fuel -> P z = true.
Proof.
  induction fuel as [|f IH]; intros z0 H z Hz; [lia|]. cbn [zr] in H. apply andb_true_iff in H as [H0 H1].
  destruct (Z.eq_dec z z0) as [->|Hne]; [exact H0|]. apply (IH (z0 + 1) H1). lia.
Qed.

Lemma zrange_forall_spec n P : zrange_forall n P = true -> forall z, 0 <= z < Z.of_N n -> P z = true.
Proof.
  unfold zrange_forall. intros H z Hz. apply (zr_spec _ _ 0 H). rewrite N_nat_Z. lia.
Qed.

(* ---- the calendar: everything civil_from_days computes depends on the day within the 400-year era only *)
Definition civil_in_era (doe : Z) : Z * Z * Z :=       (* (year of era counted from March, month, day) *)
  let yoe := (doe - doe / 1460 + doe / 36524 - doe / 146096) / 365 in
  let doy := doe - (365 * yoe + yoe / 4 - yoe / 100) in
  let mp := (5 * doy + 2) / 153 in
  let d := doy - (153 * mp + 2) / 5 + 1 in
  let m := if mp <? 10 then mp + 3 else mp - 9 in
  (yoe, m, d).

Definition leapZ (y : Z) : bool := ((y mod 4 =? 0) && negb (y mod 100 =? 0)) || (y mod 400 =? 0).
Definition dimZ (y m : Z) : Z :=
  if m =? 2 then (if leapZ y then 29 else 28) else if (m =? 4) || (m =? 6) || (m =? 9) || (m =? 11) then 30 else 31.

Definition era_check (doe : Z) : bool :=
  let '(yoe, m, d) := civil_in_era doe in
  let y := if m <=? 2 then yoe + 1 else yoe in          (* calendar year within the era *)
  let mp := if m >? 2 then m - 3 else m + 9 in
  let doy := (153 * mp + 2) / 5 + d - 1 in
  (0 <=? yoe) && (yoe <=? 399) && (1 <=? m) && (m <=? 12) && (1 <=? d) && (d <=? dimZ y m)
  && (yoe * 365 + yoe / 4 - yoe / 100 + doy =? doe)
  && ((146036 <? doe) || (y <=? 399)).

Lemma era_sweep : zrange_forall 146097 era_check = true.
Proof. vm_compute. reflexivity. Qed.

Lemma leapZ_era y k : leapZ (y + 400 * k) = leapZ y.
Proof.
  unfold leapZ.
  assert ((y + 400 * k) mod 4 = y mod 4) as -> by (replace (y + 400 * k) with (y + (100 * k) * 4) by lia; apply Z.mod_add; lia).
  assert ((y + 400 * k) mod 100 = y mod 100) as -> by (replace (y + 400 * k) with (y + (4 * k) * 100) by lia; apply Z.mod_add; lia).
  assert ((y + 400 * k) mod 400 = y mod 400) as -> by (replace (y + 400 * k) with (y + k * 400) by lia; apply Z.mod_add; lia).
  reflexivity.
Qed.

Lemma dimZ_era y m k : dimZ (y + 400 * k) m = dimZ y m.
Proof. unfold dimZ. rewrite leapZ_era. reflexivity. Qed.

Theorem civil_roundtrip z : 0 <= z ->
  let '(y, m, d) := civil_from_days z in
  1 <= m <= 12 /\ 1 <= d <= dimZ y m /\ days_from_civil y m d = z /\ 1 <= y /\ (z < 3652059 -> y <= 9999).
Proof.
  intros Hz. unfold civil_from_days.
  set (z' := z + 306). set (era := z' / 146097). set (doe := z' - era * 146097).
  assert (Hdoe : 0 <= doe < 146097) by (unfold doe, era; lia).
  pose proof (zrange_forall_spec 146097 era_check era_sweep doe Hdoe) as Hc.
  unfold era_check, civil_in_era in Hc.
  set (yoe := (doe - doe / 1460 + doe / 36524 - doe / 146096) / 365) in *.
  set (doy := doe - (365 * yoe + yoe / 4 - yoe / 100)) in *.
  set (mp := (5 * doy + 2) / 153) in *.
  set (d := doy - (153 * mp + 2) / 5 + 1) in *.
  set (m := if mp <? 10 then mp + 3 else mp - 9) in *.
  cbv zeta in Hc.
  repeat (apply andb_true_iff in Hc as [Hc ?]).
  clearbody m d. clearbody mp. clearbody doy. clearbody yoe.
  rename H into Hyear. rename H0 into H. rename H1 into H0. rename H2 into H1. rename H3 into H2. rename H4 into H3. rename H5 into H4.
  apply Z.leb_le in Hc, H4, H3, H2, H1, H0. apply Z.eqb_eq in H.
  assert (Hera : 0 <= era) by (unfold era, z'; apply Z.div_pos; lia).
  assert (Hz' : z' = era * 146097 + doe) by (unfold doe; ring).
  assert (Ez : z' = z + 306) by reflexivity. clearbody doe. clearbody era. clearbody z'.
  set (y0 := if m <=? 2 then yoe + 1 else yoe) in *.
  assert (Hy : (if m <=? 2 then yoe + era * 400 + 1 else yoe + era * 400) = y0 + 400 * era) by (unfold y0; destruct (m <=? 2); ring).
  rewrite Hy. rewrite dimZ_era.
  assert (Hy1 : 1 <= y0 + 400 * era).
  { unfold y0. destruct (m <=? 2) eqn:Em.
    + apply Z.le_trans with (0 + 1 + 400 * 0); [discriminate|]. apply Z.add_le_mono; [apply Z.add_le_mono_r; assumption|apply Z.mul_le_mono_nonneg_l; [discriminate|assumption]].
    + (* March or later: in era 0 the day lies at doe >= 306, which is not in computational year 0 from March on *)
      destruct (Z.eq_dec era 0) as [E0|Ene].
      * assert (Hd306 : 306 <= doe) by (clear - Hz Hz' Ez E0; subst era; lia).
        destruct (Z.eq_dec yoe 0) as [Ey|Eny].
        -- exfalso. subst yoe. apply Z.leb_gt in Em.
           assert (Hm3 : (m >? 2) = true) by (apply Z.gtb_lt; apply Z.lt_gt in Em; apply Z.gt_lt; exact Em).
           rewrite Hm3 in H. clear - H Hd306 H2 H1 H0 Em. clearbody y0.
           assert (Hdim : dimZ y0 m <= 31) by (unfold dimZ; destruct (m =? 2); [destruct (leapZ y0); discriminate|destruct ((m =? 4) || (m =? 6) || (m =? 9) || (m =? 11)); discriminate]).
           lia.
        -- clear - Hc Eny Hera. nia.
      * clear - Hera Ene Hc. nia. }
  assert (Hy2 : z < 3652059 -> y0 + 400 * era <= 9999).
  { intros Hlt. assert (Hy0 : y0 <= yoe + 1) by (unfold y0; destruct (m <=? 2); lia).
    apply orb_true_iff in Hyear. clearbody y0.
    assert (Hera24 : era <= 24) by (clear - Hlt Hz' Ez Hdoe Hera; nia).
    destruct (Z.eq_dec era 24) as [E24|].
    - destruct Hyear as [Hq|Hq]; [apply Z.ltb_lt in Hq; clear - Hq Hlt Hz' Ez E24; lia|apply Z.leb_le in Hq; clear - Hq E24; lia].
    - clear - Hy0 H4 Hera24 n. lia. }
  split; [split; assumption|]. split; [split; assumption|]. split; [|split; assumption].
  unfold days_from_civil.
    assert (Hy' : (if m <=? 2 then y0 + 400 * era - 1 else y0 + 400 * era) = era * 400 + yoe) by (unfold y0; destruct (m <=? 2); ring).
    rewrite Hy'. rewrite Z.div_add_l by discriminate. rewrite (Z.div_small yoe 400) by (split; [assumption|apply Z.le_lt_trans with 399; [assumption|reflexivity]]).
    replace (era * 400 + yoe - (era + 0) * 400) with yoe by ring.
    rewrite H. replace ((era + 0) * 146097) with (era * 146097) by ring.
    assert (Hzz : z = era * 146097 + doe - 306) by (rewrite <- Hz', Ez; ring). rewrite Hzz. ring.
Qed.

(* ---- the pattern: on the text the library formats, each directive is matched by its first alternative that can
        match at all, whatever follows *)
Open Scope N_scope.
Fixpoint seq_exact (q : list cc) (s : ustr) : bool :=
  match q, s with
  | [], [] => true
  | k :: q', c :: s' => cc_match k c && seq_exact q' s'
  | _, _ => false
  end.
Fixpoint seq_fail (q : list cc) (s : ustr) : bool :=        (* a mismatch inside s: fails whatever follows s *)
  match q, s with
  | k :: q', c :: s' => if cc_match k c then seq_fail q' s' else true
  | _, _ => false
  end.
Fixpoint first_ok (alts : list (list cc)) (text : ustr) : bool :=
  match alts with
  | [] => false
  | a :: rest => seq_exact a text || (seq_fail a text && first_ok rest text)
  end.

Lemma seq_exact_app q : forall text r, seq_exact q text = true -> seq_match q (text ++ r) = Some (text, r).
Proof.
  induction q as [|k q IH]; intros [|c text] r H; cbn in H; try discriminate; [reflexivity|].
  apply andb_true_iff in H as [Hc H]. cbn [app seq_match]. rewrite Hc, (IH _ _ H). reflexivity.
Qed.

Lemma seq_fail_app q : forall text r, seq_fail q text = true -> seq_match q (text ++ r) = None.
Proof.
  induction q as [|k q IH]; intros [|c text] r H; cbn in H; try discriminate.
  cbn [app seq_match]. destruct (cc_match k c); [|reflexivity]. rewrite (IH _ _ H). reflexivity.
Qed.

Lemma group_step (g : group) text r p' ms rest :
  first_ok g text = true -> pat_match p' r = Some (ms, rest) ->
  pat_match (g :: p') (text ++ r) = Some (text :: ms, rest).
Proof.
  intros Hf Hp. cbn [pat_match]. induction g as [|a g IH]; [discriminate|].
  cbn [first_ok] in Hf. apply orb_true_iff in Hf as [He|Hf].
  - rewrite (seq_exact_app a text r He), Hp. reflexivity.
  - apply andb_true_iff in Hf as [Hfa Hr]. rewrite (seq_fail_app a text r Hfa). exact (IH Hr).
Qed.

(* formatted fields, as code points *)
Definition p2 (n : Z) : ustr := pad2 n.
Definition p4 (n : Z) : ustr := pad4 n.

Definition chk2 (g : group) (lo : Z) (n : Z) : bool :=
  (n <? lo)%Z || (first_ok g (p2 n) && (group_int 0 (p2 n) =? Z.to_N n)).

Lemma sweep_m : zrange_forall 13 (chk2 g_m 1) = true. Proof. vm_compute. reflexivity. Qed.
Lemma sweep_d : zrange_forall 32 (chk2 g_d 1) = true. Proof. vm_compute. reflexivity. Qed.
Lemma sweep_H : zrange_forall 24 (chk2 g_H 0) = true. Proof. vm_compute. reflexivity. Qed.
Lemma sweep_M : zrange_forall 60 (chk2 g_M 0) = true. Proof. vm_compute. reflexivity. Qed.
Lemma sweep_S : zrange_forall 60 (chk2 g_S 0) = true. Proof. vm_compute. reflexivity. Qed.
Lemma sweep_Y : zrange_forall 10000 (fun n => (n <? 1)%Z || (first_ok g_Y (p4 n) && (group_int 0 (p4 n) =? Z.to_N n))) = true.
Proof. vm_compute. reflexivity. Qed.

Lemma chk2_spec g lo n hi : zrange_forall hi (chk2 g lo) = true -> (lo <= n < Z.of_N hi)%Z -> (0 <= lo)%Z ->
  first_ok g (p2 n) = true /\ group_int 0 (p2 n) = Z.to_N n.
Proof.
  intros Hs Hn Hlo. pose proof (zrange_forall_spec hi _ Hs n ltac:(lia)) as H. unfold chk2 in H.
  apply orb_true_iff in H as [H|H]; [apply Z.ltb_lt in H; lia|]. apply andb_true_iff in H as [H1 H2]. apply N.eqb_eq in H2. auto.
Qed.

Lemma is_leap_Z y : (0 <= y)%Z -> is_leap (Z.to_N y) = leapZ y.
Proof.
  intros Hy. unfold is_leap, leapZ.
  assert (H : forall k, (0 < k)%Z -> (Z.to_N y mod Z.to_N k =? 0) = (y mod k =? 0)%Z).
  { intros k Hk. rewrite <- Z2N.inj_mod by lia. destruct (Z.eqb_spec (y mod k) 0) as [E|E].
    - rewrite E. reflexivity.
    - apply N.eqb_neq. intros C. apply E. pose proof (Z.mod_pos_bound y k Hk). lia. }
  change 4 with (Z.to_N 4). change 100 with (Z.to_N 100). change 400 with (Z.to_N 400).
  rewrite !H by lia. reflexivity.
Qed.

Lemma days_in_month_Z y m : (1 <= y)%Z -> (1 <= m <= 12)%Z -> Z.of_N (days_in_month (Z.to_N y) (Z.to_N m)) = dimZ y m.
Proof.
  intros Hy Hm. assert (m = 1 \/ m = 2 \/ m = 3 \/ m = 4 \/ m = 5 \/ m = 6 \/ m = 7 \/ m = 8 \/ m = 9 \/ m = 10 \/ m = 11 \/ m = 12)%Z as Hc by lia.
  unfold dimZ. repeat (destruct Hc as [-> | Hc]); try subst m; cbn [Z.to_N days_in_month Pos.to_nat]; try reflexivity.
  cbn. rewrite is_leap_Z by lia. destruct (leapZ y); reflexivity.
Qed.

Open Scope Z_scope.
(* every instant of the years 1..9999, formatted by the library, is accepted by its own checker and read back as the
   same instant *)
Theorem parse_fmt_utc t : 0 <= t < 315537897600 ->
  exists x, parse_utc (fmt_utc t) = Some x /\ instant_of x = t.
Proof.
  intros Ht. unfold fmt_utc.
  set (days := t / 86400). set (sod := t mod 86400).
  assert (Hdays : 0 <= days < 3652059) by (unfold days; lia).
  assert (Hsod : 0 <= sod < 86400) by (unfold sod; lia).
  pose proof (civil_roundtrip days ltac:(lia)) as Hc.
  destruct (civil_from_days days) as [[y m] d]. destruct Hc as (Hm & Hd & Hdfc & Hy1 & Hy2). specialize (Hy2 ltac:(lia)).
  assert (Hd31 : d <= 31).
  { assert (dimZ y m <= 31) by (unfold dimZ; destruct (m =? 2); [destruct (leapZ y); lia|destruct ((m =? 4) || (m =? 6) || (m =? 9) || (m =? 11)); lia]). lia. }
  set (hh := sod / 3600). set (mi := sod / 60 mod 60). set (ss := sod mod 60).
  assert (Hhh : 0 <= hh < 24) by (unfold hh; lia). assert (Hmi : 0 <= mi < 60) by (unfold mi; lia). assert (Hss : 0 <= ss < 60) by (unfold ss; lia).
  destruct (chk2_spec g_m 1 m 13 sweep_m ltac:(lia) ltac:(lia)) as [Fm Vm].
  destruct (chk2_spec g_d 1 d 32 sweep_d ltac:(lia) ltac:(lia)) as [Fd Vd].
  destruct (chk2_spec g_H 0 hh 24 sweep_H ltac:(lia) ltac:(lia)) as [FH VH].
  destruct (chk2_spec g_M 0 mi 60 sweep_M ltac:(lia) ltac:(lia)) as [FM VM].
  destruct (chk2_spec g_S 0 ss 60 sweep_S ltac:(lia) ltac:(lia)) as [FS VS].
  assert (FY : first_ok g_Y (p4 y) = true /\ group_int 0 (p4 y) = Z.to_N y).
  { pose proof (zrange_forall_spec 10000 _ sweep_Y y ltac:(lia)) as H. cbv beta in H.
    apply orb_true_iff in H as [H|H]; [apply Z.ltb_lt in H; lia|]. apply andb_true_iff in H as [H1 H2]. apply N.eqb_eq in H2. auto. }
  destruct FY as [FY VY].
  unfold parse_utc, utc_pattern.
  change (pad4 y) with (p4 y). change (pad2 m) with (p2 m). change (pad2 d) with (p2 d).
  change (pad2 (sod / 3600)) with (p2 hh). change (pad2 (sod / 60 mod 60)) with (p2 mi). change (pad2 (sod mod 60)) with (p2 ss).
  rewrite (group_step g_Y (p4 y) _ _ [[45%N]; p2 m; [45%N]; p2 d; [84%N]; p2 hh; [58%N]; p2 mi; [58%N]; p2 ss; [90%N]] []); [|exact FY|].
  2:{ rewrite (group_step (lit1 45) [45%N] _ _ [p2 m; [45%N]; p2 d; [84%N]; p2 hh; [58%N]; p2 mi; [58%N]; p2 ss; [90%N]] []); [reflexivity|reflexivity|].
      rewrite (group_step g_m (p2 m) _ _ [[45%N]; p2 d; [84%N]; p2 hh; [58%N]; p2 mi; [58%N]; p2 ss; [90%N]] []); [reflexivity|exact Fm|].
      rewrite (group_step (lit1 45) [45%N] _ _ [p2 d; [84%N]; p2 hh; [58%N]; p2 mi; [58%N]; p2 ss; [90%N]] []); [reflexivity|reflexivity|].
      rewrite (group_step g_d (p2 d) _ _ [[84%N]; p2 hh; [58%N]; p2 mi; [58%N]; p2 ss; [90%N]] []); [reflexivity|exact Fd|].
      rewrite (group_step [[CLitI 84 116]] [84%N] _ _ [p2 hh; [58%N]; p2 mi; [58%N]; p2 ss; [90%N]] []); [reflexivity|reflexivity|].
      rewrite (group_step g_H (p2 hh) _ _ [[58%N]; p2 mi; [58%N]; p2 ss; [90%N]] []); [reflexivity|exact FH|].
      rewrite (group_step (lit1 58) [58%N] _ _ [p2 mi; [58%N]; p2 ss; [90%N]] []); [reflexivity|reflexivity|].
      rewrite (group_step g_M (p2 mi) _ _ [[58%N]; p2 ss; [90%N]] []); [reflexivity|exact FM|].
      rewrite (group_step (lit1 58) [58%N] _ _ [p2 ss; [90%N]] []); [reflexivity|reflexivity|].
      rewrite (group_step g_S (p2 ss) _ _ [[90%N]] []); [reflexivity|exact FS|].
      reflexivity. }
  rewrite VY, Vm, Vd, VH, VM, VS.
  assert (Hchk : ((1 <=? Z.to_N y) && (1 <=? Z.to_N d) && (Z.to_N d <=? days_in_month (Z.to_N y) (Z.to_N m)) && (Z.to_N ss <=? 59))%N = true).
  { pose proof (days_in_month_Z y m Hy1 Hm) as Hdm. repeat (apply andb_true_iff; split); apply N.leb_le; lia. }
  rewrite Hchk. eexists. split; [reflexivity|].
  unfold instant_of. cbn [dt_y dt_mo dt_d dt_h dt_mi dt_s]. rewrite !Z2N.id by lia. rewrite Hdfc.
  unfold hh, mi, ss, days, sod. lia.
Qed.

Corollary fmt_utc_ok t : 0 <= t < 315537897600 -> utc_ok (fmt_utc t) = true.
Proof. intros Ht. destruct (parse_fmt_utc t Ht) as (x & Hx & _). unfold utc_ok. rewrite Hx. reflexivity. Qed.

(* the default expiration is strictly later than the default timestamp: exactly the expiry distance plus the time
   between the two clock reads *)
Corollary default_expiry_distance n1 n2 dist : 0 <= n1 < 315537897600 -> 0 <= n2 + dist < 315537897600 ->
  exists x1 x2, parse_utc (fmt_utc n1) = Some x1 /\ parse_utc (fmt_utc (n2 + dist)) = Some x2
                /\ instant_of x2 - instant_of x1 = dist + (n2 - n1).
Proof.
  intros H1 H2. destruct (parse_fmt_utc n1 H1) as (x1 & E1 & I1). destruct (parse_fmt_utc (n2 + dist) H2) as (x2 & E2 & I2).
  exists x1, x2. repeat split; auto. lia.
Qed.

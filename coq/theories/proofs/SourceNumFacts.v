(* SourceNumFacts.v: checkformat_natural_int / checkformat_list_of_hex_keys of common.py (Gen/Source.v, interpreted) against the model. *)
From Coq Require Import String Lia.
From CCT Require Import Prelude Hex Num Time Formats Json PySrc.
From CCT.Gen Require Source Params.
From CCT.proofs Require Import HexFacts SourceFacts SourceSigFacts.
Open Scope N_scope.

(* int("12") parses text: the interpreter leaves int() of str / bytes / bytearray outside the model *)
Definition not_text (v : pv) : bool := match v with VStr _ | VBytes _ | VBytearray _ => false | _ => true end.

Lemma src_checkformat_natural_int : forall v, not_text v = true ->
  run "checkformat_natural_int" [v] = returns_arg (checkformat_natural_int v) v.
Proof.
  intros v T. remember (returns_arg (checkformat_natural_int v) v) as rhs eqn:Hr.
  src_enter. src_builtin "int"%string.
  destruct v; try discriminate T; subst rhs; try reflexivity.
  - (* VBool *) destruct b; reflexivity.
  - (* VInt *) scbn. rewrite Z.eqb_refl. scbn. unfold returns_arg, checkformat_natural_int. scbn.
    destruct (cmp_Z z 1); reflexivity.
  - (* VFloat *) scbn. unfold returns_arg, checkformat_natural_int. cbn [py_int py_lt_int num_cmp_int].
    destruct (float_view r) as [| neg | z | fl |] eqn:F; scbn; try reflexivity.
    + rewrite F. unfold cmp_Z at 1. rewrite Z.compare_refl. scbn. unfold py_lt_int. cbn [num_cmp_int]. rewrite F. scbn.
      destruct (cmp_Z z 1); reflexivity.
    + rewrite F. destruct (fl <? (if (fl <? 0)%Z then (fl + 1)%Z else fl))%Z; reflexivity.
Qed.

Definition loop_env (x : string) (vs : list pv) (r : env) : env := fold_left (fun r a => (x, a) :: r) vs r.

Lemma lookup_loop_env : forall x y vs r, String.eqb y x = false -> lookup (loop_env x vs r) y = lookup r y.
Proof.
  intros x y vs. induction vs as [|a vs IH]; intros r H; [reflexivity|].
  cbn [loop_env fold_left]. fold (loop_env x vs ((x, a) :: r)). rewrite IH by exact H. cbn [lookup]. rewrite H. reflexivity.
Qed.

Lemma ustr_eqb_sym : forall a b, ustr_eqb a b = ustr_eqb b a.
Proof.
  induction a as [|x a IH]; destruct b as [|y b]; cbn; try reflexivity. rewrite N.eqb_sym, IH. reflexivity.
Qed.

(* after the loop every element is a str: the duplicate test on the set is the model's *)
Lemma check_each_strs : forall l, check_each checkformat_hex_key l = Ok tt -> exists ss, strs_of l = Some ss /\ l = map VStr ss.
Proof.
  induction l as [|x l IH]; intros H; [exists []; split; reflexivity|].
  cbn [check_each] in H. destruct (checkformat_hex_key x) as [[]|e|] eqn:E; try discriminate H. cbn [bind] in H.
  destruct (IH H) as (ss & S & M).
  assert (X : exists s, x = VStr s).
  { apply is_hex_string_str. unfold checkformat_hex_key in E. unfold is_hex_string.
    destruct (checkformat_hex_string x) as [[]|e|]; try discriminate E. reflexivity. }
  destruct X as [s ->]. exists (s :: ss). cbn [strs_of map]. rewrite S. split; [reflexivity | f_equal; exact M].
Qed.

Lemma dedup_length_le : forall ss, (length (dedup_strs ss) <= length ss)%nat.
Proof. induction ss as [|s r IH]; cbn; [lia|]. destruct (existsb (ustr_eqb s) r); cbn; lia. Qed.

Lemma dedup_nodup : forall ss, Nat.eqb (length (dedup_strs ss)) (length ss) = str_nodupb (map VStr ss).
Proof.
  induction ss as [|s r IH]; [reflexivity|]. cbn [dedup_strs str_nodupb map length].
  assert (E : existsb (key_is s) (map VStr r) = existsb (ustr_eqb s) r).
  { clear. induction r as [|x r IH]; [reflexivity|]. cbn. rewrite IH, (ustr_eqb_sym x s). reflexivity. }
  rewrite E. destruct (existsb (ustr_eqb s) r); cbn [negb andb length].
  - pose proof (dedup_length_le r). apply Nat.eqb_neq. lia.
  - exact IH.
Qed.

Lemma src_checkformat_list_of_hex_keys : forall v,
  run "checkformat_list_of_hex_keys" [v] = returns_arg (checkformat_list_of_hex_keys v) v.
Proof.
  intros v. destruct v; try reflexivity.
  remember (returns_arg (checkformat_list_of_hex_keys (VList l)) (VList l)) as rhs eqn:Hr.
  src_enter.
  match goal with |- context [?f l [("list_of_hex_keys"%string, VList l)]] => set (LOOP := f) end.
  assert (HL : forall vs r, LOOP vs r = match check_each checkformat_hex_key vs with
                                        | Ok _ => ONormal (loop_env "hex_key" vs r) | Err e => ORaise e | Unmodelled => OUnmod end).
  { induction vs as [|a vs IH]; intros r; [reflexivity|].
    unfold LOOP. fold LOOP. src_call "checkformat_hex_key"%string. rewrite src_checkformat_hex_key.
    cbn [check_each]. unfold returns_arg. destruct (checkformat_hex_key a) as [[]|e|]; scbn; try reflexivity.
    rewrite IH. reflexivity. }
  rewrite HL. subst rhs. unfold returns_arg. cbn [checkformat_list_of_hex_keys].
  destruct (check_each checkformat_hex_key l) as [[]|e|] eqn:CE; scbn; try reflexivity.
  rewrite !lookup_loop_env by reflexivity. scbn.
  destruct (check_each_strs l CE) as (ss & S & M).
  src_builtin "set"%string. scbn. rewrite S. scbn. 
  repeat src_builtin "len"%string. scbn. rewrite !map_length.
  rewrite M at 1. rewrite map_length. rewrite Zofnat_eqb, dedup_nodup, <- M.
  destruct (str_nodupb l); scbn; rewrite ?lookup_loop_env by reflexivity; reflexivity.
Qed.

(* SourceJsonFacts.v: every value of the JSON domain (what json.load returns: str keys, pairwise distinct, at every level) meets the
   side conditions of the source refinement theorems, except that a version given as text stays a hypothesis. *)
From Coq Require Import String Lia FinFun.
From CCT Require Import Prelude Hex Num Time Formats Json PySrc.
From CCT.proofs Require Import JsonFacts SourceFacts SourceSigFacts SourceEnvFacts SourceNumFacts SourceDmFacts.
Open Scope N_scope.

Lemma jdom_dict_keys : forall m, jdom (VDict m) = true ->
  all_str_keys m = true /\ NoDup (map fst m) /\ forallb plain_key (map fst m) = true /\ Forall (fun p => jdom (snd p) = true) m.
Proof.
  intros m H. cbn [jdom] in H. apply andb_prop in H. destruct H as [F K].
  apply keys_nodupb_NoDup in K. rewrite forallb_forall in F.
  assert (S : forall p, In p m -> exists k, fst p = VStr k /\ jdom (snd p) = true).
  { intros p Hp. specialize (F p Hp). apply andb_prop in F. destruct F as [F1 F2]. destruct (fst p); try discriminate F1. eauto. }
  assert (E : map fst m = map VStr (map (fun kv => key_text (fst kv)) m)).
  { rewrite map_map. apply map_ext_in. intros p Hp. destruct (S p Hp) as (k & -> & _). reflexivity. }
  split; [|split; [|split]].
  - unfold all_str_keys. apply forallb_forall. intros p Hp. destruct (S p Hp) as (k & -> & _). reflexivity.
  - rewrite E. apply Injective_map_NoDup; [|exact K]. intros a b [= ->]. reflexivity.
  - rewrite E. apply forallb_forall. intros x Hx. apply in_map_iff in Hx. destruct Hx as (k & <- & _). reflexivity.
  - apply Forall_forall. intros p Hp. destruct (S p Hp) as (k & _ & J). exact J.
Qed.

Lemma jdom_dict_ok : forall v, jdom v = true -> dict_ok v.
Proof. intros v H. destruct v; try exact I. destruct (jdom_dict_keys m H) as (_ & ND & PK & _). split; assumption. Qed.

Lemma jdom_inside_sorted : forall v, jdom v = true -> outside_sorted v = false.
Proof. intros v H. destruct v; try reflexivity. destruct (jdom_dict_keys m H) as (A & _). cbn. rewrite A. reflexivity. Qed.

Lemma jdom_dget : forall m k x, jdom (VDict m) = true -> dget m k = Some x -> jdom x = true.
Proof.
  intros m k x H D. destruct (jdom_dict_keys m H) as (_ & _ & _ & F). rewrite Forall_forall in F.
  clear H. induction m as [|[a b] m IH]; [discriminate D|]. cbn [dget] in D. destruct (key_is k a).
  - injection D as <-. exact (F (a, b) (or_introl eq_refl)).
  - apply IH; [exact D|]. intros p Hp. apply F. right. exact Hp.
Qed.

Lemma jdom_subscript : forall v k x, jdom v = true -> subscript v k = Ok x -> jdom x = true.
Proof.
  intros v k x H S. destruct v; try discriminate S. cbn in S. destruct (dget m k) as [y|] eqn:D; [|discriminate S].
  injection S as <-. exact (jdom_dget m k y H D).
Qed.

(* on the JSON domain the side conditions of the checker's refinement reduce to one: a version, if present, is not text *)
Lemma jdom_checker_input_ok : forall v, jdom v = true ->
  (forall c ve, subscript v (U"signed") = Ok c -> subscript c (U"version") = Ok ve -> not_text ve = true) ->
  checker_input_ok v.
Proof.
  intros v J NT. split; [apply jdom_dict_ok; exact J|]. split.
  - intros sm S. pose proof (jdom_subscript v _ _ J S) as Js. destruct (jdom_dict_keys sm Js) as (A & ND & _ & F).
    split; [exact A|]. split; [exact ND|]. eapply Forall_impl; [|exact F]. intros p Hp. apply jdom_inside_sorted. exact Hp.
  - intros c S. pose proof (jdom_subscript v _ _ J S) as Jc. split.
    + intros dl Sd. pose proof (jdom_subscript c _ _ Jc Sd) as Jd. destruct dl; try exact I.
      destruct (jdom_dict_keys m Jd) as (_ & ND & _ & F). split; [exact ND|].
      eapply Forall_impl; [|exact F]. intros p Hp. apply jdom_dict_ok. exact Hp.
    + intros ve Sv. exact (NT c ve S Sv).
Qed.

(* KeyFacts.v: key material round-trips losslessly (C19). *)
From CCT Require Import Prelude Hex Num Time Formats Json Auth Signing Keys.
From CCT.Gen Require Params.
From CCT.proofs Require Import HexFacts SigFacts AuthFacts SchemaFacts FamilyFacts SigningFacts.
From Coq Require Import Lia.
Open Scope N_scope.

Definition mk_key (c : kclass) (b : bytes) : pv := match c with KPub => VPub b | KPriv => VPriv b end.
Definition key32 (b : bytes) : Prop := length b = 32%nat /\ wf_bytes b.

Lemma from_to_bytes c b : key32 b -> key_from_bytes c (VBytes b) = Ok (mk_key c b) /\ key_to_bytes c (mk_key c b) = Ok (VBytes b).
Proof. intros [L _]. unfold key_from_bytes. destruct c; cbn; rewrite L; cbn; auto. Qed.

Lemma from_bytes_iff c v k :
  key_from_bytes c v = Ok k <->
  exists b, length b = 32%nat /\ k = mk_key c b /\ (v = VBytes b \/ (c = KPriv /\ v = VBytearray b)).
Proof.
  unfold key_from_bytes. split.
  - destruct v; cbn; try discriminate; destruct c; cbn; try discriminate;
      destruct (Nat.eqb (length b) 32) eqn:E; try discriminate; intros [= <-]; apply Nat.eqb_eq in E; eauto 6.
  - intros (b & L & -> & [->|[-> ->]]); cbn; [destruct c|]; cbn; rewrite L; reflexivity.
Qed.

Lemma to_hex_from_hex c h : lower_hex_len 64 h ->
  exists b, key_from_hex c (VStr h) = Ok (mk_key c b) /\ key_to_hex c (mk_key c b) = Ok (VStr h) /\ length b = 32%nat.
Proof.
  intros Hh. destruct Hh as [L F].
  destruct (hexlify_fromhex h F) as (b & Hb & Hh & Hl & Hw). { rewrite L. reflexivity. }
  rewrite L in Hl. cbn in Hl.
  exists b. unfold key_from_hex.
  assert (checkformat_hex_key (VStr h) = Ok tt) as -> by (apply checkformat_hex_key_iff; exists h; split; [reflexivity|split; auto]).
  cbn [bind]. rewrite Hb.
  destruct (from_to_bytes c b (conj Hl Hw)) as [-> E2]. cbn [bind].
  split; [destruct c; reflexivity|]. split; [|exact Hl].
  unfold key_to_hex. rewrite E2. cbn [bind]. rewrite Hh. reflexivity.
Qed.

Lemma from_hex_to_hex c b : key32 b ->
  key_to_hex c (mk_key c b) = Ok (VStr (hexlify b)) /\ key_from_hex c (VStr (hexlify b)) = Ok (mk_key c b).
Proof.
  intros [L W]. destruct (from_to_bytes c b (conj L W)) as [E1 E2].
  unfold key_to_hex. rewrite E2. cbn [bind]. split; [reflexivity|].
  unfold key_from_hex.
  assert (checkformat_hex_key (VStr (hexlify b)) = Ok tt) as ->.
  { apply checkformat_hex_key_iff. eexists. split; [reflexivity|]. apply hexlify_key; auto. }
  cbn [bind]. destruct (fromhex_hexlify b W) as (-> & _). rewrite E1. cbn [bind]. destruct c; reflexivity.
Qed.

(* from_hex accepts exactly 64 lower-case hex characters; everything else is an argument error *)
Theorem from_hex_iff c v k :
  key_from_hex c v = Ok k <-> exists h b, v = VStr h /\ lower_hex_len 64 h /\ fromhex h = Some b /\ k = mk_key c b.
Proof.
  split.
  - unfold key_from_hex. destruct (checkformat_hex_key v) as [[]| |] eqn:E; cbn [bind]; try discriminate.
    apply checkformat_hex_key_iff in E as (h & -> & Hh).
    destruct (to_hex_from_hex c h Hh) as (b & E1 & _ & _). unfold key_from_hex in E1.
    assert (checkformat_hex_key (VStr h) = Ok tt) as Ec by (apply checkformat_hex_key_iff; eauto).
    rewrite Ec in E1. cbn [bind] in E1. rewrite E1. intros [= <-].
    destruct (fromhex h) as [b'|] eqn:Ef; [|discriminate].
    exists h, b'. repeat split; auto; try apply Hh.
    destruct (key_from_bytes c (VBytes b')) as [k'| |] eqn:Ek; cbn [bind] in E1; try discriminate.
    apply from_bytes_iff in Ek as (b'' & _ & -> & [[= <-]|[_ [=]]]).
    destruct c; cbn in E1; injection E1 as <-; reflexivity.
  - intros (h & b & -> & Hh & Ef & ->). destruct (to_hex_from_hex c h Hh) as (b' & E1 & _ & _).
    rewrite E1. f_equal. f_equal.
    unfold key_from_hex in E1.
    assert (checkformat_hex_key (VStr h) = Ok tt) as Ec by (apply checkformat_hex_key_iff; eauto).
    rewrite Ec in E1. cbn [bind] in E1. rewrite Ef in E1.
    destruct (key_from_bytes c (VBytes b)) as [k'| |] eqn:Ek; cbn [bind] in E1; try discriminate.
    apply from_bytes_iff in Ek as (b'' & _ & -> & [[= <-]|[_ [=]]]).
    destruct c; cbn in E1; injection E1 as <-; reflexivity.
Qed.

Theorem from_hex_family c v : fam f_tv (key_from_hex c v).
Proof.
  unfold key_from_hex. fam_step; [apply fam_hex_key|]. destruct v; try reflexivity.
  destruct (fromhex s); [|reflexivity]. fam_step.
  - unfold key_from_bytes. cbn [checkformat_byteslike bind]. destruct c; destruct (Nat.eqb _ 32); cbn; auto.
  - fam_step; [unfold checkformat_key; destruct (is_key a0); cbn; auto|exact I].
Qed.

Theorem from_bytes_family c v : fam f_tv (key_from_bytes c v).
Proof.
  unfold key_from_bytes. fam_step; [apply fam_byteslike|].
  destruct c, v; try reflexivity; destruct (Nat.eqb _ 32); cbn; auto.
Qed.

(* equivalence of keys *)
Theorem equivalent_refl c b : key_is_equivalent_to c (mk_key c b) (mk_key c b) = Ok true.
Proof. destruct c; cbn; rewrite ustr_eqb_refl; reflexivity. Qed.

Theorem equivalent_iff c b1 b2 :
  key_is_equivalent_to c (mk_key c b1) (mk_key c b2) = Ok (ustr_eqb b1 b2).
Proof. destruct c; reflexivity. Qed.

Theorem equivalent_sym c b1 b2 :
  key_is_equivalent_to c (mk_key c b1) (mk_key c b2) = key_is_equivalent_to c (mk_key c b2) (mk_key c b1).
Proof. rewrite !equivalent_iff. rewrite ustr_eqb_sym. reflexivity. Qed.

Theorem equivalent_kinds_differ c k1 k2 :
  is_key k2 = true -> kclass_eqb (kind_of k1) (kind_of k2) = false -> key_is_equivalent_to c k1 k2 = Ok false.
Proof. intros H1 H2. unfold key_is_equivalent_to, checkformat_key. rewrite H1. cbn [bind]. rewrite H2. reflexivity. Qed.

Theorem equivalent_needs_key c k1 k2 : is_key k2 = false -> key_is_equivalent_to c k1 k2 = Err TypeError.
Proof. intros H. unfold key_is_equivalent_to, checkformat_key. rewrite H. reflexivity. Qed.

Section Files.
  Variable ed_pub : bytes -> bytes.
  Variable ed_sign : bytes -> bytes -> bytes.
  Hypothesis ed_pub_ok : forall seed, length (ed_pub seed) = 32%nat /\ wf_bytes (ed_pub seed).

  (* keys written to key files load back as equivalent keys, the public one being the one derived from the seed *)
  Theorem keyfile_roundtrip seed files :
    length seed = 32%nat -> write_keyfiles ed_pub (VPriv seed) = Ok files ->
    load_keyfiles files = Ok (VPriv seed, VPub (ed_pub seed))
    /\ key_is_equivalent_to KPriv (VPriv seed) (VPriv seed) = Ok true
    /\ public_key_of ed_pub (VPriv seed) = Ok (VPub (ed_pub seed)).
  Proof.
    intros L [= <-]. destruct (ed_pub_ok seed) as [L' _].
    unfold load_keyfiles, key_from_bytes. cbn [fst snd checkformat_byteslike bind]. rewrite L, L'. cbn.
    rewrite ustr_eqb_refl. auto.
  Qed.

  (* the library signs exactly the canonical bytes: no prehash, no context *)
  Theorem lib_signs_pure_ed25519 v seed data :
    canonserialize v = Ok data ->
    serialize_and_sign ed_sign v (VPriv seed) = Ok (VStr (hexlify (ed_sign seed data))).
  Proof. intros E. unfold serialize_and_sign. rewrite E. reflexivity. Qed.
End Files.

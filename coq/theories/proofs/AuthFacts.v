(* AuthFacts.v: what it means for a signature entry to count, and the counting core of verify_signable. *)
From CCT Require Import Prelude Hex Num Time Formats Json Auth.
From CCT.Gen Require Params.
From CCT.proofs Require Import HexFacts SigFacts.
From Coq Require Import Lia Permutation.
Open Scope N_scope.

(* ---------------------------------------------------------------- counting core *)
Section Count.
  Context {A : Type} (f : A -> res bool).
  Definition counts (x : A) : bool := match f x with Ok true => true | _ => false end.
  Definition total_on (l : list A) : Prop := forall x, In x l -> exists b, f x = Ok b.

  Lemma count_m_ok l n : count_m f l = Ok n -> total_on l /\ n = length (filter counts l).
  Proof.
    revert n; induction l as [|x l IH]; cbn [count_m]; intros n.
    - intros [= <-]. split; [intros ? []|reflexivity].
    - destruct (f x) as [b| |] eqn:E; cbn [bind]; try discriminate.
      destruct (count_m f l) as [m| |] eqn:Ec; cbn [bind]; try discriminate.
      intros [= <-]. destruct (IH _ eq_refl) as [T ->]. split.
      + intros y [<-|Hy]; eauto.
      + cbn [filter]. destruct (counts x) eqn:Ecx; unfold counts in Ecx; rewrite E in Ecx;
          destruct b; try discriminate; reflexivity.
  Qed.

  Lemma count_m_total l : total_on l -> count_m f l = Ok (length (filter counts l)).
  Proof.
    induction l as [|x l IH]; cbn [count_m filter]; intros T; [reflexivity|].
    destruct (T x (or_introl eq_refl)) as [b E]. rewrite E. cbn [bind].
    rewrite IH by (intros y Hy; apply T; right; auto). cbn [bind].
    destruct (counts x) eqn:Ecx; unfold counts in Ecx; rewrite E in Ecx;
      destruct b; try discriminate; reflexivity.
  Qed.

  Lemma count_m_not_ok l : ~ total_on l -> forall n, count_m f l <> Ok n.
  Proof. intros H n E. apply count_m_ok in E as [T _]. auto. Qed.
End Count.

Lemma NoDup_map_filter {A B} (g : A -> B) (p : A -> bool) l :
  NoDup (map g l) -> NoDup (map g (filter p l)).
Proof.
  induction l as [|x l IH]; cbn; intros H; [constructor|].
  inversion H as [|? ? Hn Hd]; subst. destruct (p x); cbn; auto.
  constructor; auto. intros Hin. apply Hn. apply in_map_iff in Hin as (y & <- & Hy).
  apply filter_In in Hy as [Hy _]. apply in_map; auto.
Qed.

Lemma filter_perm_length {A} (p : A -> bool) l l' :
  Permutation l l' -> length (filter p l) = length (filter p l').
Proof.
  induction 1; cbn; auto.
  - destruct (p x); cbn; auto.
  - destruct (p x), (p y); cbn; auto.
  - congruence.
Qed.

(* ---------------------------------------------------------------- what a counting entry is *)
Section Entry.
  Variable ed_verify : bytes -> bytes -> bytes -> bool.
  Variable sha256 : bytes -> bytes.

  (* the key bytes an accepted key string denotes *)
  Definition keyb (h : ustr) : bytes := match fromhex h with Some b => b | None => [] end.

  (* declarative: entry (k, v) is a valid signature, in the given mode, by authorized key k over data *)
  Definition valid_entry (gpg : bool) (kl : list pv) (data : bytes) (k v : pv) : Prop :=
    exists h, k = VStr h /\ lower_hex_len 64 h /\ In k kl /\
    if gpg then
      exists m oh sg hb sb msg,
        v = VDict m /\ gpg_shape v
        /\ dget m (U"other_headers") = Some (VStr oh) /\ fromhex oh = Some hb
        /\ dget m (U"signature") = Some (VStr sg) /\ fromhex sg = Some sb
        /\ frame data hb = Ok msg /\ ed_verify (keyb h) (sha256 msg) sb = true
    else
      exists m sg sb,
        v = VDict m /\ (raw_shape v \/ gpg_shape v)
        /\ dget m (U"signature") = Some (VStr sg) /\ fromhex sg = Some sb
        /\ ed_verify (keyb h) data sb = true.

  Lemma lower_hex_fromhex n h : Nat.even n = true -> lower_hex_len n h ->
    exists b, fromhex h = Some b /\ length b = Nat.div2 n.
  Proof.
    intros He [Hl Hf]. destruct (hexlify_fromhex h Hf) as (b & Hb & _ & Hlen & _); [rewrite Hl; auto|].
    exists b. rewrite Hlen, Hl. auto.
  Qed.

  Lemma hex_grammar_fromhex h : hex_grammar h = true -> exists b, fromhex h = Some b.
  Proof.
    unfold hex_grammar. intros H. apply andb_true_iff in H as [H Hf]. apply andb_true_iff in H as [_ He].
    destruct (hexlify_fromhex h Hf He) as (b & Hb & _). eauto.
  Qed.

  Lemma pub_from_hex_ok h : lower_hex_len 64 h -> pub_from_hex (VStr h) = Ok (keyb h).
  Proof.
    intros Hl. unfold pub_from_hex.
    assert (checkformat_hex_key (VStr h) = Ok tt) as -> by (apply checkformat_hex_key_iff; eauto).
    cbn [bind]. destruct (lower_hex_fromhex 64 h eq_refl Hl) as (b & Hb & Hlen).
    unfold keyb. rewrite Hb, Hlen. reflexivity.
  Qed.

  Lemma verify_signature_ok sg k data :
    verify_signature ed_verify sg (VPub k) (VBytes data) = Ok tt <->
    exists s sb, sg = VStr s /\ lower_hex_len 128 s /\ fromhex s = Some sb /\ ed_verify k data sb = true.
  Proof.
    cbn [verify_signature]. split.
    - destruct (is_hex_signature sg) eqn:E; cbn [negb]; [|discriminate].
      apply is_hex_signature_iff in E as (s & -> & Hs).
      destruct (fromhex s) as [sb|] eqn:Ef; [|discriminate].
      destruct (ed_verify k data sb) eqn:Ev; [|discriminate]. intros _. eauto 6.
    - intros (s & sb & -> & Hs & Ef & Ev).
      assert (is_hex_signature (VStr s) = true) as -> by (apply is_hex_signature_iff; eauto).
      cbn [negb]. rewrite Ef, Ev. reflexivity.
  Qed.

  Lemma verify_signature_outcomes sg k data :
    verify_signature ed_verify sg (VPub k) (VBytes data) = Ok tt
    \/ verify_signature ed_verify sg (VPub k) (VBytes data) = Err InvalidSignature
    \/ verify_signature ed_verify sg (VPub k) (VBytes data) = Err TypeError.
  Proof.
    cbn [verify_signature]. destruct (is_hex_signature sg) eqn:E; cbn [negb]; auto.
    apply is_hex_signature_iff in E as (s & -> & Hs).
    destruct (lower_hex_fromhex 128 s eq_refl Hs) as (b & -> & _).
    destruct (ed_verify k data b); auto.
  Qed.

  Lemma gpg_shape_dict v : gpg_shape v -> exists m, v = VDict m.
  Proof. intros (m & ? & ? & -> & _). eauto. Qed.

  (* verify_gpg_signature on a well-formed entry and key *)
  Lemma verify_gpg_signature_ok v h data :
    verify_gpg_signature ed_verify sha256 v (VStr h) (VBytes data) = Ok tt <->
    lower_hex_len 64 h /\
    exists m oh sg hb sb msg,
      v = VDict m /\ gpg_shape v
      /\ dget m (U"other_headers") = Some (VStr oh) /\ fromhex oh = Some hb
      /\ dget m (U"signature") = Some (VStr sg) /\ fromhex sg = Some sb
      /\ frame data hb = Ok msg /\ ed_verify (keyb h) (sha256 msg) sb = true.
  Proof.
    unfold verify_gpg_signature. split.
    - destruct (checkformat_gpg_signature v) as [[]| |] eqn:Eg; cbn [bind]; try discriminate.
      apply checkformat_gpg_signature_iff in Eg. pose proof Eg as Hshape.
      destruct Eg as (m & oh & sg & -> & Ha & H1 & Ho & H2 & Hs & Hl).
      destruct (checkformat_hex_key (VStr h)) as [[]| |] eqn:Ek; cbn [bind]; try discriminate.
      apply checkformat_hex_key_iff in Ek as (h' & [= <-] & Hh).
      cbn [checkformat_byteslike bind]. rewrite (pub_from_hex_ok h Hh). cbn [bind subscript].
      rewrite H1. cbn [bind hex_bytes].
      destruct (hex_grammar_fromhex oh Ho) as (hb & Ehb). rewrite Ehb. cbn [bind data_bytes].
      destruct (frame data hb) as [msg| |] eqn:Ef; cbn [bind]; try discriminate.
      rewrite H2. cbn [bind hex_bytes].
      destruct (lower_hex_fromhex 128 sg eq_refl Hs) as (sb & Esb & _). rewrite Esb. cbn [bind].
      destruct (ed_verify (keyb h) (sha256 msg) sb) eqn:Ev; [|discriminate]. intros _.
      split; auto. exists m, oh, sg, hb, sb, msg. repeat (split; auto).
    - intros (Hh & m & oh & sg & hb & sb & msg & -> & Hshape & H1 & Ehb & H2 & Esb & Ef & Ev).
      assert (checkformat_gpg_signature (VDict m) = Ok tt) as -> by (apply checkformat_gpg_signature_iff; auto).
      cbn [bind].
      assert (checkformat_hex_key (VStr h) = Ok tt) as -> by (apply checkformat_hex_key_iff; eauto).
      cbn [bind checkformat_byteslike]. rewrite (pub_from_hex_ok h Hh). cbn [bind subscript].
      rewrite H1. cbn [bind hex_bytes]. rewrite Ehb. cbn [bind data_bytes]. rewrite Ef. cbn [bind].
      rewrite H2. cbn [bind hex_bytes]. rewrite Esb. cbn [bind]. rewrite Ev. reflexivity.
  Qed.

  (* an entry counts exactly when it is a valid entry *)
  Lemma entry_counts_true gpg kl data k v :
    entry_counts ed_verify sha256 gpg kl data (k, v) = Ok true <-> valid_entry gpg kl data k v.
  Proof.
    unfold entry_counts, valid_entry. split.
    - destruct (is_hex_key k) eqn:Ek; cbn [negb]; [|discriminate].
      apply is_hex_key_iff in Ek as (h & -> & Hh).
      destruct gpg; cbn [andb negb].
      + destruct (is_gpg_signature v) eqn:Eg; cbn [negb]; [|discriminate].
        cbn [key_text]. destruct (existsb (key_is h) kl) eqn:Ein; cbn [negb]; [|discriminate].
        apply existsb_key_is_In in Ein.
        destruct (verify_gpg_signature ed_verify sha256 v (VStr h) (VBytes data)) as [[]|e|] eqn:Ev;
          try discriminate; [|destruct e; discriminate].
        intros _. apply verify_gpg_signature_ok in Ev as [_ Ev]. exists h. auto.
      + cbn [key_text]. destruct (existsb (key_is h) kl) eqn:Ein; cbn [negb]; [|discriminate].
        apply existsb_key_is_In in Ein.
        destruct (is_signature v) eqn:Es; cbn [negb]; [|discriminate].
        rewrite (pub_from_hex_ok h Hh). cbn [bind].
        apply is_signature_iff in Es.
        assert (exists m, v = VDict m) as (m & ->).
        { destruct Es as [(sg & -> & _)|Hg]; [eauto|apply gpg_shape_dict; auto]. }
        cbn [subscript]. destruct (dget m (U"signature")) as [sg|] eqn:Hsg; cbn [bind]; [|discriminate].
        destruct (verify_signature ed_verify sg (VPub (keyb h)) (VBytes data)) as [[]|e|] eqn:Ev;
          try discriminate; [|destruct e; discriminate].
        intros _. apply verify_signature_ok in Ev as (s & sb & -> & _ & Ef & Ev).
        exists h. repeat (split; auto). exists m, s, sb. auto.
    - intros (h & -> & Hh & Hin & H).
      assert (is_hex_key (VStr h) = true) as -> by (apply is_hex_key_iff; eauto). cbn [negb key_text].
      assert (existsb (key_is h) kl = true) as Ein by (apply existsb_key_is_In; auto).
      destruct gpg; cbn [andb negb].
      + destruct H as (m & oh & sg & hb & sb & msg & -> & Hshape & H).
        assert (is_gpg_signature (VDict m) = true) as -> by (apply is_gpg_signature_iff; auto).
        cbn [negb]. rewrite Ein. cbn [negb].
        assert (verify_gpg_signature ed_verify sha256 (VDict m) (VStr h) (VBytes data) = Ok tt) as ->; [|reflexivity].
        apply verify_gpg_signature_ok. split; auto. exists m, oh, sg, hb, sb, msg. tauto.
      + destruct H as (m & sg & sb & -> & Hshape & Hsg & Ef & Ev).
        rewrite Ein. cbn [negb].
        assert (is_signature (VDict m) = true) as -> by (apply is_signature_iff; auto).
        cbn [negb]. rewrite (pub_from_hex_ok h Hh). cbn [bind subscript]. rewrite Hsg. cbn [bind].
        assert (verify_signature ed_verify (VStr sg) (VPub (keyb h)) (VBytes data) = Ok tt) as ->; [|reflexivity].
        assert (Hs128 : lower_hex_len 128 sg).
        { clear -Hshape Hsg.
          apply checkformat_signature_iff in Hshape. cbn [checkformat_signature] in Hshape. rewrite Hsg in Hshape.
          destruct (is_hex_signature (VStr sg)) eqn:E; [|discriminate].
          apply is_hex_signature_iff in E as (s & [= <-] & H). exact H. }
        apply verify_signature_ok. exists sg, sb. split; [reflexivity|]. split; [exact Hs128|]. split; auto.
  Qed.

  (* junk never aborts: every entry yields a boolean, provided OpenPGP headers are below 4 GiB *)
  Definition entry_small (v : pv) : Prop :=
    forall m oh hb, v = VDict m -> dget m (U"other_headers") = Some (VStr oh) -> fromhex oh = Some hb ->
                    N.of_nat (length hb) < 4294967296.

  Lemma entry_counts_total gpg kl data k v :
    entry_small v -> exists b, entry_counts ed_verify sha256 gpg kl data (k, v) = Ok b.
  Proof.
    intros Hsmall. unfold entry_counts.
    destruct (is_hex_key k) eqn:Ek; cbn [negb]; [|eauto].
    apply is_hex_key_iff in Ek as (h & -> & Hh). cbn [key_text].
    destruct gpg; cbn [andb negb].
    - destruct (is_gpg_signature v) eqn:Eg; cbn [negb]; [|eauto].
      destruct (existsb (key_is h) kl); cbn [negb]; [|eauto].
      apply is_gpg_signature_iff in Eg. pose proof Eg as Hshape.
      destruct Eg as (m & oh & sg & -> & Ha & H1 & Ho & H2 & Hs & Hl).
      unfold verify_gpg_signature.
      assert (checkformat_gpg_signature (VDict m) = Ok tt) as -> by (apply checkformat_gpg_signature_iff; auto).
      cbn [bind].
      assert (checkformat_hex_key (VStr h) = Ok tt) as -> by (apply checkformat_hex_key_iff; eauto).
      cbn [bind checkformat_byteslike]. rewrite (pub_from_hex_ok h Hh). cbn [bind subscript].
      rewrite H1. cbn [bind hex_bytes].
      destruct (hex_grammar_fromhex oh Ho) as (hb & Ehb). rewrite Ehb. cbn [bind data_bytes].
      unfold frame, be32. specialize (Hsmall m oh hb eq_refl H1 Ehb).
      apply N.ltb_lt in Hsmall. rewrite Hsmall. cbn [bind]. rewrite H2. cbn [bind hex_bytes].
      destruct (lower_hex_fromhex 128 sg eq_refl Hs) as (sb & Esb & _). rewrite Esb. cbn [bind].
      destruct (ed_verify _ _ _); eauto.
    - destruct (existsb (key_is h) kl); cbn [negb]; [|eauto].
      destruct (is_signature v) eqn:Es; cbn [negb]; [|eauto].
      rewrite (pub_from_hex_ok h Hh). cbn [bind].
      apply is_signature_iff in Es.
      assert (exists m sg, v = VDict m /\ dget m (U"signature") = Some sg) as (m & sg & -> & Hsg).
      { destruct Es as [(sg & -> & _)|(m & oh & sg & -> & _ & _ & _ & H2 & _)]; [|eauto].
        eexists _, _. split; [reflexivity|]. cbn [dget].
        assert (key_is (U"signature") (VStr (U"signature")) = true) as -> by (apply key_is_eq; reflexivity).
        reflexivity. }
      cbn [subscript]. rewrite Hsg. cbn [bind].
      destruct (verify_signature_outcomes sg (keyb h) data) as [->|[->| E]]; eauto.
      (* TypeError is impossible: is_signature guarantees a hex signature *)
      exfalso. apply checkformat_signature_iff in Es. cbn [checkformat_signature] in Es. rewrite Hsg in Es.
      cbn [verify_signature] in E. destruct (is_hex_signature sg) eqn:E2; cbn [negb] in *; [|discriminate].
      apply is_hex_signature_iff in E2 as (s & -> & Hs).
      destruct (lower_hex_fromhex 128 s eq_refl Hs) as (b & Eb & _). rewrite Eb in E.
      destruct (ed_verify _ _ _); discriminate.
  Qed.
End Entry.

(* SourceDmFacts.v: the delegating-metadata checker of common.py (Gen/Source.v, interpreted) against its hand-written model. *)
From Coq Require Import String Lia.
From CCT Require Import Prelude Hex Num Time Formats Json PySrc.
From CCT.Gen Require Source Params.
From CCT.proofs Require Import HexFacts SigFacts SourceFacts SourceSigFacts SourceEnvFacts SourceNumFacts.
Open Scope N_scope.

(* the model's functions stay folded while the interpreter is evaluated *)
Local Arguments checkformat_list_of_hex_keys : simpl never.
Local Arguments checkformat_natural_int : simpl never.
Local Arguments checkformat_delegation : simpl never.
Local Arguments checkformat_delegations : simpl never.
Local Arguments checkformat_any_signature : simpl never.
Local Arguments checkformat_utc_isoformat : simpl never.
Local Arguments checkformat_signable : simpl never.
Local Arguments checkformat_string : simpl never.

Lemma src_checkformat_utc_isoformat : forall v,
  run "checkformat_utc_isoformat" [v] = returns_arg (checkformat_utc_isoformat v) v.
Proof.
  intros v. src_enter. src_builtin "datetime.strptime"%string.
  destruct v; try reflexivity.
  scbn. unfold returns_arg, checkformat_utc_isoformat. destruct (utc_ok s); reflexivity.
Qed.

Lemma all_bools : forall (f : pv -> bool) l, py_all (map (fun a => VBool (f a)) l) = Ok (VBool (forallb f l)).
Proof.
  intros f l. induction l as [|a l IH]; [reflexivity|]. cbn [map py_all truth bind forallb]. destruct (f a); [exact IH | reflexivity].
Qed.

Lemma keys_are2_dget : forall m a b, keys_are2 m a b = true -> exists x y, dget m a = Some x /\ dget m b = Some y.
Proof.
  intros m a b K. assert (H : dhas m a = true /\ dhas m b = true).
  { revert K. unfold keys_are2. destruct m as [|[k1 v1] [|[k2 v2] [|]]]; try discriminate. rewrite !dhas2. intros K.
    apply orb_prop in K. destruct K as [K|K]; apply andb_prop in K; destruct K as [K1 K2]; rewrite K1, K2; rewrite ?orb_true_r; auto. }
  destruct H as [H1 H2]. unfold dhas in H1, H2.
  destruct (dget m a) as [x|]; [|discriminate H1]. destruct (dget m b) as [y|]; [|discriminate H2]. eauto.
Qed.

Lemma src_checkformat_delegation : forall v, dict_ok v ->
  run "checkformat_delegation" [v] = returns_arg (checkformat_delegation v) v.
Proof.
  intros v W. destruct v; try reflexivity.
  remember (returns_arg (checkformat_delegation (VDict m)) (VDict m)) as rhs eqn:Hr.
  src_enter. src_builtin "set"%string. scbn.
  destruct W as [ND PK]. rewrite PK. scbn.
  change (forallb _ (map fst m)) with (forallb (in2 (U"threshold") (U"pubkeys")) (map fst m)).
  rewrite (keys2_check m (U"threshold") (U"pubkeys")); [|discriminate|exact ND].
  subst rhs. unfold returns_arg, checkformat_delegation.
  destruct (keys_are2 m (U"threshold") (U"pubkeys")) eqn:K; scbn; [|reflexivity].
  destruct (keys_are2_dget _ _ _ K) as (th & pk & Dth & Dpk). rewrite Dth, Dpk. scbn.
  destruct (py_ge_int th 1) as [ge|e|] eqn:GE; scbn; try reflexivity.
  destruct ge; scbn; [|reflexivity].
  destruct pk; scbn; try reflexivity.
  match goal with |- context [?f l] => is_fix f; set (EACH := f) end.
  assert (HE : forall vs, EACH vs = Ok (VList (map (fun a => VBool (is_hex_key a)) vs))).
  { induction vs as [|a vs IH]; [reflexivity|]. unfold EACH. fold EACH.
    src_call "is_hex_key"%string. rewrite src_is_hex_key. scbn. rewrite IH. reflexivity. }
  rewrite HE. scbn. src_builtin "all"%string. change (call_builtin "all" [VList ?x]) with (py_all x).
  rewrite all_bools. scbn. destruct (forallb is_hex_key l); scbn; [|reflexivity].
  rewrite Dpk. scbn. src_call "checkformat_list_of_hex_keys"%string. rewrite src_checkformat_list_of_hex_keys.
  unfold returns_arg. destruct (checkformat_list_of_hex_keys (VList l)) as [[]|e|]; scbn; try reflexivity.
  rewrite Dth. scbn. src_call "checkformat_natural_int"%string.
  assert (NT : not_text th = true) by (destruct th; try reflexivity; discriminate GE).
  rewrite (src_checkformat_natural_int th NT). unfold returns_arg.
  destruct (checkformat_natural_int th) as [[]|e|]; reflexivity.
Qed.

Lemma dget_nodup : forall m ks d, NoDup (map fst m) -> In (VStr ks, d) m -> dget m ks = Some d.
Proof.
  induction m as [|[k v] m IH]; intros ks d ND I; [destruct I|].
  cbn [dget]. inversion ND as [|? ? N ND']; subst. destruct I as [[= -> ->]|I].
  - cbn. assert (E : ustr_eqb ks ks = true) by (apply ustr_eqb_eq; reflexivity). rewrite E. reflexivity.
  - destruct (key_is ks k) eqn:Kk.
    + apply key_is_true in Kk. subst. exfalso. apply N. change (VStr ks) with (fst (VStr ks, d)). apply in_map. exact I.
    + apply IH; assumption.
Qed.

Definition delegation_dicts_ok (v : pv) : Prop :=
  match v with VDict m => NoDup (map fst m) /\ Forall (fun p => dict_ok (snd p)) m | _ => True end.

Lemma src_checkformat_delegations : forall v, delegation_dicts_ok v ->
  run "checkformat_delegations" [v] = returns_arg (checkformat_delegations v) v.
Proof.
  intros v W. destruct v; try reflexivity. destruct W as [ND DK].
  remember (returns_arg (checkformat_delegations (VDict m)) (VDict m)) as rhs eqn:Hr.
  src_enter.
  match goal with |- context [?f (map fst m) [("delegations"%string, VDict m)]] => set (LOOP := f) end.
  assert (HL : forall m' r, incl m' m -> lookup r "delegations" = Some (VDict m) ->
             LOOP (map fst m') r = match check_delegation_items m' with
                                   | Ok _ => ONormal (loop_env "index" (map fst m') r) | Err e => ORaise e | Unmodelled => OUnmod end).
  { induction m' as [|[k d] m' IH]; intros r I L; [reflexivity|].
    cbn [map fst]. unfold LOOP. fold LOOP. scbn.
    src_call "checkformat_string"%string. rewrite src_checkformat_string. cbn [check_delegation_items].
    unfold returns_arg at 1. destruct (checkformat_string k) as [[]|e|] eqn:CS; scbn; try reflexivity.
    rewrite L. scbn.
    assert (KS : exists ks, k = VStr ks) by (destruct k; try discriminate CS; eexists; reflexivity).
    destruct KS as [ks ->]. scbn.
    assert (Ikd : In (VStr ks, d) m) by (apply I; left; reflexivity).
    rewrite (dget_nodup m ks d ND Ikd). scbn.
    src_call "checkformat_delegation"%string.
    assert (Dd : dict_ok d) by (rewrite Forall_forall in DK; exact (DK _ Ikd)).
    rewrite (src_checkformat_delegation d Dd). unfold returns_arg.
    destruct (checkformat_delegation d) as [[]|e|]; scbn; try reflexivity.
    rewrite IH; [reflexivity | intros x Hx; apply I; right; exact Hx | scbn; exact L]. }
  rewrite HL; [|apply incl_refl|reflexivity].
  subst rhs. unfold returns_arg, checkformat_delegations.
  destruct (check_delegation_items m) as [[]|e|]; scbn; try reflexivity.
  rewrite lookup_loop_env by reflexivity. reflexivity.
Qed.

(* what the refinement of the whole checker asks of its argument -- all of it true of every value json.load returns:
   the envelope's keys are pairwise distinct and of builtin types; the signature map has str keys, pairwise distinct, and no entry is a
   dict of two or more entries with a non-str key (sorted() there is outside the model); the delegations are dicts with distinct
   keys; a version, if present, is not text (int() of text is outside the model) *)
Definition checker_input_ok (v : pv) : Prop :=
  dict_ok v
  /\ (forall sm, subscript v (U"signatures") = Ok (VDict sm) ->
        all_str_keys sm = true /\ NoDup (map fst sm) /\ Forall (fun p => outside_sorted (snd p) = false) sm)
  /\ (forall c, subscript v (U"signed") = Ok c ->
        (forall dl, subscript c (U"delegations") = Ok dl -> delegation_dicts_ok dl)
        /\ (forall ve, subscript c (U"version") = Ok ve -> not_text ve = true)).

Lemma signable_parts : forall v, checkformat_signable v = Ok tt ->
  exists m sm c, v = VDict m /\ dget m (U"signatures") = Some (VDict sm) /\ dget m (U"signed") = Some c.
Proof.
  intros v H. unfold checkformat_signable in H. destruct (is_signable v) eqn:S; [|discriminate H].
  destruct v; try discriminate S. cbn [is_signable] in S.
  apply andb_prop in S. destruct S as [S T]. apply andb_prop in S. destruct S as [K D].
  destruct (dget m (U"signatures")) as [sg|] eqn:E1; [|discriminate D]. destruct sg; try discriminate D.
  destruct (dget m (U"signed")) as [c|] eqn:E2; [|discriminate T]. exists m, m0, c. repeat split; assumption.
Qed.

Lemma src_checkformat_delegating_metadata : forall v, checker_input_ok v ->
  run "checkformat_delegating_metadata" [v] = (checkformat_delegating_metadata v ;;; Ok VNone).
Proof.
  intros v (W & WS & WC).
  remember (checkformat_delegating_metadata v ;;; Ok VNone) as rhs eqn:Hr.
  src_enter. src_call "checkformat_signable"%string. rewrite (src_checkformat_signable v W).
  unfold checkformat_delegating_metadata in Hr.
  destruct (checkformat_signable v) as [[]|e|] eqn:CS; [|subst rhs; reflexivity|subst rhs; reflexivity].
  unfold returns_arg. scbn.
  destruct (signable_parts v CS) as (m & sm & c & -> & Dsm & Dc).
  cbn [subscript bind] in Hr. rewrite Dsm, Dc in Hr. cbn [bind] in Hr.
  cbn [subscript]. rewrite Dsm. scbn.
  destruct (WS sm) as (AS & NDs & OS); [cbn; rewrite Dsm; reflexivity|].
  match goal with |- context [?f (map fst sm) [("metadata"%string, VDict m)]] => set (LOOP := f) end.
  assert (HL : forall sm' r, incl sm' sm -> lookup r "metadata" = Some (VDict m) ->
             LOOP (map fst sm') r = match check_each checkformat_any_signature (map snd sm') with
                                    | Ok _ => ONormal (loop_env "k" (map fst sm') r) | Err e => ORaise e | Unmodelled => OUnmod end).
  { induction sm' as [|[k d] sm' IH]; intros r I L; [reflexivity|].
    cbn [map fst snd]. unfold LOOP. fold LOOP. scbn. rewrite L. scbn. rewrite Dsm. scbn.
    assert (Ikd : In (k, d) sm) by (apply I; left; reflexivity).
    assert (KS : exists ks, k = VStr ks).
    { unfold all_str_keys in AS. rewrite forallb_forall in AS. specialize (AS _ Ikd). destruct k; try discriminate AS. eexists; reflexivity. }
    destruct KS as [ks ->]. rewrite (dget_nodup sm ks d NDs Ikd). scbn.
    src_call "checkformat_any_signature"%string.
    assert (Od : outside_sorted d = false) by (rewrite Forall_forall in OS; exact (OS _ Ikd)).
    rewrite (src_checkformat_any_signature d Od). unfold returns_arg. cbn [check_each].
    destruct (checkformat_any_signature d) as [[]|e|]; scbn; try reflexivity.
    rewrite IH; [reflexivity | intros x Hx; apply I; right; exact Hx | scbn; exact L]. }
  rewrite HL; [|apply incl_refl|reflexivity]. clear HL LOOP.
  destruct (check_each checkformat_any_signature (map snd sm)) as [[]|e|]; [|subst rhs; reflexivity|subst rhs; reflexivity].
  cbn [bind] in Hr. scbn. rewrite lookup_loop_env by reflexivity. scbn. rewrite Dc. scbn.
  set (R0 := loop_env "k" (map fst sm) [("metadata"%string, VDict m)]).
  subst rhs. cbn [require_fields bind].
  destruct (py_in_str (U"type") c) as [[|]|e|] eqn:I1; scbn; try reflexivity.
  destruct (py_in_str (U"metadata_spec_version") c) as [[|]|e|] eqn:I2; scbn; try reflexivity.
  destruct (py_in_str (U"delegations") c) as [[|]|e|] eqn:I3; scbn; try reflexivity.
  destruct (py_in_str (U"expiration") c) as [[|]|e|] eqn:I4; scbn; try reflexivity.
  destruct (subscript c (U"type")) as [ty|e|] eqn:Sty; scbn; try reflexivity.
  src_call "checkformat_string"%string. rewrite src_checkformat_string. unfold returns_arg.
  destruct (checkformat_string ty) as [[]|e|] eqn:CT; scbn; try reflexivity.
  assert (TS : exists tys, ty = VStr tys) by (destruct ty; try discriminate CT; eexists; reflexivity).
  destruct TS as [tys ->]. rewrite Sty. scbn.
  unfold str_in. change Params.supported_dm_types with [U"root"; U"key_mgr"]. cbn [existsb].
  rewrite (ustr_eqb_sym (U"root") tys), (ustr_eqb_sym (U"key_mgr") tys).
  destruct (ustr_eqb tys (U"root") || (ustr_eqb tys (U"key_mgr") || false)) eqn:TY; scbn; try reflexivity.
  destruct (subscript c (U"metadata_spec_version")) as [sv|e|] eqn:Ssv; scbn; try reflexivity.
  src_call "checkformat_string"%string. rewrite src_checkformat_string. unfold returns_arg.
  destruct (checkformat_string sv) as [[]|e|] eqn:CV; scbn; try reflexivity.
  destruct (subscript c (U"delegations")) as [dl|e|] eqn:Sdl; scbn; try reflexivity.
  destruct (WC c) as [WD WV]; [cbn; rewrite Dc; reflexivity|].
  src_call "checkformat_delegations"%string. rewrite (src_checkformat_delegations dl (WD dl Sdl)). unfold returns_arg.
  destruct (checkformat_delegations dl) as [[]|e|] eqn:CD; scbn; try reflexivity.
  destruct (subscript c (U"expiration")) as [ex|e|] eqn:Sex; scbn; try reflexivity.
  src_call "checkformat_utc_isoformat"%string. rewrite src_checkformat_utc_isoformat. unfold returns_arg.
  destruct (checkformat_utc_isoformat ex) as [[]|e|] eqn:CE; scbn; try reflexivity.
  assert (IN : forall k, exists b, py_in_str k c = Ok b) by (intros k; destruct c; try discriminate I1; eexists; reflexivity).
  destruct (IN (U"timestamp")) as [hts Hts]. destruct (IN (U"version")) as [hv Hv]. rewrite Hts, Hv.
  replace (ustr_eqb (U"root") (U"root") || (ustr_eqb (U"key_mgr") (U"root") || false)) with true by reflexivity.
  scbn. destruct hts, hv; scbn; rewrite ?Sty; scbn; rewrite ?Hv, ?Hts; scbn; try reflexivity.
  all: destruct (ustr_eqb tys (U"root")) eqn:TR; scbn; rewrite ?Hts, ?Hv; scbn; try reflexivity.
  all: try (destruct (subscript c (U"timestamp")) as [ts|e|] eqn:Sts; scbn; try reflexivity;
            src_call "checkformat_utc_isoformat"%string; rewrite src_checkformat_utc_isoformat; unfold returns_arg;
            destruct (checkformat_utc_isoformat ts) as [[]|e|]; scbn; rewrite ?Hv; scbn; try reflexivity).
  all: try (destruct (subscript c (U"version")) as [ve|e|] eqn:Sve; scbn; try reflexivity;
            src_call "checkformat_natural_int"%string; rewrite (src_checkformat_natural_int ve (WV ve eq_refl)); unfold returns_arg;
            destruct (checkformat_natural_int ve) as [[]|e|]; scbn; reflexivity).
  all: rewrite ?Hv; scbn; try reflexivity.
  all: try (destruct (subscript c (U"version")) as [ve|e|] eqn:Sve; scbn; try reflexivity;
            src_call "checkformat_natural_int"%string; rewrite (src_checkformat_natural_int ve (WV ve eq_refl)); unfold returns_arg;
            destruct (checkformat_natural_int ve) as [[]|e|]; scbn; reflexivity).
Qed.

From CCT.proofs Require Import SchemaFacts.

Lemma src_checker_iff_schema : forall v, checker_input_ok v ->
  (run "checkformat_delegating_metadata" [v] = Ok VNone <-> dm_ok v).
Proof.
  intros v W. rewrite (src_checkformat_delegating_metadata v W), <- checker_iff_schema.
  destruct (checkformat_delegating_metadata v) as [[]|e|]; cbn [bind]; split; intros H; try reflexivity; discriminate H.
Qed.

Definition wx_key := VStr (repeat 97 64).
Definition wx_deleg := VDict [(VStr (U"pubkeys"), VList [wx_key]); (VStr (U"threshold"), VInt 1)].
Definition wx_signed (extra : list (pv * pv)) :=
  VDict ([(VStr (U"type"), VStr (U"root")); (VStr (U"metadata_spec_version"), VStr (U"0.6.0"));
          (VStr (U"delegations"), VDict [(VStr (U"root"), wx_deleg)]);
          (VStr (U"expiration"), VStr (U"2030-01-01T00:00:00Z"))] ++ extra).
Definition wx_env (extra : list (pv * pv)) :=
  VDict [(VStr (U"signatures"), VDict [(VStr (repeat 98 64), VDict [(VStr (U"signature"), VStr (repeat 99 128))])]); (VStr (U"signed"), wx_signed extra)].

Lemma src_checker_witness :
  checker_input_ok (wx_env [(VStr (U"version"), VInt 1)])
  /\ run "checkformat_delegating_metadata" [wx_env [(VStr (U"version"), VInt 1)]] = Ok VNone
  /\ run "checkformat_delegating_metadata" [wx_env []] = Err ValueError.
Proof.
  split; [|split; vm_compute; reflexivity].
  split; [|split].
  - split; [|reflexivity]. repeat constructor; cbn; intuition discriminate.
  - intros sm H. vm_compute in H. injection H as <-. split; [reflexivity|]. split.
    + repeat constructor; cbn; intuition.
    + repeat constructor.
  - intros c H. vm_compute in H. injection H as <-. split.
    + intros dl H. vm_compute in H. injection H as <-. split.
      * repeat constructor; cbn; intuition.
      * repeat constructor; cbn; try reflexivity; intuition discriminate.
    + intros ve H. vm_compute in H. injection H as <-. reflexivity.
Qed.

(* SourceAuthFacts.v: verify_delegation of authentication.py (Gen/Source.v, interpreted) against its hand-written model, with the one
   package function it calls that is outside the translated program -- verify_signable, which holds the cryptography -- answered by the model. *)
From Coq Require Import String.
From CCT Require Import Prelude Hex Num Time Formats Json Auth PySrc.
From CCT.Gen Require Source Params.
From CCT.proofs Require DelegationFacts.
From CCT.proofs Require Import SchemaFacts FamilyFacts SourceFacts SourceSigFacts SourceEnvFacts SourceNumFacts SourceDmFacts.
Open Scope N_scope.

Local Arguments checkformat_delegating_metadata : simpl never.
Local Arguments checkformat_signable : simpl never.
Local Arguments verify_signable : simpl never.

Section Deleg.
  Variable ed_verify : bytes -> bytes -> bytes -> bool.
  Variable sha256 : bytes -> bytes.

  (* what the body of verify_delegation is run with: the translated program, and the model for the external callee *)
  Definition deleg_callee (f : string) (args : list pv) : res pv :=
    if String.eqb f "verify_signable" then
      match args with
      | [s; K; t; g] => verify_signable ed_verify sha256 s K t g ;;; Ok VNone
      | _ => Err TypeError
      end
    else run f args.

  Definition probe (sd : pv) : pv := VDict [(VStr (U"signatures"), VDict []); (VStr (U"signed"), sd)].

  (* side conditions, all true of values json.load returns (SourceLoadFacts) when versions are not text and the flag is a bool *)
  Definition deleg_inputs_ok (u t g : pv) : Prop :=
    (exists b, g = VBool b) /\ checker_input_ok t /\ dict_ok u
    /\ (forall sd, subscript u (U"signed") = Ok sd -> checker_input_ok (probe sd)).

  Ltac d_call g :=
    match goal with H : ?callee = deleg_callee |- context [?callee g ?a] =>
      replace (callee g a) with (run g a) by (rewrite H; unfold deleg_callee; cbn [String.eqb Ascii.eqb Bool.eqb]; reflexivity) end.

  (* from the lookup of the role to the call of verify_signable *)
  Ltac d_tail :=
    subst; cbn [py_in];
    repeat match goal with
           | |- context [subscript ?a ?k] => destruct (subscript a k) as [?|?|] eqn:?; scbn; try reflexivity
           | |- context [py_in_str ?n ?dl] => destruct (py_in_str n dl) as [[|]|?|] eqn:?; scbn; try reflexivity
           end;
    repeat match goal with H : Ok ?x = Ok ?y |- _ => injection H as H; subst end;
    repeat match goal with H1 : ?e = Ok ?x, H2 : ?e = Ok ?y |- _ => rewrite H1 in H2; injection H2 as H2; subst end;
    try discriminate; try congruence;
    try match goal with |- context [verify_signable ed_verify sha256 ?x1 ?x2 ?x3 ?x4] =>
      destruct (verify_signable ed_verify sha256 x1 x2 x3 x4) as [[]|?|]; reflexivity end.

  Lemma src_verify_delegation : forall nm u t g, deleg_inputs_ok u t g ->
    run_body deleg_callee Source.src_verify_delegation [nm; u; t; g] = (verify_delegation ed_verify sha256 nm u t g ;;; Ok VNone).
  Proof.
    intros nm u t g ([b ->] & Wt & Wu & Wp).
    remember (verify_delegation ed_verify sha256 nm u t (VBool b) ;;; Ok VNone) as rhs eqn:Hr.
    remember deleg_callee as callee eqn:Hcallee.
    scbn.
    destruct nm as [| | | |nms| | | | | | | | | |]; try (subst rhs; reflexivity).
    scbn.
    assert (GF : gpg_flag_ok (VBool b) = true) by (destruct b; reflexivity).
    unfold verify_delegation in Hr. rewrite GF in Hr. cbn [negb] in Hr.
    replace (if eqb b true then Ok true else if eqb b false then Ok true else Ok false) with (@Ok bool true) by (destruct b; reflexivity).
    scbn.
    d_call "checkformat_delegating_metadata"%string. rewrite (src_checkformat_delegating_metadata t Wt).
    destruct (checkformat_delegating_metadata t) as [[]|e|] eqn:CT; scbn; [|subst rhs; reflexivity|subst rhs; reflexivity].
    d_call "checkformat_signable"%string. rewrite (src_checkformat_signable u Wu). unfold returns_arg.
    destruct (checkformat_signable u) as [[]|e|] eqn:CU; scbn; [|subst rhs; reflexivity|subst rhs; reflexivity].
    cbn [bind] in Hr.
    destruct (signable_parts u CU) as (m & sm & sd & -> & Dsm & Dsd).
    cbn [subscript]. rewrite Dsd. scbn.
    replace (ustr_eqb (U"signatures") (U"signed")) with false by reflexivity.
    unfold signed_only in Hr. cbn [subscript bind] in Hr. rewrite Dsd in Hr. cbn [bind] in Hr.
    fold (probe sd). fold (probe sd) in Hr.
    d_call "checkformat_delegating_metadata"%string.
    assert (Wsd : checker_input_ok (probe sd)) by (apply Wp; cbn; rewrite Dsd; reflexivity).
    rewrite (src_checkformat_delegating_metadata (probe sd) Wsd).
    pose proof (fam_cdm (probe sd)) as FP.
    destruct (checkformat_delegating_metadata (probe sd)) as [[]|e|] eqn:CP; scbn; [| |subst rhs; reflexivity].
    - (* the signed part is delegating metadata: its declared type is a str *)
      assert (TY : exists c ty, sd = VDict c /\ dget c (U"type") = Some (VStr ty)).
      { apply checker_iff_schema in CP. destruct CP as (m' & sm' & c & ty & E & TF & _ & _ & DT & _).
        unfold probe in E. injection E as <-. destruct TF as [TF|TF]; injection TF as _ E2; [|discriminate].
        exists c, ty. split; [exact E2 | exact DT]. }
      destruct TY as (c & ty & -> & DT). rewrite Dsd. scbn. rewrite DT. scbn.
      cbn [subscript bind] in Hr. rewrite DT in Hr. cbn [bind] in Hr. unfold str_ne in Hr. cbn [key_is] in Hr.
      rewrite (ustr_eqb_sym nms ty).
      destruct (ustr_eqb ty nms); scbn; [|subst rhs; reflexivity].
      cbn [negb bind] in Hr. d_tail.
    - (* the probe failed: TypeError / ValueError mean "not delegating metadata", skip the type test *)
      destruct e; try discriminate FP; scbn; cbn [bind] in Hr; d_tail.
  Qed.
End Deleg.

(* the iff of C05, of the source text: the body of verify_delegation as written, run with the model answering for verify_signable,
   returns exactly when the model's conditions hold *)
Lemma src_verify_delegation_iff : forall ed_verify sha256 name u t g, deleg_inputs_ok u t g ->
  (run_body (deleg_callee ed_verify sha256) Source.src_verify_delegation [name; u; t; g] = Ok VNone <->
   exists nm keys th,
     name = VStr nm /\ gpg_flag_ok g = true
     /\ checkformat_delegating_metadata t = Ok tt /\ is_signable u = true
     /\ DelegationFacts.type_check u nm = Ok tt
     /\ DelegationFacts.role_rule t nm = Ok (keys, th)
     /\ verify_signable ed_verify sha256 u keys th g = Ok tt).
Proof.
  intros ed_verify sha256 name u t g W. rewrite (src_verify_delegation ed_verify sha256 name u t g W).
  rewrite <- DelegationFacts.verify_delegation_iff.
  destruct (verify_delegation ed_verify sha256 name u t g) as [[]|e|]; cbn [bind]; split; intros H; try reflexivity; discriminate H.
Qed.

(* DelegationFacts.v: verify_delegation -- which rule is applied, type binding, stripping. *)
From CCT Require Import Prelude Hex Num Time Formats Json Auth.
From CCT.Gen Require Params.
From CCT.proofs Require Import HexFacts SigFacts AuthFacts SignableFacts.
From Coq Require Import Lia Permutation.
Open Scope N_scope.

Notation cdm := checkformat_delegating_metadata.

(* envelope in the layout the JSON loader and wrap_as_signable produce *)
Definition mk_env (sm : list (pv * pv)) (sd : pv) : pv :=
  VDict [(VStr (U"signatures"), VDict sm); (VStr (U"signed"), sd)].

Lemma K_sig_sig : key_is (U"signatures") (VStr (U"signatures")) = true. Proof. reflexivity. Qed.
Lemma K_sd_sig : key_is (U"signed") (VStr (U"signatures")) = false. Proof. reflexivity. Qed.
Lemma K_sd_sd : key_is (U"signed") (VStr (U"signed")) = true. Proof. reflexivity. Qed.
Lemma K_sig_sd : key_is (U"signatures") (VStr (U"signed")) = false. Proof. reflexivity. Qed.

Lemma mk_env_signed sm sd : subscript (mk_env sm sd) (U"signed") = Ok sd.
Proof. reflexivity. Qed.
Lemma mk_env_sigs sm sd : subscript (mk_env sm sd) (U"signatures") = Ok (VDict sm).
Proof. reflexivity. Qed.
Lemma mk_env_signable sm sd : is_signable (mk_env sm sd) = type_in sd Params.serializable_types.
Proof. reflexivity. Qed.
Lemma mk_env_signed_only sm sd : signed_only (mk_env sm sd) = Ok (mk_env [] sd).
Proof. reflexivity. Qed.

Section Delegation.
  Variable ed_verify : bytes -> bytes -> bytes -> bool.
  Variable sha256 : bytes -> bytes.
  Notation vsig := (verify_signable ed_verify sha256).
  Notation vdel := (verify_delegation ed_verify sha256).
  Notation ecount := (entry_counts ed_verify sha256).

  (* the type-versus-role test, decided on the signed portion alone *)
  Definition type_check (u : pv) (nm : ustr) : res unit :=
    so <- signed_only u ;;
    match cdm so with
    | Ok _ =>
        sd <- subscript u (U"signed") ;;
        ty <- subscript sd (U"type") ;;
        if str_ne ty nm then Err MetadataVerificationError else Ok tt
    | Err TypeError | Err ValueError => Ok tt
    | Err e => Err e
    | Unmodelled => Unmodelled
    end.

  (* the rule the trusted metadata lists for a role *)
  Definition role_rule (t : pv) (nm : ustr) : res (pv * pv) :=
    ts <- subscript t (U"signed") ;;
    dl <- subscript ts (U"delegations") ;;
    isin <- py_in_str nm dl ;;
    if negb isin then Err UnknownRoleError else
    d <- subscript dl nm ;;
    keys <- subscript d (U"pubkeys") ;;
    th <- subscript d (U"threshold") ;;
    Ok (keys, th).

  Lemma verify_delegation_unfold name u t gpg :
    vdel name u t gpg =
    match name with
    | VStr nm =>
        if negb (gpg_flag_ok gpg) then Err TypeError else
        cdm t ;;; checkformat_signable u ;;; type_check u nm ;;;
        (kt <- role_rule t nm ;; vsig u (fst kt) (snd kt) gpg)
    | _ => Err TypeError
    end.
  Proof.
    unfold verify_delegation, type_check, role_rule. destruct name; try reflexivity.
    destruct (negb (gpg_flag_ok gpg)); [reflexivity|].
    destruct (cdm t) as [[]| |]; cbn [bind]; try reflexivity.
    destruct (checkformat_signable u) as [[]| |]; cbn [bind]; try reflexivity.
    destruct (signed_only u) as [so| |]; cbn [bind]; try reflexivity.
    assert (forall (A : Type) (r : res unit) (k : res A), (r ;;; k) = match r with Ok _ => k | Err e => Err e | Unmodelled => Unmodelled end) as Hb
      by (intros; destruct r as [[]| |]; reflexivity).
    f_equal.
    destruct (subscript t (U"signed")) as [ts| |]; cbn [bind]; try reflexivity.
    destruct (subscript ts (U"delegations")) as [dl| |]; cbn [bind]; try reflexivity.
    destruct (py_in_str s dl) as [b| |]; cbn [bind]; try reflexivity.
    destruct (negb b); [reflexivity|].
    destruct (subscript dl s) as [d| |]; cbn [bind]; try reflexivity.
    destruct (subscript d (U"pubkeys")) as [keys| |]; cbn [bind]; try reflexivity.
    destruct (subscript d (U"threshold")) as [th| |]; cbn [bind]; reflexivity.
  Qed.

  (* ---- C05: acceptance <-> the named role's rule, taken from the trusted side, is met *)
  Theorem verify_delegation_iff name u t gpg :
    vdel name u t gpg = Ok tt <->
    exists nm keys th,
      name = VStr nm /\ gpg_flag_ok gpg = true
      /\ cdm t = Ok tt /\ is_signable u = true
      /\ type_check u nm = Ok tt
      /\ role_rule t nm = Ok (keys, th)
      /\ vsig u keys th gpg = Ok tt.
  Proof.
    rewrite verify_delegation_unfold. split.
    - destruct name; try discriminate.
      destruct (gpg_flag_ok gpg) eqn:Eg; cbn [negb]; [|discriminate].
      destruct (cdm t) as [[]| |] eqn:Et; cbn [bind]; try discriminate.
      unfold checkformat_signable. destruct (is_signable u) eqn:Es; cbn [bind]; [|discriminate].
      destruct (type_check u s) as [[]| |] eqn:Ety; cbn [bind]; try discriminate.
      destruct (role_rule t s) as [[keys th]| |] eqn:Er; cbn [bind fst snd]; try discriminate.
      intros H. exists s, keys, th. repeat (split; auto).
    - intros (nm & keys & th & -> & Eg & Et & Es & Ety & Er & Hv).
      rewrite Eg, Et. cbn [negb bind]. unfold checkformat_signable. rewrite Es. cbn [bind].
      rewrite Ety. cbn [bind]. rewrite Er. cbn [bind fst snd]. exact Hv.
  Qed.

  (* a role that is not delegated is reported as unknown, never accepted *)
  Theorem unknown_role nm u t gpg ts dl :
    gpg_flag_ok gpg = true -> cdm t = Ok tt -> is_signable u = true -> type_check u nm = Ok tt ->
    subscript t (U"signed") = Ok ts -> subscript ts (U"delegations") = Ok dl ->
    py_in_str nm dl = Ok false ->
    vdel (VStr nm) u t gpg = Err UnknownRoleError.
  Proof.
    intros Eg Et Es Ety E1 E2 E3. rewrite verify_delegation_unfold.
    rewrite Eg, Et. cbn [negb bind]. unfold checkformat_signable. rewrite Es. cbn [bind]. rewrite Ety. cbn [bind].
    unfold role_rule. rewrite E1. cbn [bind]. rewrite E2. cbn [bind]. rewrite E3. reflexivity.
  Qed.

  (* the verdict depends on the trusted metadata only through its being well formed and its rule for the role *)
  Theorem rule_is_a_projection_of_trusted nm u t t' gpg :
    cdm t = Ok tt -> cdm t' = Ok tt -> role_rule t nm = role_rule t' nm ->
    vdel (VStr nm) u t gpg = vdel (VStr nm) u t' gpg.
  Proof.
    intros E1 E2 Er. rewrite !verify_delegation_unfold. rewrite E1, E2, Er. reflexivity.
  Qed.

  (* keys that only the untrusted metadata (or another role) lists never count:
     acceptance needs threshold valid entries under the keys of the trusted rule *)
  Theorem delegation_sound name u t gpg :
    vdel name u t gpg = Ok tt ->
    exists nm keys th kl tz sd data sm cs,
      name = VStr nm /\ role_rule t nm = Ok (keys, th) /\ keys = VList kl /\ threshold_value th = Some tz
      /\ subscript u (U"signed") = Ok sd /\ canonserialize sd = Ok data
      /\ subscript u (U"signatures") = Ok (VDict sm)
      /\ incl cs sm /\ (NoDup (map fst sm) -> NoDup (map fst cs)) /\ (1 <= tz <= Z.of_nat (length cs))%Z
      /\ Forall (fun kv => valid_entry ed_verify sha256 (py_truth gpg) kl data (fst kv) (snd kv)) cs.
  Proof.
    intros H. apply verify_delegation_iff in H as (nm & keys & th & -> & _ & _ & _ & _ & Er & Hv).
    apply verify_signable_sound in Hv as (kl & tz & sd & data & sm & _ & -> & Et & Hz & Esd & Ed & Esg & cs & Hi & Hn & Hl & Hf).
    exists nm, (VList kl), th, kl, tz, sd, data, sm, cs. repeat (split; auto); lia.
  Qed.

  (* ---- C06: the declared type is bound to the role by the signed content alone *)
  Theorem type_mismatch_never_accepted nm sm sd t gpg ty :
    cdm (mk_env [] sd) = Ok tt -> subscript sd (U"type") = Ok ty -> str_ne ty nm = true ->
    vdel (VStr nm) (mk_env sm sd) t gpg <> Ok tt.
  Proof.
    intros Ec Ety Hne H. apply verify_delegation_iff in H as (nm' & keys & th & [= <-] & _ & _ & _ & Htc & _).
    unfold type_check in Htc. rewrite mk_env_signed_only in Htc. cbn [bind] in Htc. rewrite Ec in Htc.
    rewrite mk_env_signed in Htc. cbn [bind] in Htc. rewrite Ety in Htc. cbn [bind] in Htc. rewrite Hne in Htc. discriminate.
  Qed.

  Lemma type_check_signed_only sm sm' sd nm : type_check (mk_env sm sd) nm = type_check (mk_env sm' sd) nm.
  Proof. reflexivity. Qed.

  (* stripping: keep exactly the counting entries *)
  Definition strip (gpg : bool) (kl : list pv) (data : bytes) (sm : list (pv * pv)) : list (pv * pv) :=
    filter (counts (ecount gpg kl data)) sm.

  Lemma filter_filter_counts {A} (p : A -> bool) l : filter p (filter p l) = filter p l.
  Proof.
    induction l as [|x l IH]; cbn; auto. destruct (p x) eqn:E; cbn; rewrite ?E, IH; reflexivity.
  Qed.

  Lemma total_on_incl {A} (f : A -> res bool) l l' : incl l' l -> total_on f l -> total_on f l'.
  Proof. intros Hi T x Hx. apply T, Hi, Hx. Qed.

  Lemma vsig_mk_env_ok sm sd K t gpg :
    vsig (mk_env sm sd) K t gpg = Ok tt <->
    exists kl tz data, type_in sd Params.serializable_types = true /\ K = VList kl /\ forallb is_hex_key kl = true
      /\ threshold_value t = Some tz /\ (0 < tz)%Z /\ canonserialize sd = Ok data
      /\ total_on (ecount (py_truth gpg) kl data) sm
      /\ (tz <= Z.of_nat (length (filter (counts (ecount (py_truth gpg) kl data)) sm)))%Z.
  Proof.
    rewrite verify_signable_ok. unfold accepts_with. rewrite mk_env_signable. split.
    - intros (kl & tz & sd' & data & sm' & good & Es & -> & Ek & Et & Hz & Esd & Ed & Esg & Ec & Hg).
      rewrite mk_env_signed in Esd. injection Esd as <-. rewrite mk_env_sigs in Esg. injection Esg as <-.
      apply count_m_ok in Ec as [T ->]. exists kl, tz, data. repeat (split; auto).
    - intros (kl & tz & data & Es & -> & Ek & Et & Hz & Ed & T & Hg).
      exists kl, tz, sd, data, sm, (length (filter (counts (ecount (py_truth gpg) kl data)) sm)).
      repeat (split; eauto). apply count_m_total; auto.
  Qed.

  (* any sub-map that still contains every entry counting under (kl, mode) is accepted as well *)
  Lemma vsig_submap sm sm' sd kl t gpg data :
    canonserialize sd = Ok data ->
    incl sm' sm ->
    (forall kv, In kv sm -> counts (ecount (py_truth gpg) kl data) kv = true -> In kv sm') ->
    NoDup sm -> NoDup sm' ->
    vsig (mk_env sm sd) (VList kl) t gpg = Ok tt -> vsig (mk_env sm' sd) (VList kl) t gpg = Ok tt.
  Proof.
    intros Ed Hincl Hkeep Hn Hn' H. apply vsig_mk_env_ok in H as (kl0 & tz & data0 & Es & [= <-] & Ek & Et & Hz & Ed0 & T & Hg).
    rewrite Ed in Ed0. injection Ed0 as <-.
    apply vsig_mk_env_ok. exists kl, tz, data. repeat (split; auto).
    - eapply total_on_incl; eauto.
    - assert (length (filter (counts (ecount (py_truth gpg) kl data)) sm)
              <= length (filter (counts (ecount (py_truth gpg) kl data)) sm'))%nat; [|lia].
      apply NoDup_incl_length; [apply NoDup_filter; auto|].
      intros kv Hin. apply filter_In in Hin as [Hin Hc]. apply filter_In. split; auto.
  Qed.

  Theorem strip_preserves_signable sm sd kl t gpg data :
    canonserialize sd = Ok data -> NoDup sm ->
    vsig (mk_env sm sd) (VList kl) t gpg = Ok tt ->
    vsig (mk_env (strip (py_truth gpg) kl data sm) sd) (VList kl) t gpg = Ok tt.
  Proof.
    intros Ed Hn H. apply (vsig_submap sm (strip (py_truth gpg) kl data sm) sd kl t gpg data); auto.
    - intros kv Hin. apply filter_In in Hin. tauto.
    - intros kv Hin Hc. apply filter_In. auto.
    - apply NoDup_filter; auto.
  Qed.

  Theorem strip_preserves_delegation nm sm sd t gpg kl th data :
    role_rule t nm = Ok (VList kl, th) -> canonserialize sd = Ok data -> NoDup sm ->
    vdel (VStr nm) (mk_env sm sd) t gpg = Ok tt ->
    vdel (VStr nm) (mk_env (strip (py_truth gpg) kl data sm) sd) t gpg = Ok tt.
  Proof.
    intros Er Ed Hn H. apply verify_delegation_iff in H as (nm' & keys & th' & [= <-] & Eg & Et & Es & Htc & Er' & Hv).
    rewrite Er in Er'. injection Er' as <- <-.
    apply verify_delegation_iff. exists nm, (VList kl), th. repeat (split; auto).
    apply strip_preserves_signable; auto.
  Qed.

  (* acceptance is determined by the signed portion and the counting entries alone *)
  Theorem acceptance_depends_on_counting_only sm sm' sd kl t gpg data :
    canonserialize sd = Ok data -> NoDup sm -> NoDup sm' ->
    total_on (ecount (py_truth gpg) kl data) sm -> total_on (ecount (py_truth gpg) kl data) sm' ->
    (forall kv, In kv (strip (py_truth gpg) kl data sm) <-> In kv (strip (py_truth gpg) kl data sm')) ->
    (vsig (mk_env sm sd) (VList kl) t gpg = Ok tt <-> vsig (mk_env sm' sd) (VList kl) t gpg = Ok tt).
  Proof.
    intros Ed Hn Hn' T T' Heq.
    assert (L : length (strip (py_truth gpg) kl data sm) = length (strip (py_truth gpg) kl data sm')).
    { apply Nat.le_antisymm; apply NoDup_incl_length; try (apply NoDup_filter; auto); intros kv; apply Heq. }
    unfold strip in L. rewrite !vsig_mk_env_ok. split;
      intros (kl0 & tz & data0 & Es & [= <-] & Ek & Et & Hz & Ed0 & _ & Hg);
      rewrite Ed in Ed0; injection Ed0 as <-; exists kl, tz, data; repeat (split; auto); lia.
  Qed.
End Delegation.

(* FamilyFacts.v: every validator and verifier ends in its documented error family (C13),
   for all Python values of the universe. *)
From CCT Require Import Prelude Hex Num Time Formats Json Auth.
From CCT.Gen Require Params.
From CCT.proofs Require Import HexFacts SigFacts AuthFacts SignableFacts DelegationFacts SchemaFacts.
From Coq Require Import Lia.
Open Scope N_scope.

(* families, as sets of exception classes *)
Definition f_tv (e : exn) : bool := match e with TypeError | ValueError => true | _ => false end.
Definition f_sig1 (e : exn) : bool :=            (* the two single-signature primitives *)
  match e with TypeError | ValueError | InvalidSignature | StructError => true | _ => false end.
Definition f_signable (e : exn) : bool :=
  match e with TypeError | ValueError | SignatureError | StructError => true | _ => false end.
Definition f_lib (e : exn) : bool :=             (* verify_delegation / verify_root *)
  match e with TypeError | ValueError | SignatureError | MetadataVerificationError | UnknownRoleError
             | StructError => true | _ => false end.

(* r ends in family P: accepted, or an error of P, or outside the modelled fragment (explicit) *)
Definition fam {A} (P : exn -> bool) (r : res A) : Prop :=
  match r with Ok _ => True | Err e => P e = true | Unmodelled => True end.

Lemma fam_bind {A B} P (r : res A) (k : A -> res B) :
  fam P r -> (forall a, r = Ok a -> fam P (k a)) -> fam P (bind r k).
Proof. destruct r; cbn; auto. Qed.

Lemma fam_weaken {A} (P Q : exn -> bool) (r : res A) :
  (forall e, P e = true -> Q e = true) -> fam P r -> fam Q r.
Proof. destruct r; cbn; auto. Qed.

Lemma fam_of_3 {A} (r : res A) a : r = Ok a \/ r = Err TypeError \/ r = Err ValueError -> fam f_tv r.
Proof. intros [->|[->| ->]]; cbn; auto. Qed.

Ltac fam_step :=
  match goal with
  | |- fam _ (bind _ _) => apply fam_bind; [|intros ? ?]
  | |- fam _ (if ?b then _ else _) => destruct b eqn:?
  | |- fam _ (Ok _) => exact I
  | |- fam _ (Err _) => reflexivity
  | |- fam _ Unmodelled => exact I
  end.

(* ---- leaf validators *)
Lemma fam_hex_string v : fam f_tv (checkformat_hex_string v).
Proof. eapply fam_of_3, checkformat_hex_string_family. Qed.

Lemma fam_hex_key v : fam f_tv (checkformat_hex_key v).
Proof. unfold checkformat_hex_key. repeat fam_step. apply fam_hex_string. Qed.

Lemma fam_signable v : fam f_tv (checkformat_signable v).
Proof. unfold checkformat_signable. repeat fam_step. Qed.

Lemma fam_byteslike v : fam f_tv (checkformat_byteslike v).
Proof. destruct v; cbn; auto. Qed.

Lemma fam_py_lt v c : fam f_tv (py_lt_int v c).
Proof. unfold py_lt_int, num_cmp_int. destruct v; cbn; auto. destruct (float_view r); cbn; auto. Qed.

Lemma fam_py_ge v c : fam f_tv (py_ge_int v c).
Proof. unfold py_ge_int, num_cmp_int. destruct v; cbn; auto. destruct (float_view r); cbn; auto. Qed.

Lemma fam_natural_int v : fam f_tv (checkformat_natural_int v).
Proof.
  unfold checkformat_natural_int, py_int. destruct v; cbn [fam]; auto;
    try (repeat fam_step; apply fam_py_lt).
  destruct (float_view r) eqn:E; cbn [fam]; auto; try reflexivity.
  - cbn [negb]. fam_step; [apply fam_py_lt|]. repeat fam_step.
Qed.

Lemma fam_string v : fam f_tv (checkformat_string v).
Proof. unfold checkformat_string. repeat fam_step. Qed.

Lemma fam_expiration_distance v : fam f_tv (checkformat_expiration_distance v).
Proof. destruct v; cbn; auto. Qed.

Lemma fam_check_each f l : (forall x, fam f_tv (f x)) -> fam f_tv (check_each f l).
Proof. intros H. induction l as [|x l IH]; cbn [check_each]; [exact I|]. fam_step; auto. Qed.

Lemma fam_list_of_hex_keys v : fam f_tv (checkformat_list_of_hex_keys v).
Proof.
  destruct v; cbn [checkformat_list_of_hex_keys]; try reflexivity.
  fam_step; [apply fam_check_each, fam_hex_key|]. repeat fam_step.
Qed.

Lemma fam_utc v : fam f_tv (checkformat_utc_isoformat v).
Proof. destruct v; cbn; auto. destruct (utc_ok s); cbn; auto. Qed.

Lemma fam_gpg_fingerprint v : fam f_tv (checkformat_gpg_fingerprint v).
Proof. eapply fam_of_3, checkformat_gpg_fingerprint_family. Qed.

Lemma fam_gpg_signature v : fam f_tv (checkformat_gpg_signature v).
Proof.
  destruct v; cbn [checkformat_gpg_signature]; try reflexivity.
  fam_step; [exact I|].
  unfold gpg_keyset.
  destruct (length m) as [|[|[|[|n]]]]; try reflexivity.
  - destruct (dhas m (U"other_headers")) eqn:H1; [|reflexivity].
    destruct (dhas m (U"signature")) eqn:H2; [|reflexivity]. cbn [andb].
    apply dhas_dget in H1 as [oh H1]. apply dhas_dget in H2 as [sg H2].
    cbn [subscript bind]. rewrite H1, H2. cbn [bind]. repeat fam_step.
  - destruct (dhas m (U"other_headers")) eqn:H1; [|reflexivity].
    destruct (dhas m (U"signature")) eqn:H2; [|reflexivity].
    destruct (dhas m (U"see_also")) eqn:H3; [|reflexivity]. cbn [andb].
    apply dhas_dget in H1 as [oh H1]. apply dhas_dget in H2 as [sg H2]. apply dhas_dget in H3 as [fp H3].
    cbn [subscript bind]. rewrite H1, H2, H3. cbn [bind]. repeat fam_step. apply fam_gpg_fingerprint.
Qed.

Lemma fam_signature v : fam f_tv (checkformat_signature v).
Proof. eapply fam_of_3, checkformat_signature_family. Qed.

Lemma fam_any_signature v : fam f_tv (checkformat_any_signature v).
Proof. unfold checkformat_any_signature. repeat fam_step. Qed.

Lemma fam_delegation v : fam f_tv (checkformat_delegation v).
Proof.
  destruct v; cbn [checkformat_delegation]; try reflexivity.
  destruct (keys_are2 m (U"threshold") (U"pubkeys")) eqn:Ek; cbn [negb]; [|reflexivity].
  apply keys_are2_iff in Ek as (th & pk & Htf).
  destruct (two_fields_dget m (U"threshold") (U"pubkeys") _ _ eq_refl Htf) as [E1 E2].
  cbn [subscript]. rewrite E1, E2. cbn [bind].
  fam_step; [apply fam_py_ge|]. fam_step; [reflexivity|].
  destruct pk; try reflexivity. fam_step; [reflexivity|].
  fam_step; [apply fam_list_of_hex_keys|]. apply fam_natural_int.
Qed.

Lemma fam_delegations v : fam f_tv (checkformat_delegations v).
Proof.
  destruct v; cbn [checkformat_delegations]; try reflexivity.
  induction m as [|[k d] m IH]; cbn [check_delegation_items]; [exact I|].
  fam_step; [apply fam_string|]. fam_step; [apply fam_delegation|]. exact IH.
Qed.

Lemma fam_subscript_nondict v k : is_dict v = false -> fam f_tv (subscript v k).
Proof. destruct v; cbn; auto; discriminate. Qed.

Lemma fam_require_fields c fs : fam f_tv (require_fields c fs).
Proof.
  induction fs as [|f fs IH]; cbn [require_fields]; [exact I|].
  fam_step.
  - destruct c; cbn; auto.
  - fam_step; [exact IH|reflexivity].
Qed.

(* a present key can be subscripted *)
Lemma subscript_has c k : dhas c k = true -> exists x, subscript (VDict c) k = Ok x.
Proof. intros H. apply dhas_dget in H as [x H]. exists x. cbn. rewrite H. reflexivity. Qed.

Lemma require_fields_in c f fs : require_fields c fs = Ok tt -> In f fs ->
  is_dict c = true -> exists x, subscript c f = Ok x.
Proof.
  intros H Hin Hd. destruct c; try discriminate. apply require_fields_ok in H.
  rewrite Forall_forall in H. apply subscript_has. apply H; auto.
Qed.

Lemma fam_subscript_required c f fs :
  require_fields c fs = Ok tt -> In f fs -> fam f_tv (subscript c f).
Proof.
  intros H Hin. destruct (is_dict c) eqn:Ed.
  - destruct (require_fields_in c f fs H Hin Ed) as [x ->]. exact I.
  - apply fam_subscript_nondict; auto.
Qed.

Theorem fam_cdm v : fam f_tv (cdm v).
Proof.
  unfold checkformat_delegating_metadata, checkformat_signable.
  destruct (is_signable v) eqn:Es; cbn [bind]; [|reflexivity].
  apply is_signable_iff in Es as (m & sm & x & -> & Htf & Hty).
  destruct (two_fields_dget m (U"signatures") (U"signed") _ _ eq_refl Htf) as [E1 E2].
  cbn [subscript]. rewrite E1, E2. cbn [bind].
  fam_step; [apply fam_check_each, fam_any_signature|].
  destruct (require_fields x _) as [[]| |] eqn:Er; cbn [bind];
    [|pose proof (fam_require_fields x [U"type"; U"metadata_spec_version"; U"delegations"; U"expiration"]) as F;
      rewrite Er in F; exact F|exact I].
  fam_step; [eapply fam_subscript_required; [exact Er|cbn; auto]|].
  fam_step; [apply fam_string|].
  destruct a0; try reflexivity.
  fam_step; [reflexivity|].
  fam_step; [eapply fam_subscript_required; [exact Er|cbn; auto]|].
  fam_step; [apply fam_string|].
  fam_step; [eapply fam_subscript_required; [exact Er|cbn; auto]|].
  fam_step; [apply fam_delegations|].
  fam_step; [eapply fam_subscript_required; [exact Er|cbn; auto 6]|].
  fam_step; [apply fam_utc|].
  destruct x; try (match goal with H : subscript _ _ = Ok _ |- _ => discriminate H end).
  cbn [py_in_str bind].
  fam_step; [reflexivity|]. fam_step; [reflexivity|].
  fam_step.
  - destruct (dhas m0 (U"timestamp")) eqn:Et; [|exact I].
    destruct (subscript_has _ _ Et) as [ts ->]. cbn [bind]. apply fam_utc.
  - destruct (dhas m0 (U"version")) eqn:Ev; [|exact I].
    destruct (subscript_has _ _ Ev) as [ve ->]. cbn [bind]. apply fam_natural_int.
Qed.

(* ---- canonical serializer: TypeError only (or an explicit Unmodelled for non-str dict keys) *)
Section PvInd.
  Variable P : pv -> Prop.
  Hypothesis HNone : P VNone.
  Hypothesis HBool : forall b, P (VBool b).
  Hypothesis HInt : forall z, P (VInt z).
  Hypothesis HFloat : forall r, P (VFloat r).
  Hypothesis HStr : forall s, P (VStr s).
  Hypothesis HBytes : forall b, P (VBytes b).
  Hypothesis HBytearray : forall b, P (VBytearray b).
  Hypothesis HList : forall l, Forall P l -> P (VList l).
  Hypothesis HTuple : forall l, Forall P l -> P (VTuple l).
  Hypothesis HSet : forall l, Forall P l -> P (VSet l).
  Hypothesis HDict : forall m, Forall (fun kv => P (fst kv) /\ P (snd kv)) m -> P (VDict m).
  Hypothesis HPub : forall k, P (VPub k).
  Hypothesis HPriv : forall k, P (VPriv k).
  Hypothesis HDelta : forall a b c, P (VDelta a b c).
  Hypothesis HObj : forall n, P (VObj n).

  Fixpoint pv_ind' (v : pv) : P v :=
    match v with
    | VNone => HNone | VBool b => HBool b | VInt z => HInt z | VFloat r => HFloat r | VStr s => HStr s
    | VBytes b => HBytes b | VBytearray b => HBytearray b
    | VList l => HList l ((fix go (l : list pv) : Forall P l :=
                             match l with [] => Forall_nil _ | x :: r => Forall_cons x (pv_ind' x) (go r) end) l)
    | VTuple l => HTuple l ((fix go (l : list pv) : Forall P l :=
                             match l with [] => Forall_nil _ | x :: r => Forall_cons x (pv_ind' x) (go r) end) l)
    | VSet l => HSet l ((fix go (l : list pv) : Forall P l :=
                             match l with [] => Forall_nil _ | x :: r => Forall_cons x (pv_ind' x) (go r) end) l)
    | VDict m => HDict m ((fix go (m : list (pv * pv)) : Forall (fun kv => P (fst kv) /\ P (snd kv)) m :=
                             match m with
                             | [] => Forall_nil _
                             | (k, x) :: r => Forall_cons (k, x) (conj (pv_ind' k) (pv_ind' x)) (go r)
                             end) m)
    | VPub k => HPub k | VPriv k => HPriv k | VDelta a b c => HDelta a b c | VObj n => HObj n
    end.
End PvInd.

Lemma fam_ser_items lvl l : Forall (fun v => forall lvl, fam f_tv (ser lvl v)) l ->
  fam f_tv ((fix go (l : list pv) : res (list ustr) :=
               match l with
               | [] => Ok []
               | x :: r => b <- ser (S lvl) x ;; bs <- go r ;; Ok (b :: bs)
               end) l).
Proof.
  induction 1 as [|y l' Hy F IH]; [exact I|]. cbv beta iota fix.
  fam_step; [apply Hy|]. fam_step; [apply IH|]. exact I.
Qed.

Lemma fam_ser_kvs lvl (m : list (pv * pv)) :
  Forall (fun kv => (forall lvl, fam f_tv (ser lvl (fst kv))) /\ (forall lvl, fam f_tv (ser lvl (snd kv)))) m ->
  fam f_tv ((fix go (m : list (pv * pv)) : res (list (ustr * ustr)) :=
               match m with
               | [] => Ok []
               | (k, x) :: r => b <- ser (S lvl) x ;; bs <- go r ;; Ok ((key_text k, b) :: bs)
               end) m).
Proof.
  induction 1 as [|[k y] m' [_ Hy] F IH]; [exact I|]. cbv beta iota fix.
  fam_step; [apply Hy|]. fam_step; [apply IH|]. exact I.
Qed.

Lemma fam_ser : forall v lvl, fam f_tv (ser lvl v).
Proof.
  induction v using pv_ind'; intros lvl; cbn [ser]; try exact I; try reflexivity.
  - destruct b; exact I.
  - destruct l as [|x l]; [exact I|].
    fam_step; [apply (fam_ser_items lvl (x :: l)); assumption|exact I].
  - destruct l as [|x l]; [exact I|].
    fam_step; [apply (fam_ser_items lvl (x :: l)); assumption|exact I].
  - destruct m as [|kv m]; [exact I|].
    fam_step; [exact I|]. fam_step; [apply (fam_ser_kvs lvl (kv :: m)); assumption|exact I].
Qed.

Lemma fam_canonserialize v : fam f_tv (canonserialize v).
Proof. apply fam_ser. Qed.

Section Verifiers.
  Variable ed_verify : bytes -> bytes -> bytes -> bool.
  Variable sha256 : bytes -> bytes.
  Notation vsig := (verify_signable ed_verify sha256).
  Notation vdel := (verify_delegation ed_verify sha256).
  Notation vroot := (verify_root ed_verify sha256).

  Lemma fam_verify_signature sg pk data : fam f_sig1 (verify_signature ed_verify sg pk data).
  Proof.
    unfold verify_signature. destruct pk; try reflexivity. fam_step; [reflexivity|].
    destruct data; try reflexivity. destruct sg; try reflexivity.
    destruct (fromhex s); [|reflexivity]. repeat fam_step.
  Qed.

  Lemma fam_pub_from_hex v : fam f_tv (pub_from_hex v).
  Proof.
    unfold pub_from_hex. fam_step; [apply fam_hex_key|]. destruct v; try reflexivity.
    destruct (fromhex s); [|reflexivity]. repeat fam_step.
  Qed.

  Lemma fam_hex_bytes v : fam f_tv (hex_bytes v).
  Proof. destruct v; cbn; auto. destruct (fromhex s); cbn; auto. Qed.

  Lemma fam_frame d h : fam f_sig1 (frame d h).
  Proof. unfold frame, be32. destruct (_ <? _); cbn; auto. Qed.

  Lemma fam_verify_gpg_signature sg kv data : fam f_sig1 (verify_gpg_signature ed_verify sha256 sg kv data).
  Proof.
    unfold verify_gpg_signature.
    destruct (checkformat_gpg_signature sg) as [[]| |] eqn:Eg; cbn [bind];
      [|pose proof (fam_gpg_signature sg) as F; rewrite Eg in F; destruct e; try discriminate F; reflexivity|exact I].
    apply checkformat_gpg_signature_iff in Eg as (m & oh & sgs & -> & Ha & H1 & Ho & H2 & Hs & Hl).
    fam_step; [eapply fam_weaken; [|apply fam_hex_key]; intros []; cbn; auto|].
    fam_step; [eapply fam_weaken; [|apply fam_byteslike]; intros []; cbn; auto|].
    fam_step; [eapply fam_weaken; [|apply fam_pub_from_hex]; intros []; cbn; auto|].
    cbn [subscript]. rewrite H1, H2. cbn [bind].
    fam_step; [eapply fam_weaken; [|apply fam_hex_bytes]; intros []; cbn; auto|].
    fam_step; [destruct data; cbn; auto|].
    fam_step; [apply fam_frame|].
    fam_step; [eapply fam_weaken; [|apply fam_hex_bytes]; intros []; cbn; auto|].
    repeat fam_step.
  Qed.

  (* one loop iteration: a boolean, or (only for OpenPGP headers of 4 GiB or more) struct.error *)
  Lemma entry_counts_family gpg kl data k v :
    (exists b, entry_counts ed_verify sha256 gpg kl data (k, v) = Ok b)
    \/ entry_counts ed_verify sha256 gpg kl data (k, v) = Err StructError.
  Proof.
    unfold entry_counts.
    destruct (is_hex_key k) eqn:Ek; cbn [negb]; [|eauto].
    apply is_hex_key_iff in Ek as (h & -> & Hh). cbn [key_text].
    destruct gpg; cbn [andb negb].
    - destruct (is_gpg_signature v) eqn:Eg; cbn [negb]; [|eauto].
      destruct (existsb (key_is h) kl); cbn [negb]; [|eauto].
      apply is_gpg_signature_iff in Eg. pose proof Eg as Hshape.
      destruct Eg as (m & oh & sg & -> & Ha & H1 & Ho & H2 & Hs & Hl).
      unfold verify_gpg_signature.
      assert (checkformat_gpg_signature (VDict m) = Ok tt) as -> by (apply checkformat_gpg_signature_iff; auto).
      cbn [bind].
      assert (checkformat_hex_key (VStr h) = Ok tt) as -> by (apply checkformat_hex_key_iff; eauto).
      cbn [bind checkformat_byteslike]. rewrite (pub_from_hex_ok h Hh). cbn [bind subscript].
      rewrite H1. cbn [bind hex_bytes].
      destruct (hex_grammar_fromhex oh Ho) as (hb & Ehb). rewrite Ehb. cbn [bind data_bytes].
      unfold frame, be32. destruct (N.of_nat (length hb) <? 4294967296); cbn [bind]; [|auto].
      rewrite H2. cbn [bind hex_bytes].
      destruct (lower_hex_fromhex 128 sg eq_refl Hs) as (sb & Esb & _). rewrite Esb. cbn [bind].
      destruct (ed_verify _ _ _); eauto.
    - left. destruct (existsb (key_is h) kl); cbn [negb]; [|eauto].
      destruct (is_signature v) eqn:Es; cbn [negb]; [|eauto].
      rewrite (pub_from_hex_ok h Hh). cbn [bind].
      apply is_signature_iff in Es.
      assert (exists m sg, v = VDict m /\ dget m (U"signature") = Some sg) as (m & sg & -> & Hsg).
      { destruct Es as [(sg & -> & _)|(m & oh & sg & -> & _ & _ & _ & H2 & _)]; [|eauto].
        eexists _, _. split; [reflexivity|]. cbn [dget].
        assert (key_is (U"signature") (VStr (U"signature")) = true) as -> by (apply key_is_eq; reflexivity).
        reflexivity. }
      cbn [subscript]. rewrite Hsg. cbn [bind].
      destruct (verify_signature_outcomes ed_verify sg (keyb h) data) as [->|[->| E]]; eauto.
      exfalso. apply checkformat_signature_iff in Es. cbn [checkformat_signature] in Es. rewrite Hsg in Es.
      cbn [verify_signature] in E. destruct (is_hex_signature sg) eqn:E2; cbn [negb] in *; [|discriminate].
      apply is_hex_signature_iff in E2 as (s & -> & Hs).
      destruct (lower_hex_fromhex 128 s eq_refl Hs) as (b & Eb & _). rewrite Eb in E.
      destruct (ed_verify _ _ _); discriminate.
  Qed.

  Lemma fam_count_m kl data gpg sm :
    fam f_signable (count_m (entry_counts ed_verify sha256 gpg kl data) sm).
  Proof.
    induction sm as [|[k v] sm IH]; cbn [count_m]; [exact I|].
    destruct (entry_counts_family gpg kl data k v) as [[b ->]| ->]; cbn [bind]; [|reflexivity].
    fam_step; [exact IH|exact I].
  Qed.

  Theorem fam_verify_signable s K t gpg : fam f_signable (vsig s K t gpg).
  Proof.
    unfold verify_signable. destruct (is_signable s) eqn:Es; cbn [negb]; [|reflexivity].
    destruct K; try reflexivity. fam_step; [reflexivity|].
    destruct (threshold_value t); [|reflexivity]. fam_step; [reflexivity|].
    apply is_signable_iff in Es as (m & sm & x & -> & Htf & Hty).
    destruct (two_fields_dget m (U"signatures") (U"signed") _ _ eq_refl Htf) as [E1 E2].
    cbn [subscript]. rewrite E1, E2. cbn [bind].
    fam_step; [eapply fam_weaken; [|apply fam_canonserialize]; intros []; cbn; auto|].
    fam_step; [apply fam_count_m|]. repeat fam_step.
  Qed.

  (* what a checker-accepted document guarantees to the code that subscripts it *)
  Lemma dget_In m k x : dget m k = Some x -> In (VStr k, x) m.
  Proof.
    induction m as [|[k' y] m IH]; cbn [dget]; [discriminate|].
    destruct (key_is k k') eqn:E.
    - intros [= ->]. apply key_is_eq in E as ->. left; reflexivity.
    - intros H. right. auto.
  Qed.

  Lemma delegation_ok_fields d : delegation_ok d ->
    exists ks th, subscript d (U"pubkeys") = Ok (VList ks) /\ subscript d (U"threshold") = Ok th
                  /\ Forall hex_key_val ks /\ NoDup ks /\ natural th.
  Proof.
    intros (m & th & ks & -> & Htf & F & N & Hn).
    destruct (two_fields_dget m (U"threshold") (U"pubkeys") _ _ eq_refl Htf) as [E1 E2].
    exists ks, th. cbn [subscript]. rewrite E1, E2. auto.
  Qed.

  Lemma dm_ok_fields v : dm_ok v ->
    exists c ty dm,
      subscript v (U"signed") = Ok (VDict c)
      /\ dget c (U"type") = Some (VStr ty) /\ dget c (U"delegations") = Some (VDict dm)
      /\ Forall (fun kd => is_str (fst kd) = true /\ delegation_ok (snd kd)) dm
      /\ if_field c (U"version") natural /\ (ty = U"root" -> dhas c (U"version") = true).
  Proof.
    intros (m & sm & c & ty & -> & Htf & Hty & Fs & Ety & Hsup & _ & (dl & Edl & (dm & -> & Hdm)) & _ & _ & Hroot & _ & Hve).
    destruct (two_fields_dget m (U"signatures") (U"signed") _ _ eq_refl Htf) as [E1 E2].
    exists c, ty, dm. cbn [subscript]. rewrite E2. auto 10.
  Qed.

  Lemma role_fields dm nm : Forall (fun kd => is_str (fst kd) = true /\ delegation_ok (snd kd)) dm ->
    dhas dm nm = true ->
    exists d ks th, dget dm nm = Some d /\ subscript d (U"pubkeys") = Ok (VList ks)
                    /\ subscript d (U"threshold") = Ok th /\ natural th.
  Proof.
    intros F H. apply dhas_dget in H as [d Hd]. pose proof (dget_In _ _ _ Hd) as Hin.
    rewrite Forall_forall in F. destruct (F _ Hin) as [_ Hok]. cbn [snd] in Hok.
    destruct (delegation_ok_fields d Hok) as (ks & th & E1 & E2 & _ & _ & Hn).
    exists d, ks, th. auto.
  Qed.

  Lemma subscript_dget m k x : dget m k = Some x -> subscript (VDict m) k = Ok x.
  Proof. intros H. cbn. rewrite H. reflexivity. Qed.

  Lemma f_signable_lib e : f_signable e = true -> f_lib e = true.
  Proof. destruct e; cbn; auto. Qed.
  Lemma f_tv_lib e : f_tv e = true -> f_lib e = true.
  Proof. destruct e; cbn; auto. Qed.

  Theorem fam_verify_delegation name u t gpg : fam f_lib (vdel name u t gpg).
  Proof.
    unfold verify_delegation. destruct name; try reflexivity. fam_step; [reflexivity|].
    destruct (cdm t) as [[]|e|] eqn:Et; cbn [bind];
      [|pose proof (fam_cdm t) as F; rewrite Et in F; apply f_tv_lib; exact F|exact I].
    apply checker_iff_schema in Et. destruct (dm_ok_fields t Et) as (c & ty & dm & Ets & Ety & Edl & Fdm & _ & _).
    unfold checkformat_signable. destruct (is_signable u) eqn:Es; cbn [bind]; [|reflexivity].
    apply is_signable_iff in Es as (m & sm & x & -> & Htf & Hty).
    destruct (two_fields_dget m (U"signatures") (U"signed") _ _ eq_refl Htf) as [E1 E2].
    unfold signed_only. cbn [subscript]. rewrite E2. cbn [bind].
    fam_step.
    - pose proof (fam_cdm (VDict [(VStr (U"signatures"), VDict []); (VStr (U"signed"), x)])) as F.
      destruct (cdm (VDict [(VStr (U"signatures"), VDict []); (VStr (U"signed"), x)])) as [[]|e|] eqn:Eso; [| |exact I].
      + apply checker_iff_schema in Eso. destruct (dm_ok_fields _ Eso) as (c' & ty' & dm' & Ex & Ety' & _).
        cbn in Ex. injection Ex as ->. cbn [bind subscript]. rewrite Ety'. cbn [bind]. repeat fam_step.
      + destruct e; try discriminate F; exact I.
    - rewrite Ets. cbn [bind subscript]. rewrite Edl. cbn [bind py_in_str].
      destruct (dhas dm s) eqn:Eh; cbn [negb]; [|reflexivity].
      destruct (role_fields dm s Fdm Eh) as (d & ks & th & Ed & Ek & Eth & Hn).
      rewrite (subscript_dget _ _ _ Ed). cbn [bind]. rewrite Ek. cbn [bind]. rewrite Eth. cbn [bind].
      eapply fam_weaken; [apply f_signable_lib|apply fam_verify_signable].
  Qed.

  Lemma natural_py_int v : natural v -> exists z same, py_int v = Ok (IntIs z same).
  Proof.
    intros (z & Hz & _). unfold py_int, int_value in *. destruct v; try discriminate; eauto.
    destruct (float_view r); try discriminate; eauto.
  Qed.

  Theorem fam_verify_root t u : fam f_lib (vroot t u).
  Proof.
    unfold verify_root.
    destruct (cdm t) as [[]|e|] eqn:Et; cbn [bind];
      [|pose proof (fam_cdm t) as F; rewrite Et in F; apply f_tv_lib; exact F|exact I].
    destruct (cdm u) as [[]|e|] eqn:Eu; cbn [bind];
      [|pose proof (fam_cdm u) as F; rewrite Eu in F; apply f_tv_lib; exact F|exact I].
    apply checker_iff_schema in Et, Eu.
    destruct (dm_ok_fields t Et) as (c & ty & dm & -> & Ety & Edl & Fdm & Hve & Hroot).
    destruct (dm_ok_fields u Eu) as (c' & ty' & dm' & -> & Ety' & Edl' & Fdm' & Hve' & Hroot').
    cbn [bind subscript]. rewrite Ety, Ety'. cbn [bind].
    destruct (str_ne (VStr ty) (U"root")) eqn:N1; cbn [orb]; [reflexivity|].
    destruct (str_ne (VStr ty') (U"root")) eqn:N2; [reflexivity|].
    unfold str_ne in N1, N2. apply negb_false_iff in N1, N2. apply key_is_eq in N1, N2.
    injection N1 as ->. injection N2 as ->.
    rewrite Edl, Edl'. cbn [bind py_in_str].
    destruct (dhas dm (U"root")) eqn:H1; cbn [negb]; [|reflexivity].
    destruct (dhas dm' (U"root")) eqn:H2; cbn [negb]; [|reflexivity].
    destruct (role_fields dm _ Fdm H1) as (d & ks & th & E1 & E2 & E3 & _).
    destruct (role_fields dm' _ Fdm' H2) as (d' & ks' & th' & E1' & E2' & E3' & _).
    rewrite (subscript_dget _ _ _ E1), (subscript_dget _ _ _ E1'). cbn [bind]. rewrite E3, E2. cbn [bind]. rewrite E3', E2'. cbn [bind].
    specialize (Hroot eq_refl). specialize (Hroot' eq_refl).
    apply dhas_dget in Hroot as [tv Htv]. apply dhas_dget in Hroot' as [uv Huv].
    rewrite Htv, Huv. cbn [bind].
    destruct (natural_py_int tv (Hve tv Htv)) as (z & same & ->).
    fam_step; [reflexivity|].
    fam_step; eapply fam_weaken; try apply f_signable_lib; apply fam_verify_signable.
  Qed.

  (* ---- the error map: a type-for-role mismatch is a metadata-verification error *)
  Theorem type_mismatch_error nm sm sd t gpg ty :
    gpg_flag_ok gpg = true -> cdm t = Ok tt -> is_signable (mk_env sm sd) = true ->
    cdm (mk_env [] sd) = Ok tt -> subscript sd (U"type") = Ok ty -> str_ne ty nm = true ->
    vdel (VStr nm) (mk_env sm sd) t gpg = Err MetadataVerificationError.
  Proof.
    intros Eg Et Es Ec Ety Hne. rewrite verify_delegation_unfold. rewrite Eg, Et. cbn [negb bind].
    unfold checkformat_signable. rewrite Es. cbn [bind].
    unfold type_check. rewrite mk_env_signed_only. cbn [bind]. rewrite Ec.
    rewrite mk_env_signed. cbn [bind]. rewrite Ety. cbn [bind]. rewrite Hne. reflexivity.
  Qed.
End Verifiers.

(* ConstructFacts.v: the metadata builders emit only well-formed, faithful metadata (C16). *)
From CCT Require Import Prelude Hex Num Time Formats Json Auth Construct.
From CCT.Gen Require Params.
From CCT.proofs Require Import HexFacts SigFacts AuthFacts SchemaFacts FamilyFacts.
From Coq Require Import Lia.
Open Scope N_scope.

Definition dflt (v d : pv) : pv := match v with VNone => d | _ => v end.

Definition built (ty dl ver ts ex : pv) : pv :=
  VDict [(VStr (U"type"), ty); (VStr (U"version"), ver);
         (VStr (U"metadata_spec_version"), VStr Params.spec_version);
         (VStr (U"timestamp"), ts); (VStr (U"expiration"), ex); (VStr (U"delegations"), dl)].

(* the builder returns exactly when its five argument checks pass, and then returns the arguments verbatim
   (defaults filled in) plus the specification version *)
Lemma build_ok_iff n1 n2 ty dl ver ts ex md :
  build_delegating_metadata n1 n2 ty dl ver ts ex = Ok md <->
  let dl' := dflt dl (VDict []) in
  let ts' := dflt ts (VStr (fmt_utc n1)) in
  let ex' := dflt ex (VStr (fmt_utc (n2 + expiry_seconds)%Z)) in
  is_str ty = true /\ utc_str ts' /\ utc_str ex' /\ natural ver /\ delegations_ok dl'
  /\ md = built ty dl' ver ts' ex'.
Proof.
  unfold build_delegating_metadata. fold (dflt dl (VDict [])). fold (dflt ts (VStr (fmt_utc n1))).
  fold (dflt ex (VStr (fmt_utc (n2 + expiry_seconds)%Z))).
  set (dl' := dflt dl (VDict [])). set (ts' := dflt ts _). set (ex' := dflt ex _). cbv zeta.
  unfold checkformat_string. split.
  - destruct (is_str ty) eqn:Et; cbn [bind]; [|discriminate].
    destruct (checkformat_utc_isoformat ts') as [[]| |] eqn:E1; cbn [bind]; try discriminate.
    destruct (checkformat_utc_isoformat ex') as [[]| |] eqn:E2; cbn [bind]; try discriminate.
    destruct (checkformat_natural_int ver) as [[]| |] eqn:E3; cbn [bind]; try discriminate.
    destruct (checkformat_delegations dl') as [[]| |] eqn:E4; cbn [bind]; try discriminate.
    intros [= <-]. apply utc_iff in E1, E2. apply natural_iff in E3. apply checkformat_delegations_iff in E4.
    repeat split; auto.
  - intros (Et & E1 & E2 & E3 & E4 & ->). rewrite Et. cbn [bind].
    apply utc_iff in E1, E2. apply natural_iff in E3. apply checkformat_delegations_iff in E4.
    rewrite E1, E2, E3, E4. reflexivity.
Qed.

Theorem builder_family n1 n2 ty dl ver ts ex : fam f_tv (build_delegating_metadata n1 n2 ty dl ver ts ex).
Proof.
  unfold build_delegating_metadata.
  fam_step; [apply fam_string|]. fam_step; [apply fam_utc|]. fam_step; [apply fam_utc|].
  fam_step; [apply fam_natural_int|]. fam_step; [apply fam_delegations|]. exact I.
Qed.

Theorem root_builder_family n1 n2 ver rk rt kk kt ts ex : fam f_tv (build_root_metadata n1 n2 ver rk rt kk kt ts ex).
Proof. unfold build_root_metadata. apply builder_family. Qed.

Lemma dict_serializable : type_in (VDict []) Params.serializable_types = true.
Proof. reflexivity. Qed.

(* whatever is returned, once wrapped, passes the delegating-metadata checker (for supported types) *)
Theorem built_is_wellformed n1 n2 ty dl ver ts ex md tys :
  build_delegating_metadata n1 n2 ty dl ver ts ex = Ok md ->
  ty = VStr tys -> In tys Params.supported_dm_types ->
  cdm (env [] md) = Ok tt.
Proof.
  intros H -> Hsup. apply build_ok_iff in H. cbv zeta in H.
  destruct H as (_ & Hts & Hex & Hv & Hdl & ->).
  apply checker_iff_schema. unfold dm_ok, env, built.
  eexists _, [], _, tys. split; [reflexivity|]. split; [left; reflexivity|].
  split; [exact dict_serializable|]. split; [constructor|].
  split; [reflexivity|]. split; [exact Hsup|].
  split; [eexists; split; [reflexivity|reflexivity]|].
  split; [eexists; split; [reflexivity|exact Hdl]|].
  split; [eexists; split; [reflexivity|exact Hex]|].
  split; [left; reflexivity|]. split; [intros _; reflexivity|].
  split; intros x Hx; injection Hx as <-; assumption.
Qed.

(* verbatim fields *)
Theorem built_verbatim n1 n2 ty dl ver ts ex md :
  build_delegating_metadata n1 n2 ty dl ver ts ex = Ok md ->
  exists c, md = VDict c
    /\ dget c (U"type") = Some ty /\ dget c (U"version") = Some ver
    /\ dget c (U"metadata_spec_version") = Some (VStr Params.spec_version)
    /\ dget c (U"timestamp") = Some (dflt ts (VStr (fmt_utc n1)))
    /\ dget c (U"expiration") = Some (dflt ex (VStr (fmt_utc (n2 + expiry_seconds)%Z)))
    /\ dget c (U"delegations") = Some (dflt dl (VDict []))
    /\ length c = 6%nat.
Proof.
  intros H. apply build_ok_iff in H. cbv zeta in H. destruct H as (_ & _ & _ & _ & _ & ->).
  eexists. split; [reflexivity|]. repeat split.
Qed.

(* root metadata always delegates both root and key_mgr, with the given lists *)
Theorem root_delegates_both n1 n2 ver rk rt kk kt ts ex md :
  build_root_metadata n1 n2 ver rk rt kk kt ts ex = Ok md ->
  exists c, md = VDict c /\ dget c (U"type") = Some (VStr (U"root")) /\ dget c (U"version") = Some ver
    /\ dget c (U"delegations") =
         Some (VDict [(VStr (U"root"), VDict [(VStr (U"pubkeys"), rk); (VStr (U"threshold"), rt)]);
                      (VStr (U"key_mgr"), VDict [(VStr (U"pubkeys"), kk); (VStr (U"threshold"), kt)])])
    /\ delegation_ok (VDict [(VStr (U"pubkeys"), rk); (VStr (U"threshold"), rt)])
    /\ delegation_ok (VDict [(VStr (U"pubkeys"), kk); (VStr (U"threshold"), kt)])
    /\ cdm (env [] md) = Ok tt.
Proof.
  unfold build_root_metadata. intros H. pose proof H as Hb.
  apply build_ok_iff in H. cbv zeta in H. destruct H as (_ & _ & _ & _ & (m & Em & F) & ->).
  cbn [dflt] in Em. injection Em as <-.
  inversion F as [|? ? [_ H1] F1]; subst. inversion F1 as [|? ? [_ H2] F2]; subst. cbn [snd] in H1, H2.
  eexists. split; [reflexivity|]. repeat split; auto.
  eapply built_is_wellformed; [exact Hb|reflexivity|]. cbn. auto.
Qed.

(* by default the expiration is the formatted instant one expiry distance after the clock read,
   the timestamp the formatted clock read *)
Theorem default_times n1 n2 ty dl ver md :
  build_delegating_metadata n1 n2 ty dl ver VNone VNone = Ok md ->
  exists c, md = VDict c /\ dget c (U"timestamp") = Some (VStr (fmt_utc n1))
    /\ dget c (U"expiration") = Some (VStr (fmt_utc (n2 + Params.root_expiry_days * 86400)%Z)).
Proof.
  intros H. apply built_verbatim in H as (c & -> & _ & _ & _ & Hts & Hex & _). eauto.
Qed.

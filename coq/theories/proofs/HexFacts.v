(* HexFacts.v: the hex grammar decided by checkformat_hex_string and friends. *)
From CCT Require Import Prelude Hex Num Time Formats.
From CCT.Gen Require Params.
From Coq Require Import Lia ZifyBool.
Open Scope N_scope.

Lemma list_ind2 {A} (P : list A -> Prop) :
  P [] -> (forall x, P [x]) -> (forall x y l, P l -> P (x :: y :: l)) -> forall l, P l.
Proof.
  intros H0 H1 H2 l. enough (P l /\ forall x, P (x :: l)) by tauto.
  induction l as [|a l [IH1 IH2]]; split; auto.
Qed.

Lemma ustr_eqb_eq a b : ustr_eqb a b = true <-> a = b.
Proof.
  revert b; induction a as [|x a IH]; destruct b as [|y b]; cbn; split; try congruence; auto.
  - rewrite andb_true_iff, N.eqb_eq, IH. intros [-> ->]; reflexivity.
  - intros [= -> ->]. rewrite andb_true_iff, N.eqb_eq, IH; auto.
Qed.

Lemma ustr_eqb_refl a : ustr_eqb a a = true.
Proof. apply ustr_eqb_eq; reflexivity. Qed.

Lemma hexval_lt c v : hexval c = Some v -> v < 16.
Proof.
  unfold hexval.
  destruct ((48 <=? c) && (c <=? 57)) eqn:E1; [intros [= <-]; lia|].
  destruct ((97 <=? c) && (c <=? 102)) eqn:E2; [intros [= <-]; lia|].
  destruct ((65 <=? c) && (c <=? 70)) eqn:E3; [intros [= <-]; lia|discriminate].
Qed.

Lemma lower_hex_hexval c : is_lower_hex c = true -> exists v, hexval c = Some v /\ hexdigit v = c.
Proof.
  unfold is_lower_hex, hexval, hexdigit. intros H.
  destruct ((48 <=? c) && (c <=? 57)) eqn:E1.
  - eexists; split; [reflexivity|]. destruct (c - 48 <? 10) eqn:?; lia.
  - destruct ((97 <=? c) && (c <=? 102)) eqn:E2; [|lia].
    eexists; split; [reflexivity|]. destruct (c - 87 <? 10) eqn:?; lia.
Qed.

Lemma lower_hex_not_ws c : is_lower_hex c = true -> is_ws c = false.
Proof. unfold is_lower_hex, is_ws. lia. Qed.

Lemma lower_hex_lower c : is_lower_hex c = true -> lower_c c = c.
Proof. unfold is_lower_hex, lower_c. destruct ((65 <=? c) && (c <=? 90)) eqn:?; lia. Qed.

Lemma hexval_lower_is_lower_hex c v : hexval c = Some v -> lower_c c = c -> is_lower_hex c = true.
Proof.
  unfold hexval, lower_c, is_lower_hex.
  destruct ((48 <=? c) && (c <=? 57)) eqn:E1; [lia|].
  destruct ((97 <=? c) && (c <=? 102)) eqn:E2; [lia|].
  destruct ((65 <=? c) && (c <=? 70)) eqn:E3; [|discriminate].
  destruct ((65 <=? c) && (c <=? 90)) eqn:E4; lia.
Qed.

(* hexlify after fromhex is the identity on lower-case hex strings of even length *)
Lemma hexlify_fromhex s :
  forallb is_lower_hex s = true -> Nat.even (length s) = true ->
  exists b, fromhex s = Some b /\ hexlify b = s /\ length b = Nat.div2 (length s)
            /\ Forall (fun x => x < 256) b.
Proof.
  induction s as [| |x y s IH] using list_ind2; intros Hf He.
  - exists []; cbn; auto.
  - discriminate.
  - cbn [forallb] in Hf. apply andb_true_iff in Hf as [Hx Hf]. apply andb_true_iff in Hf as [Hy Hf].
    destruct (IH Hf He) as (b & Hb & Hh & Hl & Hw).
    destruct (lower_hex_hexval _ Hx) as (vx & Hvx & Hdx).
    destruct (lower_hex_hexval _ Hy) as (vy & Hvy & Hdy).
    exists ((16 * vx + vy) :: b). cbn [fromhex].
    rewrite (lower_hex_not_ws _ Hx), Hvx, Hvy, Hb. cbn [option_map hexlify length Nat.div2].
    pose proof (hexval_lt _ _ Hvx). pose proof (hexval_lt _ _ Hvy).
    assert ((16 * vx + vy) / 16 = vx) as -> by (apply eq_sym, N.div_unique with vy; lia).
    assert ((16 * vx + vy) mod 16 = vy) as -> by (apply eq_sym, N.mod_unique with vx; lia).
    rewrite Hdx, Hdy, Hh, Hl. repeat split; auto. constructor; [lia|auto].
Qed.

(* what fromhex lets through when there is no whitespace *)
Lemma fromhex_nows s b :
  forallb (fun c => negb (is_ws c)) s = true -> fromhex s = Some b ->
  Nat.even (length s) = true /\ forallb (fun c => match hexval c with Some _ => true | None => false end) s = true.
Proof.
  revert b; induction s as [| |x y s IH] using list_ind2; intros b Hn Hf.
  - auto.
  - cbn in Hf, Hn. destruct (is_ws x); [discriminate|]. destruct (hexval x); discriminate.
  - cbn [forallb] in Hn. apply andb_true_iff in Hn as [Hx Hn]. apply andb_true_iff in Hn as [Hy Hn].
    cbn [fromhex] in Hf. destruct (is_ws x); [discriminate|].
    destruct (hexval x) eqn:Ex; [|discriminate]. destruct (hexval y) eqn:Ey; [|discriminate].
    destruct (fromhex s) eqn:Es; [|discriminate].
    destruct (IH _ Hn eq_refl) as [He Ha].
    cbn [length Nat.even forallb]. rewrite Ex, Ey. auto.
Qed.

Lemma map_lower_eq s : lower_hexws s = s -> Forall (fun c => lower_c c = c) s.
Proof.
  unfold lower_hexws. induction s as [|c s IH]; cbn; intros H; constructor; injection H; auto.
Qed.

(* the collapsed grammar of checkformat_hex_string *)
Definition hex_grammar (s : ustr) : bool :=
  negb (Nat.eqb (length s) 0) && Nat.even (length s) && forallb is_lower_hex s.

Lemma checkformat_hex_string_iff v :
  checkformat_hex_string v = Ok tt <-> exists s, v = VStr s /\ hex_grammar s = true.
Proof.
  split.
  - destruct v; try discriminate. cbn. destruct (fromhex s) eqn:Ef; [|discriminate].
    destruct (isalnum_hexws s) eqn:Ea; cbn; [|discriminate].
    destruct (ustr_eqb (lower_hexws s) s) eqn:El; cbn; [|discriminate]. intros _.
    exists s; split; auto. unfold hex_grammar.
    unfold isalnum_hexws in Ea. destruct s as [|c s]; [discriminate|].
    destruct (fromhex_nows _ _ Ea Ef) as [He Hh].
    apply ustr_eqb_eq in El. apply map_lower_eq in El.
    rewrite He. cbn [length Nat.eqb negb andb].
    apply forallb_forall. intros x Hx.
    rewrite forallb_forall in Hh. specialize (Hh x Hx).
    rewrite Forall_forall in El. specialize (El x Hx).
    destruct (hexval x) eqn:E; [|discriminate]. eapply hexval_lower_is_lower_hex; eauto.
  - intros (s & -> & Hg). unfold hex_grammar in Hg.
    apply andb_true_iff in Hg as [Hg Hf]. apply andb_true_iff in Hg as [Hn He].
    destruct (hexlify_fromhex s Hf He) as (b & Hb & _). cbn. rewrite Hb.
    assert (isalnum_hexws s = true) as ->.
    { unfold isalnum_hexws. destruct s; [discriminate|]. apply forallb_forall. intros x Hx.
      rewrite forallb_forall in Hf. rewrite (lower_hex_not_ws _ (Hf x Hx)). reflexivity. }
    assert (lower_hexws s = s) as ->.
    { unfold lower_hexws. rewrite forallb_forall in Hf. clear -Hf.
      induction s as [|c s IH]; cbn; auto. rewrite lower_hex_lower by (apply Hf; left; auto).
      f_equal. apply IH. intros x Hx. apply Hf. right; auto. }
    rewrite ustr_eqb_refl. reflexivity.
Qed.

Lemma checkformat_hex_string_family v :
  checkformat_hex_string v = Ok tt \/ checkformat_hex_string v = Err TypeError
  \/ checkformat_hex_string v = Err ValueError.
Proof.
  destruct v; cbn; auto. destruct (fromhex s); auto. destruct (_ || _); auto.
Qed.

Definition lower_hex_len (n : nat) (s : ustr) : Prop :=
  length s = n /\ forallb is_lower_hex s = true.

Lemma hex_grammar_len n s : Nat.even n = true -> n <> 0%nat ->
  (hex_grammar s = true /\ length s = n) <-> lower_hex_len n s.
Proof.
  intros He Hn. unfold hex_grammar, lower_hex_len. split.
  - intros [H <-]. apply andb_true_iff in H as [_ H]. auto.
  - intros [<- H]. rewrite He, H. destruct (length s); [congruence|]. auto.
Qed.

Lemma len_is_str s n : len_is (VStr s) n = Nat.eqb (length s) n.
Proof. reflexivity. Qed.

Lemma is_hex_string_iff v : is_hex_string v = true <-> exists s, v = VStr s /\ hex_grammar s = true.
Proof.
  unfold is_hex_string. rewrite <- checkformat_hex_string_iff.
  destruct (checkformat_hex_string v) as [[]| |]; cbn; split; congruence.
Qed.

Lemma checkformat_hex_key_iff v :
  checkformat_hex_key v = Ok tt <-> exists s, v = VStr s /\ lower_hex_len 64 s.
Proof.
  unfold checkformat_hex_key. split.
  - destruct (checkformat_hex_string v) as [[]| |] eqn:E; cbn [bind]; try discriminate.
    apply checkformat_hex_string_iff in E as (s & -> & Hg). rewrite len_is_str.
    destruct (Nat.eqb (length s) Params.key_len) eqn:El; [|discriminate]. intros _.
    apply Nat.eqb_eq in El. exists s; split; auto. apply hex_grammar_len; auto; discriminate.
  - intros (s & -> & Hl). apply (hex_grammar_len 64) in Hl as [Hg Hl]; [|reflexivity|discriminate].
    assert (checkformat_hex_string (VStr s) = Ok tt) as -> by (apply checkformat_hex_string_iff; eauto).
    cbn. rewrite Hl. reflexivity.
Qed.

Lemma is_hex_key_iff v : is_hex_key v = true <-> exists s, v = VStr s /\ lower_hex_len 64 s.
Proof.
  unfold is_hex_key. rewrite <- checkformat_hex_key_iff.
  destruct (checkformat_hex_key v) as [[]| |]; cbn; split; congruence.
Qed.

Lemma is_hex_signature_iff v : is_hex_signature v = true <-> exists s, v = VStr s /\ lower_hex_len 128 s.
Proof.
  unfold is_hex_signature. rewrite andb_true_iff, is_hex_string_iff. split.
  - intros [(s & -> & Hg) Hl]. rewrite len_is_str in Hl. apply Nat.eqb_eq in Hl.
    exists s; split; auto. apply hex_grammar_len; auto; discriminate.
  - intros (s & -> & Hl). apply (hex_grammar_len 128) in Hl as [Hg Hl]; [|reflexivity|discriminate].
    split; eauto. rewrite len_is_str, Hl. reflexivity.
Qed.

Lemma checkformat_gpg_fingerprint_iff v :
  checkformat_gpg_fingerprint v = Ok tt <-> exists s, v = VStr s /\ lower_hex_len 40 s.
Proof.
  unfold checkformat_gpg_fingerprint. split.
  - destruct (py_len v) as [n| |] eqn:En; cbn [bind]; try discriminate.
    destruct (Nat.eqb n Params.fpr_len) eqn:El; cbn [negb]; [|discriminate].
    destruct v; try discriminate. intros H.
    assert (checkformat_hex_string (VStr s) = Ok tt) as Hc by exact H.
    apply checkformat_hex_string_iff in Hc as (s' & [= <-] & Hg).
    cbn in En. injection En as <-. apply Nat.eqb_eq in El.
    exists s; split; auto. apply hex_grammar_len; auto; discriminate.
  - intros (s & -> & Hl). apply (hex_grammar_len 40) in Hl as [Hg Hl]; [|reflexivity|discriminate].
    cbn [py_len bind]. rewrite Hl. cbn [Params.fpr_len Params.fpr_len_src Nat.eqb negb].
    assert (checkformat_hex_string (VStr s) = Ok tt) as Hc by (apply checkformat_hex_string_iff; eauto).
    exact Hc.
Qed.

Lemma checkformat_gpg_fingerprint_family v :
  checkformat_gpg_fingerprint v = Ok tt \/ checkformat_gpg_fingerprint v = Err TypeError
  \/ checkformat_gpg_fingerprint v = Err ValueError.
Proof.
  unfold checkformat_gpg_fingerprint. destruct v; cbn; auto;
  try (destruct (negb _); auto; fail).
  destruct (negb _); auto. destruct (fromhex s); auto. destruct (_ || _); auto.
Qed.

Lemma is_gpg_fingerprint_iff v : is_gpg_fingerprint v = true <-> exists s, v = VStr s /\ lower_hex_len 40 s.
Proof.
  rewrite <- checkformat_gpg_fingerprint_iff. unfold is_gpg_fingerprint.
  destruct (checkformat_gpg_fingerprint_family v) as [H|[H|H]]; rewrite H; cbn; split; congruence.
Qed.

(* one spelling per key: decoding is injective on accepted strings *)
Lemma fromhex_injective n s s' :
  Nat.even n = true -> lower_hex_len n s -> lower_hex_len n s' -> fromhex s = fromhex s' -> s = s'.
Proof.
  intros He [Hl Hf] [Hl' Hf'] E.
  destruct (hexlify_fromhex s Hf) as (b & Hb & Hh & _); [rewrite Hl; auto|].
  destruct (hexlify_fromhex s' Hf') as (b' & Hb' & Hh' & _); [rewrite Hl'; auto|].
  congruence.
Qed.

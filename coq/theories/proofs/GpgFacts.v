(* GpgFacts.v: OpenPGP-wrapped signatures follow RFC 4880 v4 (C10). *)
From CCT Require Import Prelude Hex Num Time Formats Json Auth Signing Gpg.
From CCT.Gen Require Params.
From CCT.proofs Require Import HexFacts SigFacts AuthFacts SignableFacts DelegationFacts SchemaFacts FamilyFacts SigningFacts.
From Coq Require Import Lia ZifyN ZifyNat.
Open Scope N_scope.

(* ---- the 32-bit big-endian length *)
Lemma be32_len n l : be32 n = Ok l -> length l = 4%nat.
Proof. unfold be32. destruct (n <? 4294967296); [|discriminate]. intros [= <-]. reflexivity. Qed.

Lemma be32_value n l : be32 n = Ok l ->
  exists b0 b1 b2 b3, l = [b0; b1; b2; b3] /\ b0 < 256 /\ b1 < 256 /\ b2 < 256 /\ b3 < 256
                      /\ n = 16777216 * b0 + 65536 * b1 + 256 * b2 + b3.
Proof.
  unfold be32. destruct (n <? 4294967296) eqn:E; [|discriminate]. apply N.ltb_lt in E. intros [= <-].
  eexists _, _, _, _. split; [reflexivity|].
  repeat split; try (apply N.mod_lt; lia).
  pose proof (N.div_mod n 256 ltac:(lia)). pose proof (N.div_mod (n / 256) 256 ltac:(lia)).
  pose proof (N.div_mod (n / 256 / 256) 256 ltac:(lia)).
  assert (n / 65536 = n / 256 / 256) by (rewrite N.div_div by lia; reflexivity).
  assert (n / 16777216 = n / 256 / 256 / 256) by (rewrite !N.div_div by lia; reflexivity).
  assert (n / 256 / 256 / 256 < 256).
  { apply N.div_lt_upper_bound; [lia|]. apply N.div_lt_upper_bound; [lia|]. apply N.div_lt_upper_bound; lia. }
  rewrite (N.mod_small (n / 16777216) 256) by lia. lia.
Qed.

Lemma be32_inj n n' l : be32 n = Ok l -> be32 n' = Ok l -> n = n'.
Proof.
  intros H H'. apply be32_value in H as (a0 & a1 & a2 & a3 & -> & _ & _ & _ & _ & ->).
  apply be32_value in H' as (b0 & b1 & b2 & b3 & [= <- <- <- <-] & _ & _ & _ & _ & ->). reflexivity.
Qed.

Lemma app_inv_len_r {A} (a a' b b' : list A) : a ++ b = a' ++ b' -> length b = length b' -> a = a' /\ b = b'.
Proof.
  revert a'. induction a as [|x a IH]; intros [|x' a'] H L; cbn in *.
  - auto.
  - exfalso. apply (f_equal (@length A)) in H. cbn in H. rewrite app_length in H. lia.
  - exfalso. apply (f_equal (@length A)) in H. cbn in H. rewrite app_length in H. lia.
  - injection H as <- H. destruct (IH _ H L) as [-> ->]. auto.
Qed.

(* the trailing big-endian length delimits the headers: payload and header bytes cannot be shifted across the boundary *)
Theorem frame_injective d h d' h' m : frame d h = Ok m -> frame d' h' = Ok m -> d = d' /\ h = h'.
Proof.
  unfold frame. destruct (be32 (N.of_nat (length h))) as [l| |] eqn:E; cbn [bind]; try discriminate.
  destruct (be32 (N.of_nat (length h'))) as [l'| |] eqn:E'; cbn [bind]; try discriminate.
  intros [= <-] [= H].
  assert (L : length l = length l') by (rewrite (be32_len _ _ E), (be32_len _ _ E'); reflexivity).
  assert (H2 : (d ++ h ++ [4; 255]) ++ l = (d' ++ h' ++ [4; 255]) ++ l') by (rewrite <- !app_assoc; symmetry; exact H).
  apply app_inv_len_r in H2 as [H2 El]; [|exact L]. subst l'.
  assert (Hlen : length h' = length h).
  { apply Nat2N.inj. eapply be32_inj; eauto. }
  assert (H3 : (d ++ h) ++ [4; 255] = (d' ++ h') ++ [4; 255]) by (rewrite <- !app_assoc; exact H2).
  apply app_inv_len_r in H3 as [H3 _]; [|reflexivity].
  apply app_inv_len_r in H3 as [-> ->]; auto.
Qed.

(* ---- RFC 4880 section 5.2.4, version 4: hash input = document || hashed part of the signature packet || trailer,
        hashed part = version 4, signature type, public-key algorithm, hash algorithm, 2-byte length, hashed subpackets;
        trailer = 0x04 0xFF and the 4-byte big-endian length of the hashed part *)
Definition be16 (n : N) : bytes := [n / 256 mod 256; n mod 256].
Definition v4_hashed_part (sigtype pubalgo hashalgo : N) (subpackets : bytes) : bytes :=
  [4; sigtype; pubalgo; hashalgo] ++ be16 (N.of_nat (length subpackets)) ++ subpackets.
Definition v4_trailer (hashed_part : bytes) : res bytes :=
  l <- be32 (N.of_nat (length hashed_part)) ;; Ok ([4; 255] ++ l).
Definition rfc4880_v4_hash_input (document hashed_part : bytes) : res bytes :=
  t <- v4_trailer hashed_part ;; Ok (document ++ hashed_part ++ t).

Theorem frame_matches_rfc4880 document hashed_part : frame document hashed_part = rfc4880_v4_hash_input document hashed_part.
Proof.
  unfold frame, rfc4880_v4_hash_input, v4_trailer. destruct (be32 _); reflexivity.
Qed.

Section Gpg.
  Variable ed_verify : bytes -> bytes -> bytes -> bool.
  Variable sha256 : bytes -> bytes.
  Notation vgpg := (verify_gpg_signature ed_verify sha256).

  (* a signature entry is valid for a raw public key exactly when its 64-byte signature verifies over
     SHA-256(payload || headers || 04 ff || be32 |headers|) *)
  Theorem verify_gpg_iff v k data :
    vgpg v k data = Ok tt <->
    exists m oh sg h d hb sb msg,
      v = VDict m /\ gpg_shape v /\ k = VStr h /\ lower_hex_len 64 h
      /\ (data = VBytes d \/ data = VBytearray d)
      /\ dget m (U"other_headers") = Some (VStr oh) /\ fromhex oh = Some hb
      /\ dget m (U"signature") = Some (VStr sg) /\ fromhex sg = Some sb /\ length sb = 64%nat
      /\ frame d hb = Ok msg /\ ed_verify (keyb h) (sha256 msg) sb = true.
  Proof.
    unfold verify_gpg_signature. split.
    - destruct (checkformat_gpg_signature v) as [[]| |] eqn:Eg; cbn [bind]; try discriminate.
      apply checkformat_gpg_signature_iff in Eg. pose proof Eg as Hshape.
      destruct Eg as (m & oh & sg & -> & Ha & H1 & Ho & H2 & Hs & Hl).
      destruct (checkformat_hex_key k) as [[]| |] eqn:Ek; cbn [bind]; try discriminate.
      apply checkformat_hex_key_iff in Ek as (h & -> & Hh).
      destruct (checkformat_byteslike data) as [[]| |] eqn:Eb; cbn [bind]; try discriminate.
      rewrite (pub_from_hex_ok h Hh). cbn [bind subscript]. rewrite H1. cbn [bind hex_bytes].
      destruct (hex_grammar_fromhex oh Ho) as (hb & Ehb). rewrite Ehb. cbn [bind].
      assert (exists d, (data = VBytes d \/ data = VBytearray d) /\ data_bytes data = Ok d) as (d & Hd & ->).
      { destruct data; try discriminate; eauto. }
      cbn [bind]. destruct (frame d hb) as [msg| |] eqn:Ef; cbn [bind]; try discriminate.
      rewrite H2. cbn [bind hex_bytes].
      destruct (lower_hex_fromhex 128 sg eq_refl Hs) as (sb & Esb & Lsb). rewrite Esb. cbn [bind].
      destruct (ed_verify (keyb h) (sha256 msg) sb) eqn:Ev; [|discriminate]. intros _.
      exists m, oh, sg, h, d, hb, sb, msg. repeat split; auto; apply Hh.
    - intros (m & oh & sg & h & d & hb & sb & msg & -> & Hshape & -> & Hh & Hd & H1 & Ehb & H2 & Esb & _ & Ef & Ev).
      assert (checkformat_gpg_signature (VDict m) = Ok tt) as -> by (apply checkformat_gpg_signature_iff; auto).
      cbn [bind].
      assert (checkformat_hex_key (VStr h) = Ok tt) as -> by (apply checkformat_hex_key_iff; eauto).
      cbn [bind].
      assert (checkformat_byteslike data = Ok tt /\ data_bytes data = Ok d) as [-> Edb] by (destruct Hd as [-> | ->]; auto).
      cbn [bind]. rewrite (pub_from_hex_ok h Hh). cbn [bind subscript]. rewrite H1. cbn [bind hex_bytes].
      rewrite Ehb. cbn [bind]. rewrite Edb. cbn [bind]. rewrite Ef. cbn [bind]. rewrite H2. cbn [bind hex_bytes].
      rewrite Esb. cbn [bind]. rewrite Ev. reflexivity.
  Qed.

  (* well-formed arguments and a failing check: InvalidSignature, nothing else *)
  Theorem verify_gpg_invalid v h d m oh sg hb sb msg :
    v = VDict m -> gpg_shape v -> lower_hex_len 64 h ->
    dget m (U"other_headers") = Some (VStr oh) -> fromhex oh = Some hb ->
    dget m (U"signature") = Some (VStr sg) -> fromhex sg = Some sb ->
    frame d hb = Ok msg -> ed_verify (keyb h) (sha256 msg) sb = false ->
    vgpg v (VStr h) (VBytes d) = Err InvalidSignature.
  Proof.
    intros -> Hshape Hh H1 Ehb H2 Esb Ef Ev. unfold verify_gpg_signature.
    assert (checkformat_gpg_signature (VDict m) = Ok tt) as -> by (apply checkformat_gpg_signature_iff; auto).
    cbn [bind].
    assert (checkformat_hex_key (VStr h) = Ok tt) as -> by (apply checkformat_hex_key_iff; eauto).
    cbn [bind checkformat_byteslike]. rewrite (pub_from_hex_ok h Hh). cbn [bind subscript]. rewrite H1. cbn [bind hex_bytes].
    rewrite Ehb. cbn [bind data_bytes]. rewrite Ef. cbn [bind]. rewrite H2. cbn [bind hex_bytes].
    rewrite Esb. cbn [bind]. rewrite Ev. reflexivity.
  Qed.

  (* any change to payload or headers changes the hashed message (so, with an ideal hash, the digest) *)
  Theorem any_change_changes_message d h d' h' m m' :
    frame d h = Ok m -> frame d' h' = Ok m' -> (d <> d' \/ h <> h') -> m <> m'.
  Proof.
    intros F F' Hne ->. destruct (frame_injective _ _ _ _ _ F F') as [-> ->]. destruct Hne; contradiction.
  Qed.

  (* ---- transcription of a GnuPG signature by the library's GPG signing path *)
  Definition created_sig (kid : ustr) (hp sg : bytes) : pv :=
    VDict [(VStr (U"keyid"), VStr kid); (VStr (U"other_headers"), VStr (hexlify hp)); (VStr (U"signature"), VStr (hexlify sg))].

  Theorem transcription_accepted signable fpr kid hp sg q sd data msg e' kl :
    is_signable signable = true -> subscript signable (U"signed") = Ok sd -> canonserialize sd = Ok data ->
    lower_hex_len 40 fpr ->
    wf_bytes hp -> hp <> [] -> wf_bytes sg -> length sg = 64%nat -> wf_bytes q -> length q = 32%nat ->
    frame data hp = Ok msg -> ed_verify q (sha256 msg) sg = true ->
    In (VStr (hexlify q)) kl ->
    sign_root_metadata_dict_via_gpg (created_sig kid hp sg) (VStr (hexlify q)) signable (VStr fpr) = Ok e' ->
    exists sm entry,
      subscript e' (U"signatures") = Ok (VDict sm) /\ subscript e' (U"signed") = Ok sd
      /\ dget sm (hexlify q) = Some entry
      /\ checkformat_gpg_signature entry = Ok tt
      /\ entry_counts ed_verify sha256 true kl data (VStr (hexlify q), entry) = Ok true.
  Proof.
    intros Hs Esd Ed Hfpr Whp Hne Wsg Lsg Wq Lq Ef Ev Hin H.
    unfold sign_root_metadata_dict_via_gpg in H. rewrite Hs in H. cbn [negb] in H. rewrite Esd in H. cbn [bind] in H.
    rewrite Ed in H. cbn [bind] in H.
    assert (Hf : checkformat_gpg_fingerprint (VStr fpr) = Ok tt) by (apply checkformat_gpg_fingerprint_iff; eauto).
    unfold sign_via_gpg in H. rewrite Hf in H. cbn [bind checkformat_byteslike created_sig] in H.
    cbv [ddel dhas dget key_is] in H. cbn in H.
    apply is_signable_iff in Hs as (m & sm & x & -> & Htf & Hty).
    destruct (two_fields_dget m (U"signatures") (U"signed") _ _ eq_refl Htf) as [E1 E2].
    cbn [subscript] in H. rewrite E1 in H. cbn [bind] in H. injection H as <-.
    set (entry := VDict [(VStr (U"other_headers"), VStr (hexlify hp)); (VStr (U"signature"), VStr (hexlify sg))]).
    pose proof (dset_two_fields m (U"signatures") (U"signed") _ x (VDict (dset sm (hexlify q) entry)) eq_refl Htf) as Htf'.
    destruct (two_fields_dget _ (U"signatures") (U"signed") _ _ eq_refl Htf') as [E1' E2'].
    cbn [subscript] in Esd. rewrite E2 in Esd. injection Esd as ->.
    exists (dset sm (hexlify q) entry), entry. cbn [subscript]. rewrite E1', E2'.
    split; [reflexivity|]. split; [reflexivity|]. split; [apply dget_dset_same|].
    destruct (fromhex_hexlify hp Whp) as (Fh1 & Fh2 & Fh3). destruct (fromhex_hexlify sg Wsg) as (Fs1 & Fs2 & Fs3).
    assert (Hshape : gpg_shape entry).
    { exists [(VStr (U"other_headers"), VStr (hexlify hp)); (VStr (U"signature"), VStr (hexlify sg))], (hexlify hp), (hexlify sg).
      split; [reflexivity|]. split; [reflexivity|]. split; [reflexivity|].
      split. { unfold hex_grammar. rewrite Fh2, Fh3. destruct hp; [contradiction|]. cbn [length].
               replace (2 * S (length hp))%nat with (S (S (2 * length hp))) by lia. cbn [Nat.even negb Nat.eqb].
               rewrite Nat.even_mul. reflexivity. }
      split; [reflexivity|]. split; [apply hexlify_sig; auto|]. left; reflexivity. }
    split; [apply checkformat_gpg_signature_iff; exact Hshape|].
    apply entry_counts_true. exists (hexlify q). split; [reflexivity|]. split; [apply hexlify_key; auto|]. split; [exact Hin|].
    eexists _, (hexlify hp), (hexlify sg), hp, sg, msg. split; [reflexivity|]. split; [exact Hshape|].
    split; [reflexivity|]. split; [exact Fh1|]. split; [reflexivity|]. split; [exact Fs1|]. split; [exact Ef|].
    rewrite keyb_hexlify by auto. exact Ev.
  Qed.
End Gpg.

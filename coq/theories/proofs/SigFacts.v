(* SigFacts.v: the two signature-entry shapes decided by the signature validators. *)
From CCT Require Import Prelude Hex Num Time Formats.
From CCT.Gen Require Params.
From CCT.proofs Require Import HexFacts.
From Coq Require Import Lia.
Open Scope N_scope.

Ltac splits := repeat match goal with |- _ /\ _ => split end.

Definition raw_shape (v : pv) : Prop :=
  exists sg, v = VDict [(VStr (U"signature"), VStr sg)] /\ lower_hex_len 128 sg.

Definition gpg_shape (v : pv) : Prop :=
  exists m oh sg,
    v = VDict m /\ all_str_keys m = true
    /\ dget m (U"other_headers") = Some (VStr oh) /\ hex_grammar oh = true
    /\ dget m (U"signature") = Some (VStr sg) /\ lower_hex_len 128 sg
    /\ (length m = 2%nat
        \/ (length m = 3%nat /\ exists fp, dget m (U"see_also") = Some (VStr fp) /\ lower_hex_len 40 fp)).

Lemma dhas_dget m k : dhas m k = true <-> exists x, dget m k = Some x.
Proof. unfold dhas. destruct (dget m k); split; eauto; try discriminate. intros [x [=]]. Qed.

Lemma key_is_eq k x : key_is k x = true <-> x = VStr k.
Proof.
  destruct x; cbn; split; try discriminate; try congruence.
  - intros H. apply ustr_eqb_eq in H. congruence.
  - intros [= ->]. apply ustr_eqb_refl.
Qed.

Lemma checkformat_gpg_signature_iff v :
  checkformat_gpg_signature v = Ok tt <-> gpg_shape v.
Proof.
  split.
  - destruct v; try discriminate. cbn [checkformat_gpg_signature].
    destruct (all_str_keys m) eqn:Ea.
    2:{ cbn [negb andb]. destruct (2 <=? length m)%nat eqn:El; [discriminate|].
        unfold gpg_keyset. apply Nat.leb_gt in El.
        destruct (length m) as [|[|n]]; try discriminate. lia. }
    cbn [negb andb]. unfold gpg_keyset.
    destruct (length m) as [|[|[|[|n]]]] eqn:El; try discriminate.
    + destruct (dhas m (U"other_headers")) eqn:H1; [|discriminate].
      destruct (dhas m (U"signature")) eqn:H2; [|discriminate]. cbn [andb].
      apply dhas_dget in H1 as [oh H1]. apply dhas_dget in H2 as [sg H2].
      cbn [subscript bind]. rewrite H1, H2. cbn [bind].
      destruct (is_hex_string oh) eqn:Eo; [|discriminate].
      destruct (is_hex_signature sg) eqn:Es; [|discriminate]. cbn [negb]. intros _.
      apply is_hex_string_iff in Eo as (oh' & -> & Ho).
      apply is_hex_signature_iff in Es as (sg' & -> & Hs).
      exists m, oh', sg'. splits; auto.
    + destruct (dhas m (U"other_headers")) eqn:H1; [|discriminate].
      destruct (dhas m (U"signature")) eqn:H2; [|discriminate].
      destruct (dhas m (U"see_also")) eqn:H3; [|discriminate]. cbn [andb].
      apply dhas_dget in H1 as [oh H1]. apply dhas_dget in H2 as [sg H2]. apply dhas_dget in H3 as [fp H3].
      cbn [subscript bind]. rewrite H1, H2, H3. cbn [bind].
      destruct (is_hex_string oh) eqn:Eo; [|discriminate].
      destruct (is_hex_signature sg) eqn:Es; [|discriminate]. cbn [negb]. intros Hf.
      apply is_hex_string_iff in Eo as (oh' & -> & Ho).
      apply is_hex_signature_iff in Es as (sg' & -> & Hs).
      apply checkformat_gpg_fingerprint_iff in Hf as (fp' & -> & Hfp).
      exists m, oh', sg'. splits; auto. right. split; auto. exists fp'; auto.
  - intros (m & oh & sg & -> & Ha & H1 & Ho & H2 & Hs & Hl).
    cbn [checkformat_gpg_signature]. rewrite Ha. cbn [negb andb]. unfold gpg_keyset.
    assert (E1 : dhas m (U"other_headers") = true) by (apply dhas_dget; eauto).
    assert (E2 : dhas m (U"signature") = true) by (apply dhas_dget; eauto).
    assert (Eo : is_hex_string (VStr oh) = true) by (apply is_hex_string_iff; eauto).
    assert (Es : is_hex_signature (VStr sg) = true) by (apply is_hex_signature_iff; eauto).
    destruct Hl as [Hl|[Hl (fp & H3 & Hfp)]]; rewrite Hl.
    + rewrite E1, E2. cbn [andb subscript bind]. rewrite H1, H2. cbn [bind]. rewrite Eo, Es. reflexivity.
    + assert (E3 : dhas m (U"see_also") = true) by (apply dhas_dget; eauto).
      rewrite E1, E2, E3. cbn [andb subscript bind]. rewrite H1, H2, H3. cbn [bind]. rewrite Eo, Es. cbn [negb].
      apply checkformat_gpg_fingerprint_iff. eauto.
Qed.

Lemma is_gpg_signature_iff v : is_gpg_signature v = true <-> gpg_shape v.
Proof.
  rewrite <- checkformat_gpg_signature_iff. unfold is_gpg_signature.
  destruct v; try (cbn; split; discriminate).
  destruct (all_str_keys m) eqn:Ea; cbn [negb].
  - destruct (checkformat_gpg_signature (VDict m)) as [[]| |]; cbn; split; congruence.
  - split; [discriminate|]. intros H. apply checkformat_gpg_signature_iff in H.
    destruct H as (m' & ? & ? & [= <-] & Ha' & _). congruence.
Qed.

Lemma length1 {A} (l : list A) : Nat.eqb (length l) 1 = true -> exists x, l = [x].
Proof. destruct l as [|x [|y l]]; try discriminate. eauto. Qed.

Lemma is_signature_iff v : is_signature v = true <-> raw_shape v \/ gpg_shape v.
Proof.
  unfold is_signature. split.
  - destruct v; try discriminate. cbn [checkformat_signature].
    destruct (dget m (U"signature")) as [sg|] eqn:Hs; [|discriminate].
    destruct (is_hex_signature sg) eqn:Es; cbn [negb]; [|discriminate].
    destruct (Nat.eqb (length m) 1) eqn:El.
    + intros _. left. apply length1 in El as [[k x] ->]. cbn in Hs.
      destruct (key_is (U"signature") k) eqn:Ek; [|discriminate]. injection Hs as ->.
      apply key_is_eq in Ek as ->. apply is_hex_signature_iff in Es as (s & -> & H). exists s; auto.
    + destruct (is_gpg_signature (VDict m)) eqn:Eg; [|discriminate]. intros _. right.
      apply is_gpg_signature_iff; auto.
  - intros [(sg & -> & Hs)|Hg].
    + cbn [checkformat_signature dget].
      assert (key_is (U"signature") (VStr (U"signature")) = true) as -> by (apply key_is_eq; reflexivity).
      assert (is_hex_signature (VStr sg) = true) as -> by (apply is_hex_signature_iff; eauto). reflexivity.
    + pose proof Hg as Hg'. destruct Hg as (m & oh & sg & -> & Ha & H1 & Ho & H2 & Hs & Hl).
      cbn [checkformat_signature]. rewrite H2.
      assert (is_hex_signature (VStr sg) = true) as -> by (apply is_hex_signature_iff; eauto). cbn [negb].
      assert (Nat.eqb (length m) 1 = false) as -> by (destruct Hl as [->|[-> _]]; reflexivity).
      apply is_gpg_signature_iff in Hg'. rewrite Hg'. reflexivity.
Qed.

(* raising and predicate forms agree *)
Lemma checkformat_signature_iff v : checkformat_signature v = Ok tt <-> raw_shape v \/ gpg_shape v.
Proof.
  rewrite <- is_signature_iff. unfold is_signature.
  destruct (checkformat_signature v) as [[]| |]; cbn; split; congruence.
Qed.

Lemma checkformat_signature_family v :
  checkformat_signature v = Ok tt \/ checkformat_signature v = Err TypeError
  \/ checkformat_signature v = Err ValueError.
Proof.
  destruct v; cbn [checkformat_signature]; auto.
  destruct (dget m (U"signature")) as [sg|]; auto.
  destruct (is_hex_signature sg); cbn [negb]; auto.
  destruct (Nat.eqb (length m) 1); auto. destruct (is_gpg_signature (VDict m)); auto.
Qed.

Lemma checkformat_any_signature_iff v :
  checkformat_any_signature v = Ok tt <-> raw_shape v \/ gpg_shape v.
Proof.
  unfold checkformat_any_signature. rewrite <- is_signature_iff.
  destruct (is_signature v) eqn:E1; cbn.
  - split; auto.
  - destruct (is_gpg_signature v) eqn:E2; cbn.
    + apply is_gpg_signature_iff in E2. assert (is_signature v = true) by (apply is_signature_iff; auto). congruence.
    + split; discriminate.
Qed.

(* ---- key lists: no key twice under any spelling *)
Definition key_bytes (v : pv) : option bytes := match v with VStr s => fromhex s | _ => None end.

Lemma check_each_ok f l : check_each f l = Ok tt <-> Forall (fun x => f x = Ok tt) l.
Proof.
  induction l as [|x l IH]; cbn; [split; auto|].
  destruct (f x) as [[]| |] eqn:E; cbn; split; try discriminate.
  - intros H. constructor; auto. apply IH; auto.
  - intros H. inversion H; subst. apply IH; auto.
  - intros H. inversion H; congruence.
  - intros H. inversion H; congruence.
Qed.

Lemma existsb_key_is_In s r : existsb (key_is s) r = true <-> In (VStr s) r.
Proof.
  rewrite existsb_exists. split.
  - intros (x & Hx & Hk). apply key_is_eq in Hk as ->. auto.
  - intros H. exists (VStr s). split; auto. apply key_is_eq; auto.
Qed.

Lemma keylist_ok_iff l :
  checkformat_list_of_hex_keys (VList l) = Ok tt <->
  Forall (fun x => exists s, x = VStr s /\ lower_hex_len 64 s) l /\ NoDup l.
Proof.
  cbn [checkformat_list_of_hex_keys]. split.
  - destruct (check_each checkformat_hex_key l) as [[]| |] eqn:E; cbn [bind]; try discriminate.
    apply check_each_ok in E. destruct (str_nodupb l) eqn:En; [|discriminate]. intros _.
    assert (F : Forall (fun x => exists s, x = VStr s /\ lower_hex_len 64 s) l).
    { eapply Forall_impl; [|exact E]. intros x Hx. apply checkformat_hex_key_iff; auto. }
    split; auto. clear E. induction l as [|x l IH]; [constructor|].
    inversion F as [|? ? (s & -> & _) F']; subst. cbn in En. apply andb_true_iff in En as [E1 E2].
    constructor; auto. intros Hin. apply existsb_key_is_In in Hin. rewrite Hin in E1. discriminate.
  - intros [F N].
    assert (E : check_each checkformat_hex_key l = Ok tt).
    { apply check_each_ok. eapply Forall_impl; [|exact F]. intros x Hx. apply checkformat_hex_key_iff; auto. }
    rewrite E. cbn [bind].
    assert (str_nodupb l = true) as ->; [|reflexivity]. clear E.
    induction l as [|x l IH]; [reflexivity|].
    inversion F as [|? ? (s & -> & _) F']; subst. inversion N; subst. cbn.
    rewrite IH by auto. rewrite andb_true_r. apply negb_true_iff.
    destruct (existsb (key_is s) l) eqn:Ee; auto. apply existsb_key_is_In in Ee. contradiction.
Qed.

Lemma keylist_no_dup_bytes l :
  checkformat_list_of_hex_keys (VList l) = Ok tt -> NoDup (map key_bytes l).
Proof.
  intros H. apply keylist_ok_iff in H as [F N].
  induction l as [|x l IH]; [constructor|].
  inversion F as [|? ? (s & -> & Hs) F']; subst. inversion N as [|? ? Hn N']; subst.
  cbn [map]. constructor; auto.
  intros Hin. apply in_map_iff in Hin as (y & Hy & Hyl).
  rewrite Forall_forall in F'. destruct (F' y Hyl) as (s' & -> & Hs').
  cbn in Hy. assert (s' = s) by (eapply (fromhex_injective 64); eauto).
  subst. contradiction.
Qed.

(* Ed25519Vectors.v: the test vectors of RFC 8032 section 7.1 (TEST 1, 2, 3) and the NIST SHA-512 vector for "abc", evaluated by the
   kernel's VM against theories/Ed25519.v.  Kept in a file of its own (it depends on nothing generated, so it is checked once). *)
From CCT Require Import Prelude Hex Ed25519.
Open Scope N_scope.

Definition hx (s : ustr) : bytes := match fromhex s with Some b => b | None => [] end.
Definition vectors_ok : Prop :=
  ustr_eqb (hexlify (Ed25519.sha512 (U"abc"))) (U"ddaf35a193617abacc417349ae20413112e6fa4e89a97ea20a9eeee64b55d39a2192992a274fc1a836ba3c23a3feebbd454d4423643ce80e2a9ac94fa54ca49f")
  && ustr_eqb (hexlify (Ed25519.public_key (hx (U"9d61b19deffd5a60ba844af492ec2cc44449c5697b326919703bac031cae7f60")))) (U"d75a980182b10ab7d54bfed3c964073a0ee172f3daa62325af021a68f707511a")
  && ustr_eqb (hexlify (Ed25519.sign (hx (U"9d61b19deffd5a60ba844af492ec2cc44449c5697b326919703bac031cae7f60")) []))
              (U"e5564300c360ac729086e2cc806e828a84877f1eb8e5d974d873e065224901555fb8821590a33bacc61e39701cf9b46bd25bf5f0595bbe24655141438e7a100b")
  && Ed25519.verify (hx (U"d75a980182b10ab7d54bfed3c964073a0ee172f3daa62325af021a68f707511a")) []
                    (hx (U"e5564300c360ac729086e2cc806e828a84877f1eb8e5d974d873e065224901555fb8821590a33bacc61e39701cf9b46bd25bf5f0595bbe24655141438e7a100b"))
  && ustr_eqb (hexlify (Ed25519.sign (hx (U"4ccd089b28ff96da9db6c346ec114e0f5b8a319f35aba624da8cf6ed4fb8a6fb")) (hx (U"72"))))
              (U"92a009a9f0d4cab8720e820b5f642540a2b27b5416503f8fb3762223ebdb69da085ac1e43e15996e458f3613d0f11d8c387b2eaeb4302aeeb00d291612bb0c00")
  && ustr_eqb (hexlify (Ed25519.public_key (hx (U"c5aa8df43f9f837bedb7442f31dcb7b166d38535076f094b85ce3a2e0b4458f7")))) (U"fc51cd8e6218a1a38da47ed00230f0580816ed13ba3303ac5deb911548908025")
  && negb (Ed25519.verify (hx (U"fc51cd8e6218a1a38da47ed00230f0580816ed13ba3303ac5deb911548908025")) (hx (U"af83"))
                    (hx (U"6291d657deec24024827e69c3abe01a30ce548a284743a445e3680d7db5ac3ac18ff9b538d16f290ae67f760984dc6594a7c15e9716ed28dc027beceea1ec40a")))
  = true.

Lemma vectors_hold : vectors_ok.
Proof. vm_cast_no_check (eq_refl true). Qed.

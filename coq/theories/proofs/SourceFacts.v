(* SourceFacts.v: the hand-written model of the leaf validators (Formats.v) computes exactly what the interpreter of PySrc.v
   computes on the text of common.py as regenerated in Gen/Source.v. *)
From Coq Require Import String Lia.
From CCT Require Import Prelude Hex Num Time Formats PySrc.
From CCT.Gen Require Source Params.
From CCT.proofs Require Import HexFacts.
Open Scope N_scope.

Notation run := (run_prog Source.program).

(* a validator that returns its argument: Ok v where the model says Ok tt *)
Definition returns_arg (r : res unit) (v : pv) : res pv := r ;;; Ok v.

Lemma hexval_ascii : forall c t, hexval c = Some t -> (c <? 128) = true.
Proof.
  intros c t. unfold hexval.
  destruct ((48 <=? c) && (c <=? 57)) eqn:E1; [intros _; apply andb_prop in E1; destruct E1 as [_ E]; apply N.leb_le in E; apply N.ltb_lt; lia|].
  destruct ((97 <=? c) && (c <=? 102)) eqn:E2; [intros _; apply andb_prop in E2; destruct E2 as [_ E]; apply N.leb_le in E; apply N.ltb_lt; lia|].
  destruct ((65 <=? c) && (c <=? 70)) eqn:E3; [intros _; apply andb_prop in E3; destruct E3 as [_ E]; apply N.leb_le in E; apply N.ltb_lt; lia|].
  discriminate.
Qed.

Lemma is_ws_ascii : forall c, is_ws c = true -> (c <? 128) = true.
Proof.
  intros c. unfold is_ws. intros H. apply N.ltb_lt. apply orb_prop in H. destruct H as [H|H].
  - apply andb_prop in H. destruct H as [_ H]. apply N.leb_le in H. lia.
  - apply N.eqb_eq in H. lia.
Qed.

(* what bytes.fromhex accepts is written over hex digits and ASCII whitespace only: the str methods are inside their modelled alphabet *)
Lemma fromhex_alphabet : forall s b, fromhex s = Some b -> forallb hexws_char s = true /\ forallb (fun c => c <? 128) s = true.
Proof.
  fix IH 1. intros s b. destruct s as [|c r]; [intros _; split; reflexivity|].
  cbn [fromhex]. destruct (is_ws c) eqn:W.
  - intros H. destruct (IH r b H) as [A B]. cbn [forallb]. unfold hexws_char at 1. rewrite W, A, B, (is_ws_ascii c W). split; reflexivity.
  - destruct (hexval c) as [t|] eqn:Hc; [|discriminate]. destruct r as [|d r']; [discriminate|].
    destruct (hexval d) as [u|] eqn:Hd; [|discriminate].
    destruct (fromhex r') as [b'|] eqn:F; [|discriminate]. intros _.
    destruct (IH r' b' F) as [A B]. cbn [forallb]. unfold hexws_char at 1 2. rewrite Hc, Hd, A, B, (hexval_ascii c t Hc), (hexval_ascii d u Hd).
    rewrite !orb_true_r. split; reflexivity.
Qed.

Lemma src_checkformat_string : forall v, run "checkformat_string" [v] = returns_arg (checkformat_string v) v.
Proof. intros v. cbn. unfold returns_arg, checkformat_string. destruct (is_str v); reflexivity. Qed.

Lemma src_checkformat_byteslike : forall v, run "checkformat_byteslike" [v] = returns_arg (checkformat_byteslike v) v.
Proof. intros v. cbn. destruct v; reflexivity. Qed.

Lemma src_checkformat_expiration_distance : forall v,
  run "checkformat_expiration_distance" [v] = returns_arg (checkformat_expiration_distance v) v.
Proof. intros v. cbn. destruct v; reflexivity. Qed.

Lemma src_checkformat_hex_string : forall v, run "checkformat_hex_string" [v] = returns_arg (checkformat_hex_string v) v.
Proof.
  intros v. destruct v; try reflexivity.
  cbn. unfold returns_arg, checkformat_hex_string. destruct (fromhex s) as [b|] eqn:F; [|reflexivity].
  destruct (fromhex_alphabet s b F) as [A B]. cbn. rewrite A, B. cbn.
  destruct (isalnum_hexws s); cbn; [|reflexivity].
  destruct (ustr_eqb (lower_hexws s) s); reflexivity.
Qed.

Lemma src_is_hex_string : forall v, run "is_hex_string" [v] = Ok (VBool (is_hex_string v)).
Proof.
  intros v. destruct v; try reflexivity.
  cbn. unfold is_hex_string, checkformat_hex_string. destruct (fromhex s) as [b|] eqn:F; [|reflexivity].
  destruct (fromhex_alphabet s b F) as [A B]. cbn. rewrite A, B. cbn.
  destruct (isalnum_hexws s); cbn; [|reflexivity].
  destruct (ustr_eqb (lower_hexws s) s); reflexivity.
Qed.

(* evaluate the body of the function with the functions it may call kept abstract, then hand each call to the lemma about the callee *)
Ltac scbn := cbn -[Z.eqb Z.of_nat Nat.eqb].
Lemma run_prog_cons : forall g d rest f args,
  run_prog ((g, d) :: rest) f args = if String.eqb f g then run_body (run_prog rest) d args else run_prog rest f args.
Proof. reflexivity. Qed.

Ltac src_enter :=
  unfold Source.program;
  repeat (rewrite run_prog_cons; cbn [String.eqb Ascii.eqb Bool.eqb]);
  match goal with |- run_body ?c _ _ = _ =>
    let callee := fresh "callee" in let H := fresh "Hcallee" in remember c as callee eqn:H end;
  scbn.
Ltac src_walk := repeat (rewrite run_prog_cons; cbn [String.eqb Ascii.eqb Bool.eqb]).
Ltac src_call g :=
  match goal with H : ?callee = _ |- context [?callee g ?a] =>
    replace (callee g a) with (run g a) by (rewrite H; unfold Source.program; src_walk; reflexivity) end.

Ltac src_builtin g :=
  match goal with H : ?callee = _ |- context [?callee g ?a] =>
    replace (callee g a) with (call_builtin g a) by (rewrite H; reflexivity) end.

Lemma len_is_spec : forall v n, len_is v n = match py_len v with Ok k => Nat.eqb k n | _ => false end.
Proof. reflexivity. Qed.

Lemma Zofnat_eqb : forall k n : nat, Z.eqb (Z.of_nat k) (Z.of_nat n) = Nat.eqb k n.
Proof.
  intros k n. destruct (Nat.eqb k n) eqn:E.
  - apply Nat.eqb_eq in E. subst. apply Z.eqb_refl.
  - apply Nat.eqb_neq in E. apply Z.eqb_neq. lia.
Qed.

Lemma is_hex_string_str : forall v, is_hex_string v = true -> exists s, v = VStr s.
Proof. intros v H. destruct v; try discriminate H. eexists; reflexivity. Qed.

Lemma src_is_hex_signature : forall v, run "is_hex_signature" [v] = Ok (VBool (is_hex_signature v)).
Proof.
  intros v. src_enter. src_call "is_hex_string"%string. rewrite src_is_hex_string. scbn.
  unfold is_hex_signature. destruct (is_hex_string v) eqn:E; [|reflexivity].
  destruct (is_hex_string_str v E) as [s ->].
  src_builtin "len"%string. scbn.
  change 128%Z with (Z.of_nat 128). rewrite Zofnat_eqb. change Params.sig_len with 128%nat.
  destruct (Nat.eqb (length s) 128); reflexivity.
Qed.

Lemma src_checkformat_hex_key : forall v, run "checkformat_hex_key" [v] = returns_arg (checkformat_hex_key v) v.
Proof.
  intros v. src_enter. src_call "checkformat_hex_string"%string. rewrite src_checkformat_hex_string.
  unfold checkformat_hex_key, returns_arg. destruct (checkformat_hex_string v) as [[]|e|] eqn:E; scbn; try reflexivity.
  assert (S : exists s, v = VStr s) by (apply is_hex_string_str; unfold is_hex_string; rewrite E; reflexivity).
  destruct S as [s ->]. src_builtin "len"%string. scbn.
  change 64%Z with (Z.of_nat 64). rewrite Zofnat_eqb. change Params.key_len with 64%nat.
  rewrite Nat.eqb_sym. destruct (Nat.eqb (length s) 64); reflexivity.
Qed.

Lemma checkformat_hex_key_family : forall v,
  checkformat_hex_key v = Ok tt \/ checkformat_hex_key v = Err TypeError \/ checkformat_hex_key v = Err ValueError.
Proof.
  intros v. unfold checkformat_hex_key.
  destruct (checkformat_hex_string_family v) as [-> | [-> | ->]]; cbn [bind]; auto.
  destruct (len_is v Params.key_len); auto.
Qed.

(* try: f(x); return True / except (TypeError, ValueError): return False -- for a three-way answer *)
Lemma src_is_hex_key : forall v, run "is_hex_key" [v] = Ok (VBool (is_hex_key v)).
Proof.
  intros v. src_enter. src_call "checkformat_hex_key"%string. rewrite src_checkformat_hex_key.
  unfold is_hex_key, returns_arg.
  destruct (checkformat_hex_key_family v) as [-> | [-> | ->]]; reflexivity.
Qed.

Lemma src_checkformat_gpg_fingerprint : forall v,
  run "checkformat_gpg_fingerprint" [v] = returns_arg (checkformat_gpg_fingerprint v) v.
Proof.
  intros v. src_enter. src_builtin "len"%string. unfold returns_arg, checkformat_gpg_fingerprint. scbn.
  destruct (py_len v) as [k|e|] eqn:L; [| reflexivity | destruct v; discriminate L].
  scbn. change 40%Z with (Z.of_nat 40). rewrite Zofnat_eqb. change Params.fpr_len with 40%nat.
  destruct (Nat.eqb k 40) eqn:K; scbn; [|reflexivity].
  src_builtin "bytes.fromhex"%string.
  destruct v; try reflexivity.
  scbn. destruct (fromhex s) as [b|] eqn:F; [|reflexivity].
  destruct (fromhex_alphabet s b F) as [A B]. scbn. rewrite A, B. scbn.
  destruct (isalnum_hexws s); scbn; [|reflexivity].
  destruct (ustr_eqb (lower_hexws s) s); reflexivity.
Qed.

Lemma src_is_gpg_fingerprint : forall v, run "is_gpg_fingerprint" [v] = Ok (VBool (is_gpg_fingerprint v)).
Proof.
  intros v. src_enter. src_call "checkformat_gpg_fingerprint"%string. rewrite src_checkformat_gpg_fingerprint.
  unfold is_gpg_fingerprint, returns_arg.
  destruct (checkformat_gpg_fingerprint_family v) as [-> | [-> | ->]]; reflexivity.
Qed.

Lemma ok_vbool_inj : forall a b, @Ok pv (VBool a) = Ok (VBool b) <-> a = b.
Proof. intros a b. split; [intros [= ->]; reflexivity | intros ->; reflexivity]. Qed.

Lemma src_hex_key_grammar : forall v,
  run "is_hex_key" [v] = Ok (VBool true) <-> exists s, v = VStr s /\ length s = 64%nat /\ forallb is_lower_hex s = true.
Proof. intros v. rewrite src_is_hex_key, ok_vbool_inj. apply is_hex_key_iff. Qed.
Lemma src_hex_signature_grammar : forall v,
  run "is_hex_signature" [v] = Ok (VBool true) <-> exists s, v = VStr s /\ length s = 128%nat /\ forallb is_lower_hex s = true.
Proof. intros v. rewrite src_is_hex_signature, ok_vbool_inj. apply is_hex_signature_iff. Qed.
Lemma src_gpg_fingerprint_grammar : forall v,
  run "is_gpg_fingerprint" [v] = Ok (VBool true) <-> exists s, v = VStr s /\ length s = 40%nat /\ forallb is_lower_hex s = true.
Proof. intros v. rewrite src_is_gpg_fingerprint, ok_vbool_inj. apply is_gpg_fingerprint_iff. Qed.

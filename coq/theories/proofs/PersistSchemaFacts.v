(* PersistSchemaFacts.v: the delegating-metadata checker gives the same answer on a stored-and-loaded document
   (canon v) as on the document itself, hence so do verify_delegation and verify_root (C08). *)
From CCT Require Import Prelude Hex Num Time Formats Json JsonParse Auth Signing.
From CCT.Gen Require Params.
From CCT.proofs Require Import HexFacts SigFacts AuthFacts SignableFacts DelegationFacts RootFacts SchemaFacts FamilyFacts SigningFacts
     JsonLexFacts SortFacts JsonFacts PersistFacts.
From Coq Require Import Lia Permutation.
Open Scope N_scope.

(* two fields, by lookups: for a dict with str keys *)
Lemma two_fields_lookup m a b x y : ustr_eqb a b = false -> all_str_keys m = true ->
  (two_fields m a b x y <-> length m = 2%nat /\ dget m a = Some x /\ dget m b = Some y).
Proof.
  intros Hab Hs. split.
  - intros H. destruct (two_fields_dget m a b x y Hab H) as [E1 E2]. split; [destruct H as [-> | ->]; reflexivity|auto].
  - intros (Hl & E1 & E2). destruct m as [|[ka xa] [|[kb xb] [|]]]; try discriminate.
    cbn [all_str_keys forallb fst] in Hs. apply andb_true_iff in Hs as [Ha Hs]. apply andb_true_iff in Hs as [Hb _].
    destruct ka; try discriminate. destruct kb; try discriminate. cbn [dget key_is] in E1, E2.
    assert (Hba : ustr_eqb b a = false) by (rewrite ustr_eqb_sym; exact Hab).
    destruct (ustr_eqb s a) eqn:A1.
    + apply ustr_eqb_eq in A1 as ->. injection E1 as ->. rewrite Hab in E2.
      destruct (ustr_eqb s0 b) eqn:B2; [|discriminate]. apply ustr_eqb_eq in B2 as ->. injection E2 as ->. left; reflexivity.
    + destruct (ustr_eqb s0 a) eqn:B1; [|discriminate]. apply ustr_eqb_eq in B1 as ->. injection E1 as ->.
      destruct (ustr_eqb s b) eqn:A2.
      * apply ustr_eqb_eq in A2 as ->. injection E2 as ->. right; reflexivity.
      * rewrite Hab in E2. discriminate.
Qed.

Lemma canon_atom x : natural x -> canon x = x.
Proof. intros (z & Hz & _). destruct x; cbn in Hz; try discriminate; reflexivity. Qed.

Lemma natural_canon x : natural (canon x) <-> natural x.
Proof.
  split; intros (z & Hz & Hge).
  - destruct x; cbn in Hz; try discriminate; exists z; auto.
  - rewrite canon_atom by (exists z; auto). exists z; auto.
Qed.

Lemma is_str_canon x : is_str (canon x) = is_str x.
Proof. destruct x; reflexivity. Qed.

Lemma utc_str_canon x : utc_str (canon x) <-> utc_str x.
Proof.
  split; intros (s & E & H).
  - apply canon_str in E as ->. exists s; auto.
  - subst. exists s; auto.
Qed.

Lemma canon_keylist ks : Forall hex_key_val ks -> map canon ks = ks.
Proof. induction 1 as [|k ks (s & -> & _) F IH]; [reflexivity|]. cbn [map canon]. rewrite IH. reflexivity. Qed.

Lemma canon_list_inv x l : canon x = VList l -> jdom x = true -> exists l0, x = VList l0 /\ l = map canon l0.
Proof. destruct x; cbn [canon jdom]; try discriminate; intros [= <-] _; eauto. Qed.

Lemma hex_key_canon k : jdom k = true -> (hex_key_val (canon k) <-> hex_key_val k).
Proof. intros _. split; intros (s & E & H); [apply canon_str in E as ->|subst]; exists s; auto. Qed.

(* one delegation *)
Lemma delegation_ok_canon d : jdom d = true -> (delegation_ok (canon d) <-> delegation_ok d).
Proof.
  intros Hd. destruct d; try (split; intros (m0 & ? & ? & E & _); cbn [canon] in E; discriminate).
  destruct (canon_dict_view m Hd) as (m' & Ec & Hl & Hs' & Hg & Hs). rewrite Ec. unfold delegation_ok. split.
  - intros (m0 & th & ks & [= <-] & Htf & F & N & Hn).
    apply (two_fields_lookup m' (U"threshold") (U"pubkeys") th (VList ks) eq_refl Hs') in Htf as (L & E1 & E2).
    rewrite Hg in E1, E2.
    destruct (dget m (U"threshold")) as [th0|] eqn:G1; cbn [option_map] in E1; try discriminate. injection E1 as E1.
    destruct (dget m (U"pubkeys")) as [pk0|] eqn:G2; cbn [option_map] in E2; try discriminate. injection E2 as E2.
    destruct (canon_list_inv pk0 ks E2 (jdom_dget m _ _ Hd G2)) as (ks0 & -> & Eks).
    assert (Hks0 : Forall hex_key_val ks0).
    { assert (Hj : jdom (VList ks0) = true) by exact (jdom_dget m _ _ Hd G2). cbn [jdom] in Hj. rewrite forallb_forall in Hj.
      subst ks. apply Forall_forall. intros k Hk. rewrite Forall_forall in F. apply (hex_key_canon k (Hj k Hk)). apply F. apply in_map. exact Hk. }
    rewrite (canon_keylist ks0 Hks0) in Eks. subst ks.
    assert (Hth : natural th0) by (apply natural_canon; rewrite E1; exact Hn).
    exists m, th0, ks0. split; [reflexivity|]. split; [|auto].
    apply (two_fields_lookup m (U"threshold") (U"pubkeys") th0 (VList ks0) eq_refl Hs). rewrite <- Hl. auto.
  - intros (m0 & th & ks & [= <-] & Htf & F & N & Hn).
    apply (two_fields_lookup m (U"threshold") (U"pubkeys") th (VList ks) eq_refl Hs) in Htf as (L & E1 & E2).
    exists m', th, ks. split; [reflexivity|]. split; [|auto].
    apply (two_fields_lookup m' (U"threshold") (U"pubkeys") th (VList ks) eq_refl Hs'). rewrite Hl, !Hg, E1, E2. cbn [option_map canon].
    rewrite (canon_keylist ks F), (canon_atom th Hn). auto.
Qed.

(* the entries of a canonicalised dict are the canonicalised entries of the dict *)
Lemma canon_values m : jdom (VDict m) = true ->
  exists m', canon (VDict m) = VDict m'
    /\ (forall kv', In kv' m' -> exists kv, In kv m /\ fst kv' = VStr (key_text (fst kv)) /\ snd kv' = canon (snd kv))
    /\ (forall kv, In kv m -> In (VStr (key_text (fst kv)), canon (snd kv)) m').
Proof.
  intros Hd. rewrite canon_dict. eexists. split; [reflexivity|]. split.
  - intros kv' Hin. apply in_map_iff in Hin as ([k x] & <- & Hin). unfold entries in Hin. apply (proj1 (In_sort_kv _ _)) in Hin.
    apply in_map_iff in Hin as (kv & [= <- <-] & Hin). exists kv. auto.
  - intros kv Hin. apply in_map_iff. exists (key_text (fst kv), snd kv). split; [reflexivity|].
    unfold entries. apply In_sort_kv. apply in_map_iff. exists kv. auto.
Qed.

Lemma jdom_values m kv : jdom (VDict m) = true -> In kv m -> jdom (snd kv) = true /\ is_str (fst kv) = true.
Proof.
  intros Hd Hin. cbn [jdom] in Hd. apply andb_true_iff in Hd as [Hd _]. rewrite forallb_forall in Hd. specialize (Hd _ Hin).
  apply andb_true_iff in Hd as [Hk Hx]. split; [exact Hx|]. destruct (fst kv); try discriminate. reflexivity.
Qed.

Lemma delegations_ok_canon v : jdom v = true -> (delegations_ok (canon v) <-> delegations_ok v).
Proof.
  intros Hd. destruct v; try (split; intros (m0 & E & _); cbn [canon] in E; discriminate).
  destruct (canon_values m Hd) as (m' & Ec & H1 & H2). rewrite Ec. unfold delegations_ok. split.
  - intros (m0 & [= <-] & F). exists m. split; [reflexivity|]. apply Forall_forall. intros kv Hin.
    destruct (jdom_values m kv Hd Hin) as [Hx Hk]. split; [exact Hk|].
    rewrite Forall_forall in F. destruct (F _ (H2 kv Hin)) as [_ Hok]. cbn [snd] in Hok. exact (proj1 (delegation_ok_canon _ Hx) Hok).
  - intros (m0 & [= <-] & F). exists m'. split; [reflexivity|]. apply Forall_forall. intros kv' Hin.
    destruct (H1 kv' Hin) as (kv & Hin0 & Ek & Ex). rewrite Ek, Ex. split; [reflexivity|].
    rewrite Forall_forall in F. destruct (F _ Hin0) as [_ Hok]. destruct (jdom_values m kv Hd Hin0) as [Hx _].
    exact (proj2 (delegation_ok_canon _ Hx) Hok).
Qed.

Lemma shapes_canon sm : jdom (VDict sm) = true ->
  forall sm', canon (VDict sm) = VDict sm' ->
  (Forall (fun kv => raw_shape (snd kv) \/ gpg_shape (snd kv)) sm' <-> Forall (fun kv => raw_shape (snd kv) \/ gpg_shape (snd kv)) sm).
Proof.
  intros Hd sm' Ec. destruct (canon_values sm Hd) as (m' & Ec' & H1 & H2). rewrite Ec in Ec'. injection Ec' as <-.
  split; intros F; apply Forall_forall; rewrite Forall_forall in F.
  - intros kv Hin. destruct (jdom_values sm kv Hd Hin) as [Hx _]. specialize (F _ (H2 kv Hin)). cbn [snd] in F.
    destruct F as [F|F]; [left; exact (proj1 (raw_shape_canon _ Hx) F)|right; exact (proj1 (gpg_shape_canon _ Hx) F)].
  - intros kv' Hin. destruct (H1 kv' Hin) as (kv & Hin0 & _ & Ex). rewrite Ex. destruct (jdom_values sm kv Hd Hin0) as [Hx _].
    destruct (F _ Hin0) as [F0|F0]; [left; exact (proj2 (raw_shape_canon _ Hx) F0)|right; exact (proj2 (gpg_shape_canon _ Hx) F0)].
Qed.

Lemma canon_dict_inv x m' : canon x = VDict m' -> exists m, x = VDict m.
Proof. destruct x; cbn [canon]; try discriminate; eauto. Qed.

(* the documented schema is insensitive to storing and loading *)
Theorem dm_ok_canon v : jdom v = true -> (dm_ok (canon v) <-> dm_ok v).
Proof.
  intros Hd.
  destruct v; try (split; intros (m0 & ? & ? & ? & E & _); cbn [canon] in E; discriminate).
  destruct (canon_dict_view m Hd) as (m' & Ec & Hl & Hs' & Hg & Hs). rewrite Ec.
  (* the two directions share the analysis of the signed part; do it on lookups *)
  assert (Hsigned : forall c, jdom (VDict c) = true -> forall c', canon (VDict c) = VDict c' ->
            forall ty,
            ((dget c' (U"type") = Some (VStr ty) /\ In ty Params.supported_dm_types
              /\ has_field c' (U"metadata_spec_version") (fun x => is_str x = true)
              /\ has_field c' (U"delegations") delegations_ok /\ has_field c' (U"expiration") utc_str
              /\ (dhas c' (U"timestamp") = true \/ dhas c' (U"version") = true) /\ (ty = U"root" -> dhas c' (U"version") = true)
              /\ if_field c' (U"timestamp") utc_str /\ if_field c' (U"version") natural)
             <->
             (dget c (U"type") = Some (VStr ty) /\ In ty Params.supported_dm_types
              /\ has_field c (U"metadata_spec_version") (fun x => is_str x = true)
              /\ has_field c (U"delegations") delegations_ok /\ has_field c (U"expiration") utc_str
              /\ (dhas c (U"timestamp") = true \/ dhas c (U"version") = true) /\ (ty = U"root" -> dhas c (U"version") = true)
              /\ if_field c (U"timestamp") utc_str /\ if_field c (U"version") natural))).
  { intros c Hc c' Ecc ty. destruct (canon_dict_view c Hc) as (c'' & Ec2 & _ & _ & Hgc & _). rewrite Ecc in Ec2. injection Ec2 as <-.
    assert (Hhas : forall k, dhas c' k = dhas c k) by (intros k; unfold dhas; rewrite Hgc; destruct (dget c k); reflexivity).
    assert (Hfield : forall k (P : pv -> Prop), (forall x, jdom x = true -> (P (canon x) <-> P x)) -> (has_field c' k P <-> has_field c k P)).
    { intros k P HP. unfold has_field. rewrite Hgc. split.
      - intros (x' & E & Hx). destruct (dget c k) as [x|] eqn:G; cbn [option_map] in E; try discriminate. injection E as <-.
        exists x. split; [reflexivity|]. apply HP; [exact (jdom_dget c k x Hc G)|exact Hx].
      - intros (x & E & Hx). rewrite E. exists (canon x). split; [reflexivity|]. apply HP; [exact (jdom_dget c k x Hc E)|exact Hx]. }
    assert (Hif : forall k (P : pv -> Prop), (forall x, jdom x = true -> (P (canon x) <-> P x)) -> (if_field c' k P <-> if_field c k P)).
    { intros k P HP. unfold if_field. rewrite Hgc. split.
      - intros H x G. apply HP; [exact (jdom_dget c k x Hc G)|]. apply H. rewrite G. reflexivity.
      - intros H x' E. destruct (dget c k) as [x|] eqn:G; cbn [option_map] in E; try discriminate. injection E as <-.
        apply HP; [exact (jdom_dget c k x Hc G)|]. apply H. reflexivity. }
    assert (Hty : dget c' (U"type") = Some (VStr ty) <-> dget c (U"type") = Some (VStr ty)).
    { rewrite Hgc. destruct (dget c (U"type")) as [x|]; cbn [option_map]; split; try discriminate.
      - intros [= H]. apply canon_str in H as ->. reflexivity.
      - intros [= ->]. reflexivity. }
    rewrite Hty, !Hhas.
    rewrite (Hfield (U"metadata_spec_version") (fun x => is_str x = true)) by (intros x _; rewrite is_str_canon; reflexivity).
    rewrite (Hfield (U"delegations") delegations_ok) by (intros x Hx; apply delegations_ok_canon; exact Hx).
    rewrite (Hfield (U"expiration") utc_str) by (intros x _; apply utc_str_canon).
    rewrite (Hif (U"timestamp") utc_str) by (intros x _; apply utc_str_canon).
    rewrite (Hif (U"version") natural) by (intros x _; apply natural_canon).
    reflexivity. }
  unfold dm_ok. split.
  - intros (m0 & sm' & c' & ty & [= <-] & Htf & Hty & Fs & Hrest).
    apply (two_fields_lookup m' (U"signatures") (U"signed") _ _ eq_refl Hs') in Htf as (L & E1 & E2). rewrite Hg in E1, E2.
    destruct (dget m (U"signatures")) as [s0|] eqn:G1; cbn [option_map] in E1; try discriminate. injection E1 as E1.
    destruct (dget m (U"signed")) as [x0|] eqn:G2; cbn [option_map] in E2; try discriminate. injection E2 as E2.
    destruct (canon_dict_inv _ _ E1) as (sm & ->). destruct (canon_dict_inv _ _ E2) as (c & ->).
    pose proof (jdom_dget m _ _ Hd G1) as Hsm. pose proof (jdom_dget m _ _ Hd G2) as Hc.
    exists m, sm, c, ty. split; [reflexivity|].
    split; [apply (two_fields_lookup m (U"signatures") (U"signed") _ _ eq_refl Hs); rewrite <- Hl; auto|].
    split; [rewrite <- (type_in_canon (VDict c)) by exact Hc; rewrite E2; exact Hty|].
    split; [apply (shapes_canon sm Hsm sm' E1); exact Fs|].
    apply (Hsigned c Hc c' E2 ty). exact Hrest.
  - intros (m0 & sm & c & ty & [= <-] & Htf & Hty & Fs & Hrest).
    apply (two_fields_lookup m (U"signatures") (U"signed") _ _ eq_refl Hs) in Htf as (L & E1 & E2).
    pose proof (jdom_dget m _ _ Hd E1) as Hsm. pose proof (jdom_dget m _ _ Hd E2) as Hc.
    destruct (canon_dict_view sm Hsm) as (sm' & Ecs & _). destruct (canon_dict_view c Hc) as (c' & Ecc & _).
    exists m', sm', c', ty. split; [reflexivity|].
    split; [apply (two_fields_lookup m' (U"signatures") (U"signed") _ _ eq_refl Hs'); rewrite Hl, !Hg, E1, E2; cbn [option_map]; rewrite Ecs, Ecc; auto|].
    split; [rewrite <- Ecc; rewrite type_in_canon by exact Hc; exact Hty|].
    split; [apply (shapes_canon sm Hsm sm' Ecs); exact Fs|].
    apply (Hsigned c Hc c' Ecc ty). exact Hrest.
Qed.

Theorem cdm_canon v : jdom v = true -> (cdm (canon v) = Ok tt <-> cdm v = Ok tt).
Proof. intros Hd. rewrite !checker_iff_schema. apply dm_ok_canon; exact Hd. Qed.

(* ---- what well-formed delegating metadata looks like from the lookups the verifiers make *)
Lemma dm_ok_parts t : dm_ok t ->
  exists m c dl, t = VDict m /\ dget m (U"signed") = Some (VDict c) /\ dget c (U"delegations") = Some (VDict dl)
    /\ Forall (fun kd => is_str (fst kd) = true /\ delegation_ok (snd kd)) dl.
Proof.
  intros (m & sm & c & ty & -> & Htf & _ & _ & _ & _ & _ & (dlv & Edl & (dl & -> & F)) & _).
  destruct (two_fields_dget m (U"signatures") (U"signed") _ _ eq_refl Htf) as [_ E2]. eauto 8.
Qed.

Lemma delegation_parts d : delegation_ok d ->
  exists dm th ks, d = VDict dm /\ dget dm (U"threshold") = Some th /\ dget dm (U"pubkeys") = Some (VList ks)
    /\ canon th = th /\ canon (VList ks) = VList ks.
Proof.
  intros (dm & th & ks & -> & Htf & F & _ & Hn).
  destruct (two_fields_dget dm (U"threshold") (U"pubkeys") _ _ eq_refl Htf) as [E1 E2].
  exists dm, th, ks. repeat split; auto. - apply canon_atom; exact Hn. - cbn [canon]. rewrite (canon_keylist ks F). reflexivity.
Qed.

Lemma py_in_str_canon k dl : jdom (VDict dl) = true -> py_in_str k (canon (VDict dl)) = py_in_str k (VDict dl).
Proof.
  intros Hd. destruct (canon_dict_view dl Hd) as (dl' & Ec & _ & _ & Hg & _). rewrite Ec. cbn [py_in_str]. unfold dhas. rewrite Hg.
  destruct (dget dl k); reflexivity.
Qed.

Section Verdicts.
  Variable ed_verify : bytes -> bytes -> bytes -> bool.
  Variable sha256 : bytes -> bytes.
  Notation vsig := (verify_signable ed_verify sha256).
  Notation vdel := (verify_delegation ed_verify sha256).
  Notation vroot := (verify_root ed_verify sha256).

  (* the rule read from well-formed trusted metadata is the same before and after storing it *)
  Lemma role_rule_canon t nm : jdom t = true -> dm_ok t -> role_rule (canon t) nm = role_rule t nm.
  Proof.
    intros Hd Hok. destruct (dm_ok_parts t Hok) as (m & c & dl & -> & E1 & E2 & F).
    pose proof (jdom_dget m _ _ Hd E1) as Hc. pose proof (jdom_dget c _ _ Hc E2) as Hdl.
    unfold role_rule. rewrite (subscript_canon (VDict m) (U"signed") Hd eq_refl). cbn [subscript]. rewrite E1. cbn [bind].
    rewrite (subscript_canon (VDict c) (U"delegations") Hc eq_refl). cbn [subscript]. rewrite E2. cbn [bind].
    rewrite (py_in_str_canon nm dl Hdl). cbn [py_in_str bind]. unfold dhas.
    destruct (dget dl nm) as [d|] eqn:E3; cbn [negb]; [|reflexivity].
    rewrite (subscript_canon (VDict dl) nm Hdl eq_refl). cbn [subscript]. rewrite E3. cbn [bind].
    pose proof (jdom_dget dl _ _ Hdl E3) as Hdj.
    rewrite Forall_forall in F. destruct (F _ (dget_Some_In _ _ _ E3)) as [_ Hdok]. cbn [snd] in Hdok.
    destruct (delegation_parts d Hdok) as (dm & th & ks & -> & G1 & G2 & C1 & C2).
    rewrite (subscript_canon (VDict dm) (U"pubkeys") Hdj eq_refl), (subscript_canon (VDict dm) (U"threshold") Hdj eq_refl).
    cbn [subscript]. rewrite G1, G2. cbn [bind]. rewrite C1, C2. reflexivity.
  Qed.

  Lemma is_signable_canon_iff s : jdom s = true -> is_signable (canon s) = is_signable s.
  Proof.
    intros Hd. destruct (is_signable s) eqn:Es; [apply is_signable_canon; auto|].
    destruct (is_signable (canon s)) eqn:Ec; [|reflexivity]. exfalso.
    apply is_signable_iff in Ec as (m' & sm' & x' & Ec & Htf' & Hty').
    destruct s; try (cbn [canon] in Ec; discriminate).
    destruct (canon_dict_view m Hd) as (m'' & Ec' & Hl & Hs' & Hg & Hs). rewrite Ec' in Ec. injection Ec as ->.
    apply (two_fields_lookup m' (U"signatures") (U"signed") _ _ eq_refl Hs') in Htf' as (L & G1 & G2). rewrite Hg in G1, G2.
    destruct (dget m (U"signatures")) as [s0|] eqn:E1; cbn [option_map] in G1; try discriminate. injection G1 as G1.
    destruct (dget m (U"signed")) as [x0|] eqn:E2; cbn [option_map] in G2; try discriminate. injection G2 as G2.
    destruct (canon_dict_inv _ _ G1) as (sm & ->).
    assert (is_signable (VDict m) = true); [|congruence].
    apply is_signable_iff. exists m, sm, x0. split; [reflexivity|].
    split; [apply (two_fields_lookup m (U"signatures") (U"signed") _ _ eq_refl Hs); rewrite <- Hl; auto|].
    rewrite <- G2 in Hty'. rewrite type_in_canon in Hty'; [exact Hty'|exact (jdom_dget m _ _ Hd E2)].
  Qed.

  Lemma key_is_canon k v : key_is k (canon v) = key_is k v.
  Proof. destruct v; reflexivity. Qed.

  (* the payload-type test gives the same answer on the stored object, wherever the model gives one *)
  Lemma type_check_canon u nm : jdom u = true -> is_signable u = true ->
    type_check u nm <> Unmodelled -> type_check (canon u) nm <> Unmodelled ->
    (type_check (canon u) nm = Ok tt <-> type_check u nm = Ok tt).
  Proof.
    intros Hd Hs. apply is_signable_iff in Hs as (m & sm & sd & -> & Htf & Hty).
    destruct (two_fields_dget m (U"signatures") (U"signed") _ _ eq_refl Htf) as [E1 E2].
    pose proof (jdom_dget m _ _ Hd E2) as Hsd.
    set (so := VDict [(VStr (U"signatures"), VDict []); (VStr (U"signed"), sd)]).
    assert (Hso : jdom so = true) by (unfold so; cbn [jdom forallb fst snd map]; rewrite Hsd; reflexivity).
    assert (Eso : signed_only (VDict m) = Ok so) by (unfold signed_only; cbn [subscript]; rewrite E2; reflexivity).
    assert (Eso' : signed_only (canon (VDict m)) = Ok (canon so)).
    { unfold signed_only. rewrite (subscript_canon (VDict m) (U"signed") Hd eq_refl). cbn [subscript]. rewrite E2. cbn [bind].
      unfold so. rewrite (canon_envelope _ [] sd (or_introl eq_refl)). reflexivity. }
    unfold type_check. rewrite Eso, Eso'. cbn [bind].
    pose proof (cdm_canon so Hso) as Hiff. pose proof (fam_cdm so) as F1. pose proof (fam_cdm (canon so)) as F2.
    rewrite (subscript_canon (VDict m) (U"signed") Hd eq_refl). cbn [subscript]. rewrite E2. cbn [bind].
    destruct (cdm so) as [[]|e|] eqn:C1.
    - rewrite (proj2 Hiff eq_refl). intros _ _.
      apply checker_iff_schema in C1 as (m0 & sm0 & c & ty & [= <-] & Htf0 & _).
      destruct (two_fields_dget _ (U"signatures") (U"signed") _ _ eq_refl Htf0) as [_ G2]. cbn in G2. injection G2 as ->.
      rewrite (subscript_canon (VDict c) (U"type") Hsd eq_refl). cbn [subscript].
      destruct (dget c (U"type")) as [tyv|]; cbn [bind]; [|split; discriminate].
      unfold str_ne. rewrite key_is_canon. reflexivity.
    - cbn [fam] in F1. destruct (cdm (canon so)) as [[]|e'|] eqn:C2.
      + pose proof (proj1 Hiff eq_refl). discriminate.
      + cbn [fam] in F2. intros _ _. destruct e; try discriminate; destruct e'; try discriminate; split; reflexivity.
      + intros _ H. exfalso. apply H. reflexivity.
    - intros H. exfalso. apply H. reflexivity.
  Qed.

  (* ---- verify_delegation gives the same verdict on what was stored and loaded as on the objects in memory *)
  Theorem delegation_verdict_persists name u t gpg :
    jdom u = true -> jdom t = true ->
    (forall sm, subscript u (U"signatures") = Ok (VDict sm) -> py_truth gpg = true -> Forall (fun kv => entry_small (snd kv)) sm) ->
    vdel name u t gpg <> Unmodelled -> vdel name (canon u) (canon t) gpg <> Unmodelled ->
    (vdel name (canon u) (canon t) gpg = Ok tt <-> vdel name u t gpg = Ok tt).
  Proof.
    intros Hu Ht Hsmall D1 D2.
    assert (Hdec : forall nm u' t', gpg_flag_ok gpg = true -> cdm t' = Ok tt -> is_signable u' = true ->
                     vdel (VStr nm) u' t' gpg <> Unmodelled -> type_check u' nm <> Unmodelled).
    { intros nm u' t' G C S H E. apply H. rewrite verify_delegation_unfold, G, C. cbn [negb bind]. unfold checkformat_signable. rewrite S. cbn [bind].
      rewrite E. reflexivity. }
    assert (Hsigs : is_signable u = true -> exists sm, subscript u (U"signatures") = Ok (VDict sm)).
    { intros S. apply is_signable_iff in S as (m & sm & x & -> & Htf & _).
      destruct (two_fields_dget m (U"signatures") (U"signed") _ _ eq_refl Htf) as [E1 _]. exists sm. cbn [subscript]. rewrite E1. reflexivity. }
    rewrite !verify_delegation_iff. split.
    - intros (nm & keys & th & -> & Eg & Et' & Es' & Ety' & Er' & Hv').
      pose proof (proj1 (cdm_canon t Ht) Et') as Et. pose proof (proj1 (checker_iff_schema t) Et) as Hok.
      pose proof Es' as Es. rewrite (is_signable_canon_iff u Hu) in Es.
      rewrite (role_rule_canon t nm Ht Hok) in Er'.
      destruct (Hsigs Es) as (sm & Esm).
      exists nm, keys, th. repeat split; auto.
      + apply (type_check_canon u nm Hu Es); auto. * apply (Hdec nm u t); auto. * apply (Hdec nm (canon u) (canon t)); auto.
      + apply (persist_keeps_verdict ed_verify sha256 u keys th gpg sm Hu Esm (Hsmall sm Esm)). exact Hv'.
    - intros (nm & keys & th & -> & Eg & Et & Es & Ety & Er & Hv).
      pose proof (proj2 (cdm_canon t Ht) Et) as Et'. pose proof (proj1 (checker_iff_schema t) Et) as Hok.
      pose proof Es as Es'. rewrite <- (is_signable_canon_iff u Hu) in Es'.
      destruct (Hsigs Es) as (sm & Esm).
      exists nm, keys, th. repeat split; auto.
      + apply (type_check_canon u nm Hu Es); auto. * apply (Hdec nm u t); auto. * apply (Hdec nm (canon u) (canon t)); auto.
      + rewrite (role_rule_canon t nm Ht Hok). exact Er.
      + apply (persist_keeps_verdict ed_verify sha256 u keys th gpg sm Hu Esm (Hsmall sm Esm)). exact Hv.
  Qed.

  (* ---- and so does verify_root *)
  Lemma view_canon t : jdom t = true -> dm_ok t -> view (canon t) = view t.
  Proof.
    intros Hd Hok. destruct (dm_ok_parts t Hok) as (m & c & dl & -> & E1 & E2 & F).
    destruct Hok as (m0 & sm0 & c0 & ty & [= <-] & Htf & _ & _ & Ety & _ & _ & _ & _ & _ & _ & _ & Hver).
    destruct (two_fields_dget m (U"signatures") (U"signed") _ _ eq_refl Htf) as [_ E1']. rewrite E1 in E1'. injection E1' as <-.
    pose proof (jdom_dget m _ _ Hd E1) as Hc. pose proof (jdom_dget c _ _ Hc E2) as Hdl.
    unfold view. rewrite (subscript_canon (VDict m) (U"signed") Hd eq_refl). cbn [subscript]. rewrite E1. cbn [bind].
    rewrite (subscript_canon (VDict c) (U"type") Hc eq_refl), (subscript_canon (VDict c) (U"delegations") Hc eq_refl),
            (subscript_canon (VDict c) (U"version") Hc eq_refl).
    cbn [subscript]. rewrite Ety, E2. cbn [bind canon].
    change (VDict (map (fun kv => (VStr (fst kv), snd kv)) (sort_kv ((fix go (m1 : list (pv * pv)) : list (ustr * pv) := match m1 with [] => [] | (k, x) :: r => (key_text k, canon x) :: go r end) dl))))
      with (canon (VDict dl)).
    rewrite (py_in_str_canon (U"root") dl Hdl). cbn [py_in_str bind]. unfold dhas.
    destruct (dget dl (U"root")) as [d|] eqn:E3; cbn [negb]; [|reflexivity].
    rewrite (subscript_canon (VDict dl) (U"root") Hdl eq_refl). cbn [subscript]. rewrite E3. cbn [bind].
    pose proof (jdom_dget dl _ _ Hdl E3) as Hdj.
    rewrite Forall_forall in F. destruct (F _ (dget_Some_In _ _ _ E3)) as [_ Hdok]. cbn [snd] in Hdok.
    destruct (delegation_parts d Hdok) as (dm & th & ks & -> & G1 & G2 & C1 & C2).
    rewrite (subscript_canon (VDict dm) (U"pubkeys") Hdj eq_refl), (subscript_canon (VDict dm) (U"threshold") Hdj eq_refl).
    cbn [subscript]. rewrite G1, G2. cbn [bind]. rewrite C1, C2.
    destruct (dget c (U"version")) as [v|] eqn:E4; cbn [bind]; [|reflexivity].
    rewrite (canon_atom v (Hver v E4)). reflexivity.
  Qed.

  Theorem root_verdict_persists t u :
    jdom t = true -> jdom u = true ->
    (forall sm, subscript u (U"signatures") = Ok (VDict sm) -> Forall (fun kv => entry_small (snd kv)) sm) ->
    (vroot (canon t) (canon u) = Ok tt <-> vroot t u = Ok tt).
  Proof.
    intros Ht Hu Hsmall. rewrite !verify_root_iff.
    assert (Hsigs : dm_ok u -> exists sm, subscript u (U"signatures") = Ok (VDict sm)).
    { intros (m & sm & c & ty & -> & Htf & _).
      destruct (two_fields_dget m (U"signatures") (U"signed") _ _ eq_refl Htf) as [E1 _]. exists sm. cbn [subscript]. rewrite E1. reflexivity. }
    assert (Hv : forall sm K th, subscript u (U"signatures") = Ok (VDict sm) ->
              (vsig (canon u) K th (VBool true) = Ok tt <-> vsig u K th (VBool true) = Ok tt)).
    { intros sm K th Esm. apply (persist_keeps_verdict ed_verify sha256 u K th (VBool true) sm Hu Esm). intros _. exact (Hsmall sm Esm). }
    unfold Link. split.
    - intros (Et' & Eu' & tv & uv & tz & Vt & Vu & T1 & T2 & I1 & I2 & V1 & V2).
      pose proof (proj1 (cdm_canon t Ht) Et') as Et. pose proof (proj1 (cdm_canon u Hu) Eu') as Eu.
      pose proof (proj1 (checker_iff_schema t) Et) as Hokt. pose proof (proj1 (checker_iff_schema u) Eu) as Hoku.
      rewrite (view_canon t Ht Hokt) in Vt. rewrite (view_canon u Hu Hoku) in Vu.
      destruct (Hsigs Hoku) as (sm & Esm).
      split; [exact Et|]. split; [exact Eu|]. exists tv, uv, tz. repeat split; auto; apply (Hv sm _ _ Esm); assumption.
    - intros (Et & Eu & tv & uv & tz & Vt & Vu & T1 & T2 & I1 & I2 & V1 & V2).
      pose proof (proj1 (checker_iff_schema t) Et) as Hokt. pose proof (proj1 (checker_iff_schema u) Eu) as Hoku.
      destruct (Hsigs Hoku) as (sm & Esm).
      split; [apply cdm_canon; assumption|]. split; [apply cdm_canon; assumption|]. exists tv, uv, tz.
      rewrite (view_canon t Ht Hokt), (view_canon u Hu Hoku). repeat split; auto; apply (Hv sm _ _ Esm); assumption.
  Qed.
End Verdicts.

(* PersistSchemaFacts.v: the delegating-metadata checker gives the same answer on a stored-and-loaded document
   (canon v) as on the document itself, hence so do verify_delegation and verify_root (C08). *)
From CCT Require Import Prelude Hex Num Time Formats Json JsonParse Auth Signing.
From CCT.Gen Require Params.
From CCT.proofs Require Import HexFacts SigFacts AuthFacts SignableFacts DelegationFacts RootFacts SchemaFacts FamilyFacts SigningFacts
     JsonLexFacts SortFacts JsonFacts PersistFacts.
From Coq Require Import Lia Permutation.
Open Scope N_scope.

(* two fields, by lookups: for a dict with str keys *)
Lemma two_fields_lookup m a b x y : ustr_eqb a b = false -> all_str_keys m = true ->
  (two_fields m a b x y <-> length m = 2%nat /\ dget m a = Some x /\ dget m b = Some y).
Proof.
  intros Hab Hs. split.
  - intros H. destruct (two_fields_dget m a b x y Hab H) as [E1 E2]. split; [destruct H as [-> | ->]; reflexivity|auto].
  - intros (Hl & E1 & E2). destruct m as [|[ka xa] [|[kb xb] [|]]]; try discriminate.
    cbn [all_str_keys forallb fst] in Hs. apply andb_true_iff in Hs as [Ha Hs]. apply andb_true_iff in Hs as [Hb _].
    destruct ka; try discriminate. destruct kb; try discriminate. cbn [dget key_is] in E1, E2.
    assert (Hba : ustr_eqb b a = false) by (rewrite ustr_eqb_sym; exact Hab).
    destruct (ustr_eqb s a) eqn:A1.
    + apply ustr_eqb_eq in A1 as ->. injection E1 as ->. rewrite Hab in E2.
      destruct (ustr_eqb s0 b) eqn:B2; [|discriminate]. apply ustr_eqb_eq in B2 as ->. injection E2 as ->. left; reflexivity.
    + destruct (ustr_eqb s0 a) eqn:B1; [|discriminate]. apply ustr_eqb_eq in B1 as ->. injection E1 as ->.
      destruct (ustr_eqb s b) eqn:A2.
      * apply ustr_eqb_eq in A2 as ->. injection E2 as ->. right; reflexivity.
      * rewrite Hba in E2. discriminate.
Qed.

Lemma canon_atom x : natural x -> canon x = x.
Proof. intros (z & Hz & _). destruct x; cbn in Hz; try discriminate; reflexivity. Qed.

Lemma natural_canon x : natural (canon x) <-> natural x.
Proof.
  split; intros (z & Hz & Hge).
  - destruct x; cbn in Hz; try discriminate; exists z; auto.
  - rewrite canon_atom by (exists z; auto). exists z; auto.
Qed.

Lemma is_str_canon x : is_str (canon x) = is_str x.
Proof. destruct x; reflexivity. Qed.

Lemma utc_str_canon x : utc_str (canon x) <-> utc_str x.
Proof.
  split; intros (s & E & H).
  - apply canon_str in E as ->. exists s; auto.
  - subst. exists s; auto.
Qed.

Lemma canon_keylist ks : Forall hex_key_val ks -> map canon ks = ks.
Proof. induction 1 as [|k ks (s & -> & _) F IH]; [reflexivity|]. cbn [map canon]. rewrite IH. reflexivity. Qed.

Lemma canon_list_inv x l : canon x = VList l -> jdom x = true -> exists l0, x = VList l0 /\ l = map canon l0.
Proof. destruct x; cbn [canon jdom]; try discriminate; intros [= <-] _; eauto. Qed.

Lemma hex_key_canon k : jdom k = true -> (hex_key_val (canon k) <-> hex_key_val k).
Proof. intros _. split; intros (s & E & H); [apply canon_str in E as ->|subst]; exists s; auto. Qed.

(* one delegation *)
Lemma delegation_ok_canon d : jdom d = true -> (delegation_ok (canon d) <-> delegation_ok d).
Proof.
  intros Hd. destruct d; try (split; intros (m0 & ? & ? & E & _); cbn [canon] in E; discriminate).
  destruct (canon_dict_view m Hd) as (m' & Ec & Hl & Hs' & Hg & Hs). rewrite Ec. unfold delegation_ok. split.
  - intros (m0 & th & ks & [= <-] & Htf & F & N & Hn).
    apply (two_fields_lookup m' (U"threshold") (U"pubkeys") th (VList ks) eq_refl Hs') in Htf as (L & E1 & E2).
    rewrite Hg in E1, E2.
    destruct (dget m (U"threshold")) as [th0|] eqn:G1; cbn [option_map] in E1; try discriminate. injection E1 as E1.
    destruct (dget m (U"pubkeys")) as [pk0|] eqn:G2; cbn [option_map] in E2; try discriminate. injection E2 as E2.
    destruct (canon_list_inv pk0 ks E2 (jdom_dget m _ _ Hd G2)) as (ks0 & -> & Eks).
    assert (Hks0 : Forall hex_key_val ks0).
    { assert (Hj : jdom (VList ks0) = true) by exact (jdom_dget m _ _ Hd G2). cbn [jdom] in Hj. rewrite forallb_forall in Hj.
      subst ks. apply Forall_forall. intros k Hk. rewrite Forall_forall in F. apply (hex_key_canon k (Hj k Hk)). apply F. apply in_map. exact Hk. }
    rewrite (canon_keylist ks0 Hks0) in Eks. subst ks.
    assert (Hth : natural th0) by (apply natural_canon; rewrite E1; exact Hn).
    exists m, th0, ks0. split; [reflexivity|]. split; [|auto].
    apply (two_fields_lookup m (U"threshold") (U"pubkeys") th0 (VList ks0) eq_refl Hs). rewrite <- Hl. auto.
  - intros (m0 & th & ks & [= <-] & Htf & F & N & Hn).
    apply (two_fields_lookup m (U"threshold") (U"pubkeys") th (VList ks) eq_refl Hs) in Htf as (L & E1 & E2).
    exists m', th, ks. split; [reflexivity|]. split; [|auto].
    apply (two_fields_lookup m' (U"threshold") (U"pubkeys") th (VList ks) eq_refl Hs'). rewrite Hl, !Hg, E1, E2. cbn [option_map canon].
    rewrite (canon_keylist ks F), (canon_atom th Hn). auto.
Qed.

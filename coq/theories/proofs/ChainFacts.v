(* ChainFacts.v: a party that does not hold a threshold of the current root keys cannot move the client's root (C04). *)
From CCT Require Import Prelude Hex Num Time Formats Json Auth.
From CCT.proofs Require Import HexFacts SigFacts AuthFacts SignableFacts DelegationFacts RootFacts.
From Coq Require Import Lia.
Open Scope N_scope.

Section Chain.
  Variable ed_verify : bytes -> bytes -> bytes -> bool.
  Variable sha256 : bytes -> bytes.
  Notation vroot := (verify_root ed_verify sha256).
  Notation valid := (valid_entry ed_verify sha256).

  (* what a party can produce: every entry of the offer that is a valid OpenPGP-mode signature over the offer's payload
     is filed under one of the keys of S (the party cannot forge signatures of keys it does not hold) *)
  Definition only_signs_with (S : list ustr) (u : pv) : Prop :=
    forall sd data sm kl k v,
      subscript u (U"signed") = Ok sd -> canonserialize sd = Ok data -> subscript u (U"signatures") = Ok (VDict sm) ->
      In (k, v) sm -> valid true kl data k v -> exists h, k = VStr h /\ In h S.

  (* the Python dict invariant for the offer's signature map *)
  Definition distinct_entries (u : pv) : Prop :=
    forall sm, subscript u (U"signatures") = Ok (VDict sm) -> NoDup (map fst sm).

  (* the number of root keys of the trusted root that the party holds is below the root threshold *)
  Definition below_threshold (S : list ustr) (t : pv) : Prop :=
    exists tv kl tz, view t = Ok tv /\ rv_keys tv = VList kl /\ threshold_value (rv_threshold tv) = Some tz
                     /\ (Z.of_nat (length (filter (fun h => existsb (key_is h) kl) S)) < tz)%Z.

  Theorem below_threshold_rejected S t u :
    below_threshold S t -> only_signs_with S u -> distinct_entries u -> vroot t u <> Ok tt.
  Proof.
    intros (tv & kl & tz & Vt & Ek & Et & Hlt) Hs Hd Hacc.
    destruct (root_sound ed_verify sha256 t u Hacc) as (tv' & kl' & tz' & sd & data & sm & cs & Vt' & Ek' & Et' & Esd & Ed & Esg & Hi & Hn & Hz & Hf).
    rewrite Vt in Vt'. injection Vt' as <-. rewrite Ek in Ek'. injection Ek' as <-. rewrite Et in Et'. injection Et' as <-.
    specialize (Hn (Hd sm Esg)).
    set (held := map VStr (filter (fun h => existsb (key_is h) kl) S)).
    assert (Hincl : incl (map fst cs) held).
    { intros k Hk. apply in_map_iff in Hk as ([k' v] & <- & Hin). cbn [fst].
      rewrite Forall_forall in Hf. pose proof (Hf _ Hin) as Hv. cbn [fst snd] in Hv.
      destruct (Hs sd data sm kl k' v Esd Ed Esg (Hi _ Hin) Hv) as (h & -> & HS).
      destruct Hv as (h' & E & _ & Hkl & _). injection E as <-.
      unfold held. apply in_map. apply filter_In. split; [exact HS|].
      apply existsb_exists. exists (VStr h). split; [exact Hkl|]. apply key_is_eq. reflexivity. }
    pose proof (NoDup_incl_length Hn Hincl) as Hlen. unfold held in Hlen. rewrite !map_length in Hlen. lia.
  Qed.

  Notation accepts := (accepts ed_verify sha256).
  Notation run := (run ed_verify sha256).

  (* over any history: as long as every offer comes from parties below the threshold of the root in force, the root never moves *)
  Theorem powerless_parties_never_move_the_root S t0 us :
    below_threshold S t0 ->
    Forall (fun u => only_signs_with S u /\ distinct_entries u) us ->
    run t0 us = t0.
  Proof.
    intros Hb Hall. unfold RootFacts.run. induction us as [|u us IH]; cbn [fold_left]; [reflexivity|].
    inversion Hall as [|? ? [H1 H2] Hrest]; subst.
    assert (E : offer ed_verify sha256 t0 u = t0).
    { unfold offer, RootFacts.accepts. pose proof (below_threshold_rejected S t0 u Hb H1 H2) as Hn.
      destruct (vroot t0 u) as [[]| |]; cbn [is_ok]; try reflexivity. exfalso. apply Hn. reflexivity. }
    rewrite E. apply IH. exact Hrest.
  Qed.

  (* and interleaved with honest updates: the offers of a powerless party are no-ops at whatever state they arrive *)
  Theorem powerless_offer_is_a_noop S t u :
    below_threshold S t -> only_signs_with S u -> distinct_entries u -> offer ed_verify sha256 t u = t.
  Proof.
    intros Hb H1 H2. unfold offer, RootFacts.accepts. pose proof (below_threshold_rejected S t u Hb H1 H2) as Hn.
    destruct (vroot t u) as [[]| |]; cbn [is_ok]; try reflexivity. exfalso. apply Hn. reflexivity.
  Qed.
End Chain.

(* SigningFacts.v: wrap / sign / verify round trip (C09) and key-hex facts shared with C11, C19. *)
From CCT Require Import Prelude Hex Num Time Formats Json Auth Signing.
From CCT.Gen Require Params.
From CCT.proofs Require Import HexFacts SigFacts AuthFacts SignableFacts DelegationFacts SchemaFacts FamilyFacts.
From Coq Require Import Lia.
Open Scope N_scope.

Definition wf_bytes (b : bytes) : Prop := Forall (fun x => x < 256) b.

Lemma below16 (P : N -> bool) : forallb P (map N.of_nat (seq 0 16)) = true -> forall n, n < 16 -> P n = true.
Proof.
  intros H n Hn. rewrite forallb_forall in H. apply H. apply in_map_iff. exists (N.to_nat n).
  split; [apply N2Nat.id|]. apply in_seq. lia.
Qed.

Lemma hexdigit_props n : n < 16 ->
  is_lower_hex (hexdigit n) = true /\ hexval (hexdigit n) = Some n /\ is_ws (hexdigit n) = false.
Proof.
  intros Hn.
  pose proof (below16 (fun n => is_lower_hex (hexdigit n) && (match hexval (hexdigit n) with Some m => m =? n | None => false end)
                               && negb (is_ws (hexdigit n))) eq_refl n Hn) as H.
  cbv beta in H. apply andb_true_iff in H as [H H3]. apply andb_true_iff in H as [H1 H2].
  split; [exact H1|]. split.
  - destruct (hexval (hexdigit n)); [|discriminate]. apply N.eqb_eq in H2. congruence.
  - apply negb_true_iff in H3. exact H3.
Qed.

Lemma fromhex_hexlify b : wf_bytes b ->
  fromhex (hexlify b) = Some b /\ forallb is_lower_hex (hexlify b) = true
  /\ length (hexlify b) = (2 * length b)%nat.
Proof.
  induction 1 as [|x b Hx F IH]; [cbn; auto|].
  destruct IH as (I1 & I2 & I3).
  assert (x / 16 < 16) as H1 by (apply N.div_lt_upper_bound; lia).
  assert (x mod 16 < 16) as H2 by (apply N.mod_lt; lia).
  destruct (hexdigit_props _ H1) as (A1 & A2 & A3). destruct (hexdigit_props _ H2) as (B1 & B2 & B3).
  cbn [hexlify fromhex forallb length]. rewrite A3, A2, B2, I1, A1, B1, I2, I3. cbn [option_map andb].
  split; [|split; [reflexivity|lia]].
  f_equal. f_equal. rewrite (N.div_mod x 16) at 3 by lia. lia.
Qed.

Lemma hexlify_key b : wf_bytes b -> length b = 32%nat -> lower_hex_len 64 (hexlify b).
Proof.
  intros W L. destruct (fromhex_hexlify b W) as (_ & H2 & H3). split; [lia|exact H2].
Qed.

Lemma hexlify_sig b : wf_bytes b -> length b = 64%nat -> lower_hex_len 128 (hexlify b).
Proof.
  intros W L. destruct (fromhex_hexlify b W) as (_ & H2 & H3). split; [lia|exact H2].
Qed.

Lemma keyb_hexlify b : wf_bytes b -> keyb (hexlify b) = b.
Proof. intros W. unfold keyb. destruct (fromhex_hexlify b W) as (-> & _). reflexivity. Qed.

(* ---- dict update *)
Lemma dget_dset_same m k v : dget (dset m k v) k = Some v.
Proof.
  induction m as [|[x y] m IH]; cbn [dset dget].
  - cbn [key_is]. rewrite ustr_eqb_refl. reflexivity.
  - destruct (key_is k x) eqn:E; cbn [dget]; rewrite E; auto.
Qed.

Lemma ustr_eqb_sym a b : ustr_eqb a b = ustr_eqb b a.
Proof.
  destruct (ustr_eqb a b) eqn:E, (ustr_eqb b a) eqn:E'; auto.
  - apply ustr_eqb_eq in E. subst. rewrite ustr_eqb_refl in E'. discriminate.
  - apply ustr_eqb_eq in E'. subst. rewrite ustr_eqb_refl in E. discriminate.
Qed.

Lemma dget_dset_other m k k' v : ustr_eqb k' k = false -> dget (dset m k v) k' = dget m k'.
Proof.
  intros Hne0. assert (Hne : ustr_eqb k k' = false) by (rewrite ustr_eqb_sym; exact Hne0). induction m as [|[x y] m IH]; cbn [dset dget].
  - cbn [key_is]. rewrite Hne. reflexivity.
  - destruct (key_is k x) eqn:E; cbn [dget].
    + apply key_is_eq in E as ->. cbn [key_is]. rewrite Hne. reflexivity.
    + destruct (key_is k' x); auto.
Qed.

Lemma dset_idem m k v : dset (dset m k v) k v = dset m k v.
Proof.
  induction m as [|[x y] m IH]; cbn [dset].
  - cbn [key_is]. rewrite ustr_eqb_refl. reflexivity.
  - destruct (key_is k x) eqn:E; cbn [dset]; rewrite E; [reflexivity|]. rewrite IH. reflexivity.
Qed.

Lemma dset_two_fields m a b x y z : ustr_eqb a b = false ->
  two_fields m a b x y -> two_fields (dset m a z) a b z y.
Proof.
  intros Hab [->| ->]; cbn [dset key_is].
  - rewrite ustr_eqb_refl. left; reflexivity.
  - assert (ustr_eqb b a = false) as ->.
    { destruct (ustr_eqb b a) eqn:E; auto. apply ustr_eqb_eq in E. subst. rewrite ustr_eqb_refl in Hab. discriminate. }
    rewrite ustr_eqb_refl. right; reflexivity.
Qed.

Section Signing.
  Variable ed_verify : bytes -> bytes -> bytes -> bool.
  Variable ed_pub : bytes -> bytes.
  Variable ed_sign : bytes -> bytes -> bytes.
  Variable sha256 : bytes -> bytes.
  (* what the library relies on from ed25519 (RFC 8032): sizes, well-formed bytes, correctness *)
  Hypothesis ed_pub_ok : forall seed, length (ed_pub seed) = 32%nat /\ wf_bytes (ed_pub seed).
  Hypothesis ed_sign_ok : forall seed m, length (ed_sign seed m) = 64%nat /\ wf_bytes (ed_sign seed m).

  Notation vsig := (verify_signable ed_verify sha256).
  Notation sign := (sign_signable ed_pub ed_sign).

  Definition pubhex (seed : bytes) : ustr := hexlify (ed_pub seed).
  Definition sig_of (seed data : bytes) : pv := sig_dict (VStr (hexlify (ed_sign seed data))).

  Lemma pubhex_key seed : lower_hex_len 64 (pubhex seed).
  Proof. destruct (ed_pub_ok seed). apply hexlify_key; auto. Qed.

  Lemma sig_of_raw seed data : raw_shape (sig_of seed data).
  Proof. destruct (ed_sign_ok seed data). eexists. split; [reflexivity|]. apply hexlify_sig; auto. Qed.

  (* wrapping carries the payload unchanged, with an empty signature map *)
  Theorem wrap_payload_unchanged v e : wrap_as_signable v = Ok e -> e = mk_env [] v /\ is_signable e = true.
  Proof.
    unfold wrap_as_signable. destruct (type_in v Params.serializable_types) eqn:E; [|discriminate].
    intros [= <-]. split; [reflexivity|]. change (is_signable (mk_env [] v) = true). rewrite mk_env_signable. exact E.
  Qed.

  Theorem wrap_iff v : (exists e, wrap_as_signable v = Ok e) <-> type_in v Params.serializable_types = true.
  Proof.
    unfold wrap_as_signable. destruct (type_in v Params.serializable_types); split; eauto; try discriminate.
    intros [e H]. discriminate.
  Qed.

  (* signing: exactly the signer's own entry is set, to the signature over the canonical bytes of the payload *)
  Theorem sign_signable_spec e seed e' :
    sign e (VPriv seed) = Ok e' <->
    exists m sm sd data,
      e = VDict m /\ two_fields m (U"signatures") (U"signed") (VDict sm) sd
      /\ type_in sd Params.serializable_types = true /\ canonserialize sd = Ok data
      /\ e' = VDict (dset m (U"signatures") (VDict (dset sm (pubhex seed) (sig_of seed data)))).
  Proof.
    unfold sign_signable, checkformat_key, checkformat_signable. cbn [is_key bind]. split.
    - destruct (is_signable e) eqn:Es; cbn [bind]; [|discriminate].
      apply is_signable_iff in Es as (m & sm & sd & -> & Htf & Hty).
      destruct (two_fields_dget m (U"signatures") (U"signed") _ _ eq_refl Htf) as [E1 E2].
      cbn [subscript]. rewrite E2. cbn [bind]. unfold serialize_and_sign.
      destruct (canonserialize sd) as [data| |] eqn:Ed; cbn [bind]; try discriminate.
      destruct (checkformat_signature _) as [[]| |]; cbn [bind]; try discriminate.
      rewrite E1. cbn [bind]. intros [= <-]. exists m, sm, sd, data. repeat split; auto.
    - intros (m & sm & sd & data & -> & Htf & Hty & Ed & ->).
      assert (is_signable (VDict m) = true) as -> by (apply is_signable_iff; eauto 6).
      destruct (two_fields_dget m (U"signatures") (U"signed") _ _ eq_refl Htf) as [E1 E2].
      cbn [bind subscript]. rewrite E2. cbn [bind]. unfold serialize_and_sign. rewrite Ed. cbn [bind].
      assert (checkformat_signature (sig_dict (VStr (hexlify (ed_sign seed data)))) = Ok tt) as ->.
      { apply checkformat_signature_iff. left. apply sig_of_raw. }
      cbn [bind]. rewrite E1. cbn [bind]. reflexivity.
  Qed.

  (* the envelope after signing: payload untouched, own entry filed under the hex of the public key,
     every entry under a different key untouched *)
  Theorem sign_frame e seed e' :
    sign e (VPriv seed) = Ok e' ->
    exists sm sd data sm',
      subscript e (U"signatures") = Ok (VDict sm) /\ subscript e (U"signed") = Ok sd
      /\ canonserialize sd = Ok data
      /\ subscript e' (U"signed") = Ok sd /\ subscript e' (U"signatures") = Ok (VDict sm')
      /\ is_signable e' = true
      /\ dget sm' (pubhex seed) = Some (sig_of seed data)
      /\ (forall k, ustr_eqb k (pubhex seed) = false -> dget sm' k = dget sm k)
      /\ is_hex_key (VStr (pubhex seed)) = true /\ is_signature (sig_of seed data) = true.
  Proof.
    intros H. apply sign_signable_spec in H as (m & sm & sd & data & -> & Htf & Hty & Ed & ->).
    destruct (two_fields_dget m (U"signatures") (U"signed") _ _ eq_refl Htf) as [E1 E2].
    pose proof (dset_two_fields m (U"signatures") (U"signed") _ sd (VDict (dset sm (pubhex seed) (sig_of seed data))) eq_refl Htf) as Htf'.
    destruct (two_fields_dget _ (U"signatures") (U"signed") _ _ eq_refl Htf') as [E1' E2'].
    exists sm, sd, data, (dset sm (pubhex seed) (sig_of seed data)).
    cbn [subscript]. rewrite E1, E2, E1', E2'. repeat split; auto.
    - apply is_signable_iff. eauto 6.
    - apply dget_dset_same.
    - intros k Hk. apply dget_dset_other; auto.
    - apply is_hex_key_iff. eexists. split; [reflexivity|]. apply pubhex_key.
    - apply is_signature_iff. left. apply sig_of_raw.
  Qed.

  (* deterministic and idempotent *)
  Theorem sign_idempotent e seed e' : sign e (VPriv seed) = Ok e' -> sign e' (VPriv seed) = Ok e'.
  Proof.
    intros H. apply sign_signable_spec in H as (m & sm & sd & data & -> & Htf & Hty & Ed & ->).
    pose proof (dset_two_fields m (U"signatures") (U"signed") _ sd (VDict (dset sm (pubhex seed) (sig_of seed data))) eq_refl Htf) as Htf'.
    apply sign_signable_spec. eexists _, _, sd, data. split; [reflexivity|]. split; [exact Htf'|].
    split; [exact Hty|]. split; [exact Ed|].
    rewrite dset_idem. rewrite dset_idem. reflexivity.
  Qed.

  (* two signers in either order: the same payload and the same signature map as a map (lookup by lookup) *)
  Theorem sign_commutes e s1 s2 e1 e12 e2 e21 :
    ustr_eqb (pubhex s1) (pubhex s2) = false ->
    sign e (VPriv s1) = Ok e1 -> sign e1 (VPriv s2) = Ok e12 ->
    sign e (VPriv s2) = Ok e2 -> sign e2 (VPriv s1) = Ok e21 ->
    exists sd sma smb,
      subscript e12 (U"signed") = Ok sd /\ subscript e21 (U"signed") = Ok sd
      /\ subscript e12 (U"signatures") = Ok (VDict sma) /\ subscript e21 (U"signatures") = Ok (VDict smb)
      /\ forall k, dget sma k = dget smb k.
  Proof.
    intros Hne H1 H12 H2 H21.
    assert (Hne' : ustr_eqb (pubhex s2) (pubhex s1) = false).
    { destruct (ustr_eqb (pubhex s2) (pubhex s1)) eqn:E; auto. apply ustr_eqb_eq in E. rewrite E, ustr_eqb_refl in Hne. discriminate. }
    destruct (sign_frame _ _ _ H1) as (sm & sd & data & sm1 & A1 & A2 & A3 & A4 & A5 & _ & A6 & A7 & _).
    destruct (sign_frame _ _ _ H12) as (sm1' & sd1 & data1 & sm12 & B1 & B2 & B3 & B4 & B5 & _ & B6 & B7 & _).
    destruct (sign_frame _ _ _ H2) as (sm0 & sd0 & data0 & sm2 & C1 & C2 & C3 & C4 & C5 & _ & C6 & C7 & _).
    destruct (sign_frame _ _ _ H21) as (sm2' & sd2 & data2 & sm21 & D1 & D2 & D3 & D4 & D5 & _ & D6 & D7 & _).
    rewrite A1 in C1. injection C1 as <-. rewrite A2 in C2. injection C2 as <-.
    rewrite A4 in B2. injection B2 as <-. rewrite C4 in D2. injection D2 as <-.
    rewrite A5 in B1. injection B1 as <-. rewrite C5 in D1. injection D1 as <-.
    rewrite A3 in B3, C3, D3. injection B3 as <-. injection C3 as <-. injection D3 as <-.
    exists sd, sm12, sm21. repeat split; auto.
    intros k. destruct (ustr_eqb k (pubhex s1)) eqn:K1; [|destruct (ustr_eqb k (pubhex s2)) eqn:K2].
    - apply ustr_eqb_eq in K1 as ->. rewrite D6. rewrite (B7 _ Hne). exact A6.
    - apply ustr_eqb_eq in K2 as ->. rewrite B6. rewrite (D7 _ Hne'). rewrite C6. reflexivity.
    - rewrite (B7 _ K2), (A7 _ K1), (D7 _ K1), (C7 _ K2). reflexivity.
  Qed.

  (* ---- verification of what was signed (needs correctness of the signature scheme) *)
  Hypothesis ed_correct : forall seed m, ed_verify (ed_pub seed) m (ed_sign seed m) = true.

  Lemma own_entry_valid seed data kl :
    In (VStr (pubhex seed)) kl ->
    valid_entry ed_verify sha256 false kl data (VStr (pubhex seed)) (sig_of seed data).
  Proof.
    intros Hin. exists (pubhex seed). split; [reflexivity|]. split; [apply pubhex_key|]. split; [exact Hin|].
    destruct (ed_sign_ok seed data) as [L W]. destruct (ed_pub_ok seed) as [L' W'].
    eexists _, _, (ed_sign seed data). split; [reflexivity|]. split; [left; apply sig_of_raw|].
    split; [reflexivity|]. split; [apply fromhex_hexlify; auto|].
    unfold pubhex. rewrite keyb_hexlify by auto. apply ed_correct.
  Qed.

  (* wrap, sign with one key, verify with that key authorized *)
  Theorem wrap_sign_verify v seed e e' :
    wrap_as_signable v = Ok e -> sign e (VPriv seed) = Ok e' ->
    vsig e' (VList [VStr (pubhex seed)]) (VInt 1) (VBool false) = Ok tt.
  Proof.
    intros Hw Hs. destruct (sign_frame _ _ _ Hs) as (sm & sd & data & sm' & _ & _ & Ed & Esd & Esg & Hsig & Hown & _ & Hk & _).
    eapply verify_signable_complete with (cs := [(VStr (pubhex seed), sig_of seed data)]); eauto.
    - cbn [forallb]. rewrite Hk. reflexivity.
    - lia.
    - cbn [py_truth]. discriminate.
    - repeat constructor. auto.
    - intros kv [<-|[]]. apply dget_In. exact Hown.
    - cbn. lia.
    - constructor; [|constructor]. cbn [fst snd py_truth]. apply own_entry_valid. left; reflexivity.
  Qed.

  (* n distinct authorized signers: accepted for every threshold up to n *)
  Theorem signers_meet_every_threshold e kl tz sd data sm (seeds : list bytes) :
    is_signable e = true -> subscript e (U"signed") = Ok sd -> canonserialize sd = Ok data ->
    subscript e (U"signatures") = Ok (VDict sm) ->
    forallb is_hex_key kl = true ->
    NoDup (map pubhex seeds) ->
    Forall (fun seed => In (VStr (pubhex seed)) kl /\ dget sm (pubhex seed) = Some (sig_of seed data)) seeds ->
    (1 <= tz <= Z.of_nat (length seeds))%Z ->
    vsig e (VList kl) (VInt tz) (VBool false) = Ok tt.
  Proof.
    intros Hs Esd Ed Esg Hk Hnd F Htz.
    eapply verify_signable_complete with (cs := map (fun seed => (VStr (pubhex seed), sig_of seed data)) seeds); eauto.
    - lia.
    - cbn [py_truth]. discriminate.
    - clear -Hnd. induction seeds as [|s l IH]; [constructor|]. cbn [map] in *. inversion Hnd; subst.
      constructor; auto. intros Hin. apply in_map_iff in Hin as (s' & [= E _] & Hs'). apply H1.
      apply in_map_iff. exists s'. split; auto.
    - intros kv Hin. apply in_map_iff in Hin as (s & <- & Hs'). rewrite Forall_forall in F.
      destruct (F s Hs') as [_ Hd]. apply dget_In. exact Hd.
    - rewrite map_length. lia.
    - apply Forall_forall. intros kv Hin. apply in_map_iff in Hin as (s & <- & Hs'). rewrite Forall_forall in F.
      destruct (F s Hs') as [Hin _]. cbn [fst snd py_truth]. apply own_entry_valid. exact Hin.
  Qed.

  (* ---- and for no threshold above the number of authorized signers *)
  Definition authorized (kl : list pv) (kv : pv * pv) : bool := existsb (key_is (key_text (fst kv))) kl && is_str (fst kv).

  Theorem never_above_authorized_signers e kl tz gpg sm :
    subscript e (U"signatures") = Ok (VDict sm) -> NoDup (map fst sm) ->
    vsig e (VList kl) (VInt tz) gpg = Ok tt ->
    (tz <= Z.of_nat (length (filter (authorized kl) sm)))%Z.
  Proof.
    intros Esg Hnd H. apply verify_signable_sound in H as (kl' & tz' & sd & data & sm' & _ & [= <-] & [= <-] & _ & _ & _ & Esg' & cs & Hi & Hn & Hl & Hf).
    rewrite Esg in Esg'. injection Esg' as <-.
    assert (NoDup cs) as Hc by (eapply NoDup_map_inv; eauto).
    assert (incl cs (filter (authorized kl) sm)) as Hinc.
    { intros kv Hkv. apply filter_In. split; [apply Hi; auto|].
      rewrite Forall_forall in Hf. destruct (Hf kv Hkv) as (h & Hk & _ & Hin & _).
      unfold authorized. rewrite Hk. cbn [key_text is_str]. rewrite andb_true_r.
      apply existsb_key_is_In. rewrite <- Hk. exact Hin. }
    pose proof (NoDup_incl_length Hc Hinc). lia.
  Qed.

  (* ---- a later change of the payload makes every previously made signature stop counting
          (ideal binding of the signature scheme, a named premise: false of real ed25519 only for
          adversarially chosen keys, see DESIGN N3) *)
  Hypothesis ed_binding : forall seed m m', ed_verify (ed_pub seed) m' (ed_sign seed m) = true -> m' = m.

  Theorem edit_stops_counting seed data data' kl :
    data' <> data ->
    entry_counts ed_verify sha256 false kl data' (VStr (pubhex seed), sig_of seed data) <> Ok true.
  Proof.
    intros Hne H. apply entry_counts_true in H as (h & [= <-] & _ & _ & (m & sg & sb & Em & _ & Eg & Ef & Ev)).
    destruct (ed_sign_ok seed data) as [L W]. destruct (ed_pub_ok seed) as [L' W'].
    unfold sig_of, sig_dict in Em. injection Em as <-. cbn in Eg. injection Eg as <-.
    destruct (fromhex_hexlify _ W) as (Ef' & _). rewrite Ef' in Ef. injection Ef as <-.
    unfold pubhex in Ev. rewrite keyb_hexlify in Ev by auto. apply ed_binding in Ev. contradiction.
  Qed.
End Signing.

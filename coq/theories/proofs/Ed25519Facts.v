(* Ed25519Facts.v: facts about the Gallina RFC 8032 specification that hold for ALL inputs: output sizes and byte ranges
   (the premises the signing theorems of C09/C11/C19 ask of the primitive), and correctness of the fast reduction mod p. *)
From CCT Require Import Prelude Hex Ed25519.
From CCT.proofs Require Import SigningFacts.
From Coq Require Import Lia.
Open Scope Z_scope.

Lemma le_bytes_length k n : length (le_bytes k n) = k.
Proof. revert n. induction k as [|k IH]; intros n; cbn [le_bytes length]; [reflexivity|]. rewrite IH. reflexivity. Qed.

Lemma le_bytes_wf k n : wf_bytes (le_bytes k n).
Proof.
  revert n. induction k as [|k IH]; intros n; cbn [le_bytes]; constructor; [|apply IH].
  pose proof (Z.mod_pos_bound n 256 ltac:(lia)) as H.
  apply N2Z.inj_lt. rewrite Z2N.id by lia. cbn. lia.
Qed.

Lemma point_compress_length P : length (point_compress P) = 32%nat.
Proof. destruct P as [[[x y] z] t]. unfold point_compress. apply le_bytes_length. Qed.

Lemma point_compress_wf P : wf_bytes (point_compress P).
Proof. destruct P as [[[x y] z] t]. unfold point_compress. apply le_bytes_wf. Qed.

(* the public key is 32 bytes, the signature 64, for every seed and message *)
Theorem public_key_ok seed : length (public_key seed) = 32%nat /\ wf_bytes (public_key seed).
Proof. unfold public_key. split; [apply point_compress_length|apply point_compress_wf]. Qed.

Theorem sign_ok seed msg : length (sign seed msg) = 64%nat /\ wf_bytes (sign seed msg).
Proof.
  unfold sign. destruct (secret_expand seed) as [a prefix]. cbv zeta. split.
  - rewrite app_length, point_compress_length, le_bytes_length. reflexivity.
  - apply Forall_app. split; [apply point_compress_wf|apply le_bytes_wf].
Qed.

(* the reduction: 2^255 = 19 (mod p) *)
Lemma fred1_spec x : 0 <= x -> fred1 x = x mod 2 ^ 255 + 19 * (x / 2 ^ 255).
Proof.
  intros Hx. unfold fred1, m255. change (2 ^ 255 - 1) with (Z.ones 255). rewrite Z.land_ones by lia.
  rewrite Z.shiftr_div_pow2 by lia. reflexivity.
Qed.

Theorem fred_spec x : 0 <= x < 2 ^ 510 -> fred x = x mod fp.
Proof.
  intros [H0 H1]. unfold fred. cbv zeta.
  pose proof (Z.div_mod x (2 ^ 255) ltac:(lia)) as E1.
  pose proof (Z.mod_pos_bound x (2 ^ 255) ltac:(lia)) as B1.
  assert (Q1 : 0 <= x / 2 ^ 255 < 2 ^ 255).
  { split; [apply Z.div_pos; lia|]. apply Z.div_lt_upper_bound; [lia|]. change (2 ^ 255 * 2 ^ 255) with (2 ^ 510). lia. }
  rewrite (fred1_spec x H0).
  set (r1 := x mod 2 ^ 255) in *. set (q1 := x / 2 ^ 255) in *.
  set (y := r1 + 19 * q1).
  assert (Hy : 0 <= y < 20 * 2 ^ 255) by (unfold y; lia).
  pose proof (Z.div_mod y (2 ^ 255) ltac:(lia)) as E2.
  pose proof (Z.mod_pos_bound y (2 ^ 255) ltac:(lia)) as B2.
  assert (Q2 : 0 <= y / 2 ^ 255 < 20).
  { split; [apply Z.div_pos; lia|]. apply Z.div_lt_upper_bound; lia. }
  rewrite (fred1_spec y (proj1 Hy)).
  set (r2 := y mod 2 ^ 255) in *. set (q2 := y / 2 ^ 255) in *.
  set (w := r2 + 19 * q2).
  assert (Hw : 0 <= w < 2 ^ 255 + 380) by (unfold w; lia).
  assert (Hc : x = w + fp * (q1 + q2)).
  { unfold w, y, fp in *. change (2 ^ 255 - 19) with (57896044618658097711785492504343953926634992332820282019728792003956564819949).
    change (2 ^ 255) with (57896044618658097711785492504343953926634992332820282019728792003956564819968) in *. lia. }
  destruct (fp <=? w) eqn:Ew.
  - apply Z.leb_le in Ew. apply (Z.mod_unique_pos x fp (q1 + q2 + 1) (w - fp)).
    + unfold fp in *. change (2 ^ 255) with (57896044618658097711785492504343953926634992332820282019728792003956564819968) in *. lia.
    + lia.
  - apply Z.leb_gt in Ew. apply (Z.mod_unique_pos x fp (q1 + q2) w); lia.
Qed.

Theorem fmul_spec a b : 0 <= a < fp -> 0 <= b < fp -> fmul a b = a * b mod fp.
Proof.
  intros Ha Hb. unfold fmul. apply fred_spec. split; [nia|].
  assert (a * b < fp * fp) by nia. assert (fp * fp < 2 ^ 510) by (vm_compute; reflexivity). lia.
Qed.

Theorem fadd_spec a b : 0 <= a < fp -> 0 <= b < fp -> fadd a b = (a + b) mod fp.
Proof.
  intros Ha Hb. unfold fadd. cbv zeta. destruct (fp <=? a + b) eqn:E.
  - apply Z.leb_le in E. apply (Z.mod_unique_pos (a + b) fp 1 (a + b - fp)); lia.
  - apply Z.leb_gt in E. symmetry. apply Z.mod_small. lia.
Qed.

Theorem fsub_spec a b : 0 <= a < fp -> 0 <= b < fp -> fsub a b = (a - b) mod fp.
Proof.
  intros Ha Hb. unfold fsub. destruct (b <=? a) eqn:E.
  - apply Z.leb_le in E. symmetry. apply Z.mod_small. lia.
  - apply Z.leb_gt in E. apply (Z.mod_unique_pos (a - b) fp (-1) (a + fp - b)); lia.
Qed.

(* the literal constants of Ed25519.v satisfy their defining equations (RFC 8032 section 5.1) *)
Theorem constants_defined :
  cd = fmul (fp - 121665) (inv_fp 121666)
  /\ sqrt_m1 = pow_fp 2 ((fp - 1) / 4)
  /\ g_y = fmul 4 (inv_fp 5)
  /\ recover_x g_y false = Some g_x
  /\ base = (g_x, g_y, 1, fmul g_x g_y).
Proof. vm_compute. repeat split. Qed.

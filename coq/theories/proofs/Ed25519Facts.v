(* Ed25519Facts.v: facts about the Gallina RFC 8032 specification that hold for ALL inputs: output sizes and byte ranges
   (the premises the signing theorems of C09/C11/C19 ask of the primitive), and correctness of the fast reduction mod p. *)
From CCT Require Import Prelude Hex Ed25519.
From CCT.proofs Require Import SigningFacts.
From Coq Require Import Lia.
Open Scope Z_scope.

Lemma le_bytes_length k n : length (le_bytes k n) = k.
Proof. revert n. induction k as [|k IH]; intros n; cbn [le_bytes length]; [reflexivity|]. rewrite IH. reflexivity. Qed.

Lemma le_bytes_wf k n : wf_bytes (le_bytes k n).
Proof.
  revert n. induction k as [|k IH]; intros n; cbn [le_bytes]; constructor; [|apply IH].
  pose proof (Z.mod_pos_bound n 256 ltac:(lia)) as H.
  apply N2Z.inj_lt. rewrite Z2N.id by lia. cbn. lia.
Qed.

Lemma point_compress_length P : length (point_compress P) = 32%nat.
Proof. destruct P as [[[x y] z] t]. unfold point_compress. apply le_bytes_length. Qed.

Lemma point_compress_wf P : wf_bytes (point_compress P).
Proof. destruct P as [[[x y] z] t]. unfold point_compress. apply le_bytes_wf. Qed.

(* the public key is 32 bytes, the signature 64, for every seed and message *)
Theorem public_key_ok seed : length (public_key seed) = 32%nat /\ wf_bytes (public_key seed).
Proof. unfold public_key. split; [apply point_compress_length|apply point_compress_wf]. Qed.

Theorem sign_ok seed msg : length (sign seed msg) = 64%nat /\ wf_bytes (sign seed msg).
Proof.
  unfold sign. destruct (secret_expand seed) as [a prefix]. cbv zeta. split.
  - rewrite app_length, point_compress_length, le_bytes_length. reflexivity.
  - apply Forall_app. split; [apply point_compress_wf|apply le_bytes_wf].
Qed.

(* the reduction: 2^255 = 19 (mod p) *)
Lemma fred1_spec x : 0 <= x -> fred1 x = x mod 2 ^ 255 + 19 * (x / 2 ^ 255).
Proof.
  intros Hx. unfold fred1, m255. change (2 ^ 255 - 1) with (Z.ones 255). rewrite Z.land_ones by lia.
  rewrite Z.shiftr_div_pow2 by lia. reflexivity.
Qed.

Theorem fred_spec x : 0 <= x < 2 ^ 510 -> fred x = x mod fp.
Proof.
  intros [H0 H1]. unfold fred. cbv zeta.
  pose proof (Z.div_mod x (2 ^ 255) ltac:(lia)) as E1.
  pose proof (Z.mod_pos_bound x (2 ^ 255) ltac:(lia)) as B1.
  assert (Q1 : 0 <= x / 2 ^ 255 < 2 ^ 255).
  { split; [apply Z.div_pos; lia|]. apply Z.div_lt_upper_bound; [lia|]. change (2 ^ 255 * 2 ^ 255) with (2 ^ 510). lia. }
  rewrite (fred1_spec x H0).
  set (r1 := x mod 2 ^ 255) in *. set (q1 := x / 2 ^ 255) in *.
  set (y := r1 + 19 * q1).
  assert (Hy : 0 <= y < 20 * 2 ^ 255) by (unfold y; lia).
  pose proof (Z.div_mod y (2 ^ 255) ltac:(lia)) as E2.
  pose proof (Z.mod_pos_bound y (2 ^ 255) ltac:(lia)) as B2.
  assert (Q2 : 0 <= y / 2 ^ 255 < 20).
  { split; [apply Z.div_pos; lia|]. apply Z.div_lt_upper_bound; lia. }
  rewrite (fred1_spec y (proj1 Hy)).
  set (r2 := y mod 2 ^ 255) in *. set (q2 := y / 2 ^ 255) in *.
  set (w := r2 + 19 * q2).
  assert (Hw : 0 <= w < 2 ^ 255 + 380) by (unfold w; lia).
  assert (Hc : x = w + fp * (q1 + q2)).
  { unfold w, y, fp in *. change (2 ^ 255 - 19) with (57896044618658097711785492504343953926634992332820282019728792003956564819949).
    change (2 ^ 255) with (57896044618658097711785492504343953926634992332820282019728792003956564819968) in *. lia. }
  destruct (fp <=? w) eqn:Ew.
  - apply Z.leb_le in Ew. apply (Z.mod_unique_pos x fp (q1 + q2 + 1) (w - fp)).
    + unfold fp in *. change (2 ^ 255) with (57896044618658097711785492504343953926634992332820282019728792003956564819968) in *. lia.
    + lia.
  - apply Z.leb_gt in Ew. apply (Z.mod_unique_pos x fp (q1 + q2) w); lia.
Qed.

Theorem fmul_spec a b : 0 <= a < fp -> 0 <= b < fp -> fmul a b = a * b mod fp.
Proof.
  intros Ha Hb. unfold fmul. apply fred_spec. split; [nia|].
  assert (a * b < fp * fp) by nia. assert (fp * fp < 2 ^ 510) by (vm_compute; reflexivity). lia.
Qed.

Theorem fadd_spec a b : 0 <= a < fp -> 0 <= b < fp -> fadd a b = (a + b) mod fp.
Proof.
  intros Ha Hb. unfold fadd. cbv zeta. destruct (fp <=? a + b) eqn:E.
  - apply Z.leb_le in E. apply (Z.mod_unique_pos (a + b) fp 1 (a + b - fp)); lia.
  - apply Z.leb_gt in E. symmetry. apply Z.mod_small. lia.
Qed.

Theorem fsub_spec a b : 0 <= a < fp -> 0 <= b < fp -> fsub a b = (a - b) mod fp.
Proof.
  intros Ha Hb. unfold fsub. destruct (b <=? a) eqn:E.
  - apply Z.leb_le in E. symmetry. apply Z.mod_small. lia.
  - apply Z.leb_gt in E. apply (Z.mod_unique_pos (a - b) fp (-1) (a + fp - b)); lia.
Qed.

(* the literal constants of Ed25519.v satisfy their defining equations (RFC 8032 section 5.1) *)
Theorem constants_defined :
  cd = fmul (fp - 121665) (inv_fp 121666)
  /\ sqrt_m1 = pow_fp 2 ((fp - 1) / 4)
  /\ g_y = fmul 4 (inv_fp 5)
  /\ recover_x g_y false = Some g_x
  /\ base = (g_x, g_y, 1, fmul g_x g_y).
Proof. vm_compute. repeat split. Qed.

(* ---- the point addition of Ed25519.v computes, on canonical representatives, the formulas of the RFC's reference code modulo p *)
Definition canonz (x : Z) : Prop := 0 <= x < fp.
Lemma fp_pos : 0 < fp. Proof. reflexivity. Qed.
Lemma canon_mod x : canonz (x mod fp). Proof. apply Z.mod_pos_bound. exact fp_pos. Qed.
Lemma fmul_c a b : canonz a -> canonz b -> canonz (fmul a b).
Proof. intros. rewrite fmul_spec by assumption. apply canon_mod. Qed.
Lemma fadd_c a b : canonz a -> canonz b -> canonz (fadd a b).
Proof. intros. rewrite fadd_spec by assumption. apply canon_mod. Qed.
Lemma fsub_c a b : canonz a -> canonz b -> canonz (fsub a b).
Proof. intros. rewrite fsub_spec by assumption. apply canon_mod. Qed.

(* the reference code of RFC 8032 section 6, over the integers *)
Definition point_add_rfc (P Q : point) : point :=
  let '(x1, y1, z1, t1) := P in let '(x2, y2, z2, t2) := Q in
  let A := (y1 - x1) * (y2 - x2) mod fp in
  let B := (y1 + x1) * (y2 + x2) mod fp in
  let C := 2 * t1 * t2 * cd mod fp in
  let D := 2 * z1 * z2 mod fp in
  let E := B - A in let F := D - C in let G := D + C in let H := B + A in
  (E * F, G * H, F * G, E * H).

Definition canonp (P : point) : Prop := let '(x, y, z, t) := P in canonz x /\ canonz y /\ canonz z /\ canonz t.
Definition eqp (P Q : point) : Prop :=
  let '(x1, y1, z1, t1) := P in let '(x2, y2, z2, t2) := Q in
  x1 mod fp = x2 mod fp /\ y1 mod fp = y2 mod fp /\ z1 mod fp = z2 mod fp /\ t1 mod fp = t2 mod fp.

Lemma cd_canon : canonz cd. Proof. unfold canonz. split; [discriminate|reflexivity]. Qed.

Ltac modsimp := repeat (rewrite ?Zmult_mod_idemp_l, ?Zmult_mod_idemp_r, ?Zplus_mod_idemp_l, ?Zplus_mod_idemp_r, ?Zminus_mod_idemp_l, ?Zminus_mod_idemp_r, ?Z.mod_mod by (unfold fp; lia)).

Theorem point_add_spec P Q : canonp P -> canonp Q -> canonp (point_add P Q) /\ eqp (point_add P Q) (point_add_rfc P Q).
Proof.
  destruct P as [[[x1 y1] z1] t1], Q as [[[x2 y2] z2] t2]. intros (X1 & Y1 & Z1 & T1) (X2 & Y2 & Z2 & T2).
  unfold point_add, point_add_rfc. cbv zeta.
  pose proof cd_canon as Hd.
  assert (HA := fsub_c y1 x1 Y1 X1). assert (HA' := fsub_c y2 x2 Y2 X2).
  assert (HB := fadd_c y1 x1 Y1 X1). assert (HB' := fadd_c y2 x2 Y2 X2).
  assert (HT := fadd_c t1 t1 T1 T1). assert (HZ := fadd_c z1 z1 Z1 Z1).
  set (A := fmul (fsub y1 x1) (fsub y2 x2)). assert (cA : canonz A) by (apply fmul_c; assumption).
  set (B := fmul (fadd y1 x1) (fadd y2 x2)). assert (cB : canonz B) by (apply fmul_c; assumption).
  set (C := fmul (fmul (fadd t1 t1) t2) cd). assert (cC : canonz C) by (apply fmul_c; [apply fmul_c|]; assumption).
  set (D := fmul (fadd z1 z1) z2). assert (cD : canonz D) by (apply fmul_c; assumption).
  assert (cE := fsub_c B A cB cA). assert (cF := fsub_c D C cD cC). assert (cG := fadd_c D C cD cC). assert (cH := fadd_c B A cB cA).
  split; [repeat split; apply fmul_c; assumption|].
  assert (EA : A = (y1 - x1) * (y2 - x2) mod fp).
  { unfold A. rewrite fmul_spec, !fsub_spec by assumption. modsimp. reflexivity. }
  assert (EB : B = (y1 + x1) * (y2 + x2) mod fp).
  { unfold B. rewrite fmul_spec, !fadd_spec by assumption. modsimp. reflexivity. }
  assert (EC : C = 2 * t1 * t2 * cd mod fp).
  { unfold C. rewrite (fmul_spec _ cd) by (try apply fmul_c; assumption). rewrite fmul_spec, fadd_spec by assumption. modsimp.
    replace ((t1 + t1) mod fp * t2 * cd) with ((t1 + t1) mod fp * (t2 * cd)) by ring. modsimp. f_equal. ring. }
  assert (ED : D = 2 * z1 * z2 mod fp).
  { unfold D. rewrite fmul_spec, fadd_spec by assumption. modsimp. f_equal. ring. }
  rewrite <- EA, <- EB, <- EC, <- ED.
  unfold eqp. rewrite !fmul_spec by assumption. rewrite !fsub_spec, !fadd_spec by assumption. modsimp. repeat split; reflexivity.
Qed.

(* ---- what verification refuses outright (RFC 8032 5.1.7: lengths, and S must be canonical -- no signature malleability by adding L) *)
Theorem verify_needs_lengths pub msg sg : verify pub msg sg = true -> length pub = 32%nat /\ length sg = 64%nat.
Proof.
  unfold verify. destruct (Nat.eqb (length pub) 32) eqn:E1; cbn [negb orb]; [|discriminate].
  destruct (Nat.eqb (length sg) 64) eqn:E2; cbn [negb]; [|discriminate].
  intros _. split; apply Nat.eqb_eq; assumption.
Qed.

Theorem verify_needs_canonical_s pub msg sg : verify pub msg sg = true -> le_num (skipn 32 sg) < fq.
Proof.
  unfold verify. destruct (negb _ || negb _); [discriminate|].
  destruct (point_decompress pub); [|discriminate]. destruct (point_decompress (firstn 32 sg)); [|discriminate].
  destruct (fq <=? le_num (skipn 32 sg)) eqn:E; [discriminate|]. intros _. apply Z.leb_gt in E. exact E.
Qed.

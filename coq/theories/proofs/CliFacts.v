(* CliFacts.v: the CLI exit status reflects the library's verdict (C17). *)
From CCT Require Import Prelude Hex Num Time Formats Json JsonParse Auth Signing Cli.
From CCT.Gen Require Params Entry.
From CCT.proofs Require Import HexFacts SigFacts AuthFacts SchemaFacts FamilyFacts.
From Coq Require Import Lia.
Open Scope N_scope.

Section CliFacts.
  Variable ed_verify : bytes -> bytes -> bytes -> bool.
  Variable ed_pub : bytes -> bytes.
  Variable ed_sign : bytes -> bytes -> bytes.
  Variable sha256 : bytes -> bytes.
  Notation cvm := (cli_verify_metadata ed_verify sha256).

  (* what "the library accepts the second file on the basis of the first" means *)
  Definition lib_accepts (t u : pv) : Prop :=
    exists sd ty, subscript u (U"signed") = Ok sd /\ subscript sd (U"type") = Ok ty /\
      ((ty = VStr (U"root") /\ verify_root ed_verify sha256 t u = Ok tt)
       \/ (ty <> VStr (U"root") /\ verify_delegation ed_verify sha256 ty u t (VBool false) = Ok tt)).

  Lemma codes_nonzero : status_of_code code_root <> 0%Z /\ status_of_code code_other <> 0%Z /\ code_root = 10%Z /\ code_other = 20%Z.
  Proof. vm_compute. repeat split; discriminate. Qed.

  Theorem verify_exit_zero_iff t u :
    cvm t u = Exit 0 true <-> exists t' u', t = Some t' /\ u = Some u' /\ lib_accepts t' u'.
  Proof.
    unfold cli_verify_metadata, lib_accepts. split.
    - destruct u as [u'|]; [|discriminate]. destruct t as [t'|]; [|discriminate].
      destruct (subscript u' (U"signed")) as [sd| |] eqn:E1; cbn [bind]; try discriminate.
      destruct (subscript sd (U"type")) as [ty| |] eqn:E2; try discriminate.
      destruct (key_is (U"root") ty) eqn:Ek.
      + apply key_is_eq in Ek as ->.
        destruct (verify_root ed_verify sha256 t' u') as [[]|e|] eqn:Ev; try discriminate.
        * intros _. exists t', u'. split; [reflexivity|]. split; [reflexivity|]. exists sd, (VStr (U"root")). auto.
        * destruct (is_cct e); [|discriminate]. intros [= H _].
      + assert (ty <> VStr (U"root")) as Hne by (intros ->; cbn in Ek; rewrite ustr_eqb_refl in Ek; discriminate).
        destruct (verify_delegation ed_verify sha256 ty u' t' (VBool false)) as [[]|e|] eqn:Ev; try discriminate.
        * intros _. exists t', u'. split; [reflexivity|]. split; [reflexivity|]. exists sd, ty. auto.
        * destruct (is_cct e && is_str ty && utf8_encodable ty); [|discriminate]. intros [= H _].
    - intros (t' & u' & -> & -> & sd & ty & E1 & E2 & H). rewrite E1. cbn [bind]. rewrite E2.
      destruct H as [[-> Hv]|[Hne Hv]].
      + cbn [key_is]. rewrite ustr_eqb_refl. rewrite Hv. reflexivity.
      + destruct (key_is (U"root") ty) eqn:Ek; [apply key_is_eq in Ek; contradiction|]. rewrite Hv. reflexivity.
  Qed.

  (* from the files on disk: status zero with the success line iff both files exist, load as JSON (through the byte layer of json.load)
     and the library accepts the second on the basis of the first *)
  Theorem files_exit_zero_iff tf uf :
    cli_verify_metadata_files ed_verify sha256 tf uf = Exit 0 true <->
    exists tb ub t' u', tf = Some tb /\ uf = Some ub /\ load_file tb = Ok t' /\ load_file ub = Ok u' /\ lib_accepts t' u'.
  Proof.
    unfold cli_verify_metadata_files, loaded. split.
    - intros H.
      destruct uf as [ub|]; [destruct (load_file ub) as [u'| |] eqn:Eu|]; (destruct tf as [tb|]; [destruct (load_file tb) as [t'| |] eqn:Et|]);
        try discriminate H; apply verify_exit_zero_iff in H as (t0 & u0 & Et0 & Eu0 & Hacc); try discriminate Et0; try discriminate Eu0.
      injection Et0 as <-. injection Eu0 as <-. exists tb, ub, t', u'. auto.
    - intros (tb & ub & t' & u' & -> & -> & Et & Eu & Hacc). rewrite Et, Eu. apply verify_exit_zero_iff. eauto.
  Qed.

  (* the success line is printed exactly when the status is zero; every rejection or error gives a non-zero status *)
  Theorem status_zero_iff_success t u z :
    status (cvm t u) = Some z -> (z = 0%Z <-> cvm t u = Exit 0 true).
  Proof.
    unfold cli_verify_metadata. destruct codes_nonzero as (N1 & N2 & _ & _).
    destruct u as [u'|]; [|cbn; intros [= <-]; split; discriminate].
    destruct t as [t'|]; [|cbn; intros [= <-]; split; discriminate].
    destruct (sd <- subscript u' (U"signed");; subscript sd (U"type")) as [ty| |]; [| cbn; intros [= <-]; split; discriminate | discriminate].
    destruct (key_is (U"root") ty).
    - destruct (verify_root ed_verify sha256 t' u') as [[]|e|]; [cbn; intros [= <-]; split; auto | | discriminate].
      destruct (is_cct e); cbn; intros [= <-]; split; try discriminate; intros H; contradiction.
    - destruct (verify_delegation ed_verify sha256 ty u' t' (VBool false)) as [[]|e|]; [cbn; intros [= <-]; split; auto | | discriminate].
      destruct (is_cct e && is_str ty && utf8_encodable ty); cbn; intros [= <-]; split; try discriminate; intros H; contradiction.
  Qed.

  Theorem files_status_zero_iff_success tf uf z :
    status (cli_verify_metadata_files ed_verify sha256 tf uf) = Some z ->
    (z = 0%Z <-> cli_verify_metadata_files ed_verify sha256 tf uf = Exit 0 true).
  Proof.
    unfold cli_verify_metadata_files. destruct (loaded uf) as [u'|]; [|discriminate]. destruct (loaded tf) as [t'|]; [|discriminate].
    apply status_zero_iff_success.
  Qed.

  Theorem reject_codes t u c b : cvm t u = Exit c b -> (c = 0%Z /\ b = true) \/ ((c = 10%Z \/ c = 20%Z) /\ b = false).
  Proof.
    unfold cli_verify_metadata. destruct codes_nonzero as (_ & _ & C1 & C2).
    destruct u as [u'|]; [|discriminate]. destruct t as [t'|]; [|discriminate].
    destruct (sd <- subscript u' (U"signed");; subscript sd (U"type")) as [ty| |]; try discriminate.
    destruct (key_is (U"root") ty).
    - destruct (verify_root ed_verify sha256 t' u') as [[]|e|]; try discriminate; [intros [= <- <-]; auto|].
      destruct (is_cct e); [|discriminate]. intros [= <- <-]. rewrite C1. auto.
    - destruct (verify_delegation ed_verify sha256 ty u' t' (VBool false)) as [[]|e|]; try discriminate; [intros [= <- <-]; auto|].
      destruct (is_cct e && is_str ty && utf8_encodable ty); [|discriminate]. intros [= <- <-]. rewrite C2. auto.
  Qed.

  (* signing subcommand: status zero only if the key text normalises to a hex key and the file was signed *)
  Theorem sign_zero_only_if_signed keytext r :
    sign_status (cli_sign_artifacts ed_pub ed_sign keytext r) = Some 0%Z ->
    exists s r0 w, keytext = Some s /\ r = Some r0 /\ is_hex_key (VStr (lower_ascii (strip s))) = true
                   /\ sign_all_value ed_pub ed_sign r0 (VStr (lower_ascii (strip s))) = Ok w
                   /\ cli_sign_artifacts ed_pub ed_sign keytext r = Signed w.
  Proof.
    unfold cli_sign_artifacts. destruct keytext as [s|]; [|discriminate].
    destruct (is_hex_key (VStr (lower_ascii (strip s)))) eqn:Ek; cbn [negb].
    - destruct r as [r0|]; [|discriminate].
      destruct (sign_all_value ed_pub ed_sign r0 _) as [w| |] eqn:Es; try discriminate.
      intros _. exists s, r0, w. auto.
    - intros H. exfalso. revert H. vm_compute. discriminate.
  Qed.
End CliFacts.

(* every way of starting the tool propagates the dispatcher's return value to the exit status *)
Theorem entry_points_faithful :
  forallb snd Entry.entry_points = true /\ length Entry.entry_points = 3%nat
  /\ Entry.dispatcher_returns_status = true
  /\ Entry.sign_abort_code = Some 1%Z /\ Entry.sign_has_other_returns = false /\ Entry.sign_key_normalised = true.
Proof. repeat split; reflexivity. Qed.

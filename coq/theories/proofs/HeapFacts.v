(* HeapFacts.v: a deep copy denotes the same value and shares no identity with the original, so stores through
   either side never reach the other; a shallow copy does not have this property (C12). *)
From CCT Require Import Prelude Heap.
From Coq Require Import Lia ZifyN.
Open Scope N_scope.

Section HvInd.
  Variable P : hv -> Prop.
  Hypothesis HA : forall v, P (HAtom v).
  Hypothesis HL : forall l items, Forall P items -> P (HList l items).
  Hypothesis HD : forall l items, Forall (fun kv => P (snd kv)) items -> P (HDict l items).
  Fixpoint hv_ind' (t : hv) : P t :=
    match t with
    | HAtom v => HA v
    | HList l items => HL l items ((fix go (xs : list hv) : Forall P xs :=
                                      match xs with [] => Forall_nil _ | x :: r => Forall_cons x (hv_ind' x) (go r) end) items)
    | HDict l items => HD l items ((fix go (xs : list (pv * hv)) : Forall (fun kv => P (snd kv)) xs :=
                                      match xs with [] => Forall_nil _ | (k, x) :: r => Forall_cons (k, x) (hv_ind' x) (go r) end) items)
    end.
End HvInd.

(* what deepcopy guarantees, in one statement: same value; identities exactly the fresh range [next, n') *)
Definition copy_spec (next : N) (t t' : hv) (n' : N) : Prop :=
  erase t' = erase t /\ next <= n' /\ Forall (fun l => next <= l < n') (locs t').

Lemma deepcopy_spec : forall t next, copy_spec next t (fst (deepcopy next t)) (snd (deepcopy next t)).
Proof.
  induction t as [v|l items IH|l items IH] using hv_ind'; intros next.
  - cbn. repeat split; [lia|constructor].
  - cbn [deepcopy].
    assert (H : forall xs n, Forall (fun x => forall next, copy_spec next x (fst (deepcopy next x)) (snd (deepcopy next x))) xs ->
              let r := (fix go (items : list hv) (n : N) : list hv * N :=
                          match items with
                          | [] => ([], n)
                          | x :: r => let '(x', n1) := deepcopy n x in let '(r', n2) := go r n1 in (x' :: r', n2)
                          end) xs n in
              map erase (fst r) = map erase xs /\ n <= snd r /\ Forall (fun l => n <= l < snd r) (flat_map locs (fst r))).
    { induction xs as [|x xs IHx]; intros n F; cbn zeta.
      - cbn. repeat split; [lia|constructor].
      - inversion F as [|? ? Hx F']; subst. specialize (Hx n). destruct (deepcopy n x) as [x' n1]. cbn [fst snd] in Hx.
        specialize (IHx n1 F'). cbn zeta in IHx.
        destruct ((fix go (items : list hv) (n : N) : list hv * N :=
                     match items with
                     | [] => ([], n)
                     | x :: r => let '(x', n1) := deepcopy n x in let '(r', n2) := go r n1 in (x' :: r', n2)
                     end) xs n1) as [r' n2].
        cbn [fst snd] in *. destruct Hx as (E1 & L1 & F1). destruct IHx as (E2 & L2 & F2).
        cbn [map flat_map]. rewrite E1, E2. repeat split; [lia|]. apply Forall_app. split.
        + eapply Forall_impl; [|exact F1]. intros a Ha. cbv beta in *. lia.
        + eapply Forall_impl; [|exact F2]. intros a Ha. cbv beta in *. lia. }
    specialize (H items (next + 1) IH). cbn zeta in H.
    destruct ((fix go (items : list hv) (n : N) : list hv * N :=
                 match items with
                 | [] => ([], n)
                 | x :: r => let '(x', n1) := deepcopy n x in let '(r', n2) := go r n1 in (x' :: r', n2)
                 end) items (next + 1)) as [items' n'].
    cbn [fst snd] in *. destruct H as (E & L & F). unfold copy_spec. cbn [erase locs fst snd]. rewrite E.
    repeat split; [lia|]. constructor; [lia|]. eapply Forall_impl; [|exact F]. intros a Ha. cbv beta in *. lia.
  - cbn [deepcopy].
    assert (H : forall xs n, Forall (fun kv => forall next, copy_spec next (snd kv) (fst (deepcopy next (snd kv))) (snd (deepcopy next (snd kv)))) xs ->
              let r := (fix go (items : list (pv * hv)) (n : N) : list (pv * hv) * N :=
                          match items with
                          | [] => ([], n)
                          | (k, x) :: r => let '(x', n1) := deepcopy n x in let '(r', n2) := go r n1 in ((k, x') :: r', n2)
                          end) xs n in
              map (fun kv => (fst kv, erase (snd kv))) (fst r) = map (fun kv => (fst kv, erase (snd kv))) xs
              /\ n <= snd r /\ Forall (fun l => n <= l < snd r) (flat_map (fun kv => locs (snd kv)) (fst r))).
    { induction xs as [|[k x] xs IHx]; intros n F; cbn zeta.
      - cbn. repeat split; [lia|constructor].
      - inversion F as [|? ? Hx F']; subst. cbn [snd] in Hx. specialize (Hx n). destruct (deepcopy n x) as [x' n1]. cbn [fst snd] in Hx.
        specialize (IHx n1 F'). cbn zeta in IHx.
        destruct ((fix go (items : list (pv * hv)) (n : N) : list (pv * hv) * N :=
                     match items with
                     | [] => ([], n)
                     | (k, x) :: r => let '(x', n1) := deepcopy n x in let '(r', n2) := go r n1 in ((k, x') :: r', n2)
                     end) xs n1) as [r' n2].
        cbn [fst snd] in *. destruct Hx as (E1 & L1 & F1). destruct IHx as (E2 & L2 & F2).
        cbn [map flat_map fst snd]. rewrite E1, E2. repeat split; [lia|]. apply Forall_app. split.
        + eapply Forall_impl; [|exact F1]. intros a Ha. cbv beta in *. lia.
        + eapply Forall_impl; [|exact F2]. intros a Ha. cbv beta in *. lia. }
    specialize (H items (next + 1) IH). cbn zeta in H.
    destruct ((fix go (items : list (pv * hv)) (n : N) : list (pv * hv) * N :=
                 match items with
                 | [] => ([], n)
                 | (k, x) :: r => let '(x', n1) := deepcopy n x in let '(r', n2) := go r n1 in ((k, x') :: r', n2)
                 end) items (next + 1)) as [items' n'].
    cbn [fst snd] in *. destruct H as (E & L & F). unfold copy_spec. cbn [erase locs fst snd]. rewrite E.
    repeat split; [lia|]. constructor; [lia|]. eapply Forall_impl; [|exact F]. intros a Ha. cbv beta in *. lia.
Qed.

(* a store through a location that is not an identity of t does not change t *)
Lemma store_outside : forall t a c, ~ In a (locs t) -> store a c t = t.
Proof.
  induction t as [v|l items IH|l items IH] using hv_ind'; intros a c Hn; cbn [store]; [reflexivity| |].
  - cbn [locs] in Hn. destruct (l =? a) eqn:E; [apply N.eqb_eq in E; subst; exfalso; apply Hn; left; reflexivity|].
    f_equal. assert (Hn' : ~ In a (flat_map locs items)) by (intros H; apply Hn; right; exact H). clear Hn E.
    induction items as [|x xs IHx]; [reflexivity|]. inversion IH as [|? ? Hx F]; subst. cbn [map flat_map] in *.
    rewrite Hx by (intros H; apply Hn'; apply in_or_app; left; exact H).
    rewrite IHx; auto. intros H; apply Hn'; apply in_or_app; right; exact H.
  - cbn [locs] in Hn. destruct (l =? a) eqn:E; [apply N.eqb_eq in E; subst; exfalso; apply Hn; left; reflexivity|].
    f_equal. assert (Hn' : ~ In a (flat_map (fun kv => locs (snd kv)) items)) by (intros H; apply Hn; right; exact H). clear Hn E.
    induction items as [|[k x] xs IHx]; [reflexivity|]. inversion IH as [|? ? Hx F]; subst. cbn [map flat_map fst snd] in *.
    rewrite Hx by (intros H; apply Hn'; apply in_or_app; left; exact H).
    rewrite IHx; auto. intros H; apply Hn'; apply in_or_app; right; exact H.
Qed.

(* the deep copy: equal value, fresh identities; stores through either side leave the other side untouched *)
Theorem deepcopy_fresh_and_equal t next : Forall (fun l => l < next) (locs t) ->
  let t' := fst (deepcopy next t) in
  erase t' = erase t
  /\ (forall l, In l (locs t') -> ~ In l (locs t))
  /\ (forall a c, In a (locs t) -> store a c t' = t')
  /\ (forall a c, In a (locs t') -> store a c t = t).
Proof.
  intros Hold. cbv zeta. destruct (deepcopy_spec t next) as (E & L & F).
  assert (Hdisj : forall l, In l (locs (fst (deepcopy next t))) -> ~ In l (locs t)).
  { intros l H1 H2. rewrite Forall_forall in F, Hold. specialize (F l H1). specialize (Hold l H2). lia. }
  repeat split; auto.
  - intros a c Ha. apply store_outside. intros H. exact (Hdisj a H Ha).
  - intros a c Ha. apply store_outside. intros H. exact (Hdisj a Ha H).
Qed.

(* wrap_as_signable: the payload inside the envelope is isolated from the object it was made from *)
Theorem wrap_isolated obj next : Forall (fun l => l < next) (locs obj) ->
  erase (wrap next obj) = VDict [(VStr (U"signatures"), VDict []); (VStr (U"signed"), erase obj)]
  /\ (forall a c, In a (locs obj) -> store a c (wrap next obj) = wrap next obj)
  /\ (forall a c, In a (locs (wrap next obj)) -> store a c obj = obj).
Proof.
  intros Hold. unfold wrap.
  assert (Hold2 : Forall (fun l => l < next + 2) (locs obj)) by (eapply Forall_impl; [|exact Hold]; intros a Ha; cbv beta in *; lia).
  destruct (deepcopy_spec obj (next + 2)) as (E & L & F).
  split; [cbn [erase map fst snd]; rewrite E; reflexivity|].
  assert (Hl : forall a, In a (locs (HDict next [(VStr (U"signatures"), HDict (next + 1) []); (VStr (U"signed"), fst (deepcopy (next + 2) obj))])) -> next <= a).
  { intros a. cbn [locs flat_map snd app]. rewrite app_nil_r. intros [<-|[<-|H]]; try lia. rewrite Forall_forall in F. specialize (F a H). lia. }
  split.
  - intros a c Ha. apply store_outside. intros H. specialize (Hl a H). rewrite Forall_forall in Hold. specialize (Hold a Ha). lia.
  - intros a c Ha. apply store_outside. intros H. specialize (Hl a Ha). rewrite Forall_forall in Hold. specialize (Hold a H). lia.
Qed.

(* a shallow copy is NOT isolated: a store through a child of the original shows in the copy *)
Theorem shallow_copy_not_isolated :
  exists obj next a c, Forall (fun l => l < next) (locs obj) /\ In a (locs obj)
                       /\ erase (store a c (shallowcopy next obj)) <> erase (shallowcopy next obj).
Proof.
  exists (HDict 0 [(VStr (U"k"), HList 1 [HAtom (VInt 1)])]), 2, 1, (CList []).
  split; [repeat constructor|]. split; [right; left; reflexivity|]. vm_compute. discriminate.
Qed.

(* RootFacts.v: verify_root -- the update rule, and chains of accepted updates. *)
From CCT Require Import Prelude Hex Num Time Formats Json Auth.
From CCT.Gen Require Params.
From CCT.proofs Require Import HexFacts SigFacts AuthFacts SignableFacts DelegationFacts.
From Coq Require Import Lia Permutation.
Open Scope N_scope.

Lemma py_eq_int_iff v c : py_eq_int v c = true <-> int_value v = Some c.
Proof.
  unfold py_eq_int, num_cmp_int, int_value, cmp_Z. destruct v; cbn; try (split; discriminate).
  - destruct b; destruct (_ ?= c)%Z eqn:E; split; try discriminate; intros H;
      try (apply Z.compare_eq in E; congruence); injection H as <-; rewrite Z.compare_refl in E; discriminate.
  - destruct (z ?= c)%Z eqn:E; split; try discriminate; intros H;
      try (apply Z.compare_eq in E; congruence); injection H as <-; rewrite Z.compare_refl in E; discriminate.
  - destruct (float_view r) as [|neg|z|fl|]; try (split; discriminate).
    + destruct neg; split; discriminate.
    + destruct (z ?= c)%Z eqn:E; split; try discriminate; intros H;
        try (apply Z.compare_eq in E; congruence); injection H as <-; rewrite Z.compare_refl in E; discriminate.
    + destruct (fl <? c)%Z; split; discriminate.
Qed.

(* values accepted as version / threshold have an integer value, and int() returns it *)
Lemma natural_int_value v : checkformat_natural_int v = Ok tt ->
  exists z, int_value v = Some z /\ (1 <= z)%Z /\ exists same, py_int v = Ok (IntIs z same).
Proof.
  unfold checkformat_natural_int, py_int, int_value, py_lt_int, num_cmp_int, cmp_Z.
  destruct v; try discriminate.
  - destruct b; cbn; try discriminate. intros _. exists 1%Z. repeat split; eauto. lia.
  - cbn. destruct (z ?= 1)%Z eqn:E; try discriminate; intros _; exists z; repeat split; eauto.
    + apply Z.compare_eq in E. lia.
    + apply Z.compare_gt_iff in E. lia.
  - destruct (float_view r) as [|neg|z|fl|] eqn:Ef; try discriminate.
    cbn. destruct (z ?= 1)%Z eqn:E; try discriminate; intros _; exists z; repeat split; eauto.
    + apply Z.compare_eq in E. lia.
    + apply Z.compare_gt_iff in E. lia.
Qed.

Section Root.
  Variable ed_verify : bytes -> bytes -> bytes -> bool.
  Variable sha256 : bytes -> bytes.
  Notation vsig := (verify_signable ed_verify sha256).
  Notation vroot := (verify_root ed_verify sha256).
  Notation ecount := (entry_counts ed_verify sha256).

  (* the fields verify_root reads from a piece of root metadata *)
  Record root_view := { rv_type : pv; rv_keys : pv; rv_threshold : pv; rv_version : pv }.

  Definition view (m : pv) : res root_view :=
    s <- subscript m (U"signed") ;;
    ty <- subscript s (U"type") ;;
    dl <- subscript s (U"delegations") ;;
    isin <- py_in_str (U"root") dl ;;
    if negb isin then Err ValueError else
    r <- subscript dl (U"root") ;;
    th <- subscript r (U"threshold") ;;
    ks <- subscript r (U"pubkeys") ;;
    v <- subscript s (U"version") ;;
    Ok {| rv_type := ty; rv_keys := ks; rv_threshold := th; rv_version := v |}.

  (* the update rule *)
  Definition Link (t u : pv) : Prop :=
    cdm t = Ok tt /\ cdm u = Ok tt /\
    exists tv uv tz,
      view t = Ok tv /\ view u = Ok uv
      /\ rv_type tv = VStr (U"root") /\ rv_type uv = VStr (U"root")
      /\ int_value (rv_version tv) = Some tz /\ int_value (rv_version uv) = Some (tz + 1)%Z
      /\ vsig u (rv_keys tv) (rv_threshold tv) (VBool true) = Ok tt
      /\ vsig u (rv_keys uv) (rv_threshold uv) (VBool true) = Ok tt.

  Lemma str_ne_false ty s : str_ne ty s = false <-> ty = VStr s.
  Proof. unfold str_ne. rewrite negb_false_iff. apply key_is_eq. Qed.

  (* well-formed delegating metadata always has a version check behind it when a version is present *)
  Lemma cdm_version_natural m s v :
    cdm m = Ok tt -> subscript m (U"signed") = Ok s -> subscript s (U"version") = Ok v ->
    checkformat_natural_int v = Ok tt.
  Proof.
    unfold checkformat_delegating_metadata. intros H Es Ev.
    destruct (checkformat_signable m) as [[]| |]; cbn [bind] in H; try discriminate.
    destruct (subscript m (U"signatures")) as [sg| |]; cbn [bind] in H; try discriminate.
    destruct (match sg with VDict sm => check_each checkformat_any_signature (map snd sm) | _ => Err TypeError end) as [[]| |];
      cbn [bind] in H; try discriminate.
    rewrite Es in H. cbn [bind] in H.
    destruct (require_fields s _) as [[]| |]; cbn [bind] in H; try discriminate.
    destruct (subscript s (U"type")) as [ty| |]; cbn [bind] in H; try discriminate.
    destruct (checkformat_string ty) as [[]| |]; cbn [bind] in H; try discriminate.
    destruct ty; try discriminate.
    destruct (negb (str_in s0 Params.supported_dm_types)); try discriminate.
    destruct (subscript s (U"metadata_spec_version")) as [sv| |]; cbn [bind] in H; try discriminate.
    destruct (checkformat_string sv) as [[]| |]; cbn [bind] in H; try discriminate.
    destruct (subscript s (U"delegations")) as [dl| |]; cbn [bind] in H; try discriminate.
    destruct (checkformat_delegations dl) as [[]| |]; cbn [bind] in H; try discriminate.
    destruct (subscript s (U"expiration")) as [ex| |]; cbn [bind] in H; try discriminate.
    destruct (checkformat_utc_isoformat ex) as [[]| |]; cbn [bind] in H; try discriminate.
    destruct (py_in_str (U"timestamp") s) as [hts| |]; cbn [bind] in H; try discriminate.
    destruct (py_in_str (U"version") s) as [hv| |] eqn:Ehv; cbn [bind] in H; try discriminate.
    destruct (negb hts && negb hv); try discriminate.
    destruct (ustr_eqb s0 (U"root") && negb hv); try discriminate.
    destruct (if hts then _ else _) as [[]| |]; cbn [bind] in H; try discriminate.
    (* version present: the check ran *)
    assert (hv = true) as ->.
    { destruct s; cbn in Ev; try discriminate. cbn in Ehv. injection Ehv as <-.
      unfold dhas. destruct (dget m0 (U"version")); [reflexivity|discriminate]. }
    rewrite Ev in H. cbn [bind] in H. exact H.
  Qed.

  Lemma view_version m rv s : view m = Ok rv -> subscript m (U"signed") = Ok s -> subscript s (U"version") = Ok (rv_version rv).
  Proof.
    unfold view. intros H Es. rewrite Es in H. cbn [bind] in H.
    destruct (subscript s (U"type")); cbn [bind] in H; try discriminate.
    destruct (subscript s (U"delegations")) as [dl| |]; cbn [bind] in H; try discriminate.
    destruct (py_in_str (U"root") dl) as [b| |]; cbn [bind] in H; try discriminate.
    destruct (negb b); try discriminate.
    destruct (subscript dl (U"root")) as [r| |]; cbn [bind] in H; try discriminate.
    destruct (subscript r (U"threshold")); cbn [bind] in H; try discriminate.
    destruct (subscript r (U"pubkeys")); cbn [bind] in H; try discriminate.
    destruct (subscript s (U"version")); cbn [bind] in H; try discriminate.
    injection H as <-. reflexivity.
  Qed.

  Lemma view_signed m rv : view m = Ok rv -> exists s, subscript m (U"signed") = Ok s.
  Proof. unfold view. destruct (subscript m (U"signed")); cbn [bind]; try discriminate. eauto. Qed.

  (* verify_root, refactored through view *)
  Lemma verify_root_unfold t u :
    cdm t = Ok tt -> cdm u = Ok tt ->
    forall tv uv, view t = Ok tv -> view u = Ok uv ->
    vroot t u =
      if str_ne (rv_type tv) (U"root") || str_ne (rv_type uv) (U"root") then Err ValueError else
      match py_int (rv_version tv) with
      | Ok (IntIs tz _) =>
          if negb (py_eq_int (rv_version uv) (tz + 1)) then Err MetadataVerificationError else
          vsig u (rv_keys tv) (rv_threshold tv) (VBool true) ;;;
          vsig u (rv_keys uv) (rv_threshold uv) (VBool true)
      | Err e => Err e
      | Unmodelled => Unmodelled
      end.
  Proof.
    intros Et Eu tv uv Vt Vu. unfold verify_root. rewrite Et, Eu. cbn [bind].
    unfold view in Vt, Vu.
    destruct (subscript t (U"signed")) as [ts| |]; cbn [bind] in *; try discriminate.
    destruct (subscript u (U"signed")) as [us| |]; cbn [bind] in *; try discriminate.
    destruct (subscript ts (U"type")) as [tty| |]; cbn [bind] in *; try discriminate.
    destruct (subscript us (U"type")) as [uty| |]; cbn [bind] in *; try discriminate.
    destruct (subscript ts (U"delegations")) as [tdl| |]; cbn [bind] in *; try discriminate.
    destruct (subscript us (U"delegations")) as [udl| |]; cbn [bind] in *; try discriminate.
    destruct (py_in_str (U"root") tdl) as [tin| |]; cbn [bind] in *; try discriminate.
    destruct (py_in_str (U"root") udl) as [uin| |]; cbn [bind] in *; try discriminate.
    destruct tin; cbn [negb] in *; try discriminate. destruct uin; cbn [negb] in *; try discriminate.
    destruct (subscript tdl (U"root")) as [re| |]; cbn [bind] in *; try discriminate.
    destruct (subscript re (U"threshold")) as [th| |]; cbn [bind] in *; try discriminate.
    destruct (subscript re (U"pubkeys")) as [ks| |]; cbn [bind] in *; try discriminate.
    destruct (subscript udl (U"root")) as [nre| |]; cbn [bind] in *; try discriminate.
    destruct (subscript nre (U"threshold")) as [nth| |]; cbn [bind] in *; try discriminate.
    destruct (subscript nre (U"pubkeys")) as [nks| |]; cbn [bind] in *; try discriminate.
    destruct (subscript ts (U"version")) as [tvv| |]; cbn [bind] in *; try discriminate.
    destruct (subscript us (U"version")) as [uvv| |]; cbn [bind] in *; try discriminate.
    injection Vt as <-. injection Vu as <-. cbn [rv_type rv_keys rv_threshold rv_version].
    destruct (str_ne tty (U"root") || str_ne uty (U"root")); reflexivity.
  Qed.

  (* anything verify_root accepts has both views *)
  Lemma verify_root_views t u : vroot t u = Ok tt ->
    cdm t = Ok tt /\ cdm u = Ok tt /\ exists tv uv, view t = Ok tv /\ view u = Ok uv.
  Proof.
    unfold verify_root, view. intros H.
    destruct (cdm t) as [[]| |]; cbn [bind] in H; try discriminate.
    destruct (cdm u) as [[]| |]; cbn [bind] in H; try discriminate.
    split; [reflexivity|]. split; [reflexivity|].
    destruct (subscript t (U"signed")) as [ts| |]; cbn [bind] in *; try discriminate.
    destruct (subscript u (U"signed")) as [us| |]; cbn [bind] in *; try discriminate.
    destruct (subscript ts (U"type")) as [tty| |]; cbn [bind] in *; try discriminate.
    destruct (subscript us (U"type")) as [uty| |]; cbn [bind] in *; try discriminate.
    destruct (str_ne tty (U"root") || str_ne uty (U"root")); try discriminate.
    destruct (subscript ts (U"delegations")) as [tdl| |]; cbn [bind] in *; try discriminate.
    destruct (subscript us (U"delegations")) as [udl| |]; cbn [bind] in *; try discriminate.
    destruct (py_in_str (U"root") tdl) as [tin| |]; cbn [bind] in *; try discriminate.
    destruct tin; cbn [negb] in *; try discriminate.
    destruct (py_in_str (U"root") udl) as [uin| |]; cbn [bind] in *; try discriminate.
    destruct uin; cbn [negb] in *; try discriminate.
    destruct (subscript tdl (U"root")) as [re| |]; cbn [bind] in *; try discriminate.
    destruct (subscript re (U"threshold")) as [th| |]; cbn [bind] in *; try discriminate.
    destruct (subscript re (U"pubkeys")) as [ks| |]; cbn [bind] in *; try discriminate.
    destruct (subscript udl (U"root")) as [nre| |]; cbn [bind] in *; try discriminate.
    destruct (subscript nre (U"threshold")) as [nth| |]; cbn [bind] in *; try discriminate.
    destruct (subscript nre (U"pubkeys")) as [nks| |]; cbn [bind] in *; try discriminate.
    destruct (subscript ts (U"version")) as [tvv| |]; cbn [bind] in *; try discriminate.
    destruct (subscript us (U"version")) as [uvv| |]; cbn [bind] in *; try discriminate.
    eauto.
  Qed.

  (* ---- C03: accepted iff the update rule holds *)
  Theorem verify_root_iff t u : vroot t u = Ok tt <-> Link t u.
  Proof.
    split.
    - intros H. destruct (verify_root_views t u H) as (Et & Eu & tv & uv & Vt & Vu).
      rewrite (verify_root_unfold t u Et Eu tv uv Vt Vu) in H.
      destruct (str_ne (rv_type tv) (U"root")) eqn:E1; cbn [orb] in H; [discriminate|].
      destruct (str_ne (rv_type uv) (U"root")) eqn:E2; [discriminate|].
      apply str_ne_false in E1, E2.
      destruct (view_signed _ _ Vt) as (ts & Ets).
      pose proof (cdm_version_natural t ts _ Et Ets (view_version _ _ _ Vt Ets)) as Hn.
      apply natural_int_value in Hn as (tz & Hiv & _ & same & Hpi). rewrite Hpi in H.
      destruct (py_eq_int (rv_version uv) (tz + 1)) eqn:Ev; cbn [negb] in H; [|discriminate].
      apply py_eq_int_iff in Ev.
      destruct (vsig u (rv_keys tv) (rv_threshold tv) (VBool true)) as [[]| |] eqn:V1; cbn [bind] in H; try discriminate.
      split; auto. split; auto. exists tv, uv, tz. repeat (split; auto).
    - intros (Et & Eu & tv & uv & tz & Vt & Vu & T1 & T2 & I1 & I2 & V1 & V2).
      rewrite (verify_root_unfold t u Et Eu tv uv Vt Vu).
      apply str_ne_false in T1, T2. rewrite T1, T2. cbn [orb].
      destruct (view_signed _ _ Vt) as (ts & Ets).
      pose proof (cdm_version_natural t ts _ Et Ets (view_version _ _ _ Vt Ets)) as Hn.
      apply natural_int_value in Hn as (tz' & Hiv & _ & same & Hpi). rewrite Hpi.
      rewrite I1 in Hiv. injection Hiv as <-.
      apply py_eq_int_iff in I2. rewrite I2. cbn [negb]. rewrite V1. cbn [bind]. exact V2.
  Qed.

  (* error map *)
  Theorem version_mismatch_error t u tv uv tz :
    cdm t = Ok tt -> cdm u = Ok tt -> view t = Ok tv -> view u = Ok uv ->
    rv_type tv = VStr (U"root") -> rv_type uv = VStr (U"root") ->
    int_value (rv_version tv) = Some tz -> int_value (rv_version uv) <> Some (tz + 1)%Z ->
    vroot t u = Err MetadataVerificationError.
  Proof.
    intros Et Eu Vt Vu T1 T2 I1 I2. rewrite (verify_root_unfold t u Et Eu tv uv Vt Vu).
    apply str_ne_false in T1, T2. rewrite T1, T2. cbn [orb].
    destruct (view_signed _ _ Vt) as (ts & Ets).
    pose proof (cdm_version_natural t ts _ Et Ets (view_version _ _ _ Vt Ets)) as Hn.
    apply natural_int_value in Hn as (tz' & Hiv & _ & same & Hpi). rewrite Hpi.
    rewrite I1 in Hiv. injection Hiv as <-.
    destruct (py_eq_int (rv_version uv) (tz + 1)) eqn:E; [|reflexivity].
    apply py_eq_int_iff in E. contradiction.
  Qed.

  (* nothing the untrusted metadata says about itself substitutes for the trusted rule *)
  Theorem root_sound t u :
    vroot t u = Ok tt ->
    exists tv kl tz sd data sm cs,
      view t = Ok tv /\ rv_keys tv = VList kl /\ threshold_value (rv_threshold tv) = Some tz
      /\ subscript u (U"signed") = Ok sd /\ canonserialize sd = Ok data
      /\ subscript u (U"signatures") = Ok (VDict sm)
      /\ incl cs sm /\ (NoDup (map fst sm) -> NoDup (map fst cs)) /\ (1 <= tz <= Z.of_nat (length cs))%Z
      /\ Forall (fun kv => valid_entry ed_verify sha256 true kl data (fst kv) (snd kv)) cs.
  Proof.
    intros H. apply verify_root_iff in H as (_ & _ & tv & uv & tz & Vt & _ & _ & _ & _ & _ & V1 & _).
    apply verify_signable_sound in V1 as (kl & tz' & sd & data & sm & _ & Ek & Et & Hz & Esd & Ed & Esg & cs & Hi & Hn & Hl & Hf).
    exists tv, kl, tz', sd, data, sm, cs. repeat (split; auto); lia.
  Qed.

  (* the verdict depends on the trusted root only through well-formedness and its view *)
  Theorem trusted_rule_is_a_projection t t' u :
    cdm t = Ok tt -> cdm t' = Ok tt -> view t = view t' -> (vroot t u = Ok tt <-> vroot t' u = Ok tt).
  Proof.
    intros E1 E2 Ev. rewrite !verify_root_iff. unfold Link. rewrite Ev. tauto.
  Qed.

  (* ---- C04: histories *)
  Definition accepts (t u : pv) : bool := is_ok (vroot t u).
  Definition offer (t u : pv) : pv := if accepts t u then u else t.
  Definition run (t0 : pv) (us : list pv) : pv := fold_left offer us t0.

  Inductive Chain : pv -> pv -> Prop :=
  | chain_refl t : Chain t t
  | chain_step t u w : Chain t u -> Link u w -> Chain t w.

  Lemma accepts_link t u : accepts t u = true -> Link t u.
  Proof.
    unfold accepts. destruct (vroot t u) as [[]| |] eqn:E; try discriminate. intros _. apply verify_root_iff; auto.
  Qed.

  Theorem chain_integrity t0 us : Chain t0 (run t0 us).
  Proof.
    unfold run. enough (forall t, Chain t0 t -> Chain t0 (fold_left offer us t)) by (apply H; constructor).
    induction us as [|u us IH]; cbn [fold_left]; intros t Hc; auto.
    apply IH. destruct (accepts t u) eqn:E.
    - assert (offer t u = u) as -> by (unfold offer; rewrite E; reflexivity).
      econstructor; eauto. apply accepts_link; auto.
    - assert (offer t u = t) as -> by (unfold offer; rewrite E; reflexivity). auto.
  Qed.

  Definition version_of (m : pv) : option Z :=
    match view m with Ok rv => int_value (rv_version rv) | _ => None end.

  Lemma link_version t u : Link t u -> exists z, version_of t = Some z /\ version_of u = Some (z + 1)%Z.
  Proof.
    intros (_ & _ & tv & uv & tz & Vt & Vu & _ & _ & I1 & I2 & _). exists tz. unfold version_of. rewrite Vt, Vu. auto.
  Qed.

  (* the version grows by exactly the number of accepted offers *)
  Fixpoint accepted_count (t : pv) (us : list pv) : nat :=
    match us with [] => 0%nat | u :: r => if accepts t u then S (accepted_count u r) else accepted_count t r end.

  Theorem version_counts_accepts t0 us z :
    version_of t0 = Some z -> version_of (run t0 us) = Some (z + Z.of_nat (accepted_count t0 us))%Z.
  Proof.
    unfold run. revert t0 z. induction us as [|u us IH]; cbn [fold_left accepted_count]; intros t z Hz.
    - rewrite Z.add_0_r. auto.
    - destruct (accepts t u) eqn:E.
      + assert (offer t u = u) as -> by (unfold offer; rewrite E; reflexivity).
        apply accepts_link, link_version in E as (z' & H1 & H2). rewrite Hz in H1. injection H1 as <-.
        rewrite (IH u _ H2). f_equal. lia.
      + assert (offer t u = t) as -> by (unfold offer; rewrite E; reflexivity).
        apply IH; auto.
  Qed.

  (* no replay, no rollback, no skipping: an offer is accepted only at version + 1 *)
  Theorem only_successor_accepted t u z : version_of t = Some z -> accepts t u = true -> version_of u = Some (z + 1)%Z.
  Proof.
    intros Hz E. apply accepts_link, link_version in E as (z' & H1 & H2). congruence.
  Qed.

  Theorem no_replay_no_rollback t u z zu :
    version_of t = Some z -> version_of u = Some zu -> (zu <= z)%Z -> accepts t u = false.
  Proof.
    intros Hz Hu Hle. destruct (accepts t u) eqn:E; auto.
    pose proof (only_successor_accepted _ _ _ Hz E). rewrite Hu in H. injection H as ->. lia.
  Qed.

  (* the verdict on an offer is a function of the pair (current root, offer): histories do not matter *)
  Theorem verdict_history_free t0 us1 us2 u :
    run t0 us1 = run t0 us2 -> accepts (run t0 us1) u = accepts (run t0 us2) u.
  Proof. intros ->. reflexivity. Qed.
End Root.

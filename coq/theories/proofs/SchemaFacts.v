(* SchemaFacts.v: checkformat_delegating_metadata accepts exactly the documented schema (C14). *)
From CCT Require Import Prelude Hex Num Time Formats.
From CCT.Gen Require Params.
From CCT.proofs Require Import HexFacts SigFacts.
From Coq Require Import Lia.
Open Scope N_scope.

Notation cdm := checkformat_delegating_metadata.

(* ---- numbers accepted as version / threshold: integer-valued and at least 1 (Python: int(x) == x, x >= 1;
        this includes True and 2.0, see DESIGN N2) *)
Definition natural (v : pv) : Prop := exists z, int_value v = Some z /\ (1 <= z)%Z.

Lemma natural_iff v : checkformat_natural_int v = Ok tt <-> natural v.
Proof.
  unfold natural, checkformat_natural_int, py_int, int_value, py_lt_int, num_cmp_int, cmp_Z. split.
  - destruct v; try discriminate.
    + destruct b; cbn; try discriminate. intros _. exists 1%Z. split; [reflexivity|lia].
    + cbn. destruct (z ?= 1)%Z eqn:E; try discriminate; intros _; exists z; split; auto.
      * apply Z.compare_eq in E. lia.
      * apply Z.compare_gt_iff in E. lia.
    + destruct (float_view r) as [|neg|z|fl|] eqn:Ef; try discriminate.
      cbn. destruct (z ?= 1)%Z eqn:E; try discriminate; intros _; exists z; split; auto.
      * apply Z.compare_eq in E. lia.
      * apply Z.compare_gt_iff in E. lia.
  - intros (n & Hz & Hge). destruct v; try discriminate.
    + destruct b; injection Hz as <-; [reflexivity|exfalso; lia].
    + injection Hz as <-. cbn. destruct (z ?= 1)%Z eqn:E; try reflexivity.
      pose proof (proj1 (Z.compare_lt_iff _ _) E). exfalso. lia.
    + destruct (float_view r) as [|neg|z|fl|] eqn:Ef; try discriminate. injection Hz as <-.
      cbn. destruct (z ?= 1)%Z eqn:E; try reflexivity. pose proof (proj1 (Z.compare_lt_iff _ _) E). exfalso. lia.
Qed.

Lemma natural_ge v : natural v -> py_ge_int v 1 = Ok true.
Proof.
  intros (n & Hz & Hge). unfold py_ge_int, num_cmp_int, int_value, cmp_Z in *. destruct v; try discriminate.
  - destruct b; injection Hz as <-; [reflexivity|exfalso; lia].
  - injection Hz as <-. cbn. destruct (z ?= 1)%Z eqn:E; try reflexivity. pose proof (proj1 (Z.compare_lt_iff _ _) E). exfalso. lia.
  - destruct (float_view r) as [|neg|z|fl|]; try discriminate. injection Hz as <-.
    cbn. destruct (z ?= 1)%Z eqn:E; try reflexivity. pose proof (proj1 (Z.compare_lt_iff _ _) E). exfalso. lia.
Qed.

(* ---- a dict with exactly the two given fields, in either insertion order *)
Definition two_fields (m : list (pv * pv)) (a b : ustr) (x y : pv) : Prop :=
  m = [(VStr a, x); (VStr b, y)] \/ m = [(VStr b, y); (VStr a, x)].

Lemma keys_are2_iff m a b : keys_are2 m a b = true <-> exists x y, two_fields m a b x y.
Proof.
  unfold keys_are2, two_fields. split.
  - destruct m as [|[k1 x] [|[k2 y] [|]]]; try discriminate.
    intros H. apply orb_true_iff in H as [H|H]; apply andb_true_iff in H as [H1 H2];
      apply key_is_eq in H1, H2; subst.
    + exists x, y. auto.
    + exists y, x. auto.
  - intros (x & y & [->| ->]).
    + rewrite !(proj2 (key_is_eq _ _) eq_refl). reflexivity.
    + rewrite !(proj2 (key_is_eq _ _) eq_refl). cbn. apply orb_true_r.
Qed.

Lemma two_fields_dget m a b x y : ustr_eqb a b = false -> two_fields m a b x y ->
  dget m a = Some x /\ dget m b = Some y.
Proof.
  intros Hab [->| ->]; cbn [dget key_is].
  - rewrite !ustr_eqb_refl. rewrite Hab. auto.
  - rewrite !ustr_eqb_refl.
    assert (ustr_eqb b a = false) as ->.
    { destruct (ustr_eqb b a) eqn:E; auto. apply ustr_eqb_eq in E. subst. rewrite ustr_eqb_refl in Hab. discriminate. }
    auto.
Qed.

Definition hex_key_val (v : pv) : Prop := exists s, v = VStr s /\ lower_hex_len 64 s.

(* ---- one delegation: {pubkeys: list of distinct keys, threshold: natural} and nothing else *)
Definition delegation_ok (d : pv) : Prop :=
  exists m th ks,
    d = VDict m /\ two_fields m (U"threshold") (U"pubkeys") th (VList ks)
    /\ Forall hex_key_val ks /\ NoDup ks /\ natural th.

Lemma forallb_hex_key ks : Forall hex_key_val ks -> forallb is_hex_key ks = true.
Proof.
  intros F. apply forallb_forall. rewrite Forall_forall in F. intros x Hx. apply is_hex_key_iff. apply F; auto.
Qed.

Lemma checkformat_delegation_iff d : checkformat_delegation d = Ok tt <-> delegation_ok d.
Proof.
  split.
  - destruct d; try discriminate. cbn [checkformat_delegation].
    destruct (keys_are2 m (U"threshold") (U"pubkeys")) eqn:Ek; cbn [negb]; [|discriminate].
    apply keys_are2_iff in Ek as (th & pk & Htf).
    destruct (two_fields_dget m (U"threshold") (U"pubkeys") _ _ eq_refl Htf) as [E1 E2].
    cbn [subscript]. rewrite E1, E2. cbn [bind].
    destruct (py_ge_int th 1) as [ge| |]; cbn [bind]; try discriminate.
    destruct ge; cbn [negb]; [|discriminate].
    destruct pk; try discriminate.
    destruct (forallb is_hex_key l) eqn:Ef; cbn [negb]; [|discriminate].
    destruct (checkformat_list_of_hex_keys (VList l)) as [[]| |] eqn:El; cbn [bind]; try discriminate.
    intros Hn. apply keylist_ok_iff in El as [F N]. apply natural_iff in Hn.
    exists m, th, l. repeat split; auto.
  - intros (m & th & ks & -> & Htf & F & N & Hn). cbn [checkformat_delegation].
    assert (keys_are2 m (U"threshold") (U"pubkeys") = true) as -> by (apply keys_are2_iff; eauto).
    destruct (two_fields_dget m (U"threshold") (U"pubkeys") _ _ eq_refl Htf) as [E1 E2].
    cbn [negb subscript]. rewrite E1, E2. cbn [bind]. rewrite (natural_ge th Hn). cbn [bind negb].
    rewrite (forallb_hex_key ks F). cbn [negb].
    assert (checkformat_list_of_hex_keys (VList ks) = Ok tt) as -> by (apply keylist_ok_iff; auto).
    cbn [bind]. apply natural_iff; auto.
Qed.

Definition delegations_ok (v : pv) : Prop :=
  exists m, v = VDict m /\ Forall (fun kd => is_str (fst kd) = true /\ delegation_ok (snd kd)) m.

Lemma checkformat_delegations_iff v : checkformat_delegations v = Ok tt <-> delegations_ok v.
Proof.
  unfold delegations_ok. destruct v; cbn [checkformat_delegations];
    try (split; [discriminate | intros (m' & [=] & _)]).
  assert (H : check_delegation_items m = Ok tt <->
              Forall (fun kd => is_str (fst kd) = true /\ delegation_ok (snd kd)) m).
  { induction m as [|[k d] m IH]; cbn [check_delegation_items]; [split; auto|].
    unfold checkformat_string. destruct (is_str k) eqn:Ek; cbn [bind].
    - destruct (checkformat_delegation d) as [[]| |] eqn:Ed; cbn [bind].
      + rewrite IH. split.
        * intros H. constructor; auto. split; auto. apply checkformat_delegation_iff; auto.
        * intros H. inversion H; auto.
      + split; [discriminate|]. intros H. inversion H as [|? ? [_ Hd] _]; subst.
        apply checkformat_delegation_iff in Hd. cbn in Hd. congruence.
      + split; [discriminate|]. intros H. inversion H as [|? ? [_ Hd] _]; subst.
        apply checkformat_delegation_iff in Hd. cbn in Hd. congruence.
    - split; [discriminate|]. intros H. inversion H as [|? ? [Hk _] _]; subst. cbn in Hk. congruence. }
  rewrite H. split; [eauto|]. intros (m' & [= <-] & F). exact F.
Qed.

(* ---- the documented schema of delegating metadata, declaratively *)
Definition utc_str (v : pv) : Prop := exists s, v = VStr s /\ utc_ok s = true.
Definition has_field (c : list (pv * pv)) (k : ustr) (P : pv -> Prop) : Prop :=
  exists x, dget c k = Some x /\ P x.
Definition if_field (c : list (pv * pv)) (k : ustr) (P : pv -> Prop) : Prop :=
  forall x, dget c k = Some x -> P x.

Definition dm_ok (v : pv) : Prop :=
  exists m sm c ty,
    (* a two-field envelope: a signature map and a signed part of a serializable type *)
    v = VDict m /\ two_fields m (U"signatures") (U"signed") (VDict sm) (VDict c)
    /\ type_in (VDict c) Params.serializable_types = true
    (* every signature value is a raw or an OpenPGP-shaped entry *)
    /\ Forall (fun kv => raw_shape (snd kv) \/ gpg_shape (snd kv)) sm
    (* the signed part *)
    /\ dget c (U"type") = Some (VStr ty) /\ In ty Params.supported_dm_types
    /\ has_field c (U"metadata_spec_version") (fun x => is_str x = true)
    /\ has_field c (U"delegations") delegations_ok
    /\ has_field c (U"expiration") utc_str
    /\ (dhas c (U"timestamp") = true \/ dhas c (U"version") = true)
    /\ (ty = U"root" -> dhas c (U"version") = true)
    /\ if_field c (U"timestamp") utc_str
    /\ if_field c (U"version") natural.

Lemma str_in_In s l : str_in s l = true <-> In s l.
Proof.
  unfold str_in. rewrite existsb_exists. split.
  - intros (x & Hx & E). apply ustr_eqb_eq in E. subst. auto.
  - intros H. exists s. split; auto. apply ustr_eqb_refl.
Qed.

Lemma utc_iff v : checkformat_utc_isoformat v = Ok tt <-> utc_str v.
Proof.
  unfold utc_str. destruct v; cbn; try (split; [discriminate|intros (s' & [=] & _)]).
  destruct (utc_ok s) eqn:E; split; try discriminate; eauto.
  intros (s' & [= <-] & H). congruence.
Qed.

Lemma is_signable_iff v :
  is_signable v = true <->
  exists m sm x, v = VDict m /\ two_fields m (U"signatures") (U"signed") (VDict sm) x
                 /\ type_in x Params.serializable_types = true.
Proof.
  split.
  - destruct v; try discriminate. cbn [is_signable]. intros H.
    apply andb_true_iff in H as [H H3]. apply andb_true_iff in H as [H1 H2].
    apply keys_are2_iff in H1 as (s & x & Htf).
    destruct (two_fields_dget m (U"signatures") (U"signed") _ _ eq_refl Htf) as [E1 E2]. rewrite E1 in H2. rewrite E2 in H3.
    destruct s; try discriminate. exists m, m0, x. auto.
  - intros (m & sm & x & -> & Htf & Ht). cbn [is_signable].
    assert (keys_are2 m (U"signatures") (U"signed") = true) as -> by (apply keys_are2_iff; eauto).
    destruct (two_fields_dget m (U"signatures") (U"signed") _ _ eq_refl Htf) as [-> ->]. cbn. exact Ht.
Qed.

Lemma require_fields_ok c fs :
  require_fields (VDict c) fs = Ok tt <-> Forall (fun f => dhas c f = true) fs.
Proof.
  induction fs as [|f fs IH]; cbn [require_fields py_in_str bind]; [split; auto|].
  destruct (dhas c f) eqn:E.
  - rewrite IH. split; intros H; [constructor; auto|inversion H; auto].
  - split; [discriminate|]. intros H. inversion H; congruence.
Qed.

Lemma subscript_ok_dict v k x : subscript v k = Ok x -> exists c, v = VDict c /\ dget c k = Some x.
Proof.
  destruct v; cbn; try discriminate. destruct (dget m k) eqn:E; try discriminate. intros [= <-]. eauto.
Qed.

Theorem checker_iff_schema v : cdm v = Ok tt <-> dm_ok v.
Proof.
  split.
  - unfold checkformat_delegating_metadata, checkformat_signable. intros H.
    destruct (is_signable v) eqn:Es; cbn [bind] in H; [|discriminate].
    apply is_signable_iff in Es as (m & sm & x & -> & Htf & Hty).
    destruct (two_fields_dget m (U"signatures") (U"signed") _ _ eq_refl Htf) as [E1 E2].
    cbn [subscript] in H. rewrite E1, E2 in H. cbn [bind] in H.
    destruct (check_each checkformat_any_signature (map snd sm)) as [[]| |] eqn:Ec; cbn [bind] in H; try discriminate.
    apply check_each_ok in Ec. rewrite Forall_map in Ec.
    destruct (require_fields x _) as [[]| |] eqn:Er; cbn [bind] in H; try discriminate.
    destruct (subscript x (U"type")) as [ty| |] eqn:Ety; cbn [bind] in H; try discriminate.
    apply subscript_ok_dict in Ety as (c & -> & Ety).
    cbn [subscript] in H.
    unfold checkformat_string in H.
    destruct (is_str ty) eqn:Esty; cbn [bind] in H; [|discriminate].
    destruct ty; try discriminate.
    destruct (str_in s Params.supported_dm_types) eqn:Esup; cbn [negb] in H; [|discriminate].
    destruct (dget c (U"metadata_spec_version")) as [sv|] eqn:Esv; cbn [bind] in H; try discriminate.
    destruct (is_str sv) eqn:Essv; cbn [bind] in H; [|discriminate].
    destruct (dget c (U"delegations")) as [dl|] eqn:Edl; cbn [bind] in H; try discriminate.
    destruct (checkformat_delegations dl) as [[]| |] eqn:Ecd; cbn [bind] in H; try discriminate.
    destruct (dget c (U"expiration")) as [ex|] eqn:Eex; cbn [bind] in H; try discriminate.
    destruct (checkformat_utc_isoformat ex) as [[]| |] eqn:Eux; cbn [bind] in H; try discriminate.
    cbn [py_in_str bind] in H.
    destruct (negb (dhas c (U"timestamp")) && negb (dhas c (U"version"))) eqn:Eone; [discriminate|].
    destruct (ustr_eqb s (U"root") && negb (dhas c (U"version"))) eqn:Eroot; [discriminate|].
    exists m, sm, c, s. split; [reflexivity|]. split; [exact Htf|]. split; [exact Hty|].
    split. { eapply Forall_impl; [|exact Ec]. intros kv Hkv. apply checkformat_any_signature_iff; auto. }
    split; [exact Ety|]. split; [apply str_in_In; auto|].
    split; [exists sv; auto|].
    split; [exists dl; split; auto; apply checkformat_delegations_iff; auto|].
    split; [exists ex; split; auto; apply utc_iff; auto|].
    split. { destruct (dhas c (U"timestamp")) eqn:A; [auto|]. destruct (dhas c (U"version")) eqn:B; [auto|]. discriminate Eone. }
    split. { intros ->. rewrite ustr_eqb_refl in Eroot. destruct (dhas c (U"version")) eqn:B; [auto|]. discriminate Eroot. }
    unfold if_field, dhas in *. split.
    + intros ts Ets. rewrite Ets in H. cbn [bind] in H.
      destruct (checkformat_utc_isoformat ts) as [[]| |] eqn:Euts; cbn [bind] in H; try discriminate.
      apply utc_iff; auto.
    + intros ve Eve. rewrite Eve in H.
      destruct (match dget c (U"timestamp") with Some _ => true | None => false end);
        [destruct (dget c (U"timestamp")) as [ts|]; cbn [bind] in H;
         [destruct (checkformat_utc_isoformat ts) as [[]| |]; cbn [bind] in H; try discriminate|discriminate]|];
        cbn [bind] in H; apply natural_iff; auto.
  - intros (m & sm & c & ty & -> & Htf & Hty & Fs & Ety & Hsup & (sv & Esv & Hsv) & (dl & Edl & Hdl)
            & (ex & Eex & Hex) & Hone & Hroot & Hts & Hve).
    unfold checkformat_delegating_metadata, checkformat_signable.
    assert (is_signable (VDict m) = true) as -> by (apply is_signable_iff; eauto 6).
    destruct (two_fields_dget m (U"signatures") (U"signed") _ _ eq_refl Htf) as [E1 E2].
    cbn [bind subscript]. rewrite E1, E2. cbn [bind].
    assert (check_each checkformat_any_signature (map snd sm) = Ok tt) as ->.
    { apply check_each_ok. rewrite Forall_map. eapply Forall_impl; [|exact Fs].
      intros kv Hkv. apply checkformat_any_signature_iff; auto. }
    cbn [bind].
    assert (require_fields (VDict c) [U"type"; U"metadata_spec_version"; U"delegations"; U"expiration"] = Ok tt) as ->.
    { apply require_fields_ok. repeat constructor; unfold dhas; [rewrite Ety|rewrite Esv|rewrite Edl|rewrite Eex]; reflexivity. }
    cbn [bind subscript]. rewrite Ety. cbn [bind checkformat_string is_str].
    apply str_in_In in Hsup. rewrite Hsup. cbn [negb]. rewrite Esv. cbn [bind]. unfold checkformat_string. rewrite Hsv.
    cbn [bind]. rewrite Edl. cbn [bind].
    apply checkformat_delegations_iff in Hdl. rewrite Hdl. cbn [bind]. rewrite Eex. cbn [bind].
    apply utc_iff in Hex. rewrite Hex. cbn [bind py_in_str].
    assert (negb (dhas c (U"timestamp")) && negb (dhas c (U"version")) = false) as ->.
    { destruct Hone as [-> | ->]; cbn; auto. apply andb_false_r. }
    assert (ustr_eqb ty (U"root") && negb (dhas c (U"version")) = false) as ->.
    { destruct (ustr_eqb ty (U"root")) eqn:E; auto. apply ustr_eqb_eq in E. rewrite (Hroot E). reflexivity. }
    unfold if_field, dhas in *.
    destruct (dget c (U"timestamp")) as [ts|] eqn:Ets; cbn [bind].
    + specialize (Hts ts eq_refl). apply utc_iff in Hts. rewrite Hts. cbn [bind].
      destruct (dget c (U"version")) as [ve|] eqn:Eve; cbn [bind]; auto.
      apply natural_iff. apply Hve; auto.
    + destruct (dget c (U"version")) as [ve|] eqn:Eve; cbn [bind]; auto.
      apply natural_iff. apply Hve; auto.
Qed.

(* ---- mutations of a document: removing a required field, or taking a field outside its grammar, is rejected *)
Definition env (sm : list (pv * pv)) (sd : pv) : pv :=
  VDict [(VStr (U"signatures"), VDict sm); (VStr (U"signed"), sd)].

Definition dremove (k : ustr) (m : list (pv * pv)) : list (pv * pv) :=
  filter (fun kv => negb (key_is k (fst kv))) m.
Definition dput (m : list (pv * pv)) (k : ustr) (x : pv) : list (pv * pv) := (VStr k, x) :: dremove k m.

Lemma dget_dremove k m : dget (dremove k m) k = None.
Proof.
  induction m as [|[k' y] m IH]; cbn; [reflexivity|].
  destruct (key_is k k') eqn:E; cbn; [exact IH|]. rewrite E. exact IH.
Qed.

Lemma dget_dput k m x : dget (dput m k x) k = Some x.
Proof. unfold dput. cbn [dget key_is]. rewrite ustr_eqb_refl. reflexivity. Qed.

Lemma dm_ok_env sm sd : dm_ok (env sm sd) ->
  exists c ty, sd = VDict c
    /\ Forall (fun kv => raw_shape (snd kv) \/ gpg_shape (snd kv)) sm
    /\ dget c (U"type") = Some (VStr ty) /\ In ty Params.supported_dm_types
    /\ has_field c (U"metadata_spec_version") (fun x => is_str x = true)
    /\ has_field c (U"delegations") delegations_ok
    /\ has_field c (U"expiration") utc_str
    /\ (dhas c (U"timestamp") = true \/ dhas c (U"version") = true)
    /\ (ty = U"root" -> dhas c (U"version") = true)
    /\ if_field c (U"timestamp") utc_str
    /\ if_field c (U"version") natural.
Proof.
  intros (m & sm' & c & ty & E & [Htf|Htf] & _ & H). 2:{ unfold env in E. injection E as <-. discriminate Htf. }
  unfold env in E. injection E as <-. injection Htf as E1 E2. subst. exists c, ty. split; [reflexivity|]. exact H.
Qed.

Definition required_fields : list ustr := [U"type"; U"metadata_spec_version"; U"delegations"; U"expiration"].

Theorem missing_required_field_rejected sm c f :
  In f required_fields -> dget c f = None -> cdm (env sm (VDict c)) <> Ok tt.
Proof.
  intros Hin Hn H. apply checker_iff_schema in H. apply dm_ok_env in H as (c' & ty & [= <-] & _ & Ety & _ & (a & Ea & _) & (b & Eb & _) & (d & Ed & _) & _).
  cbn in Hin. destruct Hin as [<-|[<-|[<-|[<-|[]]]]]; congruence.
Qed.

Theorem remove_required_field_rejected sm c f :
  In f required_fields -> cdm (env sm (VDict (dremove f c))) <> Ok tt.
Proof. intros Hin. apply missing_required_field_rejected with (f := f); auto. apply dget_dremove. Qed.

(* the grammar of each schema-constrained field of the signed part *)
Definition field_grammar (f : ustr) (x : pv) : Prop :=
  (f = U"type" -> exists ty, x = VStr ty /\ In ty Params.supported_dm_types)
  /\ (f = U"metadata_spec_version" -> is_str x = true)
  /\ (f = U"delegations" -> delegations_ok x)
  /\ (f = U"expiration" -> utc_str x)
  /\ (f = U"timestamp" -> utc_str x)
  /\ (f = U"version" -> natural x).

Theorem field_outside_grammar_rejected sm c f x :
  cdm (env sm (VDict c)) = Ok tt -> dget c f = Some x -> field_grammar f x.
Proof.
  intros H Hf. apply checker_iff_schema in H.
  apply dm_ok_env in H as (c' & ty & [= <-] & _ & Ety & Hsup & (a & Ea & Ha) & (b & Eb & Hb) & (d & Ed & Hd) & _ & _ & Hts & Hve).
  unfold field_grammar. repeat split; intros ->.
  - rewrite Ety in Hf. injection Hf as <-. eauto.
  - congruence.
  - congruence.
  - congruence.
  - apply Hts; auto.
  - apply Hve; auto.
Qed.

Theorem version_or_timestamp_required sm c :
  dget c (U"version") = None -> dget c (U"timestamp") = None -> cdm (env sm (VDict c)) <> Ok tt.
Proof.
  intros Hv Ht H. apply checker_iff_schema in H.
  apply dm_ok_env in H as (c' & ty & [= <-] & _ & _ & _ & _ & _ & _ & Hone & _).
  unfold dhas in Hone. rewrite Hv, Ht in Hone. destruct Hone; discriminate.
Qed.

Theorem root_requires_version sm c :
  dget c (U"type") = Some (VStr (U"root")) -> dget c (U"version") = None -> cdm (env sm (VDict c)) <> Ok tt.
Proof.
  intros Hty Hv H. apply checker_iff_schema in H.
  apply dm_ok_env in H as (c' & ty & [= <-] & _ & Ety & _ & _ & _ & _ & _ & Hroot & _).
  rewrite Hty in Ety. injection Ety as <-. specialize (Hroot eq_refl). unfold dhas in Hroot. rewrite Hv in Hroot. discriminate.
Qed.

Theorem envelope_has_exactly_two_fields m : cdm (VDict m) = Ok tt -> length m = 2%nat.
Proof.
  intros H. apply checker_iff_schema in H as (m' & sm & c & ty & [= <-] & [->| ->] & _); reflexivity.
Qed.

Theorem bad_signature_entry_rejected sm sd k v :
  In (k, v) sm -> ~ (raw_shape v \/ gpg_shape v) -> cdm (env sm sd) <> Ok tt.
Proof.
  intros Hin Hbad H. apply checker_iff_schema in H. apply dm_ok_env in H as (c & ty & _ & F & _).
  rewrite Forall_forall in F. apply Hbad. apply (F (k, v) Hin).
Qed.

(* DecidedFacts.v: on the JSON domain the model always gives a verdict for the schema checkers -- the explicit
   Unmodelled outcome (a float token outside the JSON grammar reaching int() or a comparison) cannot arise. *)
From CCT Require Import Prelude Hex Num Time Formats Json JsonParse Auth Signing.
From CCT.Gen Require Params.
From CCT.proofs Require Import HexFacts SigFacts AuthFacts SignableFacts DelegationFacts RootFacts SchemaFacts FamilyFacts SigningFacts
     JsonLexFacts SortFacts JsonFacts PersistFacts PersistSchemaFacts.
From Coq Require Import Lia.
Open Scope N_scope.

Lemma take_span s : take_digits s = span_digits s.
Proof. induction s as [|c r IH]; cbn [take_digits span_digits]; [reflexivity|]. unfold is_digit, is_digit_c. rewrite IH. reflexivity. Qed.

(* matching on a literal head character, as a test *)
Lemma match45 {A} (s : ustr) (f : ustr -> A) (g : A) :
  match s with 45 :: r => f r | _ => g end = match s with c :: r => if c =? 45 then f r else g | [] => g end.
Proof.
  destruct s as [|c r]; [reflexivity|]. destruct c as [|p]; [reflexivity|].
  do 6 (destruct p as [p|p|]; try reflexivity).
Qed.
Lemma match46 {A} (s : ustr) (f : ustr -> A) (g : A) :
  match s with 46 :: r => f r | _ => g end = match s with c :: r => if c =? 46 then f r else g | [] => g end.
Proof.
  destruct s as [|c r]; [reflexivity|]. destruct c as [|p]; [reflexivity|].
  do 6 (destruct p as [p|p|]; try reflexivity).
Qed.

Definition oexp_of (r2 : ustr) : option Z :=
  match r2 with
  | [] => Some 0%Z
  | c :: r => if ((c =? 101) || (c =? 69))%N then
                let (eneg, r') := match r with 45%N :: t => (true, t) | 43%N :: t => (false, t) | _ => (false, r) end in
                let (ed, rest) := take_digits r' in
                match ed, rest with
                | _ :: _, [] => Some (if eneg then (- digits_val 0 ed)%Z else digits_val 0 ed)
                | _, _ => None
                end
              else None
  end.

Definition nk_exp (r2 : ustr) : numkind :=
  match r2 with
  | [] => NumFloat
  | c :: r =>
      if (c =? 101) || (c =? 69) then
        let r' := match r with 43 :: t => t | 45 :: t => t | _ => r end in
        let (ed, rest) := span_digits r' in
        match ed, rest with
        | _ :: _, [] => NumFloat
        | _, _ => NumBad
        end
      else NumBad
  end.

Lemma exp_ok r2 : nk_exp r2 = NumFloat -> oexp_of r2 <> None.
Proof.
  unfold nk_exp, oexp_of. destruct r2 as [|c r]; [discriminate|].
  destruct ((c =? 101) || (c =? 69)); [|discriminate].
  assert (Hfin : forall eneg r', (let (ed, rest) := span_digits r' in match ed, rest with _ :: _, [] => NumFloat | _, _ => NumBad end) = NumFloat ->
                   (let (ed, rest) := take_digits r' in
                    match ed, rest with
                    | _ :: _, [] => Some (if eneg : bool then (- digits_val 0 ed)%Z else digits_val 0 ed)
                    | _, _ => None
                    end) <> None).
  { intros eneg r' H. rewrite take_span. destruct (span_digits r') as [ed rest].
    destruct ed; [discriminate H|]. destruct rest; [|discriminate H]. discriminate. }
  destruct r as [|c0 t]; [apply (Hfin false)|]. destruct c0 as [|p]; [apply (Hfin false)|].
  do 6 (destruct p as [p|p|]; try apply (Hfin false); try apply (Hfin true)).
Qed.

Definition fv_tail (neg : bool) (ip fp r2 : ustr) : fview :=
  match ip with
  | [] => FBad
  | _ =>
      match oexp_of r2 with
      | None => FBad
      | Some ex =>
        let m := digits_val 0 (ip ++ fp) in
        let k := (ex - Z.of_nat (length fp))%Z in
        if (0 <=? k)%Z then FInt (if neg then (- (m * 10 ^ k))%Z else (m * 10 ^ k)%Z)
        else
          let p := (10 ^ (- k))%Z in
          if (m mod p =? 0)%Z then FInt (if neg then (- (m / p))%Z else (m / p)%Z)
          else FFrac (if neg then (- (m / p) - 1)%Z else (m / p)%Z)
      end
  end.

Lemma float_view_tail (neg : bool) (ip fp r2 : ustr) : ip <> [] -> oexp_of r2 <> None -> fv_tail neg ip fp r2 <> FBad.
Proof.
  unfold fv_tail. intros Hip He. destruct ip; [congruence|]. destruct (oexp_of r2); [|congruence].
  cbv zeta. destruct (0 <=? _)%Z; [discriminate|]. destruct (_ =? 0)%Z; discriminate.
Qed.

Definition nk_body (neg : bool) (body : ustr) : numkind :=
  let (ip, r1) := span_digits body in
   if negb (int_part_ok ip) then NumBad else
   match r1 with
   | [] => NumInt neg ip
   | _ =>
      let (frac_ok, r2) :=
        match r1 with
        | 46 :: r => let (fp, t) := span_digits r in (match fp with [] => false | _ => true end, t)
        | _ => (true, r1)
        end in
      if negb frac_ok then NumBad else nk_exp r2
   end.

Definition fv_body (neg : bool) (tok body : ustr) : fview :=
  if ustr_eqb body (U"Infinity") then FInf neg
  else if ustr_eqb tok (U"NaN") then FNan
  else
    let (ip, r1) := take_digits body in
    let (fp, r2) := match r1 with 46%N :: r => take_digits r | _ => ([], r1) end in
    fv_tail neg ip fp r2.

Lemma float_body_ok (neg : bool) (tok body : ustr) : nk_body neg body = NumFloat -> fv_body neg tok body <> FBad.
Proof.
  unfold nk_body, fv_body. intros H.
  destruct (ustr_eqb body (U"Infinity")); [discriminate|]. destruct (ustr_eqb tok (U"NaN")); [discriminate|].
  rewrite take_span. destruct (span_digits body) as [ip r1].
  destruct ip as [|d ip]; [discriminate H|].
  destruct (negb (int_part_ok (d :: ip))); [discriminate H|].
  assert (Hfrac : forall t1,
            (let (frac_ok, r2) := (let (fp, t) := span_digits t1 in (match fp with [] => false | _ => true end, t)) in
             if negb frac_ok then NumBad else nk_exp r2) = NumFloat ->
            (let (fp, r2) := take_digits t1 in fv_tail neg (d :: ip) fp r2) <> FBad).
  { intros t1 H1. rewrite take_span. destruct (span_digits t1) as [fp r2]. destruct fp as [|f fp]; [discriminate H1|]. cbn [negb] in H1.
    apply float_view_tail; [discriminate|apply exp_ok; exact H1]. }
  assert (Hnofrac : forall r1', nk_exp r1' = NumFloat -> fv_tail neg (d :: ip) [] r1' <> FBad).
  { intros r1' H1. apply float_view_tail; [discriminate|apply exp_ok; exact H1]. }
  destruct r1 as [|c1 t1]; [discriminate H|].
  destruct c1 as [|p]; [apply Hnofrac; exact H|].
  do 6 (destruct p as [p|p|]; try (apply Hnofrac; exact H); try (apply Hfrac; exact H)).
Qed.

Theorem float_token_view r : float_token r = true -> float_view r <> FBad.
Proof.
  unfold float_token. intros H. apply andb_true_iff in H as [_ H].
  unfold atom_value in H.
  destruct (ustr_eqb r (U"true")); [discriminate|]. destruct (ustr_eqb r (U"false")); [discriminate|].
  destruct (ustr_eqb r (U"null")); [discriminate|].
  destruct (ustr_eqb r (U"NaN") || ustr_eqb r (U"Infinity") || ustr_eqb r (U"-Infinity")) eqn:E.
  - apply orb_true_iff in E as [E|E]; [apply orb_true_iff in E as [E|E]|]; apply ustr_eqb_eq in E; subst r; vm_compute; discriminate.
  - destruct (number_kind r) eqn:Ek; try discriminate. clear H E.
    destruct r as [|c t]; [vm_compute in Ek; discriminate|].
    assert (Hn : number_kind (c :: t) = if c =? 45 then nk_body true t else nk_body false (c :: t)).
    { unfold number_kind. destruct (c =? 45); reflexivity. }
    assert (Hf : float_view (c :: t) = if c =? 45 then fv_body true (c :: t) t else fv_body false (c :: t) (c :: t)).
    { assert (Hgen : forall (neg : bool) (tok body : ustr),
                (if ustr_eqb body (U"Infinity") then FInf neg
                 else if ustr_eqb tok (U"NaN") then FNan
                 else let (ip, r1) := take_digits body in
                      match ip with
                      | [] => FBad
                      | _ => let (fp, r2) := match r1 with 46%N :: r => take_digits r | _ => ([], r1) end in
                             match oexp_of r2 with
                             | None => FBad
                             | Some ex =>
                               let m := digits_val 0 (ip ++ fp) in
                               let k := (ex - Z.of_nat (length fp))%Z in
                               if (0 <=? k)%Z then FInt (if neg then (- (m * 10 ^ k))%Z else (m * 10 ^ k)%Z)
                               else
                                 let p := (10 ^ (- k))%Z in
                                 if (m mod p =? 0)%Z then FInt (if neg then (- (m / p))%Z else (m / p)%Z)
                                 else FFrac (if neg then (- (m / p) - 1)%Z else (m / p)%Z)
                             end
                      end) = fv_body neg tok body).
      { intros neg tok body. unfold fv_body. destruct (ustr_eqb body _); [reflexivity|]. destruct (ustr_eqb tok _); [reflexivity|].
        destruct (take_digits body) as [ip r1]. destruct ip.
        - match goal with |- context [let (_, _) := ?e in _] => destruct e end. reflexivity.
        - match goal with |- context [let (_, _) := ?e in _] => destruct e end. reflexivity. }
      assert (Hleaf : forall tok, float_view tok = fv_body false tok tok -> True) by auto.
      destruct c as [|p]; [exact (Hgen false (0 :: t) (0 :: t))|].
      do 6 (destruct p as [p|p|];
            try (match goal with |- float_view ?tok = _ => exact (Hgen false tok tok) end)).
      match goal with |- float_view ?tok = _ => exact (Hgen true tok t) end. }
    rewrite Hf. rewrite Hn in Ek. destruct (c =? 45); apply float_body_ok; exact Ek.
Qed.

(* ---- decidedness: the model gives an answer *)
Definition dec {A} (r : res A) : Prop := r <> Unmodelled.

Lemma dec_bind {A B} (r : res A) (k : A -> res B) : dec r -> (forall a, r = Ok a -> dec (k a)) -> dec (bind r k).
Proof. unfold dec. destruct r; cbn [bind]; auto; intros; discriminate. Qed.

Ltac dec_step :=
  match goal with
  | |- dec (bind _ _) => apply dec_bind; [|intros ? ?]
  | |- dec (if ?b then _ else _) => destruct b eqn:?
  | |- dec (Ok _) => discriminate
  | |- dec (Err _) => discriminate
  end.

Lemma jdom_subscript v k x : jdom v = true -> subscript v k = Ok x -> jdom x = true.
Proof. destruct v; cbn [subscript]; try discriminate. destruct (dget m k) eqn:E; [|discriminate]. intros Hd [= <-]. exact (jdom_dget m k _ Hd E). Qed.

Lemma dec_subscript v k : dec (subscript v k).
Proof. destruct v; cbn [subscript]; try discriminate. destruct (dget m k); discriminate. Qed.
Lemma dec_py_in k v : dec (py_in_str k v).
Proof. destruct v; cbn; discriminate. Qed.
Lemma dec_string v : dec (checkformat_string v).
Proof. unfold checkformat_string. repeat dec_step. Qed.
Lemma dec_signable v : dec (checkformat_signable v).
Proof. unfold checkformat_signable. repeat dec_step. Qed.
Lemma dec_utc v : dec (checkformat_utc_isoformat v).
Proof. destruct v; cbn; try discriminate. destruct (utc_ok s); discriminate. Qed.
Lemma dec_hex_string v : dec (checkformat_hex_string v).
Proof. destruct v; cbn; try discriminate. destruct (fromhex s); [|discriminate]. destruct (_ || _); discriminate. Qed.
Lemma dec_hex_key v : dec (checkformat_hex_key v).
Proof. unfold checkformat_hex_key. dec_step; [apply dec_hex_string|]. repeat dec_step. Qed.
Lemma dec_check_each f l : (forall x, dec (f x)) -> dec (check_each f l).
Proof. intros H. induction l as [|x l IH]; cbn [check_each]; [discriminate|]. dec_step; auto. Qed.
Lemma dec_any_signature v : dec (checkformat_any_signature v).
Proof. unfold checkformat_any_signature. repeat dec_step. Qed.
Lemma dec_list_of_hex_keys v : dec (checkformat_list_of_hex_keys v).
Proof. destruct v; cbn [checkformat_list_of_hex_keys]; try discriminate. dec_step; [apply dec_check_each, dec_hex_key|]. repeat dec_step. Qed.
Lemma dec_require_fields c fs : dec (require_fields c fs).
Proof. induction fs as [|f fs IH]; cbn [require_fields]; [discriminate|]. dec_step; [apply dec_py_in|]. dec_step; [exact IH|discriminate]. Qed.

(* the numeric primitives answer on every value of the JSON domain *)
Lemma dec_num_cmp v c : jdom v = true -> dec (num_cmp_int v c).
Proof.
  destruct v; cbn [num_cmp_int jdom]; try discriminate. intros H. pose proof (float_token_view r H) as Hv.
  destruct (float_view r); try discriminate. congruence.
Qed.
Lemma dec_py_ge v c : jdom v = true -> dec (py_ge_int v c).
Proof. intros H. unfold py_ge_int. dec_step; [apply dec_num_cmp; exact H|discriminate]. Qed.
Lemma dec_py_lt v c : jdom v = true -> dec (py_lt_int v c).
Proof. intros H. unfold py_lt_int. dec_step; [apply dec_num_cmp; exact H|discriminate]. Qed.
Lemma dec_natural v : jdom v = true -> dec (checkformat_natural_int v).
Proof.
  intros H. unfold checkformat_natural_int.
  assert (Hi : dec (py_int v)).
  { destruct v; cbn [py_int jdom] in *; try discriminate. pose proof (float_token_view r H) as Hv. destruct (float_view r); try discriminate. congruence. }
  destruct (py_int v) as [[z same]|e|]; [|destruct e; discriminate|exfalso; apply Hi; reflexivity].
  dec_step; [discriminate|]. dec_step; [apply dec_py_lt; exact H|]. repeat dec_step.
Qed.

Lemma dec_delegation v : jdom v = true -> dec (checkformat_delegation v).
Proof.
  intros H. destruct v; cbn [checkformat_delegation]; try discriminate.
  dec_step; [discriminate|]. dec_step; [apply dec_subscript|].
  assert (Hth : jdom a = true) by (eapply jdom_subscript; eauto).
  dec_step; [apply dec_py_ge; exact Hth|]. dec_step; [discriminate|].
  dec_step; [apply dec_subscript|]. destruct a1; try discriminate. dec_step; [discriminate|].
  dec_step; [apply dec_list_of_hex_keys|]. apply dec_natural; exact Hth.
Qed.

Lemma dec_delegations v : jdom v = true -> dec (checkformat_delegations v).
Proof.
  destruct v; cbn [checkformat_delegations]; try discriminate. intros H.
  assert (Hall : forall kv, In kv m -> jdom (snd kv) = true) by (intros kv Hin; apply (jdom_values m kv H Hin)).
  clear H. induction m as [|[k d] m IH]; cbn [check_delegation_items]; [discriminate|].
  dec_step; [apply dec_string|]. dec_step; [apply dec_delegation; apply (Hall (k, d)); left; reflexivity|].
  apply IH. intros kv Hin. apply Hall. right; exact Hin.
Qed.

Theorem dec_cdm v : jdom v = true -> dec (cdm v).
Proof.
  intros H. unfold checkformat_delegating_metadata.
  dec_step; [apply dec_signable|]. dec_step; [apply dec_subscript|].
  dec_step; [destruct a0; try discriminate; apply dec_check_each, dec_any_signature|].
  dec_step; [apply dec_subscript|].
  assert (Hc : jdom a2 = true) by (eapply jdom_subscript; eauto).
  dec_step; [apply dec_require_fields|]. dec_step; [apply dec_subscript|]. dec_step; [apply dec_string|].
  destruct a4; try discriminate. dec_step; [discriminate|].
  dec_step; [apply dec_subscript|]. dec_step; [apply dec_string|]. dec_step; [apply dec_subscript|].
  dec_step; [apply dec_delegations; eapply jdom_subscript; eauto|].
  dec_step; [apply dec_subscript|]. dec_step; [apply dec_utc|].
  dec_step; [apply dec_py_in|]. dec_step; [apply dec_py_in|].
  dec_step; [discriminate|]. dec_step; [discriminate|].
  dec_step.
  - destruct a11; [|discriminate]. dec_step; [apply dec_subscript|apply dec_utc].
  - destruct a12; [|discriminate]. dec_step; [apply dec_subscript|]. apply dec_natural. eapply jdom_subscript; eauto.
Qed.

Section Total.
  Variable ed_verify : bytes -> bytes -> bytes -> bool.
  Variable sha256 : bytes -> bytes.
  Notation vdel := (verify_delegation ed_verify sha256).

  Lemma dec_type_check u nm : jdom u = true -> dec (type_check u nm).
  Proof.
    intros H. unfold type_check, signed_only.
    pose proof (dec_subscript u (U"signed")) as Hds.
    destruct (subscript u (U"signed")) as [sd| |] eqn:E; cbn [bind]; try discriminate; [|exfalso; apply Hds; reflexivity].
    pose proof (jdom_subscript u _ sd H E) as Hsd.
    assert (Hso : jdom (VDict [(VStr (U"signatures"), VDict []); (VStr (U"signed"), sd)]) = true)
      by (cbn [jdom forallb fst snd map]; rewrite Hsd; reflexivity).
    pose proof (dec_cdm _ Hso) as Hd.
    destruct (cdm _) as [[]|e|]; [|destruct e; discriminate|exfalso; apply Hd; reflexivity].
    dec_step; [apply dec_subscript|]. repeat dec_step.
  Qed.

  (* verify_delegation gives the same verdict on the stored-and-loaded objects, with no side condition on the model *)
  Theorem delegation_verdict_persists_total name u t gpg :
    jdom u = true -> jdom t = true ->
    (forall sm, subscript u (U"signatures") = Ok (VDict sm) -> py_truth gpg = true -> Forall (fun kv => entry_small (snd kv)) sm) ->
    (vdel name (canon u) (canon t) gpg = Ok tt <-> vdel name u t gpg = Ok tt).
  Proof.
    intros Hu Ht Hsmall.
    assert (Hsigs : is_signable u = true -> exists sm, subscript u (U"signatures") = Ok (VDict sm)).
    { intros S. apply is_signable_iff in S as (m & sm & x & -> & Htf & _).
      destruct (two_fields_dget m (U"signatures") (U"signed") _ _ eq_refl Htf) as [E1 _]. exists sm. cbn [subscript]. rewrite E1. reflexivity. }
    assert (Hty : forall nm, is_signable u = true -> (type_check (canon u) nm = Ok tt <-> type_check u nm = Ok tt)).
    { intros nm Es. apply (type_check_canon u nm Hu Es); apply dec_type_check; [exact Hu|apply jdom_canon; exact Hu]. }
    rewrite !verify_delegation_iff. split.
    - intros (nm & keys & th & -> & Eg & Et' & Es' & Ety' & Er' & Hv').
      pose proof (proj1 (cdm_canon t Ht) Et') as Et. pose proof (proj1 (checker_iff_schema t) Et) as Hok.
      pose proof Es' as Es. rewrite (is_signable_canon_iff u Hu) in Es.
      rewrite (role_rule_canon t nm Ht Hok) in Er'.
      destruct (Hsigs Es) as (sm & Esm).
      exists nm, keys, th. repeat split; auto.
      + apply (Hty nm Es). exact Ety'.
      + apply (persist_keeps_verdict ed_verify sha256 u keys th gpg sm Hu Esm (Hsmall sm Esm)). exact Hv'.
    - intros (nm & keys & th & -> & Eg & Et & Es & Ety & Er & Hv).
      pose proof (proj2 (cdm_canon t Ht) Et) as Et'. pose proof (proj1 (checker_iff_schema t) Et) as Hok.
      pose proof Es as Es'. rewrite <- (is_signable_canon_iff u Hu) in Es'.
      destruct (Hsigs Es) as (sm & Esm).
      exists nm, keys, th. repeat split; auto.
      + apply (Hty nm Es). exact Ety.
      + rewrite (role_rule_canon t nm Ht Hok). exact Er.
      + apply (persist_keeps_verdict ed_verify sha256 u keys th gpg sm Hu Esm (Hsmall sm Esm)). exact Hv.
  Qed.
End Total.

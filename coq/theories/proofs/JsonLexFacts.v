(* JsonLexFacts.v: what the lexer of JsonParse.v does on the output of the canonical serializer:
   whitespace, punctuation, atoms and quoted strings (every escape class, surrogate pairs). *)
From CCT Require Import Prelude Hex Json JsonParse.
From CCT.proofs Require Import HexFacts.
From Coq Require Import Lia ZifyN ZifyNat ZifyBool.
Open Scope N_scope.
Ltac Zify.zify_post_hook ::= Z.to_euclidean_division_equations.

Lemma omap_id {A} (o : option A) : option_map (fun k => k) o = o.
Proof. destruct o; reflexivity. Qed.
Lemma omap_comp {A B C} (f : B -> C) (g : A -> B) o : option_map f (option_map g o) = option_map (fun k => f (g k)) o.
Proof. destruct o; reflexivity. Qed.
Lemma omap_ext {A B} (f g : A -> B) o : (forall x, f x = g x) -> option_map f o = option_map g o.
Proof. intros H; destruct o; cbn; [rewrite H|]; reflexivity. Qed.

Lemma unrev_rev l : unrev l = rev l.
Proof. unfold unrev. rewrite rev_append_rev. apply app_nil_r. Qed.

(* r does not continue an atom *)
Definition nd (r : ustr) : Prop := match r with [] => True | c :: _ => is_atom_char c = false end.

(* ---- whitespace and punctuation *)
Lemma lex_ws c r : is_json_ws c = true -> lex LDef (c :: r) = lex LDef r.
Proof.
  intros H. cbn [lex].
  assert (is_atom_char c = false) as ->.
  { unfold is_json_ws in H. repeat (apply orb_true_iff in H as [H|H]); apply N.eqb_eq in H; subst; reflexivity. }
  rewrite H. apply omap_id.
Qed.

Lemma lex_nl k r : lex LDef (nl k ++ r) = lex LDef r.
Proof.
  unfold nl. rewrite <- app_comm_cons, lex_ws by reflexivity.
  generalize (2 * k)%nat as m. induction m as [|m IH]; [reflexivity|].
  cbn [repeat]. rewrite <- app_comm_cons, lex_ws by reflexivity. exact IH.
Qed.

Lemma punct_props c t : punct c = Some t -> is_atom_char c = false /\ is_json_ws c = false /\ (c =? 34) = false.
Proof.
  unfold punct. intros H.
  repeat match type of H with
         | (if ?c =? ?k then _ else _) = _ => destruct (c =? k) eqn:E; [apply N.eqb_eq in E; subst; repeat split; reflexivity|]; clear E
         end.
  discriminate.
Qed.

Lemma lex_punct c t r : punct c = Some t -> lex LDef (c :: r) = option_map (cons t) (lex LDef r).
Proof.
  intros H. destruct (punct_props c t H) as (H1 & H2 & H3). cbn [lex]. rewrite H1, H2, H3, H. reflexivity.
Qed.

(* ---- atoms *)
Lemma lex_atom_acc a : forall acc r, forallb is_atom_char a = true ->
  lex (LAtom acc) (a ++ r) = lex (LAtom (rev a ++ acc)) r.
Proof.
  induction a as [|c a IH]; intros acc r H; [reflexivity|].
  cbn [forallb] in H. apply andb_true_iff in H as [Hc Ha].
  rewrite <- app_comm_cons. cbn [lex]. rewrite Hc. rewrite IH by exact Ha. cbn [rev]. rewrite <- app_assoc. reflexivity.
Qed.

Lemma lex_atom_flush acc r : nd r -> lex (LAtom acc) r = option_map (cons (TAtom (rev acc))) (lex LDef r).
Proof.
  destruct r as [|c r]; intros H.
  - cbn [lex]. rewrite unrev_rev. reflexivity.
  - cbn in H. cbn [lex]. rewrite H. rewrite unrev_rev.
    destruct (is_json_ws c); [destruct (lex LDef r); reflexivity|].
    destruct (c =? 34); [destruct (lex (LStr [] false) r); reflexivity|].
    destruct (punct c); [|reflexivity]. rewrite omap_comp. reflexivity.
Qed.

Lemma lex_atom a r : a <> [] -> forallb is_atom_char a = true -> nd r ->
  lex LDef (a ++ r) = option_map (cons (TAtom a)) (lex LDef r).
Proof.
  intros Hne Ha Hr. destruct a as [|c a]; [contradiction|].
  cbn [forallb] in Ha. apply andb_true_iff in Ha as [Hc Ha].
  rewrite <- app_comm_cons. cbn [lex]. rewrite Hc. rewrite lex_atom_acc by exact Ha.
  rewrite lex_atom_flush by exact Hr. rewrite rev_app_distr. cbn [rev]. rewrite rev_involutive. reflexivity.
Qed.

(* ---- strings *)
Definition cp_ok (c : N) : bool := c <? 1114112.
(* no high surrogate immediately followed by a low surrogate (such a pair serializes like the character it encodes) *)
Fixpoint no_pairb (s : ustr) : bool :=
  match s with
  | a :: ((b :: _) as r) => negb (is_high a && is_low b) && no_pairb r
  | _ => true
  end.
Definition wf_str (s : ustr) : bool := forallb cp_ok s && no_pairb s.

Lemma hexd_hexval d : d < 16 -> hexval (hexd d) = Some d.
Proof.
  intros H. assert (Hall : forallb (fun n => match hexval (hexd n) with Some m => m =? n | None => false end) (map N.of_nat (seq 0 16)) = true) by reflexivity.
  rewrite forallb_forall in Hall. specialize (Hall d).
  assert (In d (map N.of_nat (seq 0 16))).
  { apply in_map_iff. exists (N.to_nat d). split; [apply N2Nat.id|]. apply in_seq. lia. }
  specialize (Hall H0). destruct (hexval (hexd d)); [|discriminate]. apply N.eqb_eq in Hall. congruence.
Qed.

(* the four hex digits of a \uXXXX escape *)
Lemma lex_u4 acc hi c r : c < 65536 ->
  lex (LU acc hi 4 0) ([hexd (c / 4096 mod 16); hexd (c / 256 mod 16); hexd (c / 16 mod 16); hexd (c mod 16)] ++ r) =
  if hi && is_low c
  then match acc with h :: acc' => lex (LStr (join_surrogates h c :: acc') false) r | [] => None end
  else lex (LStr (c :: acc) (is_high c)) r.
Proof.
  intros Hc. cbn [app lex].
  rewrite !hexd_hexval by (apply N.mod_lt; lia). cbv zeta.
  replace (16 * (16 * (16 * (16 * 0 + c / 4096 mod 16) + c / 256 mod 16) + c / 16 mod 16) + c mod 16) with c by lia.
  reflexivity.
Qed.

Lemma lex_u_escape acc hi c r : c < 65536 ->
  lex (LStr acc hi) (u_escape c ++ r) =
  if hi && is_low c
  then match acc with h :: acc' => lex (LStr (join_surrogates h c :: acc') false) r | [] => None end
  else lex (LStr (c :: acc) (is_high c)) r.
Proof.
  intros Hc. unfold u_escape. rewrite <- !app_comm_cons. cbn [lex].
  change (92 =? 34) with false. change (92 =? 92) with true. cbv iota. change (117 =? 117) with true. cbv iota.
  exact (lex_u4 acc hi c r Hc).
Qed.

(* one character of the payload, as the serializer writes it *)
Lemma lex_quote_char acc hi c r : cp_ok c = true -> (hi = true -> is_low c = false) ->
  lex (LStr acc hi) (quote_char c ++ r) = lex (LStr (c :: acc) (is_high c)) r.
Proof.
  intros Hc Hhi. unfold cp_ok in Hc. apply N.ltb_lt in Hc. unfold quote_char.
  destruct (c =? 34) eqn:E1. { apply N.eqb_eq in E1; subst. reflexivity. }
  destruct (c =? 92) eqn:E2. { apply N.eqb_eq in E2; subst. reflexivity. }
  destruct (c =? 10) eqn:E3. { apply N.eqb_eq in E3; subst. reflexivity. }
  destruct (c =? 13) eqn:E4. { apply N.eqb_eq in E4; subst. reflexivity. }
  destruct (c =? 9) eqn:E5. { apply N.eqb_eq in E5; subst. reflexivity. }
  destruct (c =? 8) eqn:E6. { apply N.eqb_eq in E6; subst. reflexivity. }
  destruct (c =? 12) eqn:E7. { apply N.eqb_eq in E7; subst. reflexivity. }
  destruct ((32 <=? c) && (c <=? 126)) eqn:E8.
  - cbn [app lex]. rewrite E1, E2.
    assert ((c <? 32) = false) as -> by lia.
    assert (is_high c = false) as -> by (unfold is_high; lia). reflexivity.
  - destruct (c <? 65536) eqn:E9.
    + rewrite lex_u_escape by lia.
      destruct hi; cbn [andb]; [rewrite (Hhi eq_refl)|]; reflexivity.
    + (* a character outside the BMP: an escaped surrogate pair, joined again *)
      set (v := c - 65536). rewrite <- app_assoc.
      assert (Hv : v < 1048576) by (unfold v; lia).
      assert (H1 : 55296 + v / 1024 < 65536) by (pose proof (N.div_lt_upper_bound v 1024 1024); lia).
      assert (H2 : 56320 + v mod 1024 < 65536) by (pose proof (N.mod_lt v 1024); lia).
      rewrite lex_u_escape by exact H1.
      assert (is_low (55296 + v / 1024) = false) as ->.
      { unfold is_low. pose proof (N.div_lt_upper_bound v 1024 1024). lia. }
      rewrite andb_false_r.
      assert (is_high (55296 + v / 1024) = true) as ->.
      { unfold is_high. pose proof (N.div_lt_upper_bound v 1024 1024). lia. }
      rewrite lex_u_escape by exact H2.
      assert (is_low (56320 + v mod 1024) = true) as ->.
      { unfold is_low. pose proof (N.mod_lt v 1024). lia. }
      cbn [andb].
      assert (join_surrogates (55296 + v / 1024) (56320 + v mod 1024) = c) as ->.
      { unfold join_surrogates. unfold v in *. pose proof (N.div_mod (c - 65536) 1024). lia. }
      assert (is_high c = false) as -> by (unfold is_high; lia). reflexivity.
Qed.

Lemma lex_quote_chars s : forall acc hi r, forallb cp_ok s = true -> no_pairb s = true ->
  (hi = true -> match s with c :: _ => is_low c = false | [] => True end) ->
  lex (LStr acc hi) (flat_map quote_char s ++ [34] ++ r) = option_map (cons (TStr (rev acc ++ s))) (lex LDef r).
Proof.
  induction s as [|c s IH]; intros acc hi r Hok Hnp Hhi.
  - cbn [flat_map app lex]. change (34 =? 34) with true. cbv iota. rewrite unrev_rev, app_nil_r. reflexivity.
  - cbn [forallb] in Hok. apply andb_true_iff in Hok as [Hc Hs].
    cbn [flat_map]. rewrite <- app_assoc. rewrite lex_quote_char by auto.
    rewrite IH.
    + cbn [rev]. rewrite <- app_assoc. reflexivity.
    + exact Hs.
    + destruct s as [|b s']; [reflexivity|]. cbn [no_pairb] in Hnp. apply andb_true_iff in Hnp as [_ H]. exact H.
    + intros Hh. destruct s as [|b s']; [exact I|]. cbn [no_pairb] in Hnp. apply andb_true_iff in Hnp as [H _].
      rewrite Hh in H. cbn [andb negb] in H. destruct (is_low b); [discriminate|reflexivity].
Qed.

Lemma lex_quote s r : wf_str s = true ->
  lex LDef (quote s ++ r) = option_map (cons (TStr s)) (lex LDef r).
Proof.
  intros H. unfold wf_str in H. apply andb_true_iff in H as [H1 H2].
  unfold quote. rewrite <- app_comm_cons. cbn [lex]. change (is_atom_char 34) with false. change (is_json_ws 34) with false.
  change (34 =? 34) with true. cbv iota. rewrite omap_id.
  rewrite <- app_assoc. rewrite lex_quote_chars; auto. intros [=].
Qed.

(* SourceWrapFacts.v: wrap_as_signable of signing.py (Gen/Source.v, interpreted) against its hand-written model. *)
From Coq Require Import String.
From CCT Require Import Prelude Hex Num Time Formats Json Auth Signing PySrc.
From CCT.Gen Require Source Params.
From CCT.proofs Require Import SourceFacts.
Open Scope N_scope.

(* values of the universe that deepcopy leaves out: instances of user classes and key objects -- none of them has a serializable type *)
Lemma src_wrap_as_signable : forall v, run "wrap_as_signable" [v] = wrap_as_signable v.
Proof.
  intros v. remember (wrap_as_signable v) as rhs eqn:Hr. src_enter.
  change (type_in v [TyDict; TyList; TyTuple; TyStr; TyInt; TyFloat; TyBool; TyNone]) with (type_in v Params.serializable_types).
  unfold wrap_as_signable in Hr. subst rhs.
  destruct (type_in v Params.serializable_types) eqn:T; scbn; [|reflexivity].
  src_builtin "deepcopy"%string.
  destruct v; try discriminate T; reflexivity.
Qed.

(* what the text of signing.py says about wrapping: accepted exactly for the serializable types, and then the two-field envelope with
   an empty signature map around the very value *)
Lemma src_wrap_meaning : forall v,
  (type_in v Params.serializable_types = true ->
     run "wrap_as_signable" [v] = Ok (VDict [(VStr (U"signatures"), VDict []); (VStr (U"signed"), v)]))
  /\ (type_in v Params.serializable_types = false -> run "wrap_as_signable" [v] = Err TypeError).
Proof.
  intros v. rewrite src_wrap_as_signable. unfold wrap_as_signable. split; intros ->; reflexivity.
Qed.

(* SourceEnvFacts.v: is_signable / checkformat_signable of common.py (Gen/Source.v, interpreted) against their hand-written model. *)
From Coq Require Import String Lia.
From CCT Require Import Prelude Hex Num Time Formats Json PySrc.
From CCT.Gen Require Source Params.
From CCT.proofs Require Import HexFacts SourceFacts SourceSigFacts.
Open Scope N_scope.

(* dicts as CPython has them: keys pairwise distinct; and no key that is an instance of a user class (its __eq__ is not modelled) *)
Definition dict_ok (v : pv) : Prop :=
  match v with VDict m => NoDup (map fst m) /\ forallb plain_key (map fst m) = true | _ => True end.

Definition in2 (a b : ustr) (x : pv) : bool :=
  match x with VStr s => ustr_eqb s a || (ustr_eqb s b || false) | _ => false end.

Lemma in2_keys : forall a b x, in2 a b x = key_is a x || key_is b x.
Proof. intros a b x. destruct x; try reflexivity. cbn. rewrite orb_false_r. reflexivity. Qed.

(* set(d) == {a, b} for a dict with pairwise distinct keys is "exactly the two keys a and b" *)
Lemma keys2_check : forall m a b, a <> b -> NoDup (map fst m) ->
  forallb (in2 a b) (map fst m) && (existsb (key_is a) (map fst m) && (existsb (key_is b) (map fst m) && true)) = keys_are2 m a b.
Proof.
  intros m a b Hab ND.
  assert (X : forall x, key_is a x = true -> key_is b x = true -> False).
  { intros x H1 H2. apply key_is_true in H1. apply key_is_true in H2. subst. injection H2 as E. apply Hab. exact E. }
  destruct m as [|[k1 v1] [|[k2 v2] [|[k3 v3] r]]]; cbn [map fst forallb existsb keys_are2]; rewrite ?in2_keys.
  - reflexivity.
  - destruct (key_is a k1) eqn:A1; destruct (key_is b k1) eqn:B1; try reflexivity. exfalso. exact (X k1 A1 B1).
  - assert (D : k1 <> k2) by (inversion ND as [|? ? N _]; subst; intros ->; apply N; left; reflexivity).
    destruct (key_is a k1) eqn:A1; destruct (key_is b k1) eqn:B1; destruct (key_is a k2) eqn:A2; destruct (key_is b k2) eqn:B2;
      try reflexivity; exfalso;
      try (exact (X k1 A1 B1)); try (exact (X k2 A2 B2));
      repeat match goal with H : key_is _ _ = true |- _ => apply key_is_true in H end; subst; apply D; reflexivity.
  - assert (D12 : k1 <> k2) by (inversion ND as [|? ? N _]; subst; intros ->; apply N; left; reflexivity).
    assert (D13 : k1 <> k3) by (inversion ND as [|? ? N _]; subst; intros ->; apply N; right; left; reflexivity).
    assert (D23 : k2 <> k3) by (inversion ND as [|? ? _ ND']; subst; inversion ND' as [|? ? N _]; subst; intros ->; apply N; left; reflexivity).
    destruct (key_is a k1) eqn:A1; destruct (key_is b k1) eqn:B1; destruct (key_is a k2) eqn:A2; destruct (key_is b k2) eqn:B2;
    destruct (key_is a k3) eqn:A3; destruct (key_is b k3) eqn:B3; cbn [orb andb]; try reflexivity; exfalso;
      repeat match goal with H : key_is _ _ = true |- _ => apply key_is_true in H end; subst;
      first [apply D12; reflexivity | apply D13; reflexivity | apply D23; reflexivity | (injection A1 as E; apply Hab; congruence)
            | (apply Hab; congruence) | idtac].
Qed.

Lemma src_is_signable : forall v, dict_ok v -> run "is_signable" [v] = Ok (VBool (is_signable v)).
Proof.
  intros v W. destruct v; try reflexivity.
  remember (is_signable (VDict m)) as rhs eqn:Hr.
  src_enter. src_builtin "set"%string. scbn.
  destruct W as [ND PK]. rewrite PK. scbn.
  change (forallb _ (map fst m)) with (forallb (in2 (U"signatures") (U"signed")) (map fst m)).
  rewrite (keys2_check m (U"signatures") (U"signed")); [|discriminate|exact ND].
  subst rhs. cbn [is_signable].
  destruct (keys_are2 m (U"signatures") (U"signed")) eqn:K; scbn; [|reflexivity].
  assert (H : dhas m (U"signatures") = true /\ dhas m (U"signed") = true).
  { revert K. unfold keys_are2. destruct m as [|[k1 v1] [|[k2 v2] [|]]]; try discriminate. rewrite !dhas2. intros K.
    apply orb_prop in K. destruct K as [K|K]; apply andb_prop in K; destruct K as [K1 K2]; rewrite K1, K2; rewrite ?orb_true_r; auto. }
  destruct H as [H1 H2]. unfold dhas in H1, H2.
  destruct (dget m (U"signatures")) as [sg|]; [|discriminate H1]. scbn.
  destruct (is_dict sg); scbn; [|reflexivity].
  destruct (dget m (U"signed")) as [sd|]; [|discriminate H2]. reflexivity.
Qed.

Lemma src_checkformat_signable : forall v, dict_ok v ->
  run "checkformat_signable" [v] = returns_arg (checkformat_signable v) v.
Proof.
  intros v W. src_enter. src_call "is_signable"%string. rewrite (src_is_signable v W). scbn.
  unfold returns_arg, checkformat_signable. destruct (is_signable v); reflexivity.
Qed.

(* JSON values (and everything json.load returns) are dict_ok at the top: str keys, pairwise distinct *)
Lemma dict_ok_str_keys : forall m, all_str_keys m = true -> NoDup (map fst m) -> dict_ok (VDict m).
Proof.
  intros m A ND. split; [exact ND|]. induction m as [|[k v] m IH]; [reflexivity|].
  cbn in A. apply andb_prop in A. destruct A as [A1 A2]. cbn [map fst forallb]. rewrite IH; [|exact A2| inversion ND; assumption].
  destruct k; try discriminate A1. reflexivity.
Qed.

Lemma src_envelope_two_fields : forall m, dict_ok (VDict m) ->
  run "is_signable" [VDict m] = Ok (VBool true) ->
  exists x y, (m = [(VStr (U"signatures"), x); (VStr (U"signed"), y)] \/ m = [(VStr (U"signed"), y); (VStr (U"signatures"), x)])
              /\ is_dict x = true /\ type_in y Params.serializable_types = true.
Proof.
  intros m W. rewrite (src_is_signable (VDict m) W). intros [= H]. revert H. cbn [is_signable].
  destruct m as [|[k1 v1] [|[k2 v2] [|]]]; try discriminate. cbn [keys_are2].
  intros H. apply andb_prop in H. destruct H as [H T]. apply andb_prop in H. destruct H as [K D].
  apply orb_prop in K. destruct K as [K|K]; apply andb_prop in K; destruct K as [K1 K2];
    apply key_is_true in K1; apply key_is_true in K2; subst.
  - exists v1, v2. split; [left; reflexivity|]. revert D T. cbn. 
    replace (ustr_eqb (U"signatures") (U"signed")) with false by reflexivity.
    replace (ustr_eqb (U"signatures") (U"signatures")) with true by reflexivity.
    replace (ustr_eqb (U"signed") (U"signed")) with true by reflexivity. cbn. intros D T. split; assumption.
  - exists v2, v1. split; [right; reflexivity|]. revert D T. cbn.
    replace (ustr_eqb (U"signed") (U"signatures")) with false by reflexivity.
    replace (ustr_eqb (U"signatures") (U"signatures")) with true by reflexivity.
    replace (ustr_eqb (U"signed") (U"signed")) with true by reflexivity. cbn. intros D T. split; assumption.
Qed.

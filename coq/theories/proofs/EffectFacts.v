(* EffectFacts.v: a skeleton that passes the syntactic criterion has only two-phase traces (C18). *)
From Coq Require Import List Bool Lia.
Import ListNotations.
From CCT Require Import Effects.

Lemma quiet_tr p : quietb p = true -> forall t, tr p t -> Forall (fun e => is_quiet e = true) t.
Proof.
  intros Hq t H. induction H; cbn in Hq.
  - constructor; auto.
  - constructor.
  - apply andb_true_iff in Hq as [H1 H2]. apply Forall_app. split; auto.
  - constructor.
  - apply Forall_app. split; auto.
  - apply andb_true_iff in Hq as [H1 H2]. auto.
  - apply andb_true_iff in Hq as [H1 H2]. auto.
Qed.

Lemma tail_tr p : tailb p = true -> forall t, tr p t -> Forall (fun e => is_tail e = true) t.
Proof.
  intros Hq t H. induction H; cbn in Hq.
  - constructor; auto.
  - constructor.
  - apply andb_true_iff in Hq as [H1 H2]. apply Forall_app. split; auto.
  - constructor.
  - apply Forall_app. split; auto.
  - apply andb_true_iff in Hq as [H1 H2]. auto.
  - apply andb_true_iff in Hq as [H1 H2]. auto.
Qed.

Lemma two_phase_quiet t : Forall (fun e => is_quiet e = true) t -> two_phase t.
Proof. intros H. exists t, []. rewrite app_nil_r. repeat split; auto. Qed.

Lemma two_phase_tail t : Forall (fun e => is_tail e = true) t -> two_phase t.
Proof. intros H. exists [], t. repeat split; auto. Qed.

Lemma two_phase_quiet_app t1 t2 : Forall (fun e => is_quiet e = true) t1 -> two_phase t2 -> two_phase (t1 ++ t2).
Proof.
  intros H (pre & post & -> & Hp & Hq). exists (t1 ++ pre), post. rewrite app_assoc. repeat split; auto.
  apply Forall_app; auto.
Qed.

Lemma two_phase_app_tail t1 t2 : two_phase t1 -> Forall (fun e => is_tail e = true) t2 -> two_phase (t1 ++ t2).
Proof.
  intros (pre & post & -> & Hp & Hq) H. exists pre, (post ++ t2). rewrite app_assoc. repeat split; auto.
  apply Forall_app; auto.
Qed.

Lemma tr_seq_tail l : forallb tailb l = true -> forall t, tr (Seq l) t -> Forall (fun e => is_tail e = true) t.
Proof. intros H. apply (tail_tr (Seq l)). exact H. Qed.

Theorem wfb_sound : forall p, wfb p = true -> forall t, tr p t -> two_phase t.
Proof.
  fix IH 1. intros p Hw t Ht.
  destruct (quietb p) eqn:Eq. { apply two_phase_quiet. eapply quiet_tr; eauto. }
  destruct (tailb p) eqn:Et. { apply two_phase_tail. eapply tail_tr; eauto. }
  destruct p as [e|l|q|a b]; cbn [wfb] in Hw; rewrite Eq, Et in Hw; cbn [orb] in Hw; try discriminate.
  - (* Seq *)
    clear Eq Et. revert t Ht. induction l as [|x r IHl]; intros t Ht.
    + inversion Ht; subst. apply two_phase_quiet. constructor.
    + inversion Ht as [| |p0 l0 t1 t2 H1 H2| | | |]; subst.
      destruct (quietb x) eqn:Ex.
      * apply two_phase_quiet_app; [eapply quiet_tr; eauto|]. apply IHl; auto.
      * apply andb_true_iff in Hw as [Hx Hr]. apply two_phase_app_tail; [apply (IH x Hx); auto|].
        eapply tr_seq_tail; eauto.
  - (* Alt *)
    apply andb_true_iff in Hw as [Ha Hb]. inversion Ht; subst; [apply (IH a Ha)|apply (IH b Hb)]; auto.
Qed.

(* consequences for the file on disk *)
Lemma quiet_keeps_file t s : Forall (fun e => is_quiet e = true) t -> fold_left file_step t s = s.
Proof.
  intros H. revert s. induction H as [|e t He _ IH]; intros s; [reflexivity|]. cbn [fold_left].
  rewrite IH. destruct e; cbn in *; try discriminate; reflexivity.
Qed.

(* a fault before the output phase leaves the file byte-identical: any prefix of a two-phase trace that
   contains no open/write effect has performed quiet effects only, and the file is the original *)
Theorem fault_before_output_keeps_file p : wfb p = true ->
  forall pre, faulted_run p pre -> existsb is_output pre = false -> file_after pre = Original.
Proof.
  intros Hw pre [post Ht] Hno. unfold file_after.
  assert (H : forall s, fold_left file_step pre s = s).
  { clear Ht. induction pre as [|e pre IH]; intros s; [reflexivity|]. cbn [existsb] in Hno.
    apply orb_false_iff in Hno as [He Hr]. cbn [fold_left]. rewrite (IH Hr). destruct e; cbn in *; try discriminate; reflexivity. }
  apply H.
Qed.

(* output starts only after every signature has been computed and the result serialized: once the first
   open/write effect has happened, nothing but open/write/close follows *)
Theorem no_partial_output p : wfb p = true ->
  forall t1 e t2, tr p (t1 ++ e :: t2) -> is_output e = true ->
  Forall (fun x => is_tail x = true) t2
  /\ (forall x, In x t2 -> x <> ESign /\ x <> ESerialize /\ x <> EValidate /\ x <> ERead /\ x <> EUnknown).
Proof.
  intros Hw t1 e t2 Ht He. destruct (wfb_sound p Hw _ Ht) as (pre & post & Heq & Hpre & Hpost).
  assert (Ht2 : Forall (fun x => is_tail x = true) t2).
  { (* e is not quiet, so it lies in post; everything after it is in post as well *)
    clear Ht. revert t1 Heq. induction pre as [|a pre IH]; intros t1 Heq.
    - cbn in Heq. subst post. apply Forall_app in Hpost as [_ H]. inversion H; auto.
    - destruct t1 as [|b t1]; cbn in Heq.
      + injection Heq as <- _. inversion Hpre as [|? ? Ha _]; subst. destruct e; cbn in *; discriminate.
      + injection Heq as <- Heq. inversion Hpre; subst. eapply IH; eauto. }
  split; [exact Ht2|]. intros x Hx. rewrite Forall_forall in Ht2. specialize (Ht2 x Hx).
  repeat split; intros ->; discriminate.
Qed.

(* SignableFacts.v: verify_signable -- threshold soundness, completeness, order independence. *)
From CCT Require Import Prelude Hex Num Time Formats Json Auth.
From CCT.Gen Require Params.
From CCT.proofs Require Import HexFacts SigFacts AuthFacts.
From Coq Require Import Lia Permutation.
Open Scope N_scope.

Section Signable.
  Variable ed_verify : bytes -> bytes -> bytes -> bool.
  Variable sha256 : bytes -> bytes.
  Notation vsig := (verify_signable ed_verify sha256).
  Notation ecount := (entry_counts ed_verify sha256).

  (* the successful path of verify_signable, spelled out *)
  Definition accepts_with (s K t gpg : pv) kl tz sd data sm good : Prop :=
    is_signable s = true /\ K = VList kl /\ forallb is_hex_key kl = true
    /\ threshold_value t = Some tz /\ (0 < tz)%Z
    /\ subscript s (U"signed") = Ok sd /\ canonserialize sd = Ok data
    /\ subscript s (U"signatures") = Ok (VDict sm)
    /\ count_m (ecount (py_truth gpg) kl data) sm = Ok good /\ (tz <= Z.of_nat good)%Z.

  Lemma verify_signable_ok s K t gpg :
    vsig s K t gpg = Ok tt <-> exists kl tz sd data sm good, accepts_with s K t gpg kl tz sd data sm good.
  Proof.
    unfold verify_signable, accepts_with. split.
    - destruct (is_signable s) eqn:Es; cbn [negb]; [|discriminate].
      destruct K; try discriminate.
      destruct (forallb is_hex_key l) eqn:Ek; cbn [negb]; [|discriminate].
      destruct (threshold_value t) as [tz|] eqn:Et; [|discriminate].
      destruct (tz <=? 0)%Z eqn:Ez; [discriminate|].
      destruct (subscript s (U"signed")) as [sd| |] eqn:Esd; cbn [bind]; try discriminate.
      destruct (canonserialize sd) as [data| |] eqn:Ed; cbn [bind]; try discriminate.
      destruct (subscript s (U"signatures")) as [sigs| |] eqn:Esg; cbn [bind]; try discriminate.
      destruct sigs; try discriminate.
      destruct (count_m _ m) as [good| |] eqn:Ec; cbn [bind]; try discriminate.
      destruct (Z.of_nat good <? tz)%Z eqn:Eg; [discriminate|]. intros _.
      exists l, tz, sd, data, m, good. repeat (split; auto); lia.
    - intros (kl & tz & sd & data & sm & good & Es & -> & Ek & Et & Hz & Esd & Ed & Esg & Ec & Hg).
      rewrite Es, Ek, Et. cbn [negb].
      assert ((tz <=? 0)%Z = false) as -> by lia.
      rewrite Esd. cbn [bind]. rewrite Ed. cbn [bind]. rewrite Esg. cbn [bind]. rewrite Ec. cbn [bind].
      assert ((Z.of_nat good <? tz)%Z = false) as -> by lia. reflexivity.
  Qed.

  (* ---- C01: soundness *)
  Theorem verify_signable_sound s K t gpg :
    vsig s K t gpg = Ok tt ->
    exists kl tz sd data sm,
      is_signable s = true /\ K = VList kl /\ threshold_value t = Some tz /\ (1 <= tz)%Z
      /\ subscript s (U"signed") = Ok sd /\ canonserialize sd = Ok data
      /\ subscript s (U"signatures") = Ok (VDict sm)
      /\ exists cs,
           incl cs sm /\ (NoDup (map fst sm) -> NoDup (map fst cs))
           /\ (tz <= Z.of_nat (length cs))%Z
           /\ Forall (fun kv => valid_entry ed_verify sha256 (py_truth gpg) kl data (fst kv) (snd kv)) cs.
  Proof.
    intros H. apply verify_signable_ok in H as (kl & tz & sd & data & sm & good & Es & -> & Ek & Et & Hz & Esd & Ed & Esg & Ec & Hg).
    exists kl, tz, sd, data, sm. repeat (split; auto); [lia|].
    apply count_m_ok in Ec as [_ ->].
    exists (filter (counts (ecount (py_truth gpg) kl data)) sm). repeat split.
    - intros x Hx. apply filter_In in Hx. tauto.
    - apply NoDup_map_filter.
    - exact Hg.
    - apply Forall_forall. intros [k v] Hx. apply filter_In in Hx as [_ Hc].
      unfold counts in Hc. cbn [fst snd].
      destruct (ecount (py_truth gpg) kl data (k, v)) as [[]| |] eqn:E; try discriminate.
      apply entry_counts_true in E. exact E.
  Qed.

  (* the counted keys are pairwise distinct as byte strings, not only as spellings *)
  Lemma counted_keys_distinct_bytes gpg kl data (cs : list (pv * pv)) :
    NoDup (map fst cs) ->
    Forall (fun kv => valid_entry ed_verify sha256 gpg kl data (fst kv) (snd kv)) cs ->
    NoDup (map (fun kv => key_bytes (fst kv)) cs).
  Proof.
    induction cs as [|[k v] cs IH]; cbn [map fst]; intros Hn Hf; [constructor|].
    inversion Hn as [|? ? Hnotin Hn']; subst. inversion Hf as [|? ? Hv Hf']; subst.
    constructor; auto. intros Hin. apply in_map_iff in Hin as ([k' v'] & Hk & Hin').
    cbn [fst] in *. rewrite Forall_forall in Hf'. specialize (Hf' _ Hin'). cbn [fst snd] in *.
    destruct Hv as (h & -> & Hh & _). destruct Hf' as (h' & -> & Hh' & _).
    cbn [key_bytes] in Hk. assert (h' = h) by (eapply (fromhex_injective 64); eauto). subst.
    apply Hnotin. apply in_map_iff. exists (VStr h, v'). auto.
  Qed.

  Theorem unauthorized_never_counts gpg kl data k v :
    ~ In k kl -> ecount gpg kl data (k, v) <> Ok true.
  Proof. intros Hn E. apply entry_counts_true in E as (h & -> & _ & Hin & _). auto. Qed.

  Theorem malformed_key_never_counts gpg kl data k v :
    is_hex_key k = false -> ecount gpg kl data (k, v) <> Ok true.
  Proof.
    intros Hn E. apply entry_counts_true in E as (h & -> & Hh & _).
    assert (is_hex_key (VStr h) = true) by (apply is_hex_key_iff; eauto). congruence.
  Qed.

  Theorem malformed_value_never_counts (gpg : bool) kl data k v :
    (if gpg then is_gpg_signature v else is_signature v) = false -> ecount gpg kl data (k, v) <> Ok true.
  Proof.
    intros Hn E. apply entry_counts_true in E as (h & -> & Hh & _ & H). destruct gpg.
    - destruct H as (m & ? & ? & ? & ? & ? & -> & Hs & _). apply is_gpg_signature_iff in Hs. congruence.
    - destruct H as (m & ? & ? & -> & Hs & _). apply is_signature_iff in Hs. congruence.
  Qed.

  (* ---- C02: completeness *)
  Theorem verify_signable_complete s kl tz gpg sd data sm cs :
    is_signable s = true -> forallb is_hex_key kl = true -> (1 <= tz)%Z ->
    subscript s (U"signed") = Ok sd -> canonserialize sd = Ok data ->
    subscript s (U"signatures") = Ok (VDict sm) ->
    (py_truth gpg = true -> Forall (fun kv => entry_small (snd kv)) sm) ->
    NoDup cs -> incl cs sm -> (tz <= Z.of_nat (length cs))%Z ->
    Forall (fun kv => valid_entry ed_verify sha256 (py_truth gpg) kl data (fst kv) (snd kv)) cs ->
    vsig s (VList kl) (VInt tz) gpg = Ok tt.
  Proof.
    intros Es Ek Hz Esd Ed Esg Hsmall Hn Hincl Hlen Hvalid.
    apply verify_signable_ok.
    assert (T : total_on (ecount (py_truth gpg) kl data) sm).
    { intros [k v] Hin. destruct (py_truth gpg) eqn:Eg.
      - apply entry_counts_total. specialize (Hsmall eq_refl). rewrite Forall_forall in Hsmall.
        apply (Hsmall (k, v) Hin).
      - (* raw mode never reaches the framing, so no size premise is needed *)
        unfold entry_counts. destruct (is_hex_key k) eqn:E1; cbn [negb andb]; [|eauto].
        apply is_hex_key_iff in E1 as (h & -> & Hh). cbn [key_text].
        destruct (existsb (key_is h) kl); cbn [negb]; [|eauto].
        destruct (is_signature v) eqn:E2; cbn [negb]; [|eauto].
        pose proof (entry_counts_total ed_verify sha256 false kl data (VStr h) v) as Ht.
        assert (Hs : entry_small v \/ True) by auto.
        (* reuse the general lemma with the trivial observation that raw mode ignores entry_small *)
        rewrite (pub_from_hex_ok h Hh). cbn [bind].
        apply is_signature_iff in E2.
        assert (exists m sg, v = VDict m /\ dget m (U"signature") = Some sg) as (m & sg & -> & Hsg).
        { destruct E2 as [(sg & -> & _)|(m & oh & sg & -> & _ & _ & _ & H2 & _)]; [|eauto].
          eexists _, _. split; [reflexivity|]. cbn [dget].
          assert (key_is (U"signature") (VStr (U"signature")) = true) as -> by (apply key_is_eq; reflexivity).
          reflexivity. }
        cbn [subscript]. rewrite Hsg. cbn [bind].
        destruct (verify_signature_outcomes ed_verify sg (keyb h) data) as [->|[->| E]]; eauto.
        exfalso. apply checkformat_signature_iff in E2. cbn [checkformat_signature] in E2. rewrite Hsg in E2.
        cbn [verify_signature] in E. destruct (is_hex_signature sg) eqn:E3; cbn [negb] in *; [|discriminate].
        apply is_hex_signature_iff in E3 as (s0 & -> & Hs0).
        destruct (lower_hex_fromhex 128 s0 eq_refl Hs0) as (b & Eb & _). rewrite Eb in E.
        destruct (ed_verify _ _ _); discriminate. }
    exists kl, tz, sd, data, sm, (length (filter (counts (ecount (py_truth gpg) kl data)) sm)).
    unfold accepts_with. repeat (split; auto); try lia.
    - apply count_m_total; auto.
    - assert (length cs <= length (filter (counts (ecount (py_truth gpg) kl data)) sm))%nat; [|lia].
      apply NoDup_incl_length; auto. intros [k v] Hin. apply filter_In. split; auto.
      rewrite Forall_forall in Hvalid. specialize (Hvalid _ Hin). cbn [fst snd] in Hvalid.
      apply entry_counts_true in Hvalid. unfold counts. rewrite Hvalid. reflexivity.
  Qed.

  (* acceptance is monotone in the threshold *)
  Theorem threshold_monotone s K tz tz' gpg :
    vsig s K (VInt tz) gpg = Ok tt -> (1 <= tz' <= tz)%Z -> vsig s K (VInt tz') gpg = Ok tt.
  Proof.
    intros H Hle. apply verify_signable_ok in H as (kl & tz0 & sd & data & sm & good & Es & -> & Ek & Et & Hz & Esd & Ed & Esg & Ec & Hg).
    cbn in Et. injection Et as <-.
    apply verify_signable_ok. exists kl, tz', sd, data, sm, good. unfold accepts_with. repeat (split; auto); lia.
  Qed.

  (* accept at threshold t  <->  t <= number of counting entries, when every entry is decidable *)
  Theorem accept_iff_enough s kl tz gpg sd data sm :
    is_signable s = true -> forallb is_hex_key kl = true -> (1 <= tz)%Z ->
    subscript s (U"signed") = Ok sd -> canonserialize sd = Ok data ->
    subscript s (U"signatures") = Ok (VDict sm) ->
    total_on (ecount (py_truth gpg) kl data) sm ->
    (vsig s (VList kl) (VInt tz) gpg = Ok tt <->
     (tz <= Z.of_nat (length (filter (counts (ecount (py_truth gpg) kl data)) sm)))%Z)
    /\ (vsig s (VList kl) (VInt tz) gpg <> Ok tt -> vsig s (VList kl) (VInt tz) gpg = Err SignatureError).
  Proof.
    intros Es Ek Hz Esd Ed Esg T. pose proof (count_m_total _ _ T) as Ec. split; [split|].
    - intros H. apply verify_signable_ok in H as (kl' & tz0 & sd' & data' & sm' & good & _ & [= <-] & _ & Et & _ & Esd' & Ed' & Esg' & Ec' & Hg).
      cbn in Et. injection Et as <-. rewrite Esd in Esd'. injection Esd' as <-.
      rewrite Ed in Ed'. injection Ed' as <-. rewrite Esg in Esg'. injection Esg' as <-.
      rewrite Ec in Ec'. injection Ec' as <-. exact Hg.
    - intros H. apply verify_signable_ok. eexists kl, tz, sd, data, sm, _. unfold accepts_with.
      repeat (split; eauto); lia.
    - intros Hn. unfold verify_signable in *. rewrite Es, Ek in *. cbn [negb threshold_value] in *.
      destruct (tz <=? 0)%Z eqn:Ez; [lia|]. rewrite Esd in *. cbn [bind] in *. rewrite Ed in *. cbn [bind] in *.
      rewrite Esg in *. cbn [bind] in *. rewrite Ec in *. cbn [bind] in *.
      destruct (_ <? tz)%Z; [reflexivity|congruence].
  Qed.

  (* verdict invariant under permutation of the signature entries and of the key list *)
  Lemma existsb_perm {A} (p : A -> bool) l l' : Permutation l l' -> existsb p l = existsb p l'.
  Proof.
    induction 1; cbn; auto.
    - congruence.
    - destruct (p x), (p y); reflexivity.
    - congruence.
  Qed.

  Lemma forallb_perm {A} (p : A -> bool) l l' : Permutation l l' -> forallb p l = forallb p l'.
  Proof.
    induction 1; cbn; auto.
    - congruence.
    - destruct (p x), (p y); reflexivity.
    - congruence.
  Qed.

  Lemma entry_counts_perm gpg kl kl' data kv : Permutation kl kl' -> ecount gpg kl data kv = ecount gpg kl' data kv.
  Proof.
    intros P. unfold entry_counts. destruct kv as [k v]. rewrite (existsb_perm _ _ _ P). reflexivity.
  Qed.

  Theorem verify_signable_perm sd sm sm' kl kl' t gpg :
    Permutation sm sm' -> Permutation kl kl' ->
    let s := VDict [(VStr (U"signatures"), VDict sm); (VStr (U"signed"), sd)] in
    let s' := VDict [(VStr (U"signatures"), VDict sm'); (VStr (U"signed"), sd)] in
    vsig s (VList kl) t gpg = Ok tt <-> vsig s' (VList kl') t gpg = Ok tt.
  Proof.
    intros Ps Pk s s'.
    assert (Hsub : forall x, subscript s x = match dget [(VStr (U"signatures"), VDict sm); (VStr (U"signed"), sd)] x with Some y => Ok y | None => Err KeyError end) by reflexivity.
    assert (sym : forall sm sm' kl kl', Permutation sm sm' -> Permutation kl kl' ->
              vsig (VDict [(VStr (U"signatures"), VDict sm); (VStr (U"signed"), sd)]) (VList kl) t gpg = Ok tt ->
              vsig (VDict [(VStr (U"signatures"), VDict sm'); (VStr (U"signed"), sd)]) (VList kl') t gpg = Ok tt).
    { clear. intros sm sm' kl kl' Ps Pk H.
      apply verify_signable_ok in H as (kl0 & tz & sd0 & data & sm0 & good & Es & [= <-] & Ek & Et & Hz & Esd & Ed & Esg & Ec & Hg).
      apply verify_signable_ok.
      assert (K1 : key_is (U"signatures") (VStr (U"signatures")) = true) by (apply key_is_eq; reflexivity).
      assert (K2 : key_is (U"signed") (VStr (U"signatures")) = false) by reflexivity.
      assert (K3 : key_is (U"signed") (VStr (U"signed")) = true) by (apply key_is_eq; reflexivity).
      cbn [subscript dget] in Esd, Esg. rewrite ?K1, ?K2, ?K3 in *. injection Esd as <-. injection Esg as <-.
      apply count_m_ok in Ec as [T ->].
      exists kl', tz, sd, data, sm', (length (filter (counts (ecount (py_truth gpg) kl' data)) sm')).
      unfold accepts_with. repeat split; auto.
      - rewrite <- (forallb_perm _ _ _ Pk). auto.
      - apply count_m_total. intros x Hx. rewrite <- (entry_counts_perm _ _ _ _ _ Pk).
        apply T. eapply Permutation_in; [apply Permutation_sym; exact Ps|auto].
      - rewrite <- (filter_perm_length _ _ _ Ps).
        erewrite filter_ext; [exact Hg|]. intros x. unfold counts. rewrite (entry_counts_perm _ _ _ _ _ Pk). reflexivity. }
    split; apply sym; auto using Permutation_sym.
  Qed.
End Signable.

(* SourceSigFacts.v: the signature-entry validators of common.py (Gen/Source.v, interpreted) against their hand-written model. *)
From Coq Require Import String Lia Permutation Sorting.Sorted.
From CCT Require Import Prelude Hex Num Time Formats Json PySrc.
From CCT.Gen Require Source Params.
From CCT.proofs Require Import HexFacts SortFacts SigFacts SourceFacts.
Open Scope N_scope.

(* ---- sorted(list(d.keys())) in [[other_headers, signature], [other_headers, see_also, signature]] *)
Definition T2 : list ustr := [U"other_headers"; U"signature"].
Definition T3 : list ustr := [U"other_headers"; U"see_also"; U"signature"].

Fixpoint strlist_eqb (a b : list ustr) : bool :=
  match a, b with
  | [], [] => true
  | x :: a', y :: b' => ustr_eqb x y && strlist_eqb a' b'
  | _, _ => false
  end.

Lemma ustr_eqb_eq : forall a b, ustr_eqb a b = true <-> a = b.
Proof.
  induction a as [|x a IH]; destruct b as [|y b]; cbn; split; try discriminate; try reflexivity.
  - intros H. apply andb_prop in H. destruct H as [H1 H2]. apply N.eqb_eq in H1. apply IH in H2. subst. reflexivity.
  - intros [= -> ->]. rewrite N.eqb_refl. apply IH. reflexivity.
Qed.

Lemma strlist_eqb_eq : forall a b, strlist_eqb a b = true <-> a = b.
Proof.
  induction a as [|x a IH]; destruct b as [|y b]; cbn; split; try discriminate; try reflexivity.
  - intros H. apply andb_prop in H. destruct H as [H1 H2]. apply ustr_eqb_eq in H1. apply IH in H2. subst. reflexivity.
  - intros [= -> ->]. apply andb_true_intro. split; [apply ustr_eqb_eq; reflexivity | apply IH; reflexivity].
Qed.

Lemma py_eq_strlists : forall xs ys, py_eq (VList (map VStr xs)) (VList (map VStr ys)) = Ok (strlist_eqb xs ys).
Proof.
  intros xs ys. cbn [py_eq]. rewrite !map_length.
  destruct (Nat.eqb (length xs) (length ys)) eqn:E; cbn [negb].
  - apply Nat.eqb_eq in E. revert ys E. induction xs as [|x xs IH]; destruct ys as [|y ys]; cbn; try discriminate; [reflexivity|].
    intros [= E]. destruct (ustr_eqb x y); cbn; [apply IH; exact E | reflexivity].
  - apply Nat.eqb_neq in E. symmetry. f_equal. destruct (strlist_eqb xs ys) eqn:S; [|reflexivity].
    apply strlist_eqb_eq in S. subst. contradiction E. reflexivity.
Qed.

Lemma sort_strs_perm : forall ss, Permutation (sort_strs ss) ss.
Proof.
  intros ss. unfold sort_strs.
  rewrite (sort_perm (map (fun s => (s, tt)) ss)). rewrite map_map. cbn. rewrite map_id. reflexivity.
Qed.

(* a sorted duplicate-free target is what sorting gives, exactly for the lists with the same elements *)
Lemma sort_strs_target : forall T ss, NoDup T -> sort_strs T = T ->
  (sort_strs ss = T <-> (length ss = length T /\ incl T ss)).
Proof.
  intros T ss ND ST. split.
  - intros E. pose proof (sort_strs_perm ss) as P. rewrite E in P. split.
    + symmetry. apply Permutation_length. exact P.
    + intros x Hx. eapply Permutation_in; [exact P | exact Hx].
  - intros [L I]. assert (P : Permutation T ss) by (apply NoDup_Permutation_bis; [exact ND | lia | exact I]).
    rewrite <- ST. unfold sort_strs. f_equal. symmetry. apply sort_perm_eq.
    + apply Permutation_map. exact P.
    + rewrite map_map. cbn. rewrite map_id. exact ND.
Qed.

Lemma T2_ok : NoDup T2 /\ sort_strs T2 = T2.
Proof. split; [|vm_compute; reflexivity]. repeat constructor; cbn; intuition discriminate. Qed.
Lemma T3_ok : NoDup T3 /\ sort_strs T3 = T3.
Proof. split; [|vm_compute; reflexivity]. repeat constructor; cbn; intuition discriminate. Qed.

Lemma strs_of_all_str : forall m, all_str_keys m = true ->
  exists ss, strs_of (map fst m) = Some ss /\ length ss = length m /\ forall k, dhas m k = true <-> In k ss.
Proof.
  induction m as [|[k v] m IH]; intros H.
  - exists []. split; [reflexivity|]. split; [reflexivity|]. intros k. cbn. split; [discriminate | tauto].
  - cbn in H. apply andb_prop in H. destruct H as [Hk Hm]. destruct k; try discriminate Hk.
    destruct (IH Hm) as (ss & E & L & D). exists (s :: ss). cbn [map fst strs_of]. rewrite E. split; [reflexivity|].
    split; [cbn; f_equal; exact L|]. intros k. unfold dhas in *. cbn [dget key_is].
    destruct (ustr_eqb s k) eqn:Ek.
    + apply ustr_eqb_eq in Ek. subst. split; [intros _; left; reflexivity | reflexivity].
    + rewrite D. split; [intros Hin; right; exact Hin|]. intros [->|Hin]; [|exact Hin].
      exfalso. assert (ustr_eqb k k = true) by (apply ustr_eqb_eq; reflexivity). congruence.
Qed.

Lemma strs_of_not_all : forall m, all_str_keys m = false -> strs_of (map fst m) = None.
Proof.
  induction m as [|[k v] m IH]; intros H; [discriminate|].
  cbn in H. cbn [map fst strs_of]. destruct k; try reflexivity. cbn in H. rewrite (IH H). reflexivity.
Qed.

Lemma incl_bool2 : forall (ss : list ustr) (a b : ustr), (In a ss /\ In b ss) <-> incl [a; b] ss.
Proof.
  intros ss a b. split.
  - intros [A B] x [<-|[<-|[]]]; assumption.
  - intros I. split; apply I; cbn; auto.
Qed.
Lemma incl_bool3 : forall (ss : list ustr) (a b c : ustr), (In a ss /\ In b ss /\ In c ss) <-> incl [a; b; c] ss.
Proof.
  intros ss a b c. split.
  - intros (A & B & C) x [<-|[<-|[<-|[]]]]; assumption.
  - intros I. repeat split; apply I; cbn; auto.
Qed.

Lemma bool_iff_eq : forall a b : bool, (a = true <-> b = true) -> a = b.
Proof. intros [] [] [H1 H2]; try reflexivity; [symmetry; apply H1; reflexivity | apply H2; reflexivity]. Qed.

Definition keyset_lists : pv :=
  VList [VList [VStr (U"other_headers"); VStr (U"signature")];
         VList [VStr (U"other_headers"); VStr (U"see_also"); VStr (U"signature")]].

(* the keys test of checkformat_gpg_signature, as the interpreter evaluates it, against the model's gpg_keyset *)
Lemma keyset_check : forall m,
  (x <- py_sorted (map fst m) ;; r <- py_in x keyset_lists ;; Ok (VBool (negb r)))
  = if negb (all_str_keys m) && (2 <=? length m)%nat then Unmodelled
    else Ok (VBool (match gpg_keyset m with Some _ => false | None => true end)).
Proof.
  intros m. destruct m as [|p1 [|p2 r]].
  - reflexivity.
  - cbn. rewrite andb_false_r. reflexivity.
  - set (m := p1 :: p2 :: r). assert (L2 : (2 <=? length m)%nat = true) by reflexivity. rewrite L2, andb_true_r.
    assert (PS : py_sorted (map fst m) = match strs_of (map fst m) with Some ss => Ok (VList (map VStr (sort_strs ss))) | None => Unmodelled end) by reflexivity.
    rewrite PS. clear PS. destruct (all_str_keys m) eqn:AS; cbn [negb].
    + destruct (strs_of_all_str m AS) as (ss & E & L & D). rewrite E. cbn [bind].
      change keyset_lists with (VList [VList (map VStr T2); VList (map VStr T3)]).
      cbn [py_in]. rewrite !py_eq_strlists. cbn [bind].
      assert (B2 : strlist_eqb (sort_strs ss) T2 = Nat.eqb (length m) 2 && (dhas m (U"other_headers") && dhas m (U"signature"))).
      { apply bool_iff_eq. rewrite strlist_eqb_eq, (sort_strs_target T2 ss (proj1 T2_ok) (proj2 T2_ok)).
        unfold T2. cbn [length]. rewrite <- incl_bool2, <- !D, L. rewrite andb_true_iff, andb_true_iff, Nat.eqb_eq. reflexivity. }
      assert (B3 : strlist_eqb (sort_strs ss) T3 = Nat.eqb (length m) 3 && (dhas m (U"other_headers") && dhas m (U"signature") && dhas m (U"see_also"))).
      { apply bool_iff_eq. rewrite strlist_eqb_eq, (sort_strs_target T3 ss (proj1 T3_ok) (proj2 T3_ok)).
        unfold T3. cbn [length]. rewrite <- incl_bool3, <- !D, L. rewrite !andb_true_iff, Nat.eqb_eq. tauto. }
      rewrite B2, B3. unfold gpg_keyset.
      destruct (length m) as [|[|[|[|n]]]]; cbn [Nat.eqb andb];
        repeat match goal with |- context [dhas m ?k] => destruct (dhas m k) end; reflexivity.
    + rewrite (strs_of_not_all m AS). reflexivity.
Qed.

Lemma key_is_true : forall a x, key_is a x = true -> x = VStr a.
Proof. intros a x H. destruct x; try discriminate H. cbn in H. apply ustr_eqb_eq in H. subst. reflexivity. Qed.

Lemma dhas2 : forall k1 v1 k2 v2 k, dhas [(k1, v1); (k2, v2)] k = key_is k k1 || key_is k k2.
Proof. intros. unfold dhas. cbn [dget]. destruct (key_is k k1); [reflexivity|]. destruct (key_is k k2); reflexivity. Qed.

Lemma gpg_keyset_see : forall m b, gpg_keyset m = Some b -> dhas m (U"see_also") = b.
Proof.
  intros m b. unfold gpg_keyset. destruct m as [|[k1 v1] [|[k2 v2] [|[k3 v3] [|p r]]]]; cbn [length]; try discriminate.
  - rewrite !dhas2.
    destruct (key_is (U"other_headers") k1) eqn:A1; destruct (key_is (U"signature") k1) eqn:B1;
    destruct (key_is (U"other_headers") k2) eqn:A2; destruct (key_is (U"signature") k2) eqn:B2; cbn; try discriminate;
    repeat match goal with H : key_is _ _ = true |- _ => apply key_is_true in H end; subst; try discriminate;
    intros [= <-]; reflexivity.
  - destruct (dhas _ (U"other_headers") && dhas _ (U"signature") && dhas _ (U"see_also")) eqn:E; [|discriminate].
    intros [= <-]. apply andb_prop in E. exact (proj2 E).
Qed.

Lemma src_checkformat_gpg_signature : forall v,
  run "checkformat_gpg_signature" [v] = returns_arg (checkformat_gpg_signature v) v.
Proof.
  intros v. destruct v; try reflexivity.
  remember (returns_arg (checkformat_gpg_signature (VDict m)) (VDict m)) as rhs eqn:Hr.
  src_enter. src_builtin "list(keys)"%string. scbn. src_builtin "sorted"%string.
  change (call_builtin "sorted" [VList (map fst m)]) with (py_sorted (map fst m)).
  fold keyset_lists. rewrite (keyset_check m).
  assert (R : checkformat_gpg_signature (VDict m) =
    if negb (all_str_keys m) && (2 <=? length m)%nat then Unmodelled
    else match gpg_keyset m with
         | None => Err ValueError
         | Some has_see =>
             oh <- subscript (VDict m) (U"other_headers") ;;
             if negb (is_hex_string oh) then Err ValueError else
             sg <- subscript (VDict m) (U"signature") ;;
             if negb (is_hex_signature sg) then Err ValueError else
             if has_see then (sa <- subscript (VDict m) (U"see_also") ;; checkformat_gpg_fingerprint sa) else Ok tt
         end) by reflexivity.
  rewrite R in Hr. clear R. subst rhs. unfold returns_arg.
  destruct (negb (all_str_keys m) && (2 <=? length m)%nat); [reflexivity|].
  destruct (gpg_keyset m) as [has_see|] eqn:G; scbn; [|reflexivity].
  destruct (dget m (U"other_headers")) as [oh|] eqn:Doh; scbn.
  2:{ exfalso. revert G. unfold gpg_keyset, dhas. rewrite Doh. destruct (length m) as [|[|[|[|n]]]]; discriminate. }
  src_call "is_hex_string"%string. rewrite src_is_hex_string. scbn.
  destruct (is_hex_string oh); scbn; [|reflexivity].
  destruct (dget m (U"signature")) as [sg|] eqn:Dsg; scbn.
  2:{ exfalso. revert G. unfold gpg_keyset, dhas. rewrite Dsg, !andb_false_r. destruct (length m) as [|[|[|[|n]]]]; cbn; discriminate. }
  src_call "is_hex_signature"%string. rewrite src_is_hex_signature. scbn.
  destruct (is_hex_signature sg); scbn; [|reflexivity].
  rewrite (gpg_keyset_see m has_see G). destruct has_see; scbn; [|reflexivity].
  destruct (dget m (U"see_also")) as [sa|] eqn:Dsa; scbn; [|reflexivity].
  src_call "checkformat_gpg_fingerprint"%string. rewrite src_checkformat_gpg_fingerprint. unfold returns_arg.
  destruct (checkformat_gpg_fingerprint sa) as [[]| |]; reflexivity.
Qed.

(* sorted() compares the keys of a dict with two or more entries: only str keys are inside the model (mixed keys may raise
   TypeError inside sorted, which the predicates catch; the hand-written model says so separately) *)
Definition outside_sorted (v : pv) : bool :=
  match v with VDict m => negb (all_str_keys m) && (2 <=? length m)%nat | _ => false end.

Lemma gpg_keyset_has : forall m b, gpg_keyset m = Some b ->
  dhas m (U"other_headers") = true /\ dhas m (U"signature") = true.
Proof.
  intros m b. unfold gpg_keyset. destruct (length m) as [|[|[|[|n]]]]; try discriminate.
  - destruct (dhas m (U"other_headers")); [|discriminate]. destruct (dhas m (U"signature")); [|discriminate]. auto.
  - destruct (dhas m (U"other_headers")); [|discriminate]. destruct (dhas m (U"signature")); [|discriminate]. auto.
Qed.

Lemma checkformat_gpg_signature_family3 : forall v, outside_sorted v = false ->
  checkformat_gpg_signature v = Ok tt \/ checkformat_gpg_signature v = Err TypeError \/ checkformat_gpg_signature v = Err ValueError.
Proof.
  intros v O. destruct v; cbn [checkformat_gpg_signature]; auto.
  cbn [outside_sorted] in O.
  change (match Datatypes.length m with S (S _) => true | _ => false end) with (2 <=? length m)%nat.
  rewrite O.
  destruct (gpg_keyset m) as [b|] eqn:G; auto.
  destruct (gpg_keyset_has m b G) as [H1 H2]. pose proof (gpg_keyset_see m b G) as H3.
  unfold dhas in H1, H2, H3. cbn [subscript].
  destruct (dget m (U"other_headers")) as [oh|]; [|discriminate H1]. cbn [bind].
  destruct (is_hex_string oh); cbn [negb]; auto.
  destruct (dget m (U"signature")) as [sg|]; [|discriminate H2]. cbn [bind].
  destruct (is_hex_signature sg); cbn [negb]; auto.
  destruct b; auto.
  destruct (dget m (U"see_also")) as [sa|]; [|discriminate H3]. cbn [bind].
  apply checkformat_gpg_fingerprint_family.
Qed.

Lemma src_is_gpg_signature : forall v, outside_sorted v = false ->
  run "is_gpg_signature" [v] = Ok (VBool (is_gpg_signature v)).
Proof.
  intros v O. src_enter. src_call "checkformat_gpg_signature"%string. rewrite src_checkformat_gpg_signature.
  unfold returns_arg.
  assert (E : is_gpg_signature v = is_ok (checkformat_gpg_signature v)).
  { destruct v; try reflexivity. cbn [outside_sorted] in O. cbn [is_gpg_signature].
    destruct (all_str_keys m) eqn:A; cbn [negb]; [reflexivity|]. cbn [negb andb] in O.
    cbn [checkformat_gpg_signature]. rewrite A. cbn [negb andb].
    change (match Datatypes.length m with S (S _) => true | _ => false end) with (2 <=? length m)%nat. rewrite O.
    unfold gpg_keyset. destruct m as [|p1 [|p2 r]]; [reflexivity | reflexivity | discriminate O]. }
  rewrite E. destruct (checkformat_gpg_signature_family3 v O) as [-> | [-> | ->]]; reflexivity.
Qed.

Lemma src_checkformat_signature : forall v, outside_sorted v = false ->
  run "checkformat_signature" [v] = returns_arg (checkformat_signature v) v.
Proof.
  intros v O. destruct v; try reflexivity.
  remember (returns_arg (checkformat_signature (VDict m)) (VDict m)) as rhs eqn:Hr.
  src_enter. unfold dhas. subst rhs. unfold returns_arg. cbn [checkformat_signature].
  remember (is_gpg_signature (VDict m)) as g eqn:Hg.
  destruct (dget m (U"signature")) as [sg|] eqn:D; scbn; [|reflexivity].
  src_call "is_hex_signature"%string. rewrite src_is_hex_signature. scbn.
  destruct (is_hex_signature sg); scbn; [|reflexivity].
  src_builtin "len"%string. scbn. change 1%Z with (Z.of_nat 1). rewrite Zofnat_eqb.
  destruct (Nat.eqb (length m) 1); scbn; [reflexivity|].
  src_call "is_gpg_signature"%string. rewrite (src_is_gpg_signature (VDict m) O). rewrite <- Hg. scbn.
  destruct g; reflexivity.
Qed.

Lemma src_is_signature : forall v, outside_sorted v = false -> run "is_signature" [v] = Ok (VBool (is_signature v)).
Proof.
  intros v O. src_enter. src_call "checkformat_signature"%string. rewrite (src_checkformat_signature v O).
  unfold is_signature, returns_arg.
  destruct (checkformat_signature_family v) as [-> | [-> | ->]]; reflexivity.
Qed.

Lemma src_checkformat_any_signature : forall v, outside_sorted v = false ->
  run "checkformat_any_signature" [v] = returns_arg (checkformat_any_signature v) v.
Proof.
  intros v O. src_enter. src_call "is_signature"%string. rewrite (src_is_signature v O). scbn.
  unfold returns_arg, checkformat_any_signature.
  destruct (is_signature v); scbn; [reflexivity|].
  src_call "is_gpg_signature"%string. rewrite (src_is_gpg_signature v O). scbn.
  destruct (is_gpg_signature v); reflexivity.
Qed.

(* values whose dicts have str keys only (every JSON value) are never outside *)
Lemma json_dict_inside : forall m, all_str_keys m = true -> outside_sorted (VDict m) = false.
Proof. intros m H. cbn. rewrite H. reflexivity. Qed.
Lemma non_dict_inside : forall v, is_dict v = false -> outside_sorted v = false.
Proof. intros v H. destruct v; try reflexivity. discriminate H. Qed.

(* signature entries as the text of common.py decides them: precisely the raw or the OpenPGP shape *)
Lemma src_signature_entry_grammar : forall v, outside_sorted v = false ->
  (run "is_signature" [v] = Ok (VBool true) <-> raw_shape v \/ gpg_shape v).
Proof. intros v O. rewrite (src_is_signature v O), ok_vbool_inj. apply is_signature_iff. Qed.
Lemma src_gpg_signature_entry_grammar : forall v, outside_sorted v = false ->
  (run "is_gpg_signature" [v] = Ok (VBool true) <-> gpg_shape v).
Proof. intros v O. rewrite (src_is_gpg_signature v O), ok_vbool_inj. apply is_gpg_signature_iff. Qed.

Lemma outside_sorted_meaning : forall v,
  outside_sorted v = true <-> exists m, v = VDict m /\ all_str_keys m = false /\ (2 <= length m)%nat.
Proof.
  intros v. split.
  - destruct v; try discriminate. cbn. intros H. apply andb_prop in H. destruct H as [A L].
    exists m. split; [reflexivity|]. split; [destruct (all_str_keys m); [discriminate A | reflexivity]|].
    apply Nat.leb_le. exact L.
  - intros (m & -> & A & L). cbn. rewrite A. apply Nat.leb_le in L. cbn [negb andb]. exact L.
Qed.

(* ArtifactFacts.v: repodata artifact signing is complete, faithful and client-verifiable (C11). *)
From CCT Require Import Prelude Hex Num Time Formats Json Auth Signing.
From CCT.Gen Require Params.
From CCT.proofs Require Import HexFacts SigFacts AuthFacts SignableFacts DelegationFacts SchemaFacts FamilyFacts SigningFacts.
From Coq Require Import Lia.
Open Scope N_scope.

Lemma ustr_neq_eqb a b : a <> b -> ustr_eqb a b = false.
Proof. intros H. destruct (ustr_eqb a b) eqn:E; auto. apply ustr_eqb_eq in E. contradiction. Qed.

Lemma dset_dset m k a b : dset (dset m k a) k b = dset m k b.
Proof.
  induction m as [|[x y] m IH]; cbn [dset].
  - cbn [key_is]. rewrite ustr_eqb_refl. reflexivity.
  - destruct (key_is k x) eqn:E; cbn [dset]; rewrite E; [reflexivity|]. rewrite IH. reflexivity.
Qed.

Section Artifacts.
  Variable ed_verify : bytes -> bytes -> bytes -> bool.
  Variable ed_pub : bytes -> bytes.
  Variable ed_sign : bytes -> bytes -> bytes.
  Variable sha256 : bytes -> bytes.
  Hypothesis ed_pub_ok : forall seed, length (ed_pub seed) = 32%nat /\ wf_bytes (ed_pub seed).
  Hypothesis ed_sign_ok : forall seed m, length (ed_sign seed m) = 64%nat /\ wf_bytes (ed_sign seed m).

  Notation sign_all := (sign_all_value ed_pub ed_sign).
  Notation items_of := (sign_items ed_sign).
  Notation pubhex := (pubhex ed_pub).
  Notation sig_of := (sig_of ed_sign).

  (* the signature entry the signer files for one artifact's metadata *)
  Definition entry_for (seed : bytes) (data : bytes) : pv := VDict [(VStr (pubhex seed), sig_of seed data)].

  Lemma sign_items_dget seed items : forall acc acc',
    items_of seed (pubhex seed) items acc = Ok acc' -> NoDup (map fst items) ->
    (forall k, ~ In (VStr k) (map fst items) -> dget acc' k = dget acc k)
    /\ (forall k md, In (VStr k, md) items ->
          exists data, canonserialize md = Ok data /\ dget acc' k = Some (entry_for seed data))
    /\ Forall (fun kv => is_str (fst kv) = true) items.
  Proof.
    induction items as [|[name md] r IH]; intros acc acc' H Hnd.
    - cbn in H. injection H as <-. repeat split; auto. intros k md' [].
    - cbn [sign_items] in H. unfold serialize_and_sign in H.
      destruct (canonserialize md) as [data| |] eqn:Ed; cbn [bind] in H; try discriminate.
      destruct (checkformat_signature _) as [[]| |]; cbn [bind] in H; try discriminate.
      destruct name as [| | | |nm| | | | | | | | | |]; try discriminate.
      cbn [map fst] in Hnd. inversion Hnd as [|? ? Hnin Hnd']; subst.
      destruct (IH _ _ H Hnd') as (I1 & I2 & I3).
      split; [|split].
      + intros k Hk. cbn [map fst] in Hk. rewrite I1 by (intros Hin; apply Hk; right; exact Hin).
        apply dget_dset_other. apply ustr_neq_eqb. intros ->. apply Hk. left; reflexivity.
      + intros k md' [Heq|Hin].
        * injection Heq as <- <-. exists data. split; [exact Ed|]. rewrite I1 by exact Hnin. apply dget_dset_same.
        * apply I2; exact Hin.
      + constructor; [reflexivity|exact I3].
  Qed.

  Lemma sign_items_total seed items : forall acc,
    Forall (fun kv => is_str (fst kv) = true /\ exists data, canonserialize (snd kv) = Ok data) items ->
    exists acc', items_of seed (pubhex seed) items acc = Ok acc'.
  Proof.
    induction items as [|[name md] r IH]; intros acc F; [eexists; reflexivity|].
    inversion F as [|? ? [Hs (data & Ed)] F']; subst. cbn [fst snd] in *.
    cbn [sign_items]. unfold serialize_and_sign. rewrite Ed. cbn [bind].
    assert (checkformat_signature (sig_dict (VStr (hexlify (ed_sign seed data)))) = Ok tt) as ->.
    { apply checkformat_signature_iff. left. apply (sig_of_raw ed_sign ed_sign_ok). }
    cbn [bind]. destruct name; try discriminate. apply IH. exact F'.
  Qed.

  (* the whole procedure on the loaded value *)
  Theorem sign_all_spec r keyhex r' :
    sign_all r keyhex = Ok r' ->
    exists h seed m pm cm sigs,
      keyhex = VStr h /\ lower_hex_len 64 h /\ fromhex h = Some seed
      /\ r = VDict m /\ dget (dset m (U"signatures") (VDict [])) (U"packages") = Some (VDict pm)
      /\ (dget (dset m (U"signatures") (VDict [])) (U"packages.conda") = Some (VDict cm)
          \/ (dget (dset m (U"signatures") (VDict [])) (U"packages.conda") = None /\ cm = []))
      /\ items_of seed (pubhex seed) (pm ++ cm) [] = Ok sigs
      /\ r' = VDict (dset m (U"signatures") (VDict sigs)).
  Proof.
    unfold sign_all_value, priv_from_hex.
    destruct (checkformat_hex_key keyhex) as [[]| |] eqn:Ek; cbn [bind]; try discriminate.
    apply checkformat_hex_key_iff in Ek as (h & -> & Hh).
    rewrite (pub_from_hex_ok h Hh). cbn [bind].
    destruct (lower_hex_fromhex 64 h eq_refl Hh) as (seed & Ef & _). unfold keyb. rewrite Ef.
    destruct (py_in_str (U"packages") r) as [has| |]; cbn [bind]; try discriminate.
    destruct has; cbn [negb]; [|discriminate].
    destruct r as [| | | | | | | | | |m| | | |]; try discriminate.
    cbn [subscript].
    destruct (dget (dset m (U"signatures") (VDict [])) (U"packages")) as [pk|] eqn:Ep; cbn [bind]; [|discriminate].
    destruct pk as [| | | | | | | | | |pm| | | |]; try discriminate.
    destruct (items_of seed (hexlify (ed_pub seed)) pm []) as [s1| |] eqn:E1; cbn [bind]; try discriminate.
    assert (Happ : forall cm sigs, items_of seed (hexlify (ed_pub seed)) cm s1 = Ok sigs ->
                                   items_of seed (hexlify (ed_pub seed)) (pm ++ cm) [] = Ok sigs).
    { clear -E1. revert E1. generalize (@nil (pv * pv)) as acc. induction pm as [|[nm md] pm IH]; intros acc E1 cm sigs H.
      - cbn in E1. injection E1 as ->. exact H.
      - cbn [sign_items app] in *. destruct (serialize_and_sign ed_sign md (VPriv seed)) as [sg| |]; cbn [bind] in *; try discriminate.
        destruct (checkformat_signature (sig_dict sg)) as [[]| |]; cbn [bind] in *; try discriminate.
        destruct nm; try discriminate. eapply IH; eauto. }
    destruct (dget (dset m (U"signatures") (VDict [])) (U"packages.conda")) as [ck|] eqn:Ec.
    - destruct ck as [| | | | | | | | | |cm| | | |]; try discriminate.
      destruct (items_of seed (hexlify (ed_pub seed)) cm s1) as [s2| |] eqn:E2; cbn [bind]; try discriminate.
      intros [= <-]. exists h, seed, m, pm, cm, s2. repeat split; auto; try apply Hh.
      rewrite dset_dset. reflexivity.
    - intros [= <-]. exists h, seed, m, pm, [], s1. repeat split; auto; try apply Hh; try (rewrite app_nil_r; exact E1).
      rewrite dset_dset. reflexivity.
  Qed.

  (* faithful: every top-level field other than "signatures" is what it was *)
  Theorem sign_all_keeps_other_fields r keyhex r' k :
    sign_all r keyhex = Ok r' -> ustr_eqb k (U"signatures") = false ->
    subscript r' k = subscript r k.
  Proof.
    intros H Hk. apply sign_all_spec in H as (h & seed & m & pm & cm & sigs & _ & _ & _ & -> & _ & _ & _ & ->).
    cbn [subscript]. rewrite dget_dset_other by exact Hk. reflexivity.
  Qed.

  (* complete: exactly one entry per artifact of either section, stale entries gone, each the signer's signature
     over that artifact's own canonical metadata *)
  Theorem sign_all_signatures r keyhex r' :
    sign_all r keyhex = Ok r' ->
    exists h seed pm cm sigs,
      keyhex = VStr h /\ fromhex h = Some seed
      /\ subscript r (U"packages") = Ok (VDict pm)
      /\ (subscript r (U"packages.conda") = Ok (VDict cm) \/ (subscript r (U"packages.conda") = Err KeyError /\ cm = []))
      /\ subscript r' (U"signatures") = Ok (VDict sigs)
      /\ (NoDup (map fst (pm ++ cm)) ->
            (forall k md, In (VStr k, md) (pm ++ cm) ->
               exists data, canonserialize md = Ok data /\ dget sigs k = Some (entry_for seed data))
            /\ (forall k, ~ In (VStr k) (map fst (pm ++ cm)) -> dget sigs k = None)).
  Proof.
    intros H. apply sign_all_spec in H as (h & seed & m & pm & cm & sigs & -> & _ & Ef & -> & Ep & Ec & Es & ->).
    rewrite dget_dset_other in Ep by reflexivity. rewrite dget_dset_other in Ec by reflexivity.
    exists h, seed, pm, cm, sigs. cbn [subscript]. rewrite Ep, dget_dset_same.
    split; [reflexivity|]. split; [exact Ef|]. split; [reflexivity|].
    split. { destruct Ec as [-> |[-> ->]]; auto. }
    split; [reflexivity|]. intros Hnd. destruct (sign_items_dget seed _ _ _ Es Hnd) as (I1 & I2 & _).
    split; [exact I2|]. intros k Hk. rewrite I1 by exact Hk. reflexivity.
  Qed.

  (* signing again changes nothing *)
  Theorem sign_all_idempotent r keyhex r' : sign_all r keyhex = Ok r' -> sign_all r' keyhex = Ok r'.
  Proof.
    intros H. pose proof H as H0. apply sign_all_spec in H as (h & seed & m & pm & cm & sigs & -> & Hh & Ef & -> & Ep & Ec & Es & ->).
    unfold sign_all_value, priv_from_hex.
    assert (checkformat_hex_key (VStr h) = Ok tt) as -> by (apply checkformat_hex_key_iff; eauto).
    cbn [bind]. rewrite (pub_from_hex_ok h Hh). cbn [bind]. unfold keyb. rewrite Ef.
    cbn [py_in_str]. unfold dhas. rewrite dget_dset_other by reflexivity.
    rewrite dget_dset_other in Ep by reflexivity. rewrite Ep. cbn [bind negb subscript].
    rewrite dset_dset. rewrite dget_dset_other by reflexivity. rewrite Ep. cbn [bind].
    rewrite dget_dset_other in Ec by reflexivity. rewrite dget_dset_other by reflexivity.
    (* the two loops again, from the same inputs *)
    assert (Hsplit : forall acc sigs', items_of seed (hexlify (ed_pub seed)) (pm ++ cm) acc = Ok sigs' ->
              exists s1, items_of seed (hexlify (ed_pub seed)) pm acc = Ok s1 /\ items_of seed (hexlify (ed_pub seed)) cm s1 = Ok sigs').
    { clear. induction pm as [|[nm md] pm IH]; intros acc sigs' H; [exists acc; split; auto|].
      cbn [sign_items app] in *. destruct (serialize_and_sign ed_sign md (VPriv seed)) as [sg| |]; cbn [bind] in *; try discriminate.
      destruct (checkformat_signature (sig_dict sg)) as [[]| |]; cbn [bind] in *; try discriminate.
      destruct nm; try discriminate. apply IH; auto. }
    destruct (Hsplit _ _ Es) as (s1 & E1 & E2). rewrite E1. cbn [bind].
    destruct Ec as [Ec|[Ec ->]]; rewrite Ec.
    - rewrite E2. cbn [bind]. rewrite dset_dset. reflexivity.
    - cbn in E2. injection E2 as ->. rewrite dset_dset. reflexivity.
  Qed.

  (* ---- the client path: each artifact's entry verifies against that artifact's own metadata through a
          pkg_mgr delegation to the signer's key *)
  Hypothesis ed_correct : forall seed m, ed_verify (ed_pub seed) m (ed_sign seed m) = true.

  Theorem client_verifies seed md data T :
    canonserialize md = Ok data -> type_in md Params.serializable_types = true ->
    cdm T = Ok tt -> role_rule T (U"pkg_mgr") = Ok (VList [VStr (pubhex seed)], VInt 1) ->
    cdm (mk_env [] md) <> Ok tt -> cdm (mk_env [] md) <> Unmodelled ->
    verify_delegation ed_verify sha256 (VStr (U"pkg_mgr")) (mk_env [(VStr (pubhex seed), sig_of seed data)] md) T (VBool false) = Ok tt.
  Proof.
    intros Ed Hty Et Er Hn1 Hn2. apply verify_delegation_iff.
    exists (U"pkg_mgr"), (VList [VStr (pubhex seed)]), (VInt 1).
    split; [reflexivity|]. split; [reflexivity|]. split; [exact Et|].
    split; [rewrite mk_env_signable; exact Hty|].
    split.
    - unfold type_check. rewrite mk_env_signed_only. cbn [bind].
      pose proof (fam_cdm (mk_env [] md)) as F.
      destruct (cdm (mk_env [] md)) as [[]|e|]; try contradiction; try congruence.
      destruct e; try discriminate F; reflexivity.
    - split; [exact Er|].
      eapply (signers_meet_every_threshold ed_verify ed_pub ed_sign sha256 ed_pub_ok ed_sign_ok ed_correct) with (seeds := [seed]).
      + rewrite mk_env_signable. exact Hty.
      + apply mk_env_signed.
      + exact Ed.
      + apply mk_env_sigs.
      + cbn [forallb]. rewrite andb_true_r. apply is_hex_key_iff. eexists. split; [reflexivity|]. apply (pubhex_key ed_pub ed_pub_ok).
      + repeat constructor. intros [].
      + constructor; [|constructor]. split; [left; reflexivity|]. cbn [dget key_is]. rewrite ustr_eqb_refl. reflexivity.
      + cbn. lia.
  Qed.

  (* a signature never verifies against another artifact's different metadata (ideal binding, named premise) *)
  Hypothesis ed_binding : forall seed m m', ed_verify (ed_pub seed) m' (ed_sign seed m) = true -> m' = m.

  Theorem no_cross_artifact seed data md' data' kl t :
    canonserialize md' = Ok data' -> data' <> data ->
    verify_signable ed_verify sha256 (mk_env [(VStr (pubhex seed), sig_of seed data)] md') (VList kl) t (VBool false) <> Ok tt.
  Proof.
    intros Ed Hne H.
    apply verify_signable_sound in H as (kl' & tz & sd & data0 & sm & _ & [= <-] & _ & Hz & Esd & Ed0 & Esg & cs & Hi & _ & Hl & Hf).
    rewrite mk_env_signed in Esd. injection Esd as <-. rewrite Ed in Ed0. injection Ed0 as <-.
    rewrite mk_env_sigs in Esg. injection Esg as <-.
    destruct cs as [|kv cs]; [cbn in Hl; lia|].
    inversion Hf as [|? ? Hv _]; subst. specialize (Hi kv (or_introl eq_refl)). destruct Hi as [<-|[]].
    cbn [fst snd py_truth] in Hv. apply entry_counts_true in Hv.
    exact (edit_stops_counting ed_verify ed_pub ed_sign sha256 ed_pub_ok ed_sign_ok ed_binding seed data data' kl Hne Hv).
  Qed.
End Artifacts.

(* Gpg.v: the GPG signing path of root_signing.py at value level.  GnuPG / securesystemslib are parameters:
   create(data, fingerprint) is what gpg_funcs.create_signature returned, q what export_pubkey(...)["keyval"]["public"]["q"]
   returned.  Definitions only. *)
From CCT Require Import Prelude Hex Num Time Formats Json Auth Signing.
Open Scope N_scope.

(* del d[k] *)
Definition ddel (m : list (pv * pv)) (k : ustr) : res (list (pv * pv)) :=
  if dhas m k then Ok (filter (fun kv => negb (key_is k (fst kv))) m) else Err KeyError.

(* sign_via_gpg (root_signing.py:50-205), after the signer returned `created` *)
Definition sign_via_gpg (created : pv) (data fpr : pv) (include_fingerprint : bool) : res pv :=
  checkformat_gpg_fingerprint fpr ;;;
  checkformat_byteslike data ;;;
  match created with
  | VDict m =>
      m1 <- (if include_fingerprint then (kid <- subscript created (U"keyid") ;; Ok (dset m (U"see_also") kid)) else Ok m) ;;
      m2 <- ddel m1 (U"keyid") ;;
      Ok (VDict m2)
  | _ => Err TypeError
  end.

(* sign_root_metadata_dict_via_gpg (root_signing.py:208-257): `created` is the signer's answer for the canonical
   bytes of the signed portion, `q` the raw public key value fetched for the fingerprint *)
Definition sign_root_metadata_dict_via_gpg (created q : pv) (signable fpr : pv) : res pv :=
  if negb (is_signable signable) then Err TypeError else
  sd <- subscript signable (U"signed") ;;
  data <- canonserialize sd ;;
  sg <- sign_via_gpg created (VBytes data) fpr false ;;
  checkformat_gpg_fingerprint fpr ;;;
  sigs <- subscript signable (U"signatures") ;;
  match signable, sigs, q with
  | VDict m, VDict sm, VStr qh => Ok (VDict (dset m (U"signatures") (VDict (dset sm qh sg))))
  | _, _, _ => Unmodelled
  end.

(* C14 -- the delegating-metadata checker enforces exactly the documented schema. Property theorems only. *)
From CCT Require Import Prelude Hex Num Time Formats Json Auth.
From CCT.Gen Require Params.
From CCT.proofs Require Import HexFacts SigFacts AuthFacts SchemaFacts FamilyFacts.
Open Scope N_scope.

(* the schema, declaratively (dm_ok, delegations_ok, delegation_ok, natural, utc_str are defined in
   proofs/SchemaFacts.v from the documentation, not from the code): accepted <-> schema, for ALL values *)
Theorem C14_checker_iff_schema : forall v, checkformat_delegating_metadata v = Ok tt <-> dm_ok v.
Proof. exact checker_iff_schema. Qed.

(* the schema spelled out once, so that the statement can be read here *)
Theorem C14_schema_meaning : forall v,
  dm_ok v <->
  exists m sm c ty,
    v = VDict m /\ two_fields m (U"signatures") (U"signed") (VDict sm) (VDict c)
    /\ type_in (VDict c) Params.serializable_types = true
    /\ Forall (fun kv => raw_shape (snd kv) \/ gpg_shape (snd kv)) sm
    /\ dget c (U"type") = Some (VStr ty) /\ In ty Params.supported_dm_types
    /\ has_field c (U"metadata_spec_version") (fun x => is_str x = true)
    /\ has_field c (U"delegations") delegations_ok
    /\ has_field c (U"expiration") utc_str
    /\ (dhas c (U"timestamp") = true \/ dhas c (U"version") = true)
    /\ (ty = U"root" -> dhas c (U"version") = true)
    /\ if_field c (U"timestamp") utc_str
    /\ if_field c (U"version") natural.
Proof. intros; reflexivity. Qed.

Theorem C14_delegations_meaning : forall v,
  checkformat_delegations v = Ok tt <->
  exists m, v = VDict m /\ Forall (fun kd => is_str (fst kd) = true /\ delegation_ok (snd kd)) m.
Proof. exact checkformat_delegations_iff. Qed.

Theorem C14_delegation_meaning : forall d,
  checkformat_delegation d = Ok tt <->
  exists m th ks,
    d = VDict m /\ two_fields m (U"threshold") (U"pubkeys") th (VList ks)
    /\ Forall (fun k => exists s, k = VStr s /\ lower_hex_len 64 s) ks /\ NoDup ks
    /\ exists z, int_value th = Some z /\ (1 <= z)%Z.
Proof. exact checkformat_delegation_iff. Qed.

Theorem C14_natural_int_meaning : forall v,
  checkformat_natural_int v = Ok tt <-> exists z, int_value v = Some z /\ (1 <= z)%Z.
Proof. exact natural_iff. Qed.

(* every change that removes a required field or takes a field outside its grammar is rejected *)
Theorem C14_remove_required_field_rejected : forall sm c f,
  In f [U"type"; U"metadata_spec_version"; U"delegations"; U"expiration"] ->
  checkformat_delegating_metadata (env sm (VDict (dremove f c))) <> Ok tt.
Proof. exact remove_required_field_rejected. Qed.

Theorem C14_field_outside_grammar_rejected : forall sm c f x,
  checkformat_delegating_metadata (env sm (VDict c)) = Ok tt -> dget c f = Some x -> field_grammar f x.
Proof. exact field_outside_grammar_rejected. Qed.

Theorem C14_version_or_timestamp_required : forall sm c,
  dget c (U"version") = None -> dget c (U"timestamp") = None ->
  checkformat_delegating_metadata (env sm (VDict c)) <> Ok tt.
Proof. exact version_or_timestamp_required. Qed.

Theorem C14_root_requires_version : forall sm c,
  dget c (U"type") = Some (VStr (U"root")) -> dget c (U"version") = None ->
  checkformat_delegating_metadata (env sm (VDict c)) <> Ok tt.
Proof. exact root_requires_version. Qed.

Theorem C14_envelope_has_exactly_two_fields : forall m,
  checkformat_delegating_metadata (VDict m) = Ok tt -> length m = 2%nat.
Proof. exact envelope_has_exactly_two_fields. Qed.

Theorem C14_bad_signature_entry_rejected : forall sm sd k v,
  In (k, v) sm -> ~ (raw_shape v \/ gpg_shape v) -> checkformat_delegating_metadata (env sm sd) <> Ok tt.
Proof. exact bad_signature_entry_rejected. Qed.

(* the verifiers never run into an internal error on anything (a fortiori on anything the checker accepts):
   KeyError, AttributeError, OverflowError, AssertionError are outside f_lib *)
Theorem C14_accepted_is_safe_for_verifiers : forall ed_verify sha256 t u name gpg,
  fam f_lib (verify_root ed_verify sha256 t u) /\ fam f_lib (verify_delegation ed_verify sha256 name u t gpg).
Proof. intros. split; [apply fam_verify_root|apply fam_verify_delegation]. Qed.

(* non-vacuity: a concrete root document is accepted; the same with version removed, with a duplicated key,
   with threshold 0 and with an extra delegation field is rejected *)
Definition ex_key := VStr (repeat 97 64).
Definition ex_deleg (th : pv) (ks : list pv) := VDict [(VStr (U"pubkeys"), VList ks); (VStr (U"threshold"), th)].
Definition ex_signed (extra : list (pv * pv)) (d : pv) :=
  VDict ([(VStr (U"type"), VStr (U"root")); (VStr (U"metadata_spec_version"), VStr (U"0.6.0"));
          (VStr (U"delegations"), VDict [(VStr (U"root"), d)]);
          (VStr (U"expiration"), VStr (U"2030-01-01T00:00:00Z"))] ++ extra).
Definition ex_ver := [(VStr (U"version"), VInt 1)].
Example C14_witness :
  checkformat_delegating_metadata (env [] (ex_signed ex_ver (ex_deleg (VInt 1) [ex_key]))) = Ok tt
  /\ checkformat_delegating_metadata (env [] (ex_signed [] (ex_deleg (VInt 1) [ex_key]))) = Err ValueError
  /\ checkformat_delegating_metadata (env [] (ex_signed ex_ver (ex_deleg (VInt 1) [ex_key; ex_key]))) = Err ValueError
  /\ checkformat_delegating_metadata (env [] (ex_signed ex_ver (ex_deleg (VInt 0) [ex_key]))) = Err ValueError
  /\ checkformat_delegating_metadata (env [] (ex_signed ex_ver (VDict [(VStr (U"pubkeys"), VList [ex_key]); (VStr (U"threshold"), VInt 1); (VStr (U"x"), VInt 1)]))) = Err ValueError.
Proof. vm_compute. repeat split. Qed.

Print Assumptions C14_checker_iff_schema.
Print Assumptions C14_schema_meaning.
Print Assumptions C14_delegations_meaning.
Print Assumptions C14_delegation_meaning.
Print Assumptions C14_natural_int_meaning.
Print Assumptions C14_remove_required_field_rejected.
Print Assumptions C14_field_outside_grammar_rejected.
Print Assumptions C14_version_or_timestamp_required.
Print Assumptions C14_root_requires_version.
Print Assumptions C14_envelope_has_exactly_two_fields.
Print Assumptions C14_bad_signature_entry_rejected.
Print Assumptions C14_accepted_is_safe_for_verifiers.
Print Assumptions C14_witness.

(* C14 -- the delegating-metadata checker enforces exactly the documented schema. Property theorems only. *)
From CCT Require Import Prelude Hex Num Time Formats Json Auth.
From CCT.Gen Require Pins.
From CCT.Gen Require Params.
From CCT.proofs Require Import HexFacts SigFacts AuthFacts SchemaFacts FamilyFacts.
From CCT.proofs Require JsonFacts DecidedFacts.
Open Scope N_scope.

(* the schema, declaratively (dm_ok, delegations_ok, delegation_ok, natural, utc_str are defined in
   proofs/SchemaFacts.v from the documentation, not from the code): accepted <-> schema, for ALL values *)
Theorem C14_checker_iff_schema : forall v, checkformat_delegating_metadata v = Ok tt <-> dm_ok v.
Proof. exact checker_iff_schema. Qed.

(* the schema spelled out once, so that the statement can be read here *)
Theorem C14_schema_meaning : forall v,
  dm_ok v <->
  exists m sm c ty,
    v = VDict m /\ two_fields m (U"signatures") (U"signed") (VDict sm) (VDict c)
    /\ type_in (VDict c) Params.serializable_types = true
    /\ Forall (fun kv => raw_shape (snd kv) \/ gpg_shape (snd kv)) sm
    /\ dget c (U"type") = Some (VStr ty) /\ In ty Params.supported_dm_types
    /\ has_field c (U"metadata_spec_version") (fun x => is_str x = true)
    /\ has_field c (U"delegations") delegations_ok
    /\ has_field c (U"expiration") utc_str
    /\ (dhas c (U"timestamp") = true \/ dhas c (U"version") = true)
    /\ (ty = U"root" -> dhas c (U"version") = true)
    /\ if_field c (U"timestamp") utc_str
    /\ if_field c (U"version") natural.
Proof. intros; reflexivity. Qed.

Theorem C14_delegations_meaning : forall v,
  checkformat_delegations v = Ok tt <->
  exists m, v = VDict m /\ Forall (fun kd => is_str (fst kd) = true /\ delegation_ok (snd kd)) m.
Proof. exact checkformat_delegations_iff. Qed.

Theorem C14_delegation_meaning : forall d,
  checkformat_delegation d = Ok tt <->
  exists m th ks,
    d = VDict m /\ two_fields m (U"threshold") (U"pubkeys") th (VList ks)
    /\ Forall (fun k => exists s, k = VStr s /\ lower_hex_len 64 s) ks /\ NoDup ks
    /\ exists z, int_value th = Some z /\ (1 <= z)%Z.
Proof. exact checkformat_delegation_iff. Qed.

Theorem C14_natural_int_meaning : forall v,
  checkformat_natural_int v = Ok tt <-> exists z, int_value v = Some z /\ (1 <= z)%Z.
Proof. exact natural_iff. Qed.

(* every change that removes a required field or takes a field outside its grammar is rejected *)
Theorem C14_remove_required_field_rejected : forall sm c f,
  In f [U"type"; U"metadata_spec_version"; U"delegations"; U"expiration"] ->
  checkformat_delegating_metadata (env sm (VDict (dremove f c))) <> Ok tt.
Proof. exact remove_required_field_rejected. Qed.

Theorem C14_field_outside_grammar_rejected : forall sm c f x,
  checkformat_delegating_metadata (env sm (VDict c)) = Ok tt -> dget c f = Some x -> field_grammar f x.
Proof. exact field_outside_grammar_rejected. Qed.

Theorem C14_version_or_timestamp_required : forall sm c,
  dget c (U"version") = None -> dget c (U"timestamp") = None ->
  checkformat_delegating_metadata (env sm (VDict c)) <> Ok tt.
Proof. exact version_or_timestamp_required. Qed.

Theorem C14_root_requires_version : forall sm c,
  dget c (U"type") = Some (VStr (U"root")) -> dget c (U"version") = None ->
  checkformat_delegating_metadata (env sm (VDict c)) <> Ok tt.
Proof. exact root_requires_version. Qed.

Theorem C14_envelope_has_exactly_two_fields : forall m,
  checkformat_delegating_metadata (VDict m) = Ok tt -> length m = 2%nat.
Proof. exact envelope_has_exactly_two_fields. Qed.

Theorem C14_bad_signature_entry_rejected : forall sm sd k v,
  In (k, v) sm -> ~ (raw_shape v \/ gpg_shape v) -> checkformat_delegating_metadata (env sm sd) <> Ok tt.
Proof. exact bad_signature_entry_rejected. Qed.

(* the verifiers never run into an internal error on anything (a fortiori on anything the checker accepts):
   KeyError, AttributeError, OverflowError, AssertionError are outside f_lib *)
Theorem C14_accepted_is_safe_for_verifiers : forall ed_verify sha256 t u name gpg,
  fam f_lib (verify_root ed_verify sha256 t u) /\ fam f_lib (verify_delegation ed_verify sha256 name u t gpg).
Proof. intros. split; [apply fam_verify_root|apply fam_verify_delegation]. Qed.

(* non-vacuity: a concrete root document is accepted; the same with version removed, with a duplicated key,
   with threshold 0 and with an extra delegation field is rejected *)
Definition ex_key := VStr (repeat 97 64).
Definition ex_deleg (th : pv) (ks : list pv) := VDict [(VStr (U"pubkeys"), VList ks); (VStr (U"threshold"), th)].
Definition ex_signed (extra : list (pv * pv)) (d : pv) :=
  VDict ([(VStr (U"type"), VStr (U"root")); (VStr (U"metadata_spec_version"), VStr (U"0.6.0"));
          (VStr (U"delegations"), VDict [(VStr (U"root"), d)]);
          (VStr (U"expiration"), VStr (U"2030-01-01T00:00:00Z"))] ++ extra).
Definition ex_ver := [(VStr (U"version"), VInt 1)].
(* on every JSON value the checker gives one of exactly three answers: the model's explicit "outside the modelled fragment"
   outcome cannot arise there (float tokens of the JSON grammar always have a numeric reading) *)
Theorem C14_checker_answers_on_json : forall v, CCT.proofs.JsonFacts.jdom v = true ->
  checkformat_delegating_metadata v = Ok tt \/ checkformat_delegating_metadata v = Err TypeError
  \/ checkformat_delegating_metadata v = Err ValueError.
Proof.
  intros v H. pose proof (CCT.proofs.DecidedFacts.dec_cdm v H) as D. pose proof (fam_cdm v) as F.
  destruct (checkformat_delegating_metadata v) as [[]|e|]; [auto| |exfalso; apply D; reflexivity].
  destruct e; try discriminate F; auto.
Qed.

Example C14_witness :
  checkformat_delegating_metadata (env [] (ex_signed ex_ver (ex_deleg (VInt 1) [ex_key]))) = Ok tt
  /\ checkformat_delegating_metadata (env [] (ex_signed [] (ex_deleg (VInt 1) [ex_key]))) = Err ValueError
  /\ checkformat_delegating_metadata (env [] (ex_signed ex_ver (ex_deleg (VInt 1) [ex_key; ex_key]))) = Err ValueError
  /\ checkformat_delegating_metadata (env [] (ex_signed ex_ver (ex_deleg (VInt 0) [ex_key]))) = Err ValueError
  /\ checkformat_delegating_metadata (env [] (ex_signed ex_ver (VDict [(VStr (U"pubkeys"), VList [ex_key]); (VStr (U"threshold"), VInt 1); (VStr (U"x"), VInt 1)]))) = Err ValueError.
Proof. vm_compute. repeat split. Qed.

(* BEGIN SOURCE PINS -- written by harness/mkpins.py; the list is what Gen/Pins.v held for the tree the model was validated against *)
(* the functions of the package this property depends on (call-graph closure of its entry points), each with the fingerprint of its
   logic (AST without docstrings, annotations, messages, local names): the model and the correspondence runs were validated against
   exactly these; a change of logic in any of them breaks this obligation and the check then searches for a failing input *)
Theorem C14_source_pinned : CCT.Gen.Pins.pinned_C14 =
  [(U"authentication._ascii", U"5f6fc6aad21f14d47c4f");
   (U"authentication.verify_delegation", U"5dc5b9065823f0f50085");
   (U"authentication.verify_gpg_signature", U"ccbe2bc800d02410d16b");
   (U"authentication.verify_root", U"6692242951185dc7604b");
   (U"authentication.verify_signable", U"1bd56f9b4f5e7bcd88d9");
   (U"authentication.verify_signature", U"7e0a2d567df7e9f0cdd4");
   (U"common.MixinKey.from_hex", U"a6e4e81c0b16461490a5");
   (U"common.PrivateKey.from_bytes", U"2cb488fc935b61f65bba");
   (U"common.PublicKey.from_bytes", U"a439db0d070397bc2b47");
   (U"common.canonserialize", U"64fc1dee1d7349d7a920");
   (U"common.checkformat_any_signature", U"82ba0ed515a770fad8a9");
   (U"common.checkformat_byteslike", U"1c9da61d15ff3a1a9f97");
   (U"common.checkformat_delegating_metadata", U"b013c9fa5677f3b3f637");
   (U"common.checkformat_delegation", U"25fc9c6692b07cdca131");
   (U"common.checkformat_delegations", U"d6a7d445f5f827a1471c");
   (U"common.checkformat_gpg_fingerprint", U"86e3bb7e4431fb481dc5");
   (U"common.checkformat_gpg_signature", U"a3c5515ffb8c9f6183ba");
   (U"common.checkformat_hex_key", U"625afdf8f56eb4c97143");
   (U"common.checkformat_hex_string", U"eac17f8be3d488d4b8a0");
   (U"common.checkformat_key", U"d3466826154e389f099e");
   (U"common.checkformat_list_of_hex_keys", U"4c9121b74cf062a7e2fd");
   (U"common.checkformat_natural_int", U"14f9984b8b7ef6014787");
   (U"common.checkformat_signable", U"dbb8b00a3a3727e018da");
   (U"common.checkformat_signature", U"d544854022da28dcc399");
   (U"common.checkformat_string", U"a139d0a4113d71e93d9f");
   (U"common.checkformat_utc_isoformat", U"6fed4a2332e7258f7147");
   (U"common.is_gpg_signature", U"f236e9c50126a7909e84");
   (U"common.is_hex_key", U"63c7822022cd24f926e2");
   (U"common.is_hex_signature", U"433f44075f931ec629d6");
   (U"common.is_hex_string", U"35e6d253e0c21ac09fca");
   (U"common.is_signable", U"6932517519189d75eb93");
   (U"common.is_signature", U"cc04b1fcfd687d0beea7")].
Proof. reflexivity. Qed.
(* END SOURCE PINS *)

Print Assumptions C14_checker_iff_schema.
Print Assumptions C14_schema_meaning.
Print Assumptions C14_delegations_meaning.
Print Assumptions C14_delegation_meaning.
Print Assumptions C14_natural_int_meaning.
Print Assumptions C14_remove_required_field_rejected.
Print Assumptions C14_field_outside_grammar_rejected.
Print Assumptions C14_version_or_timestamp_required.
Print Assumptions C14_root_requires_version.
Print Assumptions C14_envelope_has_exactly_two_fields.
Print Assumptions C14_bad_signature_entry_rejected.
Print Assumptions C14_accepted_is_safe_for_verifiers.
Print Assumptions C14_checker_answers_on_json.
Print Assumptions C14_witness.
Print Assumptions C14_source_pinned.
